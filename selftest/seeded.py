#!/venv/bin/python
"""Seeded-change harness (development tool).

/verif/seeded/<id>/{patch.diff, demo.py, meta.json}: a change to pMuTT written by an independent
sub-agent that breaks meta["property"] while the pinned suite stays green.

  seeded.py verify <id>..   apply the patch to a scratch copy of /repo, run the pinned suite (must equal the
                            baseline: 253 passed / 6 failed), run demo.py on the clean and on the patched copy
                            (must pass / fail)
  seeded.py detect <id>..   run the property's quick check (and other properties named with --also) against the
                            patched copy (VERIF_REPO) with evidence redirected (VERIF_OUT); must exit 1
  no ids = all.  Scratch copies live under /dev/shm and are removed afterwards.
"""
import argparse, json, os, shutil, subprocess, sys, tempfile, re
import concurrent.futures as cf

HERE = os.path.dirname(os.path.abspath(__file__))
VERIF = os.path.dirname(HERE)
SEEDED = os.path.join(VERIF, 'seeded')


class StalePatch(Exception):
    pass


def scratch(patch=None):
    root = tempfile.mkdtemp(prefix='vf_seed_', dir='/dev/shm')
    shutil.copytree('/repo/pmutt', os.path.join(root, 'pmutt'), ignore=shutil.ignore_patterns('__pycache__', '*.pyc'))
    if patch:
        r = subprocess.run(['git', 'apply', '--whitespace=nowarn', patch], cwd=root, capture_output=True, text=True)
        if r.returncode != 0:
            # later fix: commits may have moved the context; retry with fuzz
            r = subprocess.run(['patch', '-p1', '-F3', '--no-backup-if-mismatch', '-i', patch], cwd=root,
                               capture_output=True, text=True)
        if r.returncode != 0:
            shutil.rmtree(root, ignore_errors=True)
            raise StalePatch('patch does not apply: ' + (r.stderr + r.stdout)[:300])
    return root


def run_suite(root):
    r = subprocess.run([sys.executable, '-m', 'pytest', '-q', '-p', 'no:cacheprovider', '-x', '--timeout=900',
                        '--deselect', 'pmutt/tests/input_output/test_pmutt_io_gaussian.py', 'pmutt/tests'],
                       cwd=root, capture_output=True, text=True, timeout=1800,
                       env=dict(os.environ, PYTHONPATH=root, MPLBACKEND='Agg'))
    tail = r.stdout.strip().splitlines()[-1] if r.stdout.strip() else r.stderr[-200:]
    m = re.search(r'(\d+) passed', tail)
    failed = re.search(r'(\d+) failed', tail)
    return (int(m.group(1)) if m else 0, int(failed.group(1)) if failed else 0, tail)


def run_demo(root, demo):
    r = subprocess.run([sys.executable, demo], cwd=root, capture_output=True, text=True, timeout=900,
                       env=dict(os.environ, PYTHONPATH=root, MPLBACKEND='Agg'))
    return r.returncode, (r.stdout + r.stderr)[-300:]


def verify(sid):
    d = os.path.join(SEEDED, sid)
    patch, demo = os.path.join(d, 'patch.diff'), os.path.join(d, 'demo.py')
    clean = scratch()
    try:
        rc_clean, out_clean = run_demo(clean, demo)
    finally:
        shutil.rmtree(clean, ignore_errors=True)
    try:
        root = scratch(patch)
    except StalePatch as e:
        return sid, False, 'STALE ' + str(e)[:150]
    try:
        rc_pat, out_pat = run_demo(root, demo)
        passed, failed, tail = run_suite(root)
    finally:
        shutil.rmtree(root, ignore_errors=True)
    ok = rc_clean == 0 and rc_pat != 0 and passed == 253 and failed == 0
    return sid, ok, 'demo clean rc=%d patched rc=%d; suite(without gaussian file): %s' % (rc_clean, rc_pat, tail)


def detect(sid, props=None, tier='quick'):
    d = os.path.join(SEEDED, sid)
    meta = json.load(open(os.path.join(d, 'meta.json')))
    props = props or ([meta['property']] + list(meta.get('also', [])))
    if meta.get('obsolete'):
        return sid, [(props[0], 'obsolete', meta['obsolete'][:150])]
    try:
        root = scratch(os.path.join(d, 'patch.diff'))
    except StalePatch as e:
        return sid, [(props[0], 'STALE', str(e)[:150])]
    res = []
    try:
        for p in props:
            env = dict(os.environ, VERIF_REPO=root, VERIF_OUT=os.path.join(root, 'out'))
            r = subprocess.run([sys.executable, os.path.join(VERIF, 'check.py'), p, '--tier', tier], env=env, cwd=VERIF,
                               capture_output=True, text=True, timeout=7200)
            viol = [l for l in r.stdout.splitlines() if l.startswith('  violated')]
            status = {0: 'MISSED', 1: 'caught', 2: 'INCONCLUSIVE'}.get(r.returncode, 'rc%d' % r.returncode)
            res.append((p, status, viol[0][:230] if viol else r.stdout[-200:].replace('\n', ' ')))
    finally:
        shutil.rmtree(root, ignore_errors=True)
    return sid, res


def main():
    ap = argparse.ArgumentParser()
    ap.add_argument('cmd', choices=['verify', 'detect'])
    ap.add_argument('ids', nargs='*')
    ap.add_argument('--also', default='')
    ap.add_argument('--tier', default='quick')
    ap.add_argument('-j', type=int, default=3)
    a = ap.parse_args()
    ids = a.ids or sorted(x for x in os.listdir(SEEDED) if os.path.isdir(os.path.join(SEEDED, x)))
    bad = 0
    with cf.ThreadPoolExecutor(a.j) as ex:
        if a.cmd == 'verify':
            for sid, ok, info in ex.map(verify, ids):
                print('%-28s %-8s %s' % (sid, 'ok' if ok else 'BAD', info))
                bad += not ok
        else:
            also = [p for p in a.also.split(',') if p]
            rpath = os.path.join(SEEDED, 'RESULTS.json')
            results = json.load(open(rpath)) if os.path.exists(rpath) else {}
            for sid, res in ex.map(lambda s: detect(s, None if not also else [json.load(open(os.path.join(SEEDED, s, 'meta.json')))['property']] + also, a.tier), ids):
                for p, status, info in res:
                    print('%-28s %-4s %-12s %s' % (sid, p, status, info))
                bad += not any(x[1] in ('caught', 'obsolete') for x in res)
                hit = [x for x in res if x[1] in ('caught', 'obsolete')] or res[:1]
                p, status, info = hit[0]
                m = re.search(r'oracle=(\S+) mech=(\{.*?\}) count', info)
                by = ('%s %s' % (m.group(1), m.group(2))) if m else status
                if p != res[0][0]:
                    by = '%s check: %s (%s check: %s)' % (p, by, res[0][0], res[0][1])
                results[sid] = {'status': status, 'tier': a.tier, 'caught_by': by}
            json.dump(results, open(rpath, 'w'), indent=1, sort_keys=True)
    sys.exit(1 if bad else 0)


if __name__ == '__main__':
    main()

#!/venv/bin/python
"""Mutation self-test (development tool, not a manifest check).

selftest/mutants.json: list of {"id", "property", "file", "old", "new", "note"}; each is
applied to a scratch copy of /repo/pmutt under /dev/shm, the property's quick check is run
against it (VERIF_REPO) with evidence/replays redirected (VERIF_OUT), and must exit 1.
usage: selftest/run.py [-p C12] [-m mutant_id] [--keep-going]
"""
import argparse, json, os, shutil, subprocess, sys, tempfile, concurrent.futures as cf

HERE = os.path.dirname(os.path.abspath(__file__))
VERIF = os.path.dirname(HERE)


def run_one(m, scale):
    root = tempfile.mkdtemp(prefix='vf_mut_', dir='/dev/shm')
    try:
        shutil.copytree('/repo/pmutt', os.path.join(root, 'pmutt'),
                        ignore=shutil.ignore_patterns('__pycache__', '*.pyc'))
        path = os.path.join(root, m['file'])
        src = open(path).read()
        if src.count(m['old']) < 1:
            return m['id'], 'STALE', 'pattern not found'
        src = src.replace(m['old'], m['new'], m.get('count', 1))
        open(path, 'w').write(src)
        env = dict(os.environ, VERIF_REPO=root, VERIF_OUT=os.path.join(root, 'out'), VERIF_SHARDS=str(m.get('shards', 4)))
        if scale:
            env['VERIF_SCALE'] = str(scale)
        r = subprocess.run([sys.executable, os.path.join(VERIF, 'check.py'), m['property'], '--tier', 'quick'],
                           env=env, cwd=VERIF, capture_output=True, text=True, timeout=1800)
        viol = [l for l in r.stdout.splitlines() if l.startswith('  violated')]
        status = {0: 'MISSED', 1: 'caught', 2: 'INCONCLUSIVE'}.get(r.returncode, 'rc%d' % r.returncode)
        return m['id'], status, (viol[0][:200] if viol else r.stdout[-300:])
    finally:
        shutil.rmtree(root, ignore_errors=True)


def main():
    ap = argparse.ArgumentParser()
    ap.add_argument('-p', '--prop'); ap.add_argument('-m', '--mutant'); ap.add_argument('--scale', type=float)
    ap.add_argument('-j', type=int, default=4)
    a = ap.parse_args()
    muts = json.load(open(os.path.join(HERE, 'mutants.json')))
    muts = [m for m in muts if (not a.prop or m['property'] == a.prop.upper()) and (not a.mutant or m['id'] == a.mutant)]
    bad = 0
    with cf.ThreadPoolExecutor(a.j) as ex:
        for mid, status, info in ex.map(lambda m: run_one(m, a.scale), muts):
            print('%-40s %-12s %s' % (mid, status, info.replace('\n', ' ')[:220]))
            bad += status != 'caught'
    print('%d mutants, %d not caught' % (len(muts), bad))
    sys.exit(1 if bad else 0)


if __name__ == '__main__':
    main()

#!/usr/bin/env python3
"""splitpatch.py <patch>            list hunks
   splitpatch.py <patch> i,j,k "commit message"   apply those hunks to /repo and commit"""
import re, subprocess, sys
txt = open(sys.argv[1]).read()
files = re.split(r'(?m)^(?=diff --git )', txt)
hunks = []
for f in files:
    if not f.startswith('diff --git'):
        continue
    m = re.search(r'(?m)^@@', f)
    head, body = f[:m.start()], f[m.start():]
    for h in re.split(r'(?m)^(?=@@ )', body):
        if h.strip():
            hunks.append((head, h))
if len(sys.argv) == 2:
    for i, (head, h) in enumerate(hunks):
        print(i, head.splitlines()[0].split(' b/')[-1], '|', h.splitlines()[0])
        for l in h.splitlines()[1:]:
            if l.startswith(('+', '-')):
                print('      ', l[:110])
else:
    idx = [int(x) for x in sys.argv[2].split(',')]
    for i in idx:
        head, h = hunks[i]
        open('/dev/shm/_h.diff', 'w').write(head + h)
        subprocess.check_call(['git', '-C', '/repo', 'apply', '--recount', '/dev/shm/_h.diff'])
    subprocess.check_call(['git', '-C', '/repo', 'commit', '-qam', sys.argv[3]])
    print(subprocess.check_output(['git', '-C', '/repo', 'log', '--oneline', '-1']).decode())

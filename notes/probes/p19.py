import warnings, numpy as np, time
warnings.simplefilter('ignore')
from pmutt.statmech import StatMech, trans, vib, rot, elec
from pmutt.empirical.nasa import Nasa, Nasa9
from pmutt.empirical.shomate import Shomate
rng = np.random.default_rng(5)
def rand_sm(gas):
    nv = rng.integers(1,13)
    wn = list(np.exp(rng.uniform(np.log(10), np.log(4500), nv)))
    kw = dict(name='x', vib_model=vib.HarmonicVib(wn), elec_model=elec.GroundStateElec(rng.uniform(-50,0), spin=0), elements={'H':2})
    if gas:
        kw['trans_model']=trans.FreeTrans(molecular_weight=rng.uniform(1,500))
        kw['rot_model']=rot.RigidRotor(symmetrynumber=1, rot_temperatures=list(rng.uniform(0.01,100,3)), geometry='nonlinear')
    return StatMech(**kw), wn
mx = {'Nasa':[0,0,0],'Shomate':[0,0,0],'Nasa9':[0,0,0]}
worst={}
t0=time.time()
for i in range(150):
    sm, wn = rand_sm(i%2==0)
    Tl = rng.uniform(100, 2000); Th = rng.uniform(Tl+100, 3000); nT = int(rng.integers(15,200))
    Ts = np.linspace(Tl,Th,41)
    for cls in ('Nasa','Shomate','Nasa9'):
        try:
            if cls=='Nasa': o = Nasa.from_model(model=sm, T_low=Tl, T_high=Th, n_T=nT)
            elif cls=='Shomate': o = Shomate.from_model(model=sm, T_low=Tl, T_high=Th, n_T=nT)
            else: o = Nasa9.from_model(name='x', model=sm, T_low=Tl, T_high=Th, n_T=max(nT//2,10), T_mid=[(Tl+Th)/2], fit_T_mid=False)
        except Exception as e:
            print(cls,'EXC',type(e).__name__, str(e)[:100], Tl,Th,nT); continue
        d=[0,0,0]
        for T in Ts:
            d[0]=max(d[0], abs(float(np.ravel(o.get_CpoR(T=T))[0])-sm.get_CpoR(T=T)))
            d[1]=max(d[1], abs(float(np.ravel(o.get_HoRT(T=T))[0])-sm.get_HoRT(T=T)))
            d[2]=max(d[2], abs(float(np.ravel(o.get_SoR(T=T))[0])-sm.get_SoR(T=T)))
        for k in range(3):
            if d[k]>mx[cls][k]: mx[cls][k]=d[k]; worst[(cls,k)]=(round(Tl),round(Th),nT,[round(w) for w in wn])
print(mx); print(time.time()-t0)
for k,v in worst.items(): print(k,v)

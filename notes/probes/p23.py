import warnings, numpy as np
warnings.simplefilter('ignore')
from pmutt.empirical.nasa import Nasa, Nasa9, SingleNasa9
from pmutt.empirical.shomate import Shomate
from pmutt.reaction import Reaction, Reactions, ChemkinReaction
from pmutt.reaction.network import Network
from pmutt.empirical.references import Reference, References
from pmutt.statmech import StatMech, vib, elec
from pmutt.chemkin import CatSite
from pmutt.io import chemkin as ck
def tr(label, f):
    try:
        print(label, '->', f())
    except Exception as e:
        print(label, 'EXC', type(e).__name__, str(e)[:160])
a9 = np.array([1e4,-1e2,3.5,1e-3,-2e-6,1e-9,-1e-13,-3e4,2.])
n9 = Nasa9('X', nasas=[SingleNasa9(200.,1000.,a9), SingleNasa9(1000.,6000.,a9*1.01)], phase='G', elements={'H':2})
for g in ('get_CpoR','get_HoRT','get_SoR','get_GoRT'):
    tr('Nasa9 arr '+g, lambda: getattr(n9,g)(T=np.array([500.,1500.])))
    tr('Nasa9 list1 '+g, lambda: getattr(n9,g)(T=[500.]))
a=[3.5,1e-3,-2e-6,1e-9,-1e-13,-3e4,2.]
def mk(n, ph='G', E=-3e4, cs=None): 
    aa=list(a); aa[5]=E
    return Nasa(n, T_low=200., T_mid=1000., T_high=3000., a_low=aa, a_high=aa, phase=ph, elements={'H':1}, cat_site=cs, n_sites=1 if cs else None)
sh = Shomate('S', T_low=200, T_high=3000, a=np.array([30.,6.8,6.7,-2.5,0.08,-250.,223.,-241.]), phase='G', elements={'H':1})
A,B,C = mk('A'), mk('B',E=-3.1e4), mk('C',E=-2.9e4)
r = Reaction([A,n9],[1,0.5],[sh,B],[1,1])
tr('mixed dG', lambda: (r.get_delta_GoRT(T=500.), r.get_delta_GoRT(T=500., rev=True), r.get_Keq(T=500.)))
# E span branches
r1=Reaction([A],[1],[C],[1]); r2=Reaction([C],[1],[B],[1])
tr('Espan up-then-down', lambda: Reactions([r1,r2]).get_E_span(units='eV', T=500.))
r3=Reaction([B],[1],[C],[1]); r4=Reaction([C],[1],[A],[1])
tr('Espan', lambda: Reactions([r2,r3]).get_E_span(units='eV', T=500.))
# references rank deficient
def sm(name,E,el): return StatMech(name=name, vib_model=vib.HarmonicVib([1000.]), elec_model=elec.GroundStateElec(potentialenergy=E), elements=el)
refs=[Reference(name='CO', elements={'C':1,'O':1}, T_ref=298.15, HoRT_ref=-44., model=sm('CO',-14.,{'C':1,'O':1})),
      Reference(name='C2O2', elements={'C':2,'O':2}, T_ref=298.15, HoRT_ref=-80., model=sm('C2O2',-29.,{'C':2,'O':2}))]
R=References(references=refs); print(R.offset)
Amat=R.get_descriptors_matrix()
res=[]
for rf in refs:
    s=sm(rf.name, rf.model.elec_model.potentialenergy, rf.elements); s.references=R
    res.append(s.get_HoRT(T=298.15)-rf.HoRT_ref)
print('resid', res, 'A^T r', Amat.T@np.array(res))
# chemkin E_act without TS, gas-phase check
cs = CatSite(name='RU', site_density=2.5e-9, density=12.4, bulk_specie='RU(B)')
S_=mk('RU(S)','S',0.,cs); Bk=mk('RU(B)','S',0.,cs); HS=mk('H(S)','S',-3.5e4,cs); H2=mk('H2','G',-3e4)
sp={x.name:x for x in [S_,Bk,HS,H2,A,B]}
rx=[ChemkinReaction.from_string('H2 + 2RU(S) = 2H(S) + 2RU(B)', sp, is_adsorption=True), ChemkinReaction.from_string('H(S) + RU(S) = RU(S) + H(S)', sp), ChemkinReaction.from_string('A = B', sp)]
tr('surf E_act', lambda: ck.write_surf(Reactions(rx), act_method_name='get_E_act')[-260:])
tr('gas G_act', lambda: ck.write_gas([S_,Bk,HS,H2,A,B], reactions=Reactions(rx), act_method_name='get_G_act')[-200:])

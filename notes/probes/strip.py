import ast, sys
src = open(sys.argv[1]).read()
tree = ast.parse(src)
# collect docstring line ranges
ranges = []
for node in ast.walk(tree):
    if isinstance(node, (ast.FunctionDef, ast.ClassDef, ast.Module, ast.AsyncFunctionDef)):
        if node.body and isinstance(node.body[0], ast.Expr) and isinstance(getattr(node.body[0], 'value', None), ast.Constant) and isinstance(node.body[0].value.value, str):
            d = node.body[0]
            ranges.append((d.lineno, d.end_lineno))
skip = set()
for a, b in ranges:
    skip.update(range(a, b+1))
for i, line in enumerate(src.splitlines(), 1):
    if i in skip: continue
    if not line.strip(): continue
    print(f"{i}\t{line}")

import warnings, numpy as np, json, traceback
warnings.simplefilter('ignore')
from pmutt import constants as c
from pmutt.empirical.nasa import Nasa, Nasa9, SingleNasa9
from pmutt.empirical.shomate import Shomate
from pmutt.statmech import StatMech, presets, trans, vib, rot, elec
def tr(label, f):
    try:
        print(label, '->', f())
    except Exception as e:
        print(label, 'EXC', type(e).__name__, str(e)[:200])
sm = StatMech(name='H2O', trans_model=trans.FreeTrans(molecular_weight=18.), vib_model=vib.HarmonicVib([3825.,1635.,3935.]),
   rot_model=rot.RigidRotor(symmetrynumber=2, rot_temperatures=[13.,20.,40.], geometry='nonlinear'), elec_model=elec.GroundStateElec(potentialenergy=-14.2, spin=0), elements={'H':2,'O':1})
ads = StatMech(name='H2O*', vib_model=vib.HarmonicVib([3825.,1635.,3935.,200.,150.,100.]), elec_model=elec.GroundStateElec(potentialenergy=-14.9, spin=0), elements={'H':2,'O':1})
zero = StatMech(name='Z', elec_model=elec.GroundStateElec(potentialenergy=-1., spin=0), elements={'H':2})
def chk(obj, model, Ts, P=None):
    out=[]
    for T in Ts:
        out.append((float(np.ravel(obj.get_CpoR(T=T))[0]-model.get_CpoR(T=T)), float(np.ravel(obj.get_HoRT(T=T))[0]-model.get_HoRT(T=T)), float(np.ravel(obj.get_SoR(T=T))[0]-model.get_SoR(T=T))))
    return np.round(out,6).tolist()
for m in (sm, ads, zero):
    tr('Nasa from_model '+m.name, lambda: (lambda n: (n.T_low,n.T_mid,n.T_high, chk(n,m,[300., n.T_mid-1e-6, n.T_mid, n.T_mid+1e-6, 650.,999.])))(Nasa.from_model(model=m, T_low=300., T_high=1000., phase='S')))
    tr('Shomate from_model '+m.name, lambda: (lambda n: (n.T_low,n.T_high, chk(n,m,[300.,650.,999.])))(Shomate.from_model(model=m, T_low=300., T_high=1000., phase='S')))
    for ni in (1,2,3):
        tr('Nasa9 from_model n_int=%d '%ni+m.name, lambda: (lambda n: ([ (x.T_low,x.T_high) for x in n.nasas], chk(n,m,[300.,650.,999.])))(Nasa9.from_model(name='x',model=m, T_low=300., T_high=1000., phase='S', n_interval=ni)))
# Nasa9 from_data with T_ref in later segment
T = np.linspace(300,1000,60); 
Cp = np.array([sm.get_CpoR(T=t) for t in T])
tr('Nasa9 from_data Tref late', lambda: (lambda n: (n.get_HoRT(T=900.)-sm.get_HoRT(T=900.), n.get_SoR(T=900.)-sm.get_SoR(T=900.)))(Nasa9.from_data('x',T,Cp,T_ref=900.,HoRT_ref=sm.get_HoRT(T=900.),SoR_ref=sm.get_SoR(T=900.),T_mid=[600.])))
tr('Nasa9 from_data Tref early', lambda: (lambda n: (n.get_HoRT(T=400.)-sm.get_HoRT(T=400.), n.get_SoR(T=400.)-sm.get_SoR(T=400.)))(Nasa9.from_data('x',T,Cp,T_ref=400.,HoRT_ref=sm.get_HoRT(T=400.),SoR_ref=sm.get_SoR(T=400.),T_mid=[600.])))
tr('Nasa from_data Tref late', lambda: (lambda n: (n.T_mid, n.get_HoRT(T=900.)-sm.get_HoRT(T=900.), n.get_SoR(T=900.)-sm.get_SoR(T=900.), n.get_HoRT(T=n.T_mid-1e-9)-n.get_HoRT(T=n.T_mid)))(Nasa.from_data('x',T,Cp,T_ref=900.,HoRT_ref=sm.get_HoRT(T=900.),SoR_ref=sm.get_SoR(T=900.))))
tr('Nasa from_data T_mid list', lambda: Nasa.from_data('x',T,Cp,T_ref=900.,HoRT_ref=1.,SoR_ref=2.,T_mid=[500.,600.,700.]).T_mid)
tr('Nasa from_data T_mid scalar', lambda: Nasa.from_data('x',T,Cp,T_ref=900.,HoRT_ref=1.,SoR_ref=2.,T_mid=550.).T_mid)
for u in ['J/mol/K','cal/mol/K','eV/K','kJ/mol/K']:
    tr('Shomate units '+u, lambda: (lambda n: chk(n,sm,[300.,650.,999.]))(Shomate.from_model(model=sm, T_low=300., T_high=1000., phase='S', units=u)))

import warnings, numpy as np, json
warnings.simplefilter('ignore')
from pmutt import constants as c
from pmutt.statmech import StatMech, presets, trans, vib, rot, elec, nucl, EmptyMode, ConstantMode
from pmutt.statmech.lsr import LSR
from pmutt.empirical import EmpiricalBase, GasPressureAdj
from pmutt.empirical.references import Reference, References
from pmutt.empirical.nasa import Nasa, SingleNasa9
from pmutt.reaction.bep import BEP
from pmutt.chemkin import CatSite
from pmutt.eos import IdealGasEOS
from pmutt.io.json import pmuttEncoder, json_to_pmutt
def rt(o):
    return json.loads(json.dumps(o, cls=pmuttEncoder), object_hook=json_to_pmutt)
def tr(label, f):
    try:
        print(label, '->', f())
    except Exception as e:
        print(label, 'EXC', type(e).__name__, str(e)[:200])
objs = {
 'FreeTrans': trans.FreeTrans(n_degrees=2, molecular_weight=18.),
 'HarmonicVib': vib.HarmonicVib([100.,-50.,2000.], imaginary_substitute=30.),
 'QRRHOVib': vib.QRRHOVib([100.,2000.], Bav=2e-44, v0=90., alpha=3),
 'Einstein': vib.EinsteinVib(200., 0.1), 'Debye': vib.DebyeVib(300., 0.2),
 'RigidRotor': rot.RigidRotor(2, [1.,2.,3.], 'nonlinear'),
 'Elec': elec.GroundStateElec(-1.5, 0.5), 'Elec D0': elec.GroundStateElec(-1.5, 0.5, D0=4.),
 'EmptyNucl': nucl.EmptyNucl(), 'EmptyMode': EmptyMode(), 'ConstantMode': ConstantMode(q=2.,U=1.,H=1.1,S=0.001,notes='x'),
 'CatSite': CatSite('a',1e-9,12.,'B'), 'IdealGasEOS': IdealGasEOS(), 'GasPressureAdj': GasPressureAdj(),
 'BEP': BEP(0.5, 20., name='b', descriptor='rev_delta_H', elements={'H':1}, notes='n'),
 'SingleNasa9': SingleNasa9(200.,1000.,np.arange(9.)),
 'Reference': Reference(name='H2', elements={'H':2}, T_ref=298.15, HoRT_ref=0., model=StatMech(name='H2', elec_model=elec.GroundStateElec(-6.))),
 'EmpiricalBase': EmpiricalBase(name='e', phase='G', elements={'H':2}),
 'LSR': LSR(slope=0.5, intercept=1., reaction=-20., surf_species=-100., gas_species=-30.),
 'StatMech misc': StatMech(name='s', elec_model=elec.GroundStateElec(-1.), misc_models=[ConstantMode(U=1.)], smiles='C', notes='hey', elements={'C':1}),
}
for k,o in objs.items():
    def f():
        o2 = rt(o)
        return type(o2).__name__, (o2.__dict__ if not isinstance(o2, dict) else 'DICT')
    tr(k, f)
tr('LSR U', lambda: (objs['LSR'].get_UoRT(T=300.), rt(objs['LSR']).get_UoRT(T=300.)))
# json_to_pmutt mutates dict?
d = objs['HarmonicVib'].to_dict(); d0=dict(d); json_to_pmutt(d); print('mutated', d!=d0, d.keys())

import warnings, numpy as np, time
warnings.simplefilter('ignore')
from pmutt.statmech import StatMech, trans, vib, rot, elec
rng=np.random.default_rng(7)
x16,w16=np.polynomial.legendre.leggauss(16); x32,w32=np.polynomial.legendre.leggauss(32)
def gl(f,a,b,x,w):
    t=0.5*(b-a)*x+0.5*(b+a); return 0.5*(b-a)*sum(wi*f(ti) for wi,ti in zip(w,t))
def integ(f,a,b,maxratio=1.25):
    # composite over panels with T ratio <= maxratio
    n=max(1,int(np.ceil(np.log(b/a)/np.log(maxratio))))
    edges=a*(b/a)**(np.arange(n+1)/n)
    I32=sum(gl(f,edges[i],edges[i+1],x32,w32) for i in range(n)); I16=sum(gl(f,edges[i],edges[i+1],x16,w16) for i in range(n))
    return I32, abs(I32-I16)
mxH=mxS=mxq=0; t0=time.time(); n=0
for it in range(300):
    kind=it%4
    if kind==0: m=vib.HarmonicVib(list(np.exp(rng.uniform(np.log(10),np.log(4500),rng.integers(1,12)))))
    elif kind==1: m=vib.QRRHOVib(list(np.exp(rng.uniform(np.log(10),np.log(4500),rng.integers(1,12)))))
    elif kind==2: m=vib.EinsteinVib(rng.uniform(50,2000), 0.1)
    else:
        m=StatMech(trans_model=trans.FreeTrans(molecular_weight=30.), vib_model=vib.HarmonicVib([100.,3000.]), rot_model=rot.RigidRotor(2,[1.,2.,3.],'nonlinear'), elec_model=elec.GroundStateElec(-3.,0.5))
    T1=np.exp(rng.uniform(np.log(50),np.log(5000))); T2=min(5000., T1*np.exp(rng.uniform(1e-5, 3)))
    if T2<=T1: continue
    I,e=integ(lambda T: m.get_CpoR(T=T), T1,T2)
    dH=T2*m.get_HoRT(T=T2)-T1*m.get_HoRT(T=T1)
    J,e2=integ(lambda T: m.get_CpoR(T=T)/T, T1,T2)
    dS=m.get_SoR(T=T2)-m.get_SoR(T=T1)
    sH=max(1,abs(I),abs(T2*m.get_HoRT(T=T2)),abs(T1*m.get_HoRT(T=T1))); sS=max(1,abs(J),abs(m.get_SoR(T=T2)))
    mxH=max(mxH,abs(I-dH)/sH); mxS=max(mxS,abs(J-dS)/sS); mxq=max(mxq,e/sH,e2/sS); n+=1
print(n,'max rel err H',mxH,'S',mxS,'quad est',mxq, time.time()-t0)

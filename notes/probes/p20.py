import warnings, numpy as np, random, re
warnings.simplefilter('ignore')
from pmutt.reaction import Reaction, _parse_reaction
from pmutt import parse_formula
from pmutt.statmech import StatMech
rnd = random.Random(3)
first='ABCDEFGHIJKLMNOPQRSTUVWXYZabcdefghijklmnopqrstuvwxyz(*_'
rest=first+'0123456789)'
def name():
    return rnd.choice(first)+''.join(rnd.choice(rest) for _ in range(rnd.randint(0,6)))
bad=0; n=0
for it in range(3000):
    names=set()
    while len(names)<6: names.add(name())
    names=list(names)
    sp={k:StatMech(name=k, elements={'H':1}) for k in names}
    def side(k):
        ns=rnd.sample(names,k); st=[rnd.choice([0.25,0.5,1,1.5,2,3,4,0.33,2.75,1.0]) for _ in ns]
        return [sp[x] for x in ns], st
    r,rs=side(rnd.randint(1,3)); p,ps=side(rnd.randint(1,3))
    ts=None; tss=None
    if rnd.random()<0.4: ts,tss=side(1)
    rx=Reaction(r,rs,p,ps,ts,tss)
    sd=rnd.choice(['+',' + ','++','|']); rd=rnd.choice(['=','<=>',' = ','>>','->'])
    fmt=rnd.choice(['.2f','.3f','.1f','.0f'])
    s=rx.to_string(species_delimiter=sd, reaction_delimiter=rd, stoich_format=fmt, stoich_space=rnd.random()<0.5)
    try:
        r2=Reaction.from_string(s, sp, species_delimiter=sd.strip() if sd.strip() else sd, reaction_delimiter=rd.strip())
    except Exception as e:
        bad+=1
        if bad<8: print('EXC', repr(s), type(e).__name__, str(e)[:100])
        continue
    def exp(st):
        out=[]
        for v in st:
            if np.isclose(v,1.): out.append(1.)
            elif np.isclose(v,round(v)): out.append(float(int(v)))
            else: out.append(float(format(v,fmt)))
        return out
    ok = [x.name for x in r2.reactants]==[x.name for x in r] and [x.name for x in r2.products]==[x.name for x in p] and np.allclose(r2.reactants_stoich,exp(rs)) and np.allclose(r2.products_stoich,exp(ps))
    if ts is not None: ok = ok and r2.transition_state is not None and [x.name for x in r2.transition_state]==[x.name for x in ts]
    n+=1
    if not ok:
        bad+=1
        if bad<8: print('MISMATCH', repr(s), [x.name for x in r], rs, [x.name for x in r2.reactants], r2.reactants_stoich)
print(n,bad)
print(parse_formula('CH3CH2OH'), parse_formula('Al2O3'), parse_formula('Pt100H2'), parse_formula('C'), parse_formula('Uue2'))

import warnings, numpy as np, json
warnings.simplefilter('ignore')
from pmutt import constants as c
from pmutt.statmech import StatMech, presets, trans, vib, rot, elec
from pmutt.empirical.references import Reference, References
from pmutt.empirical.nasa import Nasa
from pmutt.io.json import pmuttEncoder, json_to_pmutt
from pmutt.eos import IdealGasEOS, vanDerWaalsEOS
from pmutt.equilibrium import Equilibrium
def tr(label, f):
    try:
        print(label, '->', f())
    except Exception as e:
        print(label, 'EXC', type(e).__name__, str(e)[:200])
def sm(name, E, el, wn=[1000.,2000.]):
    return StatMech(name=name, vib_model=vib.HarmonicVib(wn), elec_model=elec.GroundStateElec(potentialenergy=E), elements=el)
refs_l = [Reference(name='H2', elements={'H':2}, T_ref=298.15, HoRT_ref=0., model=sm('H2',-6.7,{'H':2})),
          Reference(name='H2O', elements={'H':2,'O':1}, T_ref=298.15, HoRT_ref=-97.6, model=sm('H2O',-14.2,{'H':2,'O':1})),
          Reference(name='CH4', elements={'C':1,'H':4}, T_ref=298.15, HoRT_ref=-30.2, model=sm('CH4',-24.,{'C':1,'H':4}))]
refs = References(references=refs_l)
print(refs.offset, refs.T_ref)
for r in refs_l:
    s = sm(r.name, r.model.elec_model.potentialenergy, r.elements); s.references = refs
    print(r.name, s.get_HoRT(T=298.15), r.HoRT_ref, s.get_HoRT(T=298.15, use_references=False), s.get_SoR(T=300.)-s.get_SoR(T=300., use_references=False), s.get_CpoR(T=300.)-s.get_CpoR(T=300.,use_references=False))
    print('  H(T) energy offset', [ (s.get_H(T=T,units='eV')-s.get_H(T=T,units='eV',use_references=False)) for T in (200.,500.,1500.)], 'G', s.get_G(T=500., units='eV')-s.get_G(T=500.,units='eV',use_references=False))
    tr('  FoRT', lambda: s.get_FoRT(T=300.)-s.get_FoRT(T=300., use_references=False))
    tr('  UoRT', lambda: s.get_UoRT(T=300.)-s.get_UoRT(T=300., use_references=False))
tr('refs json', lambda: json.loads(json.dumps(refs, cls=pmuttEncoder), object_hook=json_to_pmutt).get_HoRT(descriptors={'H':2}, T=300.))
s = sm('x', -1., {'N':1,'H':3}); s.references=refs
tr('absent descriptor', lambda: s.get_HoRT(T=300.)-s.get_HoRT(T=300.,use_references=False))
# EOS
ig = IdealGasEOS(); 
print('IG', ig.get_P(T=500., V=ig.get_V(T=500.,P=3.,n=2.), n=2.), ig.get_T(V=ig.get_V(T=500.,P=3.,n=2.),P=3.,n=2.), ig.get_n(V=ig.get_V(T=500.,P=3.,n=2.),P=3.,T=500.))
v = vanDerWaalsEOS.from_critical(Tc=304.2, Pc=73.8)
print('crit', v.get_Tc(), v.get_Pc(), v.get_Vc(), 3*v.b)
for T,P in [(500.,10.),(250.,20.),(250.,60.),(280.,50.)]:
    for g in (True, False):
        V = v.get_V(T=T,P=P,n=2.,gas_phase=g); print(T,P,g,V, v.get_P(T=T,V=V,n=2.), v.get_T(V=V,P=P,n=2.), v.get_n(V=V,P=P,T=T,gas_phase=g))
tr('json vdw', lambda: json.loads(json.dumps(v, cls=pmuttEncoder), object_hook=json_to_pmutt).a - v.a)
# Equilibrium
import os
from pmutt.io.thermdat import read_thermdat
print(open('/repo/pmutt/tests/equilibrium/test_pmutt_equilibrium.py').read()[:1800])

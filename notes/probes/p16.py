import warnings; warnings.simplefilter('ignore')
from pmutt.statmech import vib, trans, StatMech, elec
from pmutt import constants as c
def tr(label, f):
    try:
        print(label, '->', f())
    except Exception as e:
        print(label, 'EXC', type(e).__name__, str(e)[:200])
v = vib.HarmonicVib([1000.,2000.])
for g,kw in [('get_Cv',{}),('get_Cp',{}),('get_U',{}),('get_H',{}),('get_S',{}),('get_F',{}),('get_G',{})]:
    u = 'J/mol/K' if g in ('get_Cv','get_Cp','get_S') else 'J/mol'
    tr('vib '+g, lambda: getattr(v,g)(units=u, T=300.))
s = StatMech(name='x', vib_model=v, elec_model=elec.GroundStateElec(-1.), elements={'H':2})
for u in ['J/mol/K','J/g/K','J/kg/K','eV/K','cal/g/K']:
    tr('SM Cp '+u, lambda: s.get_Cp(units=u,T=300.)/s.get_CpoR(T=300.))
tr('SM E J/g', lambda: s.get_E(units='J/g', T=300.))
tr('SM get_Cv per-mass', lambda: s.get_Cv(units='J/g/K',T=300.))

import sys; sys.path.insert(0,'/tmp/scratch/deps')
import icontract, deal, warnings
warnings.simplefilter('ignore')
print(icontract.__version__, deal.__version__)
import pmutt.statmech.vib as vib
class PostBroken(Exception): pass
calls={'n':0}
def g_is_h_minus_s(self, T, result):
    calls['n']+=1
    return abs(result - (self.get_HoRT(T=T)-self.get_SoR(T=T))) < 1e-9
vib.HarmonicVib.get_GoRT = icontract.ensure(g_is_h_minus_s, error=PostBroken)(vib.HarmonicVib.get_GoRT)
v = vib.HarmonicVib([100.,2000.])
print(v.get_GoRT(T=300.), calls)
from pmutt.statmech import StatMech
s = StatMech(vib_model=v)
print(s.get_GoRT(T=300.), calls)
import sys
print(hasattr(sys,'monitoring'))

from pmutt.io import chemkin as ck
r = ck.read_reactions('/tmp/scratch/surf.inp')
for x in r: print(x)

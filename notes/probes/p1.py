import warnings, numpy as np
warnings.simplefilter('ignore')
from pmutt import constants as c
from pmutt.statmech import StatMech, vib, rot, trans, elec
# symmetry dict
try:
    r = rot.RigidRotor(symmetrynumber='C2v', rot_temperatures=[1,2,3], geometry='nonlinear')
    print('C2v ok', r.symmetrynumber)
except Exception as e: print('C2v FAIL', type(e), e)
print([k for k in ['C1','Cs','C2','C2v','C3v','Cinfv','D2h','D3h','D5h','Dinfh','D3d','Td','Oh'] if k in c.symmetry_dict])
# Debye dS/dT
d = vib.DebyeVib(debye_temperature=300., interaction_energy=0.1)
for T in [100., 300., 1000.]:
    h=1e-3*T
    dS = (d.get_SoR(T+h)-d.get_SoR(T-h))/(2*h)
    dU = ((T+h)*d.get_UoRT(T+h)-(T-h)*d.get_UoRT(T-h))/(2*h)
    print('Debye T',T,'Cv',d.get_CvoR(T),'dU/dT',dU,'T dS/dT',T*dS)
e = vib.EinsteinVib(einstein_temperature=300., interaction_energy=0.1)
for T in [100., 300., 1000.]:
    h=1e-3*T
    dS = (e.get_SoR(T+h)-e.get_SoR(T-h))/(2*h)
    dU = ((T+h)*e.get_UoRT(T+h)-(T-h)*e.get_UoRT(T-h))/(2*h)
    print('Einstein T',T,'Cv',e.get_CvoR(T),'dU/dT',dU,'T dS/dT',T*dS)
q = vib.QRRHOVib(vib_wavenumbers=[50., 300., 2000., -100.])
for T in [100., 300., 1000.]:
    h=1e-3*T
    dS = (q.get_SoR(T+h)-q.get_SoR(T-h))/(2*h)
    dU = ((T+h)*q.get_UoRT(T+h)-(T-h)*q.get_UoRT(T-h))/(2*h)
    print('QRRHO T',T,'Cv',q.get_CvoR(T),'dU/dT',dU,'T dS/dT',T*dS)

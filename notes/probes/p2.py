import warnings, numpy as np, json, traceback
warnings.simplefilter('ignore')
from pmutt import constants as c
from pmutt.empirical.nasa import Nasa, Nasa9, SingleNasa9
from pmutt.empirical.shomate import Shomate
from pmutt.empirical import GasPressureAdj
from pmutt.mixture.cov import PiecewiseCovEffect
from pmutt.io.json import pmuttEncoder, json_to_pmutt
def tr(label, f):
    try:
        print(label, '->', f())
    except Exception as e:
        print(label, 'EXC', type(e).__name__, str(e)[:150])
a_low=[3.5,1e-3,-2e-6,1e-9,-1e-13,-3e4,2.]; a_high=[3.2,1.2e-3,-1e-6,2e-10,-1e-14,-2.9e4,3.]
n = Nasa('H2O', T_low=200, T_mid=1000, T_high=3000, a_low=a_low, a_high=a_high, phase='G', elements={'H':2,'O':1})
print('misc', n.misc_models)
tr('Nasa S(P=10)-S(P=1)', lambda: n.get_SoR(T=500,P=10.)-n.get_SoR(T=500,P=1.))
tr('Nasa add_gas_P_adj=False', lambda: Nasa('x', T_low=200, T_mid=1000, T_high=3000, a_low=a_low, a_high=a_high, phase='G', add_gas_P_adj=False).misc_models)
# Shomate
s = Shomate('H2O', T_low=200, T_high=3000, a=np.array([30.,6.8,6.7,-2.5,0.08,-250.,223.,-241.]), phase='G', elements={'H':2,'O':1})
tr('Shomate getS P', lambda: (s.get_S(T=500, units='J/mol/K', P=10.), s.get_SoR(T=500,P=10.)*c.R('J/mol/K'), s.get_SoR(T=500)*c.R('J/mol/K')))
cov1 = PiecewiseCovEffect('H2O','A',[0,0.5],[1.,2.]); cov2=PiecewiseCovEffect('H2O','B',[0,0.3],[3.,5.])
s2 = Shomate('H2O', T_low=200, T_high=3000, a=np.array([30.,6.8,6.7,-2.5,0.08,-250.,223.,-241.]), phase='S', elements={'H':2,'O':1}, misc_models=[cov1,cov2])
bare = Shomate('H2O', T_low=200, T_high=3000, a=np.array([30.,6.8,6.7,-2.5,0.08,-250.,223.,-241.]), phase='S', elements={'H':2,'O':1})
kw = {'A_kwargs':{'x':0.4}, 'B_kwargs':{'x':0.6}}
exp = bare.get_HoRT(T=500)+cov1.get_HoRT(x=0.4,T=500)+cov2.get_HoRT(x=0.6,T=500)
tr('Shomate 2 cov scalar', lambda: (s2.get_HoRT(T=500, **kw), exp))
tr('Shomate 2 cov arr2', lambda: (s2.get_HoRT(T=[500,600], **kw)))
tr('Shomate 2 cov arr3', lambda: (s2.get_HoRT(T=[500,600,700], **kw)))
n2 = Nasa('H2O', T_low=200, T_mid=1000, T_high=3000, a_low=a_low, a_high=a_high, phase='S', elements={'H':2,'O':1}, misc_models=[cov1,cov2])
nb = Nasa('H2O', T_low=200, T_mid=1000, T_high=3000, a_low=a_low, a_high=a_high, phase='S', elements={'H':2,'O':1})
tr('Nasa 2 cov', lambda: (n2.get_HoRT(T=500, **kw), nb.get_HoRT(T=500)+cov1.get_HoRT(x=0.4,T=500)+cov2.get_HoRT(x=0.6,T=500)))
tr('Nasa 2 cov arr', lambda: (n2.get_HoRT(T=[500,600], **kw)))
# Nasa9
a9 = np.array([1e4,-1e2,3.5,1e-3,-2e-6,1e-9,-1e-13,-3e4,2.])
n9 = Nasa9('X', nasas=[SingleNasa9(200,1000,a9), SingleNasa9(1000,6000,a9*1.01)], phase='G', elements={'H':2})
tr('Nasa9 scalar', lambda: (n9.get_CpoR(T=500.), n9.get_HoRT(T=500.), n9.get_SoR(T=500.), n9.get_GoRT(T=500.)))
tr('Nasa9 arr', lambda: (n9.get_CpoR(T=[500.,1500.]), n9.get_HoRT(T=[500.,1500.]), n9.get_SoR(T=[500.,1500.])))
tr('Nasa9 out of range', lambda: n9.get_CpoR(T=100.))
tr('Nasa9 intT', lambda: n9.get_CpoR(T=500))
tr('Nasa9 json', lambda: json.loads(json.dumps(n9, cls=pmuttEncoder), object_hook=json_to_pmutt))
tr('Nasa json', lambda: json.loads(json.dumps(n, cls=pmuttEncoder), object_hook=json_to_pmutt).misc_models)
tr('Shomate json', lambda: json.loads(json.dumps(s, cls=pmuttEncoder), object_hook=json_to_pmutt).get_SoR(T=500., P=3.) - s.get_SoR(T=500., P=3.))
# cov
p = PiecewiseCovEffect('a','b',[0.,0.3,0.6],[1.,2.,3.])
p.insert(0.8, 4.)
print('insert above', p.intervals, p.slopes)
p = PiecewiseCovEffect('a','b',[0.,0.3,0.6],[1.,2.,3.])
p.insert(0.45, 4.); print('insert mid', p.intervals, p.slopes, p._intercepts)
p.insert(0.3, 7.); print('insert equal', p.intervals, p.slopes, p._intercepts)
tr('cov json', lambda: json.loads(json.dumps(PiecewiseCovEffect('a','b',[0.,0.3],[1.,2.],name='i_1'), cls=pmuttEncoder), object_hook=json_to_pmutt).name)

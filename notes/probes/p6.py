import warnings, numpy as np, json
warnings.simplefilter('ignore')
from pmutt import constants as c
from pmutt.statmech import StatMech, presets, trans, vib, rot, elec
from pmutt.empirical.nasa import Nasa
from pmutt.reaction import Reaction, ChemkinReaction, Reactions
from pmutt.reaction.bep import BEP
from pmutt.reaction.phasediagram import PhaseDiagram
from pmutt.omkm.reaction import SurfaceReaction, BEP as OBEP
from pmutt.chemkin import CatSite
from pmutt.io.json import pmuttEncoder, json_to_pmutt
def tr(label, f):
    try:
        print(label, '->', f())
    except Exception as e:
        print(label, 'EXC', type(e).__name__, str(e)[:200])
def gas(name, mw, wn, rt, sym, geom, E, el, spin=0):
    return StatMech(name=name, trans_model=trans.FreeTrans(molecular_weight=mw), vib_model=vib.HarmonicVib(wn), rot_model=rot.RigidRotor(symmetrynumber=sym, rot_temperatures=rt, geometry=geom), elec_model=elec.GroundStateElec(potentialenergy=E, spin=spin), elements=el)
H2 = gas('H2', 2.016, [4306.], [87.5], 2, 'linear', -6.77, {'H':2})
O2 = gas('O2', 32., [1556.], [2.08], 2, 'linear', -9.86, {'O':2}, spin=1)
H2O = gas('H2O', 18., [3825.,1635.,3935.], [13.,20.,40.], 2, 'nonlinear', -14.22, {'H':2,'O':1})
TS = StatMech(name='TS', vib_model=vib.HarmonicVib([3000.,1500.,800.,-1200.]), elec_model=elec.GroundStateElec(potentialenergy=-21., spin=0), elements={'H':2,'O':1}, trans_model=trans.FreeTrans(molecular_weight=18.), rot_model=rot.RigidRotor(symmetrynumber=1, rot_temperatures=[10.,15.,30.], geometry='nonlinear'))
r = Reaction.from_string('H2 + 0.5O2 = TS = H2O', {'H2':H2,'O2':O2,'H2O':H2O,'TS':TS})
T=700.
print('dG fwd/rev', r.get_delta_GoRT(T=T), r.get_delta_GoRT(T=T, rev=True))
print('act fwd-rev', r.get_GoRT_act(T=T)-r.get_GoRT_act(T=T, rev=True), r.get_delta_GoRT(T=T))
print('Keq', r.get_Keq(T=T)*r.get_Keq(T=T,rev=True))
print('EoRT_act, HoRT_act', r.get_EoRT_act(T=T), r.get_HoRT_act(T=T))
tr('get_A q', lambda: r.get_A(T=T))
tr('get_A S', lambda: (r.get_A(T=T, use_q=False), c.kb('J/K')*T/c.h('J s')*np.exp(r.get_SoR_act(T=T))))
tr('species kwargs', lambda: (r.get_delta_SoR(T=T, H2_kwargs={'P':10.}) - r.get_delta_SoR(T=T), np.log(10.)))
tr('G_act units rev', lambda: (r.get_G_act(units='kJ/mol', T=T, rev=True), r.get_GoRT_act(T=T,rev=True)*T*c.R('kJ/mol/K')))
# Chemkin reaction
cs = CatSite(name='RU', site_density=2.5e-9, density=12.4, bulk_specie='RU(B)')
def nasa(name, phase, sm, cat=None, n_sites=None):
    return Nasa.from_model(model=sm, name=name, T_low=300., T_high=1000., phase=phase, cat_site=cat, n_sites=n_sites, elements=sm.elements)
def ads(name, wn, E, el):
    return StatMech(name=name, vib_model=vib.HarmonicVib(wn), elec_model=elec.GroundStateElec(potentialenergy=E, spin=0), elements=el)
nH2 = nasa('H2','G',H2); 
nS = nasa('RU(S)','S', ads('RU(S)',[ ],0.,{'Ru':1}), cs, 1)
nB = nasa('RU(B)','S', ads('RU(B)',[ ],0.,{'Ru':1}), cs, 1)
nH = nasa('H(S)','S', ads('H(S)',[1200.,800.,700.],-3.9,{'H':1,'Ru':1}), cs, 1)
nTS = nasa('TS(S)','S', ads('TS(S)',[1500.,900.,600.,400.,300.],-7.0,{'H':2,'Ru':2}), cs, 2)
sp = {x.name:x for x in [nH2,nS,nB,nH,nTS]}
cr = ChemkinReaction.from_string('H2 + 2RU(S) = TS(S) + 2RU(B) = 2H(S) + 2RU(B)', sp)
print('gas_phase', cr.gas_phase, 'n_surf', cr._get_n_surf())
tr('ck H_act fwd/rev', lambda: (cr.get_H_act(units='kcal/mol', T=500.), cr.get_H_act(units='kcal/mol', T=500., rev=True), cr.get_HoRT_act(T=500., rev=True)*500.*c.R('kcal/mol/K')))
tr('ck G_act fwd/rev', lambda: (cr.get_G_act(units='kcal/mol', T=500.), cr.get_G_act(units='kcal/mol', T=500., rev=True), cr.get_GoRT_act(T=500., rev=True)*500.*c.R('kcal/mol/K')))
tr('ck get_A', lambda: (cr.get_A(T=500.), cr.get_A(T=500., include_entropy=False), c.kb('J/K')/c.h('J s')/(2*2.5e-9)**(2-1)))
tr('ck get_A ops', lambda: [cr.get_A(T=500., include_entropy=False, sden_operation=o) for o in ('sum','min','max','mean')])
# BEP
bep = BEP(slope=0.5, intercept=20., name='BEP', descriptor='delta_H', elements={'H':2})
rb = Reaction.from_string('H2 + 0.5O2 = BEP = H2O', {'H2':H2,'O2':O2,'H2O':H2O,'BEP':bep})
tr('BEP Eact fwd,rev,dH', lambda: (bep.get_E_act(units='kcal/mol', reaction=rb, T=T), bep.get_E_act(units='kcal/mol', reaction=rb, T=T, rev=True), rb.get_delta_H(units='kcal/mol',T=T)))
tr('BEP via rxn H_act fwd, rev', lambda: (rb.get_H_act(units='kcal/mol', T=T), rb.get_H_act(units='kcal/mol', T=T, rev=True)))
tr('BEP U vs H', lambda: (bep.get_UoRT(reaction=rb,T=T)-rb.get_UoRT_state('reactants',T=T), bep.get_HoRT(reaction=rb,T=T)-rb.get_HoRT_state('reactants',T=T)))
# phase diagram
r1 = Reaction.from_string('H2 + 0.5O2 = H2O', {'H2':H2,'O2':O2,'H2O':H2O})
r2 = Reaction.from_string('H2O = H2 + 0.5O2', {'H2':H2,'O2':O2,'H2O':H2O})
r3 = Reaction.from_string('H2 = H2', {'H2':H2,'O2':O2,'H2O':H2O})
pdg = PhaseDiagram([r1,r2,r3], norm_factors=[1.,2.,1.])
tr('PD 1D', lambda: pdg.get_GoRT_1D('T', [300.,500.,800.,1200.,2000.])[1])
tr('PD 2D', lambda: pdg.get_GoRT_2D('T', [300.,500.,800.,1200.], 'P', [0.1,1.])[1])
tr('PD json', lambda: type(json.loads(json.dumps(pdg, cls=pmuttEncoder), object_hook=json_to_pmutt)))
rs = Reactions([r, r1])
tr('E span', lambda: rs.get_E_span(units='eV', T=500.))
for obj in (r, cr, rb, rs):
    tr('json '+type(obj).__name__, lambda: type(json.loads(json.dumps(obj, cls=pmuttEncoder), object_hook=json_to_pmutt)))
tr('json SM elements', lambda: json.loads(json.dumps(H2O, cls=pmuttEncoder), object_hook=json_to_pmutt).elements)

import warnings, numpy as np, os
warnings.simplefilter('ignore')
import matplotlib; matplotlib.use('Agg')
from pmutt import pmutt_list_to_dict
from pmutt.empirical.nasa import Nasa
from pmutt.empirical.references import Reference, References
from pmutt.empirical.shomate import Shomate
from pmutt.io.excel import read_excel
from pmutt.io.omkm import organize_phases, write_cti, write_thermo_yaml, write_yaml
from pmutt.mixture.cov import PiecewiseCovEffect
from pmutt.omkm.reaction import BEP, SurfaceReaction
from pmutt.omkm.units import Units
os.chdir('/tmp/scratch/ex/omkm_inputs/..')
input_path = './omkm_inputs/NH3_Input_Data.xlsx'
import pandas as pd
x = pd.ExcelFile(input_path); print(x.sheet_names)
units_data = read_excel(io=input_path, sheet_name='units')[0]; print(units_data)
units = Units(**units_data)
refs = References(references=[Reference(**d) for d in read_excel(io=input_path, sheet_name='refs')])
species_data = read_excel(io=input_path, sheet_name='species')
print(species_data[0]); print(species_data[-1])
species = [Nasa.from_model(references=refs, **d) for d in species_data]
beps_data = read_excel(io=input_path, sheet_name='beps'); print(beps_data)
beps = [BEP(**d) for d in beps_data]
sd = pmutt_list_to_dict(species+beps)
reactions_data = read_excel(io=input_path, sheet_name='reactions'); print(reactions_data[:3])
reactions = [SurfaceReaction.from_string(species=sd, **d) for d in reactions_data]
inter = [PiecewiseCovEffect(**d) for d in read_excel(io=input_path, sheet_name='lateral_interactions')]
phases_data = read_excel(io=input_path, sheet_name='phases'); print(phases_data)
phases = organize_phases(phases_data, species=species, reactions=reactions, interactions=inter)
reactor_data = read_excel(io=input_path, sheet_name='reactor')[0]; reactor_data.pop('mode'); print(reactor_data)
print(write_yaml(phases=phases, units=units, **reactor_data))
y = write_thermo_yaml(T=reactor_data['T'], phases=phases, species=species, reactions=reactions, lateral_interactions=inter, units=units)
i=y.find("# REACTIONS"); print(y[i-200:i+3500]); j=y.find("# INTERACTIONS"); print(y[j:j+1200])
cti = write_cti(reactions=reactions, species=species, phases=phases, units=units, lateral_interactions=inter, use_motz_wise=True, T=reactor_data['T'], P=1.)
i=cti.find("# LATERAL"); print(cti[i:i+1500]); i=cti.find("# REACTION OPTIONS"); print(cti[i:i+2500]); i=cti.find("# BEP"); print(cti[i:i+1500])
import yaml
d = yaml.safe_load(y); print({k: (len(v) if hasattr(v,'__len__') else v) for k,v in d.items()})
open('/tmp/scratch/ex.cti','w').write(cti)
open('/tmp/scratch/ex.yaml','w').write(y)

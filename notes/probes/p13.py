import warnings, numpy as np, pandas as pd
warnings.simplefilter('ignore')
from pmutt.io.excel import read_excel
def tr(label, f):
    try:
        print(label, '->', f())
    except Exception as e:
        print(label, 'EXC', type(e).__name__, str(e)[:200])
from openpyxl import Workbook
wb = Workbook(); ws = wb.active; ws.title='species'
hdr = ['name',' phase ','element.C','element.H','vib_wavenumber','vib_wavenumber','vib_wavenumber','rot_temperature','list.tags','list.tags','dict.opts.a','dict.opts.b','nasa.a_low.0','nasa.a_low.3','nasa.a_high.6','statmech_model','nucl_model','potentialenergy','formula']
ws.append(hdr); ws.append(['comment']*3)
ws.append(['CH4','G',1,4,3000.,1500.,None,5.2,'x','y',1,'two',1.5,2.5,3.5,'IdealGas',None,-24.,None])
ws.append(['  H2  ','G',None,2,4300.,None,None,87.,None,'z',None,3,None,None,None,'harmonic',None,-6.7,None])
ws.append(['X',None,None,None,None,None,None,None,None,None,None,None,None,None,None,None,None,None,'CH3CH2OH'])
wb.save('/tmp/scratch/t.xlsx')
tr('read', lambda: read_excel('/tmp/scratch/t.xlsx', sheet_name='species'))
ws.append(['Y',None,None,None,None,None,None,None,None,None,None,None,None,None,None,None,'EmptyNucl',None,None]); wb.save('/tmp/scratch/t2.xlsx')
tr('nucl', lambda: read_excel('/tmp/scratch/t2.xlsx', sheet_name='species')[-1])
# geometry invariance
from ase.build import molecule
from ase.collections import g2
from pmutt.statmech import rot, trans
from pmutt import get_molecular_weight
rng=np.random.default_rng(1)
bad=0; n=0
for name in g2.names[:60]:
    a = molecule(name)
    g0 = rot.get_geometry_from_atoms(a); r0 = sorted(rot.get_rot_temperatures_from_atoms(a))
    b = a.copy(); b.rotate(rng.uniform(0,360), rng.normal(size=3)); b.translate(rng.normal(size=3)*5)
    perm = rng.permutation(len(b)); b = b[perm]
    g1 = rot.get_geometry_from_atoms(b); r1 = sorted(rot.get_rot_temperatures_from_atoms(b))
    n+=1
    if g0!=g1 or len(r0)!=len(r1) or not np.allclose(r0,r1,rtol=1e-6):
        bad+=1; print(name, g0, g1, r0, r1)
print('geom checked', n, 'bad', bad)

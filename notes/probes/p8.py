import warnings, numpy as np, json, os
from pmutt.equilibrium import Equilibrium
import pmutt.equilibrium._equilibrium as E
from pmutt.io.thermdat import read_thermdat
from scipy.optimize import minimize as real_min
log=[]
def spy(*a, **k):
    with warnings.catch_warnings(record=True) as w:
        warnings.simplefilter('always')
        s = real_min(*a, **k)
    log.append((s.success, s.status, s.message, s.nit, len(w)))
    return s
E.minimize = spy
path='/repo/pmutt/tests/equilibrium/thermdat_equilibrium_unittest.txt'
network = {'CH3CH2CH3': 1, 'H2O': 0.7, 'H2': 0, 'CH2CHCH3': 0,'CH4': 0, 'CHCH': 0, 'CH2CH2': 0, 'CH3CH3': 0,'CO2': 0, 'CO': 0}
eq = Equilibrium.from_thermdat(path, network)
rng = np.random.default_rng(0)
bad=0
for T in [300,500,800,1000,1500,2000,2500]:
    for P in [0.01,1,100]:
        with warnings.catch_warnings(record=True) as w:
            warnings.simplefilter('always')
            sol = eq.get_net_comp(T=T,P=P)
        res = sol.moles.dot(eq.mol_elem)-eq.ele_feed
        s=log[-1]
        print(T,P,'success',s[0],s[1],s[2][:40],'nit',s[3],'atomres',np.abs(res).max(),'min',sol.moles.min(),'warn',len(w))
# order dependence
keys=list(network.keys())
for k in range(3):
    rng.shuffle(keys)
    net={kk:network[kk] for kk in keys}
    e2=Equilibrium.from_thermdat(path, net); sol=e2.get_net_comp(T=800,P=1.)
    d=dict(zip(sol.species, sol.moles)); print([round(d[x],6) for x in network], log[-1][:2])

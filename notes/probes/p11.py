import numpy as np, itertools
from pmutt import constants as c
# reference SI factors (independent, CODATA 2014/2018 exact defs)
Na=6.02214076e23; e=1.602176634e-19; cal=4.184; Eh=4.3597447222071e-18
ref = {'J':1,'kJ':1e3,'eV':e,'cal':cal,'kcal':cal*1e3,'L atm':101.325,'Eh':Eh,'Ha':Eh,
 'J/mol':1,'kJ/mol':1e3,'cal/mol':cal,'kcal/mol':cal*1e3,'eV/molecule':e*Na,'Eh/molecule':Eh*Na,'Ha/molecule':Eh*Na,'eV/particle':e*Na,'Eh/particle':Eh*Na,'Ha/particle':Eh*Na,
 'ps':1e-12,'ns':1e-9,'ms':1e-3,'s':1,'min':60,'hr':3600,'day':86400,'molecule':1/Na,'molec':1/Na,'mol':1,
 'm':1,'cm':1e-2,'nm':1e-9,'km':1e3,'inch':0.0254,'ft':0.3048,'mile':1609.344,'A':1e-10,
 'm2':1,'cm2':1e-4,'A2':1e-20,'km2':1e6,'inch2':0.0254**2,'ft2':0.3048**2,
 'm3':1,'cm3':1e-6,'mL':1e-6,'L':1e-3,'inch3':0.0254**3,'ft3':0.3048**3,
 'kg':1,'g':1e-3,'amu':1.66053906660e-27,'lbs':0.45359237,
 'Pa':1,'kPa':1e3,'MPa':1e6,'atm':101325,'bar':1e5,'mmHg':133.322387415,'torr':101325/760,'psi':6894.757293168}
worst=[]
for u,t in c.type_dict.items():
    if t=='temp': continue
    base=[k for k,v in c.type_dict.items() if v==t][0]
    got = c.convert_unit(1., u, base); exp = ref[u]/ref[base]
    worst.append((abs(got/exp-1), u, base, got, exp))
for w in sorted(worst, reverse=True)[:12]: print(w)
# constants tables
import inspect,re
src=inspect.getsource(c.R); keys=re.findall(r"'([^']+)':", src)
Rsi=8.3144598
for k in keys:
    en, rest = k.split('/',1) if ' ' not in k.split('/')[0] else (k.split('/')[0], '/'.join(k.split('/')[1:]))
    print(k, c.R(k))
print('R=kb*Na', c.kb('J/K')*c.Na/c.R('J/mol/K')-1)
for k in ['J/K','kJ/K','eV/K','cal/K','kcal/K','Eh/K','Ha/K']:
    print('kb',k, c.kb(k)/(c.kb('J/K')*c.convert_unit(1.,'J',k.split('/')[0]))-1)
for k in ['J s','kJ s','eV s','Eh s','Ha s']:
    print('h',k, c.h(k)/(c.h('J s')*c.convert_unit(1.,'J',k.split(' ')[0]))-1)
print('V0', c.V0('m3'), c.R('J/mol/K')*298.15/1e5)
print('aw', c.atomic_weight['H'], c.atomic_weight[1], len(c.atomic_weight), len(c.S_elements))
bad=[k for k in c.atomic_weight if isinstance(k,int)]
print(len(bad))

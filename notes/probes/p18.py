rec=[]
def mk(name):
    def f(*a, **k):
        rec.append((name,a,k)); return (name,a,k)
    return f
ns = {n: mk(n) for n in ['units','ideal_gas','stoichiometric_solid','interacting_interface','species','NASA','NASA9','Shomate','lateral_interaction','surface_reaction','stick','bep','enable_motz_wise','disable_motz_wise','reaction','Arrhenius']}
src = open('/tmp/scratch/ex.cti').read()
exec(compile(src,'ex.cti','exec'), ns)
from collections import Counter
print(Counter(r[0] for r in rec))
print([r for r in rec if r[0]=='species'][0])
print([r for r in rec if r[0]=='surface_reaction'][3])
print([r for r in rec if r[0]=='interacting_interface'][0][2].keys())

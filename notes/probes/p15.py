import sys, warnings, time
warnings.simplefilter('ignore')
import numpy as np
import pmutt.statmech.vib as vib
from pmutt.statmech import StatMech
import pmutt.empirical.nasa as nasa
mon = sys.monitoring
TOOL = 3
mon.use_tool_id(TOOL, 'verif')
E = mon.events
events=[]
targets = {}
def watch(fn, label):
    code = fn.__code__
    targets[code]=label
    mon.set_local_events(TOOL, code, E.PY_START|E.PY_RETURN)
def on_start(code, off):
    f = sys._getframe(1)
    events.append(('call', targets[code], {k:v for k,v in f.f_locals.items() if k!='self'}))
def on_return(code, off, ret):
    events.append(('ret', targets[code], ret))
def on_unwind(code, off, exc):
    events.append(('exc', targets[code], repr(exc)))
mon.register_callback(TOOL, E.PY_START, on_start)
mon.register_callback(TOOL, E.PY_RETURN, on_return)

watch(vib.HarmonicVib.get_GoRT, 'HarmonicVib.get_GoRT')
watch(nasa._fit_HoRT, '_fit_HoRT')
watch(nasa.Nasa.get_a, 'Nasa.get_a')
v = vib.HarmonicVib([100.,2000.])
s = StatMech(name='x', vib_model=v)
print(s.get_GoRT(T=300.))
n = nasa.Nasa.from_model(model=s, T_low=300., T_high=900.)
n.get_HoRT(T=500.)
for e in events[:8]: print(e)
t=time.time()
for i in range(20000): n.get_CpoR(T=500.)
print('20k calls watched', time.time()-t, len(events))
mon.set_local_events(TOOL, nasa.Nasa.get_a.__code__, 0)
t=time.time()
for i in range(20000): n.get_CpoR(T=500.)
print('20k calls unwatched', time.time()-t)

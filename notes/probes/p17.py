import warnings, numpy as np, time
warnings.simplefilter('ignore')
from pmutt.equilibrium import Equilibrium
def ref_equil(A, b, g, P, maxit=500, tol=1e-12):
    """Element-potential (NASA CEA style) Gibbs minimisation for an ideal gas mixture.
    A: (ns, ne) element matrix, b: (ne,) element totals, g: (ns,) G/RT at 1 bar-like ref, P: pressure factor.
    minimise sum n_i (g_i + ln(n_i P / N)).  Returns n, converged."""
    ns, ne = A.shape
    mu0 = g + np.log(P)
    N = b.sum() if b.sum() > 0 else 1.0
    n = np.full(ns, N/ns*0.1)
    N = n.sum()
    for it in range(maxit):
        mu = mu0 + np.log(n/N)
        # Newton system (Gordon-McBride reduced equations): unknowns pi (ne), dlnN
        M = np.zeros((ne+1, ne+1)); r = np.zeros(ne+1)
        An = A * n[:,None]
        M[:ne,:ne] = A.T @ An
        M[:ne, ne] = An.sum(0)
        M[ne,:ne] = An.sum(0)
        M[ne, ne] = n.sum() - N
        r[:ne] = b - An.sum(0) + An.T @ mu
        r[ne] = N - n.sum() + n @ mu
        sol = np.linalg.lstsq(M, r, rcond=None)[0]
        pi, dlnN = sol[:ne], sol[ne]
        dlnn = A @ pi + dlnN - mu
        # step control
        lam = 1.0
        m = max(np.max(np.abs(dlnn)), abs(dlnN)*5)
        if m > 2: lam = 2.0/m
        n = n*np.exp(lam*dlnn); N = N*np.exp(lam*dlnN)
        n = np.maximum(n, 1e-300)
        if lam == 1.0 and np.max(np.abs(dlnn)*n)/n.sum() < tol and abs(dlnN) < tol:
            break
    res = np.abs(n@A - b).max()
    return n, (it < maxit-1) and res < 1e-9*max(1,b.sum())
def G(n, g, P):
    n = np.maximum(n, 1e-300)
    return float(np.sum(n*(g + np.log(n*P/n.sum()))))
path='/repo/pmutt/tests/equilibrium/thermdat_equilibrium_unittest.txt'
network = {'CH3CH2CH3': 1, 'H2O': 0.7, 'H2': 0, 'CH2CHCH3': 0,'CH4': 0, 'CHCH': 0, 'CH2CH2': 0, 'CH3CH3': 0,'CO2': 0, 'CO': 0}
eq = Equilibrium.from_thermdat(path, network)
t0=time.time()
for T in [300,500,800,1000,1500,2000,2500]:
    for P in [0.01,1,100]:
        sol = eq.get_net_comp(T=T,P=P)
        g = np.array(eq.gibbs); Pf = P*1.01325
        n, ok = ref_equil(eq.mol_elem, eq.ele_feed, g, Pf)
        print(T,P, ok, 'G_pm-G_ref', G(sol.moles,g,Pf)-G(n,g,Pf), 'max|dn|', np.abs(sol.moles-n).max())
print(time.time()-t0)

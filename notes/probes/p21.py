import warnings, numpy as np
warnings.simplefilter('ignore')
from pmutt.io.omkm import write_yaml
from pmutt.omkm.phase import InteractingInterface, IdealGas
from pmutt.omkm.units import Units
from pmutt.empirical.nasa import Nasa
from pmutt.empirical.shomate import Shomate
def tr(label, f):
    try:
        print(label, '->', f())
    except Exception as e:
        print(label, 'EXC', type(e).__name__, str(e)[:200])
a=[3.5,1e-3,-2e-6,1e-9,-1e-13,-3e4,2.]
def mk(n,ph='S'): return Nasa(n, T_low=200., T_mid=1000., T_high=3000., a_low=a, a_high=a, phase=ph, elements={'H':1}, n_sites=1)
g = IdealGas(name='gas', species=[mk('H2','gas')])
tr('yaml no phases', lambda: write_yaml(T=500., units=Units())[-200:])
tr('yaml no units numeric V', lambda: write_yaml(V=1.0, T=500., phases=[g])[-200:])
tr('yaml np.int64', lambda: write_yaml(V=np.int64(2), nodes=np.int64(5), T=np.float32(500.), P=np.float64(2.), phases=[g], units=Units()))
i1 = InteractingInterface(name='t', site_density=1e-9, phases=[g]); i2 = InteractingInterface(name='s', site_density=2e-9, phases=[g])
i1.append_species(mk('A(T)')); print('shared default:', i1.species_names, i2.species_names)
s = Shomate('X', T_low=200, T_high=1000, a=np.arange(8.), phase='S', elements={'H':1}, n_sites=2)
tr('shomate yaml sites', lambda: s.to_omkm_yaml()['sites'])

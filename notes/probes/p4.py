import warnings, numpy as np, json, traceback, os
warnings.simplefilter('ignore')
from pmutt.empirical.nasa import Nasa
from pmutt.io.thermdat import write_thermdat, read_thermdat
from pmutt.cantera import _get_omkm_range
from pmutt.io.cantera import obj_to_cti
def tr(label, f):
    try:
        print(label, '->', f())
    except Exception as e:
        print(label, 'EXC', type(e).__name__, str(e)[:200])
a_low=[3.5,1e-3,-2e-6,1e-9,-1e-13,-3e4,2.]; a_high=[3.2,1.2e-3,-1e-6,2e-10,-1e-14,-2.9e4,3.]
def mk(name, el, phase='G'):
    return Nasa(name, T_low=200., T_mid=1000., T_high=3000., a_low=a_low, a_high=a_high, phase=phase, elements=el)
def rt(species, **kw):
    write_thermdat(species, filename='/tmp/scratch/th.dat', **kw)
    out = read_thermdat('/tmp/scratch/th.dat')
    return [(o.name, o.elements, o.phase, o.T_low, o.T_mid, o.T_high, float(np.max(np.abs(o.a_low-np.array(a_low)))) ) for o in out]
tr('basic', lambda: rt([mk('H2O',{'H':2,'O':1}), mk('CH3OH(S)',{'C':1,'H':4,'O':1,'Pt':0},'S')]))
tr('END name', lambda: rt([mk('H2O',{'H':2,'O':1}), mk('PENDANT',{'C':1,'H':4}), mk('CO',{'C':1,'O':1})]))
tr('THERMO name', lambda: rt([mk('THERMOX',{'H':2,'O':1}), mk('CO',{'C':1,'O':1})]))
tr('two-digit', lambda: rt([mk('C12H26',{'C':12,'H':26})]))
tr('3-digit 1 letter', lambda: rt([mk('C100',{'C':100,'H':202})]))
tr('3-digit 2 letter', lambda: rt([mk('Pt100',{'Pt':100,'H':2})]))
tr('4 elements', lambda: rt([mk('X',{'C':1,'H':4,'O':1,'N':2})]))
tr('long name 15', lambda: rt([mk('ABCDEFGHIJKLMNO',{'C':1,'H':4})]))
tr('long name 16', lambda: rt([mk('ABCDEFGHIJKLMNOP',{'C':1,'H':4})]))
tr('digit name', lambda: rt([mk('123',{'C':1,'H':4})]))
tr('nodate', lambda: rt([mk('H2O',{'H':2,'O':1})], write_date=False))
print(write_thermdat([mk('C12H26',{'C':12,'H':26,'Pt':100})]))
# ranges
tr('range basic', lambda: _get_omkm_range(['r_0001','r_0002','r_0003','r_0007']))
tr('range nonpad', lambda: _get_omkm_range(['r_1','r_2','r_12']))
tr('range dup', lambda: _get_omkm_range(['r_0001','r_0001','r_0002']))
tr('range noprefix', lambda: _get_omkm_range(['0001','0002']))
tr('range emptyprefix', lambda: _get_omkm_range(['_0001','_0002']))
tr('range multi', lambda: _get_omkm_range(['a_b_0001','a_b_0002','c_0005'], format='list'))
tr('range big', lambda: _get_omkm_range(['r_9999','r_10000','r_10001']))
tr('range nonint', lambda: _get_omkm_range(['r_00a1']))
tr('range empty list form', lambda: _get_omkm_range([], format='list'))
tr('cti wrap', lambda: obj_to_cti(['abc']*30, line_len=50, max_line_len=80))

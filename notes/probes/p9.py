import warnings, numpy as np, os
warnings.simplefilter('ignore')
from pmutt import pmutt_list_to_dict, format_conditions
from pmutt.empirical.nasa import Nasa
from pmutt.empirical.references import Reference, References
from pmutt.io.excel import read_excel
from pmutt.chemkin import CatSite
from pmutt.reaction import ChemkinReaction, Reactions
from pmutt.io import chemkin as ck
excel_path='/tmp/scratch/ex/ck_inputs/NH3_Input_Data.xlsx'
cat_site = CatSite(**read_excel(io=excel_path, sheet_name='cat_sites')[0])
refs = References(references=[Reference(**d) for d in read_excel(io=excel_path, sheet_name='refs')])
species=[]
for d in read_excel(io=excel_path, sheet_name='species'):
    s = Nasa.from_model(T_low=298., T_high=800., references=refs, **d)
    if s.phase.lower()=='s':
        s.cat_site=cat_site; s.n_sites=1
    species.append(s)
sd = pmutt_list_to_dict(species)
rd = read_excel(io=excel_path, sheet_name='reactions'); print(rd[:2])
reactions = Reactions([ChemkinReaction.from_string(species=sd, **d) for d in rd])
print(ck.write_gas(nasa_species=species, reactions=reactions, act_method_name='get_G_act', act_unit='kcal/mol'))
print(ck.write_surf(reactions=reactions, act_method_name='get_G_act', ads_act_method='get_H_act', act_unit='kcal/mol'))
T=[300.,400.,500.]; P=[1.,2.,3.]; Q=[10.,20.,30.]; abyv=[100.,50.,25.]
print(ck.write_T_flow(T=T,P=P,Q=Q,abyv=abyv))
cond = format_conditions(T=T,P=P,Q=Q,abyv=abyv)
print(ck.write_EA(reactions=reactions, write_gas_phase=False, act_method_name='get_GoRT_act', ads_act_method='get_HoRT_act', conditions=cond))
mfc=[{'N2':0.1,'H2':0.3,'NH3':0.6,'RU(S)':1.},{'N2':0.2,'H2':0.3,'NH3':0.5,'RU(S)':1.}]
print(ck.write_tube_mole(mole_frac_conditions=mfc, nasa_species=species))
ck.write_surf(reactions=reactions, act_method_name='get_G_act', ads_act_method='get_H_act', act_unit='kcal/mol', filename='/tmp/scratch/surf.inp')
print(ck.read_reactions('/tmp/scratch/surf.inp', species=species)[0:2])
try:
    print(ck.write_surf(reactions=reactions, act_method_name='get_E_act', ads_act_method='get_H_act', act_unit='kcal/mol')[-900:])
except Exception as e: print('E_act EXC', type(e), e)

#!/usr/bin/env python3
"""Regenerate MANIFEST.json from the table below (kept in one place so that the
manifest stays valid while checks are added)."""
import json, os
HERE = os.path.dirname(os.path.dirname(os.path.abspath(__file__)))
BASE = json.load(open('/root/.vp/BASELINE.json'))['cmd'].replace('--junitxml=<file>', '').strip()
PROPS = [json.loads(l) for l in open(os.path.join(HERE, 'properties.jsonl'))]
CLAIMS = json.load(open(os.path.join(HERE, 'notes', 'claims.json')))
checks, na = [], []
for p in PROPS:
    pid = p['id']
    c = CLAIMS.get(pid)
    if not c or not c.get('claimed'):
        na.append({'property_id': pid, 'reason': (c or {}).get('reason', 'check not built yet (runtime-monitoring check planned, see DESIGN.md section 4)')})
        continue
    checks.append({
        'property_id': pid,
        'quick_cmd': '/venv/bin/python check.py %s --tier quick' % pid,
        'thorough_cmd': '/venv/bin/python check.py %s --tier thorough' % pid,
        'evidence_file': '/verif/evidence/%s.json' % pid,
        'replay_cmd_template': '/venv/bin/python check.py %s --replay {path}' % pid,
        'engine': 'vf',
        'level_claimed': {'category': 'exploration', 'text': c['text'], 'design_ref': 'DESIGN.md section 4, ' + pid},
        'level_note': c['note'],
        'technique': c['technique'],
    })
man = {
    'version': 1,
    'setup_cmd': 'mkdir -p evidence replays && /venv/bin/python -m compileall -q vf check.py',
    'hooks': {'guard': 'PMUTT_VERIF', 'enable': 'none needed: probes attach from /verif at run time through sys.monitoring on the code objects of the anchored functions; /repo carries no hook code',
              'baseline_off_cmd': BASE, 'source_commits': [], 'add_only': True},
    'engines': [{'name': 'vf', 'path': '/verif/vf', 'serves_properties': [c['property_id'] for c in checks],
                 'kind_free_text': 'runtime monitoring: generated workloads drive the real pMuTT API in 16 worker processes; sys.monitoring probes count/inspect the anchored functions; reference-model and relational oracles decide; three-valued verdicts'}],
    'checks': checks,
    'not_applicable': na,
    'notes': 'exit 0 held / 1 unlisted violation / 2 inconclusive. Known findings: /verif/known_findings.json (keyed by mechanism).',
}
json.dump(man, open(os.path.join(HERE, 'MANIFEST.json'), 'w'), indent=1)
print('claimed', [c['property_id'] for c in checks])

#!/usr/bin/env python3
"""applyfix.py N  -- apply candidate fix N from candidate_fixes.mbox to /repo as one `fix:` commit"""
import re, subprocess, sys, os
n = int(sys.argv[1])
txt = open(os.path.join(os.path.dirname(__file__), 'candidate_fixes.mbox')).read()
parts = re.split(r'(?m)^From [0-9a-f]{40} .*$', txt)[1:]
p = parts[n - 1]
m = re.search(r'(?ms)^Subject: \[PATCH \d+/\d+\] (.*?)\n\n(.*?)^---$', p)
subject = ' '.join(m.group(1).split())
body = m.group(2).strip()
diff = p[p.index('diff --git'):]
diff = re.sub(r'(?ms)^-- \n2\.39\.5\n.*\Z', '', diff)
open('/dev/shm/_fix.diff', 'w').write(diff)
subprocess.check_call(['git', '-C', '/repo', 'apply', '--index', '/dev/shm/_fix.diff'])
msg = subject + ('\n\n' + body if body else '')
subprocess.check_call(['git', '-C', '/repo', 'commit', '-q', '-m', msg])
os.remove('/dev/shm/_fix.diff')
print(subprocess.check_output(['git', '-C', '/repo', 'log', '--oneline', '-1']).decode())

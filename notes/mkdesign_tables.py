#!/usr/bin/env python3
"""Regenerate the generated tables of DESIGN.md (between <!-- GEN:x --> and <!-- /GEN:x --> markers) from
known_findings.json, seeded/*/meta.json (+ seeded/RESULTS.json) and selftest/mutants.json."""
import json, os, re, glob
V = os.path.dirname(os.path.dirname(os.path.abspath(__file__)))
k = json.load(open(os.path.join(V, 'known_findings.json')))
def esc(s): return str(s).replace('|', '\\|').replace('\n', ' ')
fixed = ['| property | commit | defect |', '|---|---|---|']
for e in sorted(k['fixed'], key=lambda e: e['property']):
    fixed.append('| %s | %s | %s |' % (e['property'], e['commit'], esc(e['what'])))
openf = ['| id | property | oracle / match | what fails |', '|---|---|---|---|']
for e in k['open']:
    openf.append('| %s | %s | %s %s | %s |' % (e['id'], e['property'], esc(e['oracle']), esc(json.dumps(e['match'])), esc(e['what'])))
res = {}
rp = os.path.join(V, 'seeded', 'RESULTS.json')
if os.path.exists(rp):
    res = json.load(open(rp))
fr = {}
frp = os.path.join(V, 'seeded', 'FIRST_RUN.json')
if os.path.exists(frp):
    fr = json.load(open(frp))
seeded = ['| id | property | change | needs | first run (monitor as it was when the change arrived) | now: caught by (first violated oracle) |', '|---|---|---|---|---|---|']
for d in sorted(glob.glob(os.path.join(V, 'seeded', '*', 'meta.json'))):
    sid = os.path.basename(os.path.dirname(d))
    m = json.load(open(d))
    r = res.get(sid, {})
    seeded.append('| %s | %s | %s | %s | %s | %s |' % (sid, m.get('property'), esc(m.get('summary', ''))[:260], esc(m.get('needs', ''))[:220], fr.get(sid, '?'), esc(r.get('caught_by', 'not run yet'))))
muts = json.load(open(os.path.join(V, 'selftest', 'mutants.json')))
bym = {}
for m in muts:
    bym.setdefault(m['property'], []).append(m['id'])
mt = ['| property | string-replacement mutants in selftest/mutants.json (all caught by the quick tier) |', '|---|---|']
for p in sorted(bym):
    mt.append('| %s | %s |' % (p, ', '.join(bym[p])))
blocks = {'fixed': '\n'.join(fixed), 'open': '\n'.join(openf), 'seeded': '\n'.join(seeded), 'mutants': '\n'.join(mt)}
p = os.path.join(V, 'DESIGN.md')
s = open(p).read()
for name, body in blocks.items():
    pat = re.compile(r'(<!-- GEN:%s -->).*?(<!-- /GEN:%s -->)' % (name, name), re.S)
    if not pat.search(s):
        print('marker missing', name)
        continue
    s = pat.sub(lambda m: m.group(1) + '\n' + body + '\n' + m.group(2), s)
open(p, 'w').write(s)
print('ok')

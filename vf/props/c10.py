"""C10  Reference adjustment reproduces the experimental enthalpies it was fitted to.

History: a References object is built from an initial set, then a sequence of
append / extend / pop + fit_HoRT_offset; after every refit the oracles run through the
*whole plumbing* (StatMech(..., references=refs).get_HoRT / get_GoRT / get_SoR ...).

X1 uniquely determined (rank = #descriptors = #references, equal T_ref): every reference species,
   referenced, reproduces its experimental H/RT at T_ref
X2 otherwise (equal T_ref): least-squares residual orthogonal to the composition matrix
X3 (H_on - H_off) * T is the same at every T, linear in composition (additive, homogeneous),
   equals -sum(offset_d * n_d) * T_ref with independently recomputed offsets (full column rank);
   the same energy is added to G; descriptors absent from the references contribute nothing
X4 S, Cv, Cp identical with references on and off
X5 use_references=False gives bitwise the values of a species built without references
"""
import copy

from vf import core
from vf.gen import species as S

ID = 'C10'
N = {'quick': 4500, 'thorough': 100000}
NT_RULE = ('reference sets of 1-8 species over 1-5 descriptors (elements or a custom descriptor attribute), '
           'integer compositions, full-rank and rank-deficient matrices, equal T_ref or spread <= 1 K, targets '
           'with present and absent descriptors, T 50-5000 K, histories of append/extend/pop + refit.  '
           'non-trivial = >=2 descriptors or rank-deficient or a history with a refit; distinct = canonical JSON')
REQUIRED_ORACLES = ['X1', 'X2', 'X3', 'X4', 'X5']
REQUIRED_CLASSES = ['descriptor:keys=str', 'descriptor:keys=int', 'descriptor:keys=tuple', 'options:S_elements+use_references',
                    'tref:spread<0.01K', 'descriptor:signed_counts', 'descriptor:column_total<=0', 'T:within_1e-5_of_T_ref',
                    'history:second_live_set', 'rank:unique', 'rank:overdetermined', 'rank:deficient', 'rank:deficient:square_cond_below_1/eps', 'tref:equal', 'tref:spread',
                    'descriptor:elements', 'descriptor:custom', 'history:append', 'history:pop', 'history:extend', 'history:dict_copy',
                    'target:absent_descriptor']
REQUIRED_PROBES = ['References.fit_HoRT_offset', 'References.get_descriptors_matrix', 'References.get_HoRT',
                   'References.get_GoRT', 'StatMech.get_quantity']
ASSUMPTIONS = ['with unequal reference temperatures only X3-X5 are asserted (the statement\'s "the reference '
               'temperature" is then ambiguous)',
               'U and F are not asserted (the statement names H, G, S and the heat capacities)']

DESC_POOL = ['H', 'C', 'O', 'N', 'Pt', 'Ni', 'S']
GROUP_POOL = ['CH3', 'CH2', 'OH', 'CO', 'NH2']


def _comp_row(rng, descs, signed=False):
    while True:
        # a descriptor dictionary other than elements may carry signed counts (charge, group corrections)
        row = {d: rng.choice([-2, -1, -1, 0, 0, 1, 1, 2, 3] if signed else [0, 0, 1, 1, 2, 3, 4]) for d in descs}
        if any(row.values()):
            return {d: v for d, v in row.items() if v or rng.random() < 0.2}


def _ref(rng, i, descs, T_ref, signed=False):
    return {'name': 'ref%d' % i, 'comp': _comp_row(rng, descs, signed),
            'model': S.gen_statmech(rng, name='ref%d' % i, gas=rng.choice([True, False]), with_elements=False),
            'T_ref': T_ref, 'HoRT_ref': round(rng.uniform(-300, 300), 4)}


_CAT = {}


def _catalogue():
    """exactly singular small-integer square matrices whose floating-point condition number stays below 1/eps
    (found by search, vf/gen/near_regular_singular.json): numerically they look almost regular"""
    if not _CAT:
        import json, os
        _CAT.update(json.load(open(os.path.join(os.path.dirname(os.path.dirname(__file__)), 'gen',
                                                'near_regular_singular.json'))))
    return _CAT


def generate(rng, tier, near_regular=None):
    custom = rng.random() < 0.3
    pool = GROUP_POOL if custom else DESC_POOL
    descs = rng.sample(pool, rng.randint(1, 5))
    nd = len(descs)
    kind = rng.choice(['unique', 'unique', 'over', 'deficient', 'any'])
    if near_regular is None and rng.random() < 0.04:
        cat = _catalogue()
        near_regular = rng.choice(cat[rng.choice(sorted(cat))])
        rows = list(range(len(near_regular)))
        cols = list(rows)
        rng.shuffle(rows)
        rng.shuffle(cols)
        near_regular = [[near_regular[i][j] for j in cols] for i in rows]
    if near_regular is not None:
        kind = 'near_regular'
        nd = len(near_regular)
        descs = rng.sample(pool, nd)
    n = {'unique': nd, 'over': min(8, nd + rng.randint(1, 3)), 'deficient': rng.choice([rng.randint(1, 8), nd, nd]),
         'any': rng.randint(1, 8), 'near_regular': nd}[kind]
    spread = rng.random() < 0.25
    width = rng.choice([0.5, 0.5, 2e-3, 2e-6])          # references measured at slightly different temperatures
    T0 = rng.choice([298.15, 298.15, round(rng.uniform(200, 600), 2)])
    signed = custom and near_regular is None and rng.random() < 0.4
    refs = []
    for i in range(n):
        T_ref = round(T0 + (rng.uniform(-width, width) if spread else 0.0), 9)
        refs.append(_ref(rng, i, descs, T_ref, signed))
    if kind == 'near_regular':
        for r, row in zip(refs, near_regular):
            r['comp'] = {d: v for d, v in zip(descs, row) if v or rng.random() < 0.2}
    elif kind == 'deficient' and n >= 3 and rng.random() < 0.5:
        # last row = small integer combination of the first two (singular, but neither a duplicate row nor a
        # proportional column; square sets of this kind are badly conditioned rather than exactly singular in floats)
        w1, w2 = rng.choice([1, 2, 3, 4]), rng.choice([1, 2, 3])
        c0, c1 = refs[0]['comp'], refs[1]['comp']
        refs[-1]['comp'] = {d: w1 * c0.get(d, 0) + w2 * c1.get(d, 0) for d in descs
                            if w1 * c0.get(d, 0) + w2 * c1.get(d, 0)}
        if not refs[-1]['comp']:
            refs[-1]['comp'] = dict(c0)
    elif kind == 'deficient' and n >= 2:
        # duplicate a row / make a column proportional
        refs[-1]['comp'] = dict(refs[0]['comp'])
        if nd >= 2 and rng.random() < 0.5:
            a, b = descs[0], descs[1]
            for r in refs:
                r['comp'][b] = 2 * r['comp'].get(a, 0)
    # history
    n0 = rng.randint(1, n)
    ops = []
    i = n0
    while i < n:
        if rng.random() < 0.5 or i + 1 >= n:
            ops.append(['append', i]); i += 1
        else:
            k = rng.randint(2, n - i) if n - i >= 2 else 1
            ops.append(['extend', list(range(i, i + k))]); i += k
        if rng.random() < 0.3:
            ops.append(['pop'])
    if rng.random() < 0.2 and n0 >= 2:
        ops.insert(0, ['pop'])
    targets = []
    for t in range(3):
        comp = _comp_row(rng, descs, signed)
        if rng.random() < 0.4:
            comp[rng.choice([p for p in pool if p not in descs] or ['Xx'])] = rng.randint(1, 3)
        targets.append({'comp': comp, 'model': S.gen_statmech(rng, name='tgt%d' % t, gas=rng.choice([True, False]),
                                                              with_elements=False)})
    Ts = [round(S.logu(rng, 50, 5000), 3) for _ in range(3)]
    # the neighbourhood of the reference temperature (not the temperature itself) and the temperature itself
    Ts += [T0 * (1 + rng.choice([-1, 1]) * rng.choice([1e-9, 1e-6, 4e-6, 9e-6, 3e-5])), T0]
    return {'descriptor': 'groups' if custom else 'elements', 'key_type': rng.choice(['str', 'str', 'int', 'tuple']),
            'descs': descs, 'refs': refs, 'n0': n0, 'ops': ops,
            'targets': targets, 'Ts': Ts}


def directed(tier):
    import random
    rng = random.Random('c10-directed')
    D = []
    # the pinned H2 / H2O / O2 flavour: two descriptors, three references (over-determined, consistent or not)
    for _ in range(4):
        D.append(generate(rng, tier))
    cat = _catalogue()
    for k in sorted(cat):
        for A in cat[k]:
            D.append(generate(rng, tier, near_regular=A))
    return D


def install_probes(pr, ctx):
    def refs():
        from pmutt.empirical.references import References
        return References
    pr.watch(lambda: refs().fit_HoRT_offset, 'References.fit_HoRT_offset')
    pr.watch(lambda: refs().get_descriptors_matrix, 'References.get_descriptors_matrix')
    pr.watch(lambda: refs().get_HoRT, 'References.get_HoRT')
    pr.watch(lambda: refs().get_GoRT, 'References.get_GoRT')
    pr.watch(lambda: __import__('pmutt.statmech', fromlist=['x']).StatMech.get_quantity, 'StatMech.get_quantity')


_KEY_TYPE = {'t': 'str'}


def _keys(comp):
    """the dictionary handed to pMuTT: custom descriptor labels may be any hashable (integer group ids, bond
    tuples); the spec keeps strings, the mapping is one-to-one"""
    kt = _KEY_TYPE['t']
    if kt == 'int':
        return {(GROUP_POOL + ['Xx', 'Yy']).index(k) + 10 if k in GROUP_POOL + ['Xx', 'Yy'] else hash(k) % 1000 + 100: v
                for k, v in comp.items()}
    if kt == 'tuple':
        return {('grp', k): v for k, v in comp.items()}
    return dict(comp)


def _mk_reference(r, descriptor):
    from pmutt.empirical.references import Reference
    model = S.build_statmech(r['model'])
    kw = {'elements': dict(r['comp'])} if descriptor == 'elements' else {}
    ref = Reference(name=r['name'], T_ref=r['T_ref'], HoRT_ref=r['HoRT_ref'], model=model, **kw)
    if descriptor != 'elements':
        setattr(ref, descriptor, _keys(r['comp']))
    return ref


def _species(model_spec, comp, descriptor, references):
    sp = S.build_statmech(dict(model_spec, elements=dict(comp) if descriptor == 'elements' else None),
                          references=references)
    if descriptor != 'elements':
        setattr(sp, descriptor, _keys(comp))
    return sp


def _f(x):
    import numpy as np
    return float(np.squeeze(x))


def _check_set(ctx, spec, refs_obj, current, tag):
    """oracles for the current reference set (list of ref specs), after a fit"""
    import numpy as np
    descriptor = spec['descriptor']
    descs = sorted(set(d for r in current for d, v in r['comp'].items()))
    A = np.array([[r['comp'].get(d, 0) for d in descs] for r in current], dtype=float)
    rank = int(np.linalg.matrix_rank(A))
    nd, n = len(descs), len(current)
    Trefs = [r['T_ref'] for r in current]
    equal_T = max(Trefs) == min(Trefs)
    ctx.cls('tref:equal' if equal_T else 'tref:spread')
    if not equal_T and max(Trefs) - min(Trefs) < 1e-2:
        ctx.cls('tref:spread<0.01K')
    if any(v < 0 for r in current for v in r['comp'].values()):
        ctx.cls('descriptor:signed_counts')
        if A.size and (A.sum(axis=0) <= 0).any() and (A != 0).any(axis=0)[A.sum(axis=0) <= 0].any():
            ctx.cls('descriptor:column_total<=0')
    if rank == nd == n:
        rk = 'unique'
    elif rank == nd:
        rk = 'overdetermined'
    else:
        rk = 'deficient'
    ctx.cls('rank:' + rk)
    if rk == 'deficient' and nd == n and np.linalg.cond(A) < 1.0 / np.finfo(float).eps:
        ctx.cls('rank:deficient:square_cond_below_1/eps')
    ctx.nontrivial(nd >= 2 or rk == 'deficient' or tag != 'init')
    mech = {'rank': rk, 'descriptor': 'elements' if descriptor == 'elements' else 'custom', 'after': tag}
    # --- X1 / X2 through the plumbing
    dft = []
    resid = []
    ok = True
    for r in current:
        sp = _species(r['model'], r['comp'], descriptor, refs_obj)
        h = ctx.call('X1' if rk == 'unique' else 'X2', dict(mech, step='get_HoRT'), sp.get_HoRT, T=r['T_ref'])
        h0 = ctx.call('X5', dict(mech, step='get_HoRT_off'), sp.get_HoRT, T=r['T_ref'], use_references=False)
        if core.NOVALUE in (h, h0):
            ok = False
            break
        dft.append(_f(h0))
        resid.append(_f(h) - r['HoRT_ref'])
    if ok and equal_T:
        scale = max(1.0, max(abs(v) for v in dft), max(abs(r['HoRT_ref']) for r in current))
        if rk == 'unique':
            ctx.close('X1', resid, [0.0] * n, 1e-8 * max(1.0, float(np.linalg.cond(A))), mech, scale=scale,
                      resid=resid)
        else:
            ctx.close('X2', (A.T @ np.array(resid)).tolist(), [0.0] * nd, 1e-8, mech,
                      scale=scale * max(1.0, float(np.abs(A).sum())), resid=resid)
    # --- independently recomputed offsets (full column rank, equal T_ref)
    off_ref = None
    if ok and equal_T and rank == nd:
        rhs = np.array(dft) - np.array([r['HoRT_ref'] for r in current])
        off_ref = dict(zip(descs, np.linalg.lstsq(A, rhs, rcond=None)[0]))
    T_ref = float(np.mean(Trefs))
    # --- X3-X5 on targets
    for k, tg in enumerate(spec['targets']):
        comp = tg['comp']
        absent = [d for d in comp if d not in descs]
        if absent:
            ctx.cls('target:absent_descriptor')
        on = _species(tg['model'], comp, descriptor, refs_obj)
        off = _species(tg['model'], comp, descriptor, None)
        dbl = _species(tg['model'], {d: 2 * v for d, v in comp.items()}, descriptor, refs_obj)
        other = spec['targets'][(k + 1) % len(spec['targets'])]['comp']
        summed = dict(comp)
        for d, v in other.items():
            summed[d] = summed.get(d, 0) + v
        oth = _species(tg['model'], other, descriptor, refs_obj)
        both = _species(tg['model'], summed, descriptor, refs_obj)
        m3 = dict(mech)
        energies = {}
        for T in spec['Ts']:
            if T != T_ref and abs(T / T_ref - 1.0) <= 1e-5:
                ctx.cls('T:within_1e-5_of_T_ref')
            vals = {}
            bad = False
            for nm, fn, kw in (('H_on', on.get_HoRT, {}), ('H_off', off.get_HoRT, {}),
                               ('H_sw', on.get_HoRT, {'use_references': False}),
                               ('G_on', on.get_GoRT, {}), ('G_off', off.get_GoRT, {}),
                               ('G_sw', on.get_GoRT, {'use_references': False}),
                               ('H_dbl', dbl.get_HoRT, {}), ('H_oth', oth.get_HoRT, {}), ('H_both', both.get_HoRT, {})):
                v = ctx.call('X3', dict(m3, q=nm[0], step=nm), fn, T=T, **kw)
                if v is core.NOVALUE:
                    bad = True
                    break
                vals[nm] = _f(v)
            if bad:
                continue
            scale = max(1.0, abs(vals['H_off']))
            eH = (vals['H_on'] - vals['H_off']) * T
            eG = (vals['G_on'] - vals['G_off']) * T
            energies[T] = eH
            ctx.close('X3', eG, eH, 1e-9, dict(m3, what='G_gets_same_energy'), scale=scale * T)
            ctx.close('X3', (vals['H_dbl'] - vals['H_off']) * T, 2 * eH, 1e-9, dict(m3, what='homogeneous'),
                      scale=scale * T)
            ctx.close('X3', (vals['H_both'] - vals['H_off']) * T, eH + (vals['H_oth'] - vals['H_off']) * T, 1e-9,
                      dict(m3, what='additive'), scale=scale * T)
            if off_ref is not None:
                want = -sum(off_ref.get(d, 0.0) * v for d, v in comp.items()) * T_ref
                ctx.close('X3', eH, want, 1e-7 * max(1.0, float(np.linalg.cond(A))), dict(m3, what='value'),
                          scale=scale * T + max(abs(x) for x in off_ref.values()) * T_ref * sum(comp.values()))
            ctx.check('X5', vals['H_sw'] == vals['H_off'] and vals['G_sw'] == vals['G_off'], dict(mech, what='bitwise'),
                      H_sw=vals['H_sw'], H_off=vals['H_off'], G_sw=vals['G_sw'], G_off=vals['G_off'])
            # options in PAIRS: G of formation (S_elements) with references switched off / on
            if descriptor == 'elements' and all(v == int(v) and v >= 0 for v in comp.values()) and not absent:
                try:
                    from pmutt import constants as c_
                    known = all(d in c_.S_elements for d in comp)
                except Exception:
                    known = False
                if known:
                    gs = {}
                    for nm, fn, kw in (('on', on.get_GoRT, {}), ('sw', on.get_GoRT, {'use_references': False}),
                                       ('off', off.get_GoRT, {})):
                        v = ctx.call('X5', dict(mech, what='S_elements+use_references', step=nm), fn, T=T,
                                     S_elements=True, **kw)
                        if v is not core.NOVALUE:
                            gs[nm] = _f(v)
                    if len(gs) == 3:
                        ctx.cls('options:S_elements+use_references')
                        ctx.check('X5', gs['sw'] == gs['off'], dict(mech, what='S_elements+use_references_off'),
                                  sw=gs['sw'], off=gs['off'])
                        ctx.close('X3', (gs['on'] - gs['off']) * T, eH, 1e-9, dict(m3, what='G_gets_same_energy',
                                                                                   options='S_elements'), scale=scale * T)
            # a temperature addressed to this species through its <name>_kwargs block must reach the reference
            # adjustment as well as the modes
            blk = {'%s_kwargs' % tg['model']['name']: {'T': T}}
            hb = ctx.call('X3', dict(m3, what='T_via_species_block'), on.get_HoRT, T=0.5 * T + 100., **blk)
            if hb is not core.NOVALUE:
                ctx.close('X3', _f(hb), vals['H_on'], 1e-10, dict(m3, what='T_via_species_block'), scale=scale)
            # the same through the dimensional getters (value with units switched off == never referenced)
            for q in ('get_H', 'get_G'):
                a = ctx.call('X5', dict(mech, q=q, what='dimensional'), getattr(on, q), units='kJ/mol', T=T,
                             use_references=False)
                b = ctx.call('X5', dict(mech, q=q, what='dimensional'), getattr(off, q), units='kJ/mol', T=T)
                c_on = ctx.call('X3', dict(m3, q=q, what='dimensional'), getattr(on, q), units='kJ/mol', T=T)
                if core.NOVALUE not in (a, b):
                    ctx.check('X5', _f(a) == _f(b), dict(mech, q=q, what='dimensional'), sw=_f(a), off=_f(b))
                if core.NOVALUE not in (c_on, b):
                    # energy added in kJ/mol = eH (in K) times R
                    ctx.close('X3', (_f(c_on) - _f(b)) / 8.3144598e-3, eH, 1e-8, dict(m3, q=q, what='dimensional'),
                              scale=scale * T)
            for q in ('get_SoR', 'get_CvoR', 'get_CpoR'):
                a = ctx.call('X4', dict(mech, q=q), getattr(on, q), T=T)
                b = ctx.call('X4', dict(mech, q=q), getattr(off, q), T=T)
                if core.NOVALUE not in (a, b):
                    ctx.check('X4', _f(a) == _f(b), dict(mech, q=q), on=_f(a), off=_f(b))
        if len(energies) >= 2:
            es = list(energies.values())
            sc = max(1.0, max(abs(e) for e in es))
            ctx.close('X3', es[1:], [es[0]] * (len(es) - 1), 1e-9, dict(m3, what='T_independent'), scale=sc)


def run_case(spec, ctx):
    from pmutt.empirical.references import References
    descriptor = spec['descriptor']
    ctx.cls('descriptor:' + ('elements' if descriptor == 'elements' else 'custom'))
    _KEY_TYPE['t'] = spec.get('key_type', 'str') if descriptor != 'elements' else 'str'
    if descriptor != 'elements':
        ctx.cls('descriptor:keys=' + _KEY_TYPE['t'])
    objs = [_mk_reference(r, descriptor) for r in spec['refs']]
    current = list(range(spec['n0']))
    refs = ctx.call('X1', {'step': 'construct'}, References, references=[objs[i] for i in current],
                    descriptor=descriptor)
    if refs is core.NOVALUE:
        return
    _check_set(ctx, spec, refs, [spec['refs'][i] for i in current], 'init')
    shadows = []
    for k_op, op in enumerate(spec['ops']):
        if k_op == 0 and (ctx.case_index or 0) % 3 == 0:
            # an independent copy taken straight from the dictionary (no JSON text in between)
            cp = ctx.call('X2', {'step': 'from_dict(to_dict)'}, lambda r_: References.from_dict(r_.to_dict()), refs)
            if cp is not core.NOVALUE:
                ctx.cls('history:dict_copy')
                shadows.append((cp, dict(cp.offset), [spec['refs'][i] for i in current]))
        if op[0] == 'append':
            ctx.cls('history:append')
            refs.append(objs[op[1]]); current.append(op[1])
        elif op[0] == 'extend':
            ctx.cls('history:extend')
            refs.extend([objs[i] for i in op[1]]); current.extend(op[1])
        elif op[0] == 'pop':
            if len(current) <= 1:
                continue
            ctx.cls('history:pop')
            refs.pop(); current.pop()
        r = ctx.call('X2', {'step': 'refit', 'after': op[0]}, refs.fit_HoRT_offset)
        if r is core.NOVALUE:
            return
        _check_set(ctx, spec, refs, [spec['refs'][i] for i in current], op[0])
    # --- a second, differently fitted reference set is alive at the same time and is asked about the same
    #     compositions: the first set's answers must not move
    if (ctx.case_index or 0) % 2 == 0:
        cur = [spec['refs'][i] for i in current]
        objs2 = [_mk_reference(dict(r, HoRT_ref=r['HoRT_ref'] + 11.0 + 7.5 * k), descriptor) for k, r in enumerate(cur)]
        refs2 = ctx.call('X2', {'step': 'construct_second_set'}, References, references=objs2, descriptor=descriptor)
        if refs2 is not core.NOVALUE:
            ctx.cls('history:second_live_set')
            for item in cur + spec['targets']:
                sp2 = _species(item['model'], item['comp'], descriptor, refs2)
                ctx.call('X3', {'step': 'second_set_get_HoRT'}, sp2.get_HoRT, T=spec['Ts'][0])
            _check_set(ctx, spec, refs, cur, 'other_set_evaluated')
    for cp, off0, cur0 in shadows:
        same = set(cp.offset) == set(off0) and all(cp.offset[k_] == off0[k_] for k_ in off0)
        ctx.check('X2', same, {'step': 'dict_copy_changed_by_refit_of_original'}, before=off0, after=dict(cp.offset))

"""C20  Equations of state invert consistently.

Z1 ideal gas: solve for each of P, V, T, n and substitute back; PV = nRT with the SI R.
Z2 van der Waals: the selected root is a root (back-substitution into get_P / get_T /
   get_n, tolerance propagated through the analytic conditioning of the root) and it is
   the largest (gas) / smallest (liquid) real root of the cubic (reference: deflation).
Z3 V proportional to n.  Z4 vdW -> ideal as density -> 0 (second-virial bound).
Z5 critical constants reproduce the inputs of from_critical, Vc = 3 n b, a and b equal
   their textbook expressions.
"""
import math

from vf import core
from vf.ref import units as U

ID = 'C20'
N = {'quick': 150000, 'thorough': 2000000}
NT_RULE = ('state = (T, P, n) log-uniform in 50-3000 K, 1e-3-1e3 bar, 1e-3-1e3 mol with vdW parameters '
           'a 0.003-3, b 1e-5-2e-4 (or built from Tc 5-1000 K, Pc 1-300 bar), stratified into '
           'sub-/super-critical isotherms; non-trivial = sub-critical state with three real roots or a '
           'liquid-root evaluation; distinct = distinct canonical JSON of the case')
REQUIRED_ORACLES = ['Z1', 'Z2', 'Z2root', 'Z3', 'Z4', 'Z5']
REQUIRED_CLASSES = ['roots:3', 'roots:1', 'T<Tc', 'T>Tc', 'root:liquid', 'root:gas', 'from_critical', 'state:dense_supercritical', 'state:light_gas_hot', 'state:critical_exact', 'state:near_critical', 'state:near_critical<=1e-5',
                    'call:positional', 'hist:nearby_state:abs', 'hist:nearby_state:rel',
                    'hist:narrow_type_call_first', 'stress:threads:own_objects', 'stress:threads:shared_object']
REQUIRED_PROBES = ['vanDerWaalsEOS.get_Vm', 'IdealGasEOS.get_V']
ASSUMPTIONS = ['back-substitution tolerance = 1e-10 * |dX/dlnV| + 1e-11*|X|: the cubic solver returns a '
               'volume with relative error <~1e-12, and the map V->P is ill-conditioned on the liquid root '
               '(observed plain relative residual up to 3e-5 there on correct code, conditioning-scaled '
               'residual <= 3e-13)',
               'R compared with CODATA 2018 to 2e-6 (pMuTT tabulates CODATA 2014)']

R_SI = U.R_SI


def _lu(rng, lo, hi):
    return float('%.8g' % math.exp(rng.uniform(math.log(lo), math.log(hi))))


def directed(tier):
    D = []
    # CO2-like, sub-critical three-root state, super-critical state, defaults
    D.append({'kind': 'vdw', 'a': 0.3640, 'b': 4.267e-5, 'T': 250.0, 'P': 15.0, 'n': 2.5})
    D.append({'kind': 'vdw', 'a': 0.3640, 'b': 4.267e-5, 'T': 400.0, 'P': 100.0, 'n': 0.01})
    D.append({'kind': 'vdw', 'a': 0.3640, 'b': 4.267e-5, 'T': 298.15, 'P': 1.0, 'n': 1.0})
    D.append({'kind': 'crit', 'Tc': 304.13, 'Pc': 73.77, 'T': 280.0, 'P': 40.0, 'n': 3.0})
    D.append({'kind': 'crit', 'Tc': 5.0, 'Pc': 1.0, 'T': 50.0, 'P': 0.001, 'n': 1000.0})
    D.append({'kind': 'crit', 'Tc': 1000.0, 'Pc': 300.0, 'T': 900.0, 'P': 100.0, 'n': 0.001})
    D.append({'kind': 'vdw', 'a': 0.00346, 'b': 2.38e-5, 'T': 300.0, 'P': 1.0, 'n': 1.0})        # He
    D.append({'kind': 'vdw', 'a': 0.0248, 'b': 2.66e-5, 'T': 1500.0, 'P': 50.0, 'n': 2.0})      # H2, hot
    D.append({'kind': 'vdw', 'a': 0.3640, 'b': 4.267e-5, 'T': 320.0, 'P': 150.0, 'n': 1.0})     # CO2 dense supercritical
    D.append({'kind': 'vdw', 'a': 0.3640, 'b': 4.267e-5, 'T': 350.0, 'P': 300.0, 'n': 0.5})
    D.append({'kind': 'critical_exact', 'a': 0.3640, 'b': 4.267e-5, 'ns': [1.0, 0.02, 2.5, 250.0]})
    D.append({'kind': 'critical_exact', 'a': 0.00346, 'b': 2.38e-5, 'ns': [0.5, 7.0]})
    for sT, sP, d in ((1, -1, 8e-6), (-1, 1, 8e-6), (1, 1, 3e-6), (-1, -1, 1e-6), (1, -1, 1e-4), (-1, 1, 1e-8)):
        a_, b_ = 0.3640, 4.267e-5
        D.append({'kind': 'vdw', 'a': a_, 'b': b_, 'T': 8 * a_ / (27 * b_ * R_SI) * (1 + sT * d),
                  'P': a_ / (27 * b_ * b_) / 1e5 * (1 + sP * d), 'n': 1.5})
    D.append({'kind': 'ideal', 'T': 298.15, 'P': 1.0, 'n': 1.0})
    D.append({'kind': 'ideal', 'T': 3000.0, 'P': 1e-3, 'n': 1e3})
    D.append({'kind': 'defaults'})
    D.append({'kind': 'threads', 'shared_object': False, 'loops': 200, 'states': [
        {'a': 0.3640, 'b': 4.267e-5, 'T': 250.0, 'P': 15.0, 'n': 2.5}, {'a': 0.547, 'b': 30.52e-6, 'T': 500.0, 'P': 1.0, 'n': 1.0},
        {'a': 0.00346, 'b': 2.38e-5, 'T': 300.0, 'P': 100.0, 'n': 0.1}, {'a': 0.1382, 'b': 3.186e-5, 'T': 120.0, 'P': 5.0, 'n': 3.0}]})
    D.append({'kind': 'threads', 'shared_object': True, 'loops': 200, 'states': [
        {'a': 0.3640, 'b': 4.267e-5, 'T': 250.0, 'P': 15.0, 'n': 2.5}, {'a': 0.3640, 'b': 4.267e-5, 'T': 400.0, 'P': 1.0, 'n': 1.0},
        {'a': 0.3640, 'b': 4.267e-5, 'T': 300.0, 'P': 100.0, 'n': 0.1}]})
    D.append({'kind': 'vdw', 'a': 0.3640, 'b': 4.267e-5, 'T': 300.0, 'P': 16.0, 'n': 1.0, 'narrow_first': 'float32'})
    D.append({'kind': 'vdw', 'a': 0.3640, 'b': 4.267e-5, 'T': 2500.0, 'P': 0.0009765625, 'n': 1.0, 'narrow_first': 'float16'})
    return D


def _gen_threads(rng):
    return {'kind': 'threads', 'states': [{'a': _lu(rng, 0.003, 3), 'b': _lu(rng, 1e-5, 2e-4), 'T': _lu(rng, 50, 3000),
                                           'P': _lu(rng, 1e-3, 1e3), 'n': _lu(rng, 1e-3, 1e3)}
                                          for _ in range(rng.choice([3, 4, 6]))],
            'shared_object': rng.random() < 0.5, 'loops': 150}


def generate(rng, tier):
    if rng.random() < 0.0008:
        return _gen_threads(rng)
    if rng.random() < 0.01:
        return {'kind': 'critical_exact', 'a': _lu(rng, 0.003, 3), 'b': _lu(rng, 1e-5, 2e-4),
                'ns': [_lu(rng, 1e-3, 1e3) for _ in range(3)]}
    k = rng.choice(['vdw', 'vdw', 'vdw', 'crit', 'crit', 'ideal'])
    T, P, n = _lu(rng, 50, 3000), _lu(rng, 1e-3, 1e3), _lu(rng, 1e-3, 1e3)
    if k == 'ideal':
        return {'kind': k, 'T': T, 'P': P, 'n': n}
    if k == 'vdw':
        a, b = _lu(rng, 0.003, 3), _lu(rng, 1e-5, 2e-4)
        Tc, Pc = 8 * a / (27 * b * R_SI), a / (27 * b * b) / 1e5
    else:
        Tc, Pc = _lu(rng, 5, 1000), _lu(rng, 1, 300)
    mode = rng.choice(['any', 'sub3', 'sub', 'super', 'super_near', 'lightgas', 'near_critical'])
    if mode == 'near_critical':
        # a neighbourhood of the critical point, NOT the point itself: both T and P within 1e-4 .. 1e-9
        # (relative) of the critical constants, on either side (full double precision, no rounding of the spec)
        T = Tc * (1.0 + rng.choice([-1, 1]) * rng.choice([1e-4, 8e-6, 3e-6, 1e-6, 1e-7, 1e-9]))
        P = Pc * (1.0 + rng.choice([-1, 1]) * rng.choice([1e-4, 8e-6, 3e-6, 1e-6, 1e-7, 1e-9]))
        if not (50.0 <= T <= 3000.0 and 1e-3 <= P <= 1e3):
            mode = 'any'
            T, P = _lu(rng, 50, 3000), _lu(rng, 1e-3, 1e3)
    if mode == 'lightgas' and k == 'vdw':
        # He / H2 / Ne-like parameters far above Tc (the liquid-root request then has a single real root)
        a, b = _lu(rng, 0.003, 0.03), _lu(rng, 1.5e-5, 3e-5)
        Tc, Pc = 8 * a / (27 * b * R_SI), a / (27 * b * b) / 1e5
        T = float('%.8g' % rng.uniform(max(50.0, 3 * Tc), 3000.0))
    if mode == 'super_near':
        # dense supercritical states next to the critical isotherm
        T = float('%.8g' % min(3000.0, max(50.0, Tc * rng.uniform(1.001, 1.3))))
        P = float('%.8g' % min(1e3, max(1e-3, Pc * rng.uniform(1.1, 5.0))))
    if mode in ('sub3', 'sub') and Tc > 55:
        T = float('%.8g' % rng.uniform(max(50.0, 0.5 * Tc), min(3000.0, 0.999 * Tc)))
        if mode == 'sub3':
            # pressures around the vdW saturation region: somewhere below Pc
            P = float('%.8g' % min(1e3, max(1e-3, Pc * rng.uniform(0.05, 1.0) * (T / Tc) ** 4)))
    elif mode == 'super' and Tc < 2900:
        T = float('%.8g' % rng.uniform(max(50.0, 1.001 * Tc), 3000.0))
    narrow = None
    if mode in ('any', 'super', 'sub') and rng.random() < 0.25:
        # a state whose T and P are exactly representable in single / half precision: an earlier call on the same
        # parameters passes them as np.float32 / np.float16 (a cached answer must not leak into the float call)
        import numpy as np
        narrow = rng.choice(['float32', 'float32', 'float16'])
        T = float(getattr(np, narrow)(round(T)))
        P = float(getattr(np, narrow)(2.0 ** round(math.log2(P))))
    if k == 'vdw':
        return {'kind': k, 'a': a, 'b': b, 'T': T, 'P': P, 'n': n, 'narrow_first': narrow}
    return {'kind': k, 'Tc': Tc, 'Pc': Pc, 'T': T, 'P': P, 'n': n, 'narrow_first': narrow}


def install_probes(pr, ctx):
    def eos():
        import pmutt.eos
        return pmutt.eos
    for m in ('get_Vm', 'get_V', 'get_P', 'get_T', 'get_n', 'get_Pc', 'get_Tc', 'get_Vc', 'from_critical'):
        pr.watch(lambda m=m: getattr(eos().vanDerWaalsEOS, m), 'vanDerWaalsEOS.' + m)
    for m in ('get_V', 'get_P', 'get_T', 'get_n'):
        pr.watch(lambda m=m: getattr(eos().IdealGasEOS, m), 'IdealGasEOS.' + m)


# ------------------------------------------------------------------ reference
def real_roots(P_SI, T, a, b, R):
    """Real roots of P V^3 - (P b + R T) V^2 + a V - a b = 0 by an independent method:
    exact sign of the discriminant (rational arithmetic) gives the number of distinct real
    roots; all of them lie in (b, b + RT/P]; they are located by a sign scan on a geometric
    grid of V-b followed by bisection.  Returns (roots or None if the scan disagrees with the
    discriminant / the discriminant is too close to zero, n_real)."""
    import numpy as np
    from fractions import Fraction as F
    A, B, C, D = F(P_SI), -(F(P_SI) * F(b) + F(R) * F(T)), F(a), -F(a) * F(b)
    terms = [18 * A * B * C * D, -4 * B ** 3 * D, B * B * C * C, -4 * A * C ** 3, -27 * A * A * D * D]
    disc = sum(terms)
    mag = sum(abs(t) for t in terms)
    if mag == 0 or abs(disc) < F(1, 10 ** 9) * mag:
        return None, 0
    n_real = 3 if disc > 0 else 1
    Af, Bf, Cf, Df = float(A), float(B), float(C), float(D)
    span = R * T / P_SI
    w = np.concatenate([[0.0], span * np.logspace(-14, 0, 4000) * (1 + 1e-9)])
    V = b + w

    def f(v):
        return ((Af * v + Bf) * v + Cf) * v + Df
    fv = f(V)
    idx = np.nonzero(np.sign(fv[:-1]) * np.sign(fv[1:]) < 0)[0]
    if len(idx) != n_real:
        return None, n_real
    roots = []
    for i in idx:
        lo, hi = V[i], V[i + 1]
        flo = f(lo)
        for _ in range(200):
            mid = 0.5 * (lo + hi)
            if mid == lo or mid == hi:
                break
            fm = f(mid)
            if (fm < 0) == (flo < 0):
                lo, flo = mid, fm
            else:
                hi = mid
        roots.append(0.5 * (lo + hi))
    return sorted(roots), n_real


def _ideal(spec, ctx):
    from pmutt.eos import IdealGasEOS
    e = IdealGasEOS()
    T, P, n = spec['T'], spec['P'], spec['n']
    ctx.cls('ideal')
    m = {'eos': 'ideal'}
    V = ctx.call('Z1', dict(m, solve='V'), e.get_V, T=T, P=P, n=n)
    if V is core.NOVALUE:
        return
    ctx.close('Z1', V * P * 1e5 / (n * R_SI * T), 1.0, 2e-6, dict(m, solve='V', what='PV=nRT'))
    for name, fn, kw, want in (('P', e.get_P, dict(T=T, V=V, n=n), P), ('T', e.get_T, dict(V=V, P=P, n=n), T),
                               ('n', e.get_n, dict(V=V, P=P, T=T), n)):
        r = ctx.call('Z1', dict(m, solve=name), fn, **kw)
        if r is not core.NOVALUE:
            ctx.close('Z1', r / want, 1.0, 1e-12, dict(m, solve=name), want=want, got=r)
    # start from each of the others as the unknown as well
    Pn = ctx.call('Z1', dict(m, solve='P'), e.get_P, T=T, V=V * 1.7, n=n)
    if Pn is not core.NOVALUE:
        Tb = ctx.call('Z1', dict(m, solve='T'), e.get_T, V=V * 1.7, P=Pn, n=n)
        if Tb is not core.NOVALUE:
            ctx.close('Z1', Tb / T, 1.0, 1e-12, dict(m, solve='T', via='P'))
    V2 = ctx.call('Z3', m, e.get_V, T=T, P=P, n=2 * n)
    if V2 is not core.NOVALUE:
        ctx.close('Z3', V2 / V, 2.0, 1e-12, m)


def _defaults(spec, ctx):
    from pmutt.eos import IdealGasEOS, vanDerWaalsEOS
    from pmutt import constants as c
    e = IdealGasEOS()
    m = {'eos': 'ideal', 'what': 'defaults'}
    V = ctx.call('Z1', m, e.get_V)
    if V is not core.NOVALUE:
        ctx.close('Z1', V * 1e5 / (R_SI * 298.15), 1.0, 2e-6, m)
        for name, fn in (('P', e.get_P), ('T', e.get_T), ('n', e.get_n)):
            r = ctx.call('Z1', dict(m, solve=name), fn)
            want = {'P': 1.0, 'T': 298.15, 'n': 1.0}[name]
            if r is not core.NOVALUE:
                ctx.close('Z1', r / want, 1.0, 1e-9, dict(m, solve=name))
    w = vanDerWaalsEOS(a=0.3640, b=4.267e-5)
    Vg = ctx.call('Z2', {'eos': 'vdw', 'what': 'defaults'}, w.get_V)
    if Vg is not core.NOVALUE:
        Pb = ctx.call('Z2', {'eos': 'vdw', 'what': 'defaults'}, w.get_P, V=Vg)
        if Pb is not core.NOVALUE:
            ctx.close('Z2', Pb, 1.0, 1e-9, {'eos': 'vdw', 'what': 'defaults'})
    ctx.nontrivial(False)


def _vdw(spec, ctx):
    from pmutt.eos import vanDerWaalsEOS
    T, P, n = spec['T'], spec['P'], spec['n']
    if spec['kind'] == 'crit':
        ctx.cls('from_critical')
        Tc, Pc = spec['Tc'], spec['Pc']
        e = ctx.call('Z5', {'step': 'from_critical'}, vanDerWaalsEOS.from_critical, Tc=Tc, Pc=Pc)
        if e is core.NOVALUE:
            return
        tc = ctx.call('Z5', {'step': 'get_Tc'}, e.get_Tc)
        pc = ctx.call('Z5', {'step': 'get_Pc'}, e.get_Pc)
        if tc is not core.NOVALUE:
            ctx.close('Z5', tc / Tc, 1.0, 1e-12, {'step': 'get_Tc'}, Tc=Tc, got=tc)
        if pc is not core.NOVALUE:
            ctx.close('Z5', pc / Pc, 1.0, 1e-12, {'step': 'get_Pc'}, Pc=Pc, got=pc)
        ctx.close('Z5', e.a / (27. / 64. * (R_SI * Tc) ** 2 / (Pc * 1e5)), 1.0, 2e-6, {'step': 'a'})
        ctx.close('Z5', e.b / (R_SI * Tc / 8. / (Pc * 1e5)), 1.0, 2e-6, {'step': 'b'})
        a, b = e.a, e.b
        # history: a user edits the public parameters of one object and builds another one from the
        # same critical constants -- the second must again reproduce them (no shared / cached object)
        e_edit = ctx.call('Z5', {'step': 'from_critical', 'history': 'edit_then_rebuild'},
                          vanDerWaalsEOS.from_critical, Tc=Tc, Pc=Pc)
        if e_edit is not core.NOVALUE:
            e_edit.a = e_edit.a * 1.5
            e_edit.b = e_edit.b * 0.7
            e_new = ctx.call('Z5', {'step': 'from_critical', 'history': 'edit_then_rebuild'},
                             vanDerWaalsEOS.from_critical, Tc=Tc, Pc=Pc)
            if e_new is not core.NOVALUE:
                ctx.close('Z5', [e_new.get_Tc() / Tc, e_new.get_Pc() / Pc, e.get_Tc() / Tc], [1.0, 1.0, 1.0], 1e-12,
                          {'step': 'rebuild_after_edit'})
    else:
        a, b = spec['a'], spec['b']
        e = vanDerWaalsEOS(a=a, b=b)
        tc = ctx.call('Z5', {'step': 'get_Tc'}, e.get_Tc)
        pc = ctx.call('Z5', {'step': 'get_Pc'}, e.get_Pc)
        if tc is not core.NOVALUE:
            ctx.close('Z5', tc / (8 * a / (27 * b * R_SI)), 1.0, 2e-6, {'step': 'get_Tc', 'vs': 'textbook'})
        if pc is not core.NOVALUE:
            ctx.close('Z5', pc / (a / (27 * b * b) / 1e5), 1.0, 1e-9, {'step': 'get_Pc', 'vs': 'textbook'})
        if core.NOVALUE not in (tc, pc):
            e2 = ctx.call('Z5', {'step': 'from_critical'}, vanDerWaalsEOS.from_critical, Tc=tc, Pc=pc)
            if e2 is not core.NOVALUE:
                ctx.close('Z5', [e2.a / a, e2.b / b], [1.0, 1.0], 1e-12, {'step': 'roundtrip_ab'})
    if spec.get('narrow_first'):
        import numpy as np
        nt = getattr(np, spec['narrow_first'])
        if float(nt(T)) == T and float(nt(P)) == P:
            ctx.cls('hist:narrow_type_call_first')
            for gas in (True, False):
                try:        # the narrow-typed call is outside the documented types: whatever it does is not judged,
                    e.get_Vm(T=nt(T), P=nt(P), gas_phase=gas)        # only what the float calls do afterwards
                except Exception:
                    ctx.extra['narrow_first_call_raised'] = ctx.extra.get('narrow_first_call_raised', 0) + 1
    vc = ctx.call('Z5', {'step': 'get_Vc'}, e.get_Vc, n=n)
    if vc is not core.NOVALUE:
        ctx.close('Z5', vc / (3 * n * b), 1.0, 1e-12, {'step': 'get_Vc'})
    Tc_ref = 8 * a / (27 * b * R_SI)
    ctx.cls('T<Tc' if T < Tc_ref else 'T>Tc')
    Pc_ref = a / (27 * b * b) / 1e5
    if Tc_ref < T <= 1.3 * Tc_ref and 1.1 * Pc_ref <= P <= 5 * Pc_ref:
        ctx.cls('state:dense_supercritical')
    if a <= 0.03 and T >= 3 * Tc_ref:
        ctx.cls('state:light_gas_hot')
    dc = max(abs(T / Tc_ref - 1.0), abs(P / Pc_ref - 1.0))
    if 0 < dc <= 2e-4:
        ctx.cls('state:near_critical')
        if dc <= 1.2e-5:
            ctx.cls('state:near_critical<=1e-5')
    P_SI = P * 1e5
    picked = {}
    from pmutt import constants as c
    roots, nroots = real_roots(P_SI, T, a, b, c.R('J/mol/K'))
    for gas in (True, False):
        rootname = 'gas' if gas else 'liquid'
        m = {'eos': 'vdw', 'root': rootname}
        Vm = ctx.call('Z2', dict(m, step='get_Vm'), e.get_Vm, T=T, P=P, gas_phase=gas)
        if Vm is core.NOVALUE:
            continue
        Vm = float(Vm)
        picked[gas] = Vm
        if roots is None:
            ctx.inconc('Z2root', 'reference root finder undecided', nroots=nroots)
        if gas:
            ctx.cls('roots:%d' % nroots)
            if nroots == 3:
                ctx.nontrivial()
        else:
            ctx.nontrivial()
        ctx.cls('root:' + rootname)
        # --- it is the largest / smallest real root
        if roots is not None:
            want = max(roots) if gas else min(roots)
            ctx.close('Z2root', Vm / want, 1.0, 1e-6, dict(m, nroots=nroots), roots=roots, got=Vm)
        if not ctx.check('Z2root', Vm > b, dict(m, what='V<=b'), Vm=Vm, b=b):
            continue
        # --- back substitution with conditioning-aware tolerance
        dPdlnV = abs(-R_SI * T * Vm / (Vm - b) ** 2 + 2 * a / Vm ** 2) / 1e5
        V = ctx.call('Z2', dict(m, step='get_V'), e.get_V, T=T, P=P, n=n, gas_phase=gas)
        if V is core.NOVALUE:
            continue
        ctx.close('Z3', V / (n * Vm), 1.0, 1e-12, m)
        Pb = ctx.call('Z2', dict(m, step='get_P'), e.get_P, T=T, V=V, n=n)
        if Pb is not core.NOVALUE:
            tolP = 1e-10 * dPdlnV + 1e-11 * P
            ctx.check('Z2', abs(Pb - P) <= tolP, dict(m, step='get_P'), P=P, back=Pb, tol=tolP, Vm=Vm)
            # independent evaluation of the vdW equation at the returned volume
            P_ref = (R_SI * T / (Vm - b) - a / Vm ** 2) / 1e5
            ctx.check('Z2', abs(Pb - P_ref) <= 2e-6 * (abs(R_SI * T / (Vm - b)) + a / Vm ** 2) / 1e5,
                      dict(m, step='get_P', vs='textbook'), back=Pb, ref=P_ref)
        Tb = ctx.call('Z2', dict(m, step='get_T'), e.get_T, V=V, P=P, n=n)
        if Tb is not core.NOVALUE:
            dTdlnV = abs((P_SI + a / Vm ** 2) * Vm - 2 * a * (Vm - b) / Vm ** 2) / R_SI
            tolT = 1e-10 * dTdlnV + 1e-11 * T
            ctx.check('Z2', abs(Tb - T) <= tolT, dict(m, step='get_T'), T=T, back=Tb, tol=tolT, Vm=Vm)
        nb = ctx.call('Z2', dict(m, step='get_n'), e.get_n, V=V, P=P, T=T, gas_phase=gas)
        if nb is not core.NOVALUE:
            ctx.close('Z2', nb / n, 1.0, 1e-12, dict(m, step='get_n'))
        V3 = ctx.call('Z3', m, e.get_V, T=T, P=P, n=3 * n, gas_phase=gas)
        if V3 is not core.NOVALUE:
            ctx.close('Z3', V3 / V, 3.0, 1e-12, m)
    # --- the documented positional call forms give what the keyword forms give
    #     get_Vm(T, P, gas_phase) get_V(T, P, n, gas_phase) get_P(T, V, n) get_T(V, P, n) get_n(V, P, T, gas_phase)
    if True in picked:
        ctx.cls('call:positional')
        Vg = picked[True] * n
        mp = {'eos': 'vdw', 'call': 'positional'}
        for step, pos, kw in (('get_Vm', (T, P, True), dict(T=T, P=P, gas_phase=True)),
                              ('get_Vm', (T, P, False), dict(T=T, P=P, gas_phase=False)),
                              ('get_V', (T, P, n, False), dict(T=T, P=P, n=n, gas_phase=False)),
                              ('get_P', (T, Vg, n), dict(T=T, V=Vg, n=n)),
                              ('get_T', (Vg, P, n), dict(V=Vg, P=P, n=n)),
                              ('get_n', (Vg, P, T, True), dict(V=Vg, P=P, T=T, gas_phase=True))):
            gp = ctx.call('Z2', dict(mp, step=step), getattr(e, step), *pos)
            gk = ctx.call('Z2', dict(mp, step=step), getattr(e, step), **kw)
            if core.NOVALUE not in (gp, gk):
                ctx.check('Z2', float(gp) == float(gk), dict(mp, step=step), positional=float(gp), keyword=float(gk))
    # --- history: a sweep of NEARBY states on the same object (finite-difference steps, fine grids): every
    #     answer must be a root for ITS state (nothing reused from the neighbour)
    if True in picked:
        ci = ctx.case_index or 0
        steps = [('rel', [1e-4, 1e-7, 1e-10, -1e-6][ci % 4]), ('abs', [4e-7, -4e-7, 1e-9, 3e-8][(ci // 4) % 4])]
        for kind_, d in steps:
            for var in ('P', 'T'):
                T2 = T * (1 + d) if (var == 'T' and kind_ == 'rel') else (T + d if var == 'T' else T)
                P2 = P * (1 + d) if (var == 'P' and kind_ == 'rel') else (P + d if var == 'P' else P)
                if not (P2 > 0 and T2 > 0) or (T2 == T and P2 == P):
                    continue
                ctx.cls('hist:nearby_state:' + kind_)
                for gas in (True, False):
                    mh = {'eos': 'vdw', 'root': 'gas' if gas else 'liquid', 'history': 'nearby_state', 'varied': var,
                          'step': kind_}
                    v2 = ctx.call('Z2', dict(mh, step2='get_Vm'), e.get_Vm, T=T2, P=P2, gas_phase=gas)
                    if v2 is core.NOVALUE:
                        continue
                    v2 = float(v2)
                    if not v2 > b:
                        ctx.fail('Z2root', dict(mh, what='V<=b'), Vm=v2, b=b)
                        continue
                    Rp = c.R('J/mol/K')      # the library's own R (its value is checked by Z2 'textbook' and C12)
                    P_back = (Rp * T2 / (v2 - b) - a / v2 ** 2) / 1e5
                    cond_ = abs(-Rp * T2 * v2 / (v2 - b) ** 2 + 2 * a / v2 ** 2) / 1e5
                    tol2 = 1e-10 * cond_ + 1e-11 * P2
                    ctx.check('Z2', abs(P_back - P2) <= tol2, mh, P=P2, T=T2, back=P_back, tol=tol2, Vm=v2,
                              first_state={'T': T, 'P': P})
    # --- history: the user re-assigns the public parameters of a live object and solves the same state again
    #     (nothing may be remembered from the first solve): compare with a fresh object
    if True in picked:
        a2, b2 = a * 1.3, b * 0.8
        e.a, e.b = a2, b2
        fresh = vanDerWaalsEOS(a=a2, b=b2)
        for gas in (True, False):
            m = {'eos': 'vdw', 'root': 'gas' if gas else 'liquid', 'history': 'parameters_reassigned'}
            v1 = ctx.call('Z2', dict(m, step='get_V'), e.get_V, T=T, P=P, n=n, gas_phase=gas)
            v2 = ctx.call('Z2', dict(m, step='get_V'), fresh.get_V, T=T, P=P, n=n, gas_phase=gas)
            if core.NOVALUE not in (v1, v2):
                ctx.check('Z2', float(v1) == float(v2), dict(m, step='get_V'), live=float(v1), fresh=float(v2))
        e.a, e.b = a, b
    # --- batches of states: ndarray arguments give the element-wise results and are left untouched
    if True in picked:
        import numpy as np
        Vg = picked[True] * n
        Parr = np.array([P, P * 1.5, P * 0.5])
        keep = Parr.copy()
        m = {'eos': 'vdw', 'what': 'ndarray_argument'}
        Tarr = ctx.call('Z2', dict(m, step='get_T'), e.get_T, V=Vg, P=Parr, n=n)
        if Tarr is not core.NOVALUE:
            want = [float(e.get_T(V=Vg, P=float(p_), n=n)) for p_ in keep]
            ctx.close('Z2', np.asarray(Tarr, float), want, 1e-12, dict(m, step='get_T'))
            ctx.check('Z2', np.array_equal(Parr, keep), dict(m, step='get_T', what2='argument_modified'),
                      before=keep.tolist(), after=Parr.tolist())
        Tarr2 = np.array([T, T * 1.1])
        keepT = Tarr2.copy()
        Pa = ctx.call('Z2', dict(m, step='get_P'), e.get_P, T=Tarr2, V=Vg, n=n)
        if Pa is not core.NOVALUE:
            want = [float(e.get_P(T=float(t_), V=Vg, n=n)) for t_ in keepT]
            ctx.close('Z2', np.asarray(Pa, float), want, 1e-12, dict(m, step='get_P'))
            ctx.check('Z2', np.array_equal(Tarr2, keepT), dict(m, step='get_P', what2='argument_modified'))
    if True in picked and False in picked:
        ctx.check('Z2root', picked[True] >= picked[False], {'eos': 'vdw', 'what': 'gas<liquid'},
                  gas=picked[True], liquid=picked[False])
    # --- dilute limit
    if True in picked:
        from pmutt.eos import IdealGasEOS
        Vi = IdealGasEOS().get_V(T=T, P=P, n=1.0)
        eps = (b + a / (R_SI * T)) / Vi
        if eps < 0.01:
            ctx.cls('dilute')
            ctx.check('Z4', abs(picked[True] - Vi) / Vi <= 2 * eps + 1e-12, {'eos': 'vdw', 'what': 'ideal_limit'},
                      Vm=picked[True], Vi=Vi, eps=eps)
            # second virial coefficient: Vm - Vi -> b - a/RT
            ctx.check('Z4', abs((picked[True] - Vi) - (b - a / (R_SI * T))) <= 4 * eps * (b + a / (R_SI * T))
                      + 1e-9 * Vi, {'eos': 'vdw', 'what': 'second_virial'}, Vm=picked[True], Vi=Vi, eps=eps)


def _critical_exact(spec, ctx):
    """The state exactly at (Tc, Pc) as the object's own getters report them.  The cubic has a triple
    root there (ill-conditioned), so only the clauses that do not depend on the root's accuracy are
    asserted: V proportional to n, get_n(get_V(n)) = n, Vc = 3 n b."""
    from pmutt.eos import vanDerWaalsEOS
    ctx.cls('state:critical_exact')
    e = vanDerWaalsEOS(a=spec['a'], b=spec['b'])
    Tc, Pc = e.get_Tc(), e.get_Pc()
    m = {'eos': 'vdw', 'state': 'critical_exact'}
    vs = {}
    for n in spec['ns']:
        v = ctx.call('Z3', m, e.get_V, T=Tc, P=Pc, n=n)
        if v is core.NOVALUE:
            return
        vs[n] = float(v)
        nb = ctx.call('Z2', dict(m, step='get_n'), e.get_n, V=vs[n], T=Tc, P=Pc)
        if nb is not core.NOVALUE:
            ctx.close('Z2', float(nb) / n, 1.0, 1e-9, dict(m, step='get_n'))
        ctx.close('Z5', e.get_Vc(n=n) / (3 * n * spec['b']), 1.0, 1e-12, dict(m, step='get_Vc'))
    n0 = spec['ns'][0]
    for n in spec['ns'][1:]:
        ctx.close('Z3', (vs[n] / n) / (vs[n0] / n0), 1.0, 1e-9, m, n=n, V=vs[n], V0=vs[n0])
    ctx.nontrivial()


def _threads(spec, ctx):
    """Stress beyond the quantifier (which ranges over inputs only): several threads solve DIFFERENT states at the
    same time; each must get exactly what it gets alone.  Correct code has no shared mutable state, so this can
    never fire on it; a timeout is inconclusive."""
    import sys
    import threading
    from pmutt.eos import vanDerWaalsEOS
    ctx.cls('stress:threads' + (':shared_object' if spec.get('shared_object') else ':own_objects'))
    ctx.nontrivial()
    states = spec['states']
    if spec.get('shared_object'):
        shared = vanDerWaalsEOS(a=states[0]['a'], b=states[0]['b'])
        objs = [shared for _ in states]
    else:
        objs = [vanDerWaalsEOS(a=st['a'], b=st['b']) for st in states]

    def work(e, st):
        vg = e.get_Vm(T=st['T'], P=st['P'], gas_phase=True)
        vl = e.get_Vm(T=st['T'], P=st['P'], gas_phase=False)
        V = e.get_V(T=st['T'], P=st['P'], n=st['n'])
        return (float(vg), float(vl), float(V), float(e.get_P(T=st['T'], V=V, n=st['n'])),
                float(e.get_T(V=V, P=st['P'], n=st['n'])), float(e.get_n(V=V, P=st['P'], T=st['T'])))
    try:
        alone = [work(e, st) for e, st in zip(objs, states)]
    except Exception as ex:
        ctx.fail('Z2', {'eos': 'vdw', 'schedule': 'sequential', 'exc': type(ex).__name__}, message=str(ex)[:200])
        return
    bad, errs = [], []
    start = threading.Barrier(len(states))

    def runner(i):
        try:
            start.wait(timeout=30)
            for _ in range(spec.get('loops', 150)):
                got = work(objs[i], states[i])
                if got != alone[i]:
                    bad.append({'thread': i, 'got': got, 'alone': alone[i]})
                    return
        except Exception as ex:
            errs.append(repr(ex)[:200])
    old = sys.getswitchinterval()
    sys.setswitchinterval(1e-5)
    try:
        ths = [threading.Thread(target=runner, args=(i,), daemon=True) for i in range(len(states))]
        for t in ths:
            t.start()
        for t in ths:
            t.join(timeout=120)
    finally:
        sys.setswitchinterval(old)
    if any(t.is_alive() for t in ths):
        ctx.inconc('Z2', 'thread stress did not finish in time')
        return
    m = {'eos': 'vdw', 'schedule': 'threads'}
    if errs:
        ctx.fail('Z2', dict(m, what='exception'), message=errs[0])
    elif bad:
        ctx.fail('Z2', dict(m, what='result_differs_from_the_same_call_alone'), **bad[0])
    else:
        ctx.held('Z2')


def run_case(spec, ctx):
    k = spec['kind']
    if k == 'threads':
        return _threads(spec, ctx)
    if k == 'critical_exact':
        return _critical_exact(spec, ctx)
    if k == 'ideal':
        _ideal(spec, ctx)
    elif k == 'defaults':
        _defaults(spec, ctx)
    else:
        _vdw(spec, ctx)

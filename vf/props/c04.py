"""C04  Values with units equal the dimensionless values times R (and T) in that unit.

Every dimensional getter of every model class is driven next to its dimensionless twin
under the same conditions and options:

U1  get_X(units=u, **kw) = get_XoR[T](**kw) * R(u) [* T] [/ M(u)]            (1e-12)
    R(u) is pmutt.constants.R of the molar form of u, cross-checked against the SI value
    vf.ref.units.R_in (2e-6); M = sum(atomic_weight * n) in g (mass unit g) or kg (kg)
U2  the same quantity in two unit strings differs by R(u1)/R(u2) [* M(u2)/M(u1)]
    (1e-12 with pMuTT's table, 4e-6 with the SI values)
U3  changing one option (P, x, S_elements, use_references, verbose, rev, act, ...) changes
    both forms identically; the dimensional form reacts whenever the dimensionless one does
RA  online invariant at the return of pmutt._get_R_adj: the factor handed to the getters is
    R_SI(unit) / M(mass unit)  (2e-6)

Histories (kind 'history'): the same U1 at every evaluation on live objects whose composition is edited in
place (attribute, held reference, dict handed out by to_dict), re-assigned, with A->B->A unit sequences and a
second object alive; mech['history'] names the edit since the unit was last used.

A violation's mech names class, getter, unit family, option, T kind and clause.  The option
of a U1 violation is found by ablation (the option whose removal cures the mismatch; 'none'
if the mismatch is there without any option).
"""
import copy
import functools
import math

from vf import core
from vf.gen import species as S
from vf.gen import reactions as RG
from vf.ref import units as U

ID = 'C04'
N = {'quick': 13000, 'thorough': 150000}
NT_RULE = ('case = one object (mode / StatMech +-references +-misc models / Nasa / Nasa9 / Shomate gas|surface '
           '+-coverage model / Reaction|ChemkinReaction|SurfaceReaction) + T (scalar, array for the empirical '
           'classes, documented default for energies) + an option set + 5-6 unit strings (all 42 in the directed '
           'sweeps and in the thorough tier a third of them); every dimensional getter of the object is evaluated '
           'in every drawn unit.  non-trivial = a non-default option (P != 1, x > 0, S_elements, use_references=False, '
           'verbose, rev, act, include_ZPE, del_m, per-species block) or a per-mass unit; distinct = distinct '
           'canonical JSON')
REQUIRED_ORACLES = ['U1', 'U2', 'U3']
ASSUMPTIONS = ['temperatures as ndarray / list / tuple (length 1, 2, 3+) are judged for every dimensional getter of Nasa / Nasa9 / Shomate, own and inherited (values, shape = shape of dimensionless x R (x T), both refuse or both answer); StatMech (documented for float T): both answering must agree, one-sided refusals are reported (SEQ_STRICT_STATMECH)',
               'histories: `elements` is a public, mutable dict attribute; "the species\' molar mass" is that of the composition at the time of the call, however it got there (in-place edit or re-assignment)',
               'unit strings = the 16 keys documented for pmutt.constants.R; energies take them without "/K"; '
               'per-mass forms replace /mol by /g or /kg and exist only for molar units and objects with a composition',
               'relational oracle: the dimensionless twin (get_XoR / get_XoRT of the same object, same keyword '
               'arguments) is trusted (its correctness is C01/C02/C08); when the twin itself raises or is not '
               'finite the point is skipped (telemetry twin_raised / twin_nonfinite)',
               'array T only for Nasa / Nasa9 / Shomate; StatMech, modes and reactions are documented for float T',
               'ChemkinReaction / SurfaceReaction are driven with empirical species (they need a phase)',
               'R table vs SI (CODATA 2018): 2e-6; molar mass from pmutt.constants.atomic_weight (table itself is C12)',
               'Nasa.get_Cp / Nasa9.get_Cp do not forward **kwargs: unobservable (no attachable model has a '
               'condition dependent Cp), noted only']

TOL1 = 1e-12
TOL3 = 1e-11
TOL_R = 2e-6

# ----------------------------------------------------------------------------- units
MOLAR = ['J/mol/K', 'kJ/mol/K', 'L kPa/mol/K', 'cm3 kPa/mol/K', 'm3 Pa/mol/K', 'cm3 MPa/mol/K',
         'm3 bar/mol/K', 'L bar/mol/K', 'L torr/mol/K', 'cal/mol/K', 'kcal/mol/K', 'L atm/mol/K',
         'cm3 atm/mol/K']
PER_MOLECULE = ['eV/K', 'Eh/K', 'Ha/K']
PER_MASS = [u.replace('/mol/', '/%s/' % m) for u in MOLAR for m in ('g', 'kg')]
ALL_UNITS = MOLAR + PER_MOLECULE + PER_MASS
MASS_IN_G = {'g': 1.0, 'kg': 1e-3}          # how many <unit> one gram is (SI prefixes)


@functools.lru_cache(maxsize=None)
def unit_info(u):
    """u is an R-style string ('kcal/g/K').  -> (family, molar base string, mass unit|None)"""
    parts = u.split('/')
    if len(parts) == 2:
        return 'per_molecule', u, None
    if parts[1] == 'mol':
        return 'molar', u, None
    return 'per_mass', '/'.join([parts[0], 'mol', parts[2]]), parts[1]


@functools.lru_cache(maxsize=None)
def r_si(base):
    return U.R_in(base)


def molar_mass(elements):
    from pmutt import constants as c
    return math.fsum(c.atomic_weight[e] * n for e, n in elements.items())


# ----------------------------------------------------------------------------- getter tables
MODE_CLASSES = ['FreeTrans', 'HarmonicVib', 'QRRHOVib', 'EinsteinVib', 'DebyeVib', 'RigidRotor',
                'GroundStateElec', 'EmptyNucl', 'ConstantMode']
TWIN = {'Cv': 'CvoR', 'Cp': 'CpoR', 'U': 'UoRT', 'H': 'HoRT', 'S': 'SoR', 'F': 'FoRT', 'G': 'GoRT', 'E': 'EoRT'}
ENERGY = {'U', 'H', 'F', 'G', 'E'}
BASE7 = ['Cv', 'Cp', 'U', 'H', 'S', 'F', 'G']
STATMECH8 = ['Cv', 'Cp', 'E', 'U', 'H', 'S', 'F', 'G']
EMP_OWN = ['Cp', 'H', 'S', 'G']
EMP_INHERITED = ['Cv', 'U', 'F']
SPECIES_OPTS = ['P', 'x', 'S_elements', 'use_references', 'verbose', 'include_ZPE']


def species_getters(kind):
    qs = {'mode': BASE7, 'statmech': STATMECH8}.get(kind, EMP_OWN + EMP_INHERITED)
    return [{'name': 'get_' + q, 'twin': 'get_' + TWIN[q], 'energy': q in ENERGY, 'fixed': {},
             'opts': set(SPECIES_OPTS) - (set() if q == 'E' else {'include_ZPE'})} for q in qs]


def reaction_getters(all_statmech, has_ts, state):
    out = []
    qs = BASE7 + (['E'] if all_statmech else [])
    common = {'P', 'P_block', 'x', 'S_elements'}
    for q in qs:
        zpe = {'include_ZPE'} if q == 'E' else set()
        out.append({'name': 'get_%s_state' % q, 'twin': 'get_%s_state' % TWIN[q], 'energy': q in ENERGY,
                    'fixed': {'state': state}, 'opts': common | zpe})
        out.append({'name': 'get_delta_' + q, 'twin': 'get_delta_' + TWIN[q], 'energy': q in ENERGY,
                    'fixed': {}, 'opts': common | zpe | {'rev', 'act'}})
    for q in BASE7 + ['E']:
        out.append({'name': 'get_%s_act' % q, 'twin': 'get_%s_act' % TWIN[q], 'energy': q in ENERGY,
                    'fixed': {}, 'opts': common | {'rev'} | ({'del_m'} if q == 'E' else set()),
                    'needs_ts': True})
    return out


def _cg(cls, names):
    return ['cg:%s.%s' % (cls, n) for n in names]


def _required_classes():
    req = []
    for m in MODE_CLASSES:
        req += _cg(m, ['get_' + q for q in BASE7])
    req += _cg('StatMech', ['get_' + q for q in STATMECH8])
    for e in ('Nasa', 'Nasa9', 'Shomate'):
        req += _cg(e, ['get_' + q for q in EMP_OWN + EMP_INHERITED])
    for r in ('Reaction', 'ChemkinReaction', 'SurfaceReaction'):
        qs = BASE7 + (['E'] if r == 'Reaction' else [])
        req += _cg(r, ['get_%s_state' % q for q in qs] + ['get_delta_' + q for q in qs] +
                   ['get_%s_act' % q for q in BASE7 + ['E']])
    req += ['unit:' + u for u in ALL_UNITS]
    req += ['family:molar', 'family:per_molecule', 'family:per_mass']
    req += ['opt:' + o for o in ('none', 'P', 'x', 'S_elements', 'use_references', 'verbose', 'rev', 'act',
                                 'include_ZPE', 'del_m', 'P_block')]
    req += ['T:scalar', 'T:array', 'T:list', 'T:tuple', 'T:default']
    emp = EMP_OWN + EMP_INHERITED
    for cl, qs in (('Nasa', emp), ('Nasa9', emp), ('Shomate', emp), ('StatMech', STATMECH8)):
        req += ['seq:%s.get_%s:%s:n%s' % (cl, q, cont, n) for q in qs for cont in ('ndarray', 'list', 'tuple')
                for n in ('1', '2', '3+')]
    req += ['statmech:refs', 'statmech:norefs', 'statmech:misc', 'statmech:nomisc',
            'Shomate:gas', 'Shomate:surface', 'Shomate:cov', 'Nasa:gas', 'Nasa:cov', 'Nasa9:gas', 'Nasa9:cov',
            'rxn:statmech', 'rxn:empirical', 'rxn:mixed', 'rxn:ts', 'rxn:cov']
    # compositions with a per-mass unit, per class that has `elements`
    for cl in ('StatMech', 'Nasa', 'Nasa9', 'Shomate'):
        req += ['comp:%s:%s' % (cl, t) for t in ('fractional', 'zero', 'zero_before_present', 'numpy')]
    # single options on the getters they act on (main evaluation or option sweep)
    for cl in ('Nasa', 'Nasa9', 'Shomate'):
        req += ['og:%s.%s:%s' % (cl, g, o) for g in ('get_S', 'get_G') for o in ('S_elements', 'P')]
        req += ['og:%s.get_H:x' % cl]
    req += ['og:StatMech.%s:S_elements' % g for g in ('get_S', 'get_F', 'get_G')]
    req += ['og:StatMech.%s:%s' % (g, o) for g in ('get_H', 'get_G') for o in ('use_references', 'verbose', 'x')]
    req += ['og:StatMech.get_E:include_ZPE']
    # every StatMech getter with use_references spelled both ways, on species that carry fitted references
    req += ['og:StatMech.get_%s:%s' % (q, o) for q in STATMECH8 for o in ('use_references', 'use_references=True')]
    req += ['og:StatMech.get_%s:%s' % (q, o) for q in STATMECH8 for o in ('S_elements=False', 'verbose=False',
                                                                          'raise_error')]
    req += ['statmech:refs_nonzero']
    for cl in ('Nasa', 'Nasa9', 'Shomate'):
        req += ['og:%s.get_%s:%s' % (cl, q, o) for q in EMP_OWN for o in ('S_elements=False', 'raise_error',
                                                                         'use_references=True')]
    for r in ('Reaction', 'ChemkinReaction', 'SurfaceReaction'):
        req += ['og:%s.get_E_act:del_m=%s' % (r, v) for v in ('None', '1', '0', '-1')]
        req += ['og:%s.%s:rev' % (r, g) for g in ('get_H_act', 'get_G_act', 'get_delta_H', 'get_delta_G', 'get_S_act')]
        req += ['og:%s.%s:act' % (r, g) for g in ('get_delta_H', 'get_delta_G', 'get_delta_S')]
    # histories: a per-mass unit asked again (or for the first time) after each kind of composition edit
    for cl in ('StatMech', 'Nasa', 'Nasa9', 'Shomate'):
        req += ['hist:%s:%s:%s' % (cl, e, w) for e in ('inplace_set', 'inplace_add', 'inplace_del', 'inplace_update',
                                                       'reassign') for w in ('same_unit', 'new_unit')]
        req += ['hist:%s:none:same_unit' % cl, 'hist:%s:two_objects' % cl]
        req += ['hist:%s:via:%s' % (cl, v) for v in ('attr', 'held_ref', 'to_dict')]
    return req


REQUIRED_CLASSES = _required_classes()

PROBE_TABLE = (
    [('_ModelBase.get_' + q, ('pmutt', '_ModelBase', 'get_' + q)) for q in BASE7] +
    [('StatMech.get_' + q, ('pmutt.statmech', 'StatMech', 'get_' + q)) for q in STATMECH8] +
    [('%s.get_%s' % (cl, q), (mod, cl, 'get_' + q)) for cl, mod in
     (('Nasa', 'pmutt.empirical.nasa'), ('Nasa9', 'pmutt.empirical.nasa'), ('Shomate', 'pmutt.empirical.shomate'))
     for q in EMP_OWN] +
    [('Reaction.' + n, ('pmutt.reaction', 'Reaction', n)) for q in STATMECH8
     for n in ('get_%s_state' % q, 'get_delta_' + q, 'get_%s_act' % q)] +
    [('ChemkinReaction.' + n, ('pmutt.reaction', 'ChemkinReaction', n))
     for n in ('get_H_act', 'get_delta_H', 'get_G_act', 'get_delta_G')] +
    [('SurfaceReaction.' + n, ('pmutt.omkm.reaction', 'SurfaceReaction', n)) for n in ('get_H_act', 'get_G_act')])
REQUIRED_PROBES = [p for p, _ in PROBE_TABLE] + ['_get_R_adj', '_get_mass_unit', 'get_molecular_weight',
                                                 'constants.R']

# ----------------------------------------------------------------------------- probes
_RA = {'ctx': None}


def _radj_call(label, loc):
    el = loc.get('elements')
    return (loc.get('units'), dict(el) if isinstance(el, dict) else el)


def _radj_ret(label, ret, snap):
    ctx = _RA['ctx']
    if ctx is None or not isinstance(snap, tuple) or snap[0] == 'probe-error':
        return
    units, el = snap
    try:
        fam, base, mass = unit_info(units)
        want = r_si(base)
        if mass is not None:
            want = want / (molar_mass(el) * MASS_IN_G[mass])
    except Exception:
        return                      # unit string outside the documented table: not ours to judge
    ctx.branch('R_adj:' + fam)
    ctx.close('RA', float(ret) / want, 1.0, TOL_R, {'class': '_get_R_adj', 'unit_family': fam, 'clause': 'U1'},
              units=units, got=ret, want=want)


def install_probes(pr, ctx):
    import importlib
    _RA['ctx'] = ctx

    def own(mod, cls, name):
        return lambda: getattr(importlib.import_module(mod), cls).__dict__[name]
    for label, (mod, cls, name) in PROBE_TABLE:
        pr.watch(own(mod, cls, name), label)
    pr.watch(lambda: __import__('pmutt')._get_R_adj, '_get_R_adj', on_call=_radj_call, on_ret=_radj_ret)
    pr.watch(lambda: __import__('pmutt')._get_mass_unit, '_get_mass_unit')
    pr.watch(lambda: __import__('pmutt').get_molecular_weight, 'get_molecular_weight')
    pr.watch(lambda: importlib.import_module('pmutt.constants').R, 'constants.R')


# ----------------------------------------------------------------------------- generators
SPECIES_NAMES = ['H2', 'CO2', 'H2O', 'CH3OH', 'NH3', 'CO(S)', 'O(S)', 'H(S)', 'CH3CH2OH', 'N2']


def _P(rng):
    while True:
        p = S.logu(rng, 1e-3, 1e2, 4)
        if abs(p - 1.0) > 1e-3:
            return p


def gen_cov(rng, name_i, name_j):
    n = rng.randint(1, 4)
    iv = sorted(set([0.0] + [round(rng.uniform(0.05, 0.95), 3) for _ in range(n - 1)]))
    return {'type': 'PiecewiseCovEffect', 'name_i': name_i, 'name_j': name_j, 'intervals': iv,
            'slopes': [round(rng.uniform(-40, 40), 3) for _ in iv]}


def gen_constant_mode(rng):
    return {'type': 'ConstantMode', 'q': S.logu(rng, 0.1, 100.), 'Cv': round(rng.uniform(0, 5e-4), 8),
            'Cp': round(rng.uniform(0, 6e-4), 8), 'U': round(rng.uniform(-2, 2), 5), 'H': round(rng.uniform(-2, 2), 5),
            'S': round(rng.uniform(0, 3e-3), 8), 'F': round(rng.uniform(-2, 2), 5), 'G': round(rng.uniform(-2, 2), 5)}


def gen_mode(rng, mcls):
    if mcls == 'FreeTrans':
        return S.gen_trans(rng, allow_none=False)
    if mcls in ('HarmonicVib', 'QRRHOVib', 'EinsteinVib', 'DebyeVib'):
        return S.gen_vib(rng, allow_none=False, kinds=(mcls,))
    if mcls == 'RigidRotor':
        return S.gen_rot(rng, allow_none=False)
    if mcls == 'GroundStateElec':
        return S.gen_elec(rng, allow_none=False)
    if mcls == 'EmptyNucl':
        return {'type': 'EmptyNucl'}
    return gen_constant_mode(rng)


FRACTIONS = [0.5, 0.2, 1.8, 0.25, 0.75, 1.5, 2.5, 3.3, 0.1, 0.999, 7.05]


def hostile_elements(rng, elements, style=None, el_type=None):
    """Compositions as they occur outside formula strings: non-integer counts (CH1.8O0.5N0.2, per-atom
    oxides), explicit zero counts at any position of the dict (one column per element of a data set),
    counts typed as NumPy scalars.  -> (ordered dict, style tags, type of the counts)"""
    style = style or rng.choice(['int', 'int', 'fractional', 'fractional', 'zero', 'zero', 'fractional+zero'])
    items = [[e, n] for e, n in elements.items()]
    tags = []
    if 'fractional' in style:
        idx = rng.sample(range(len(items)), rng.randint(1, len(items)))
        for i in idx:
            items[i][1] = rng.choice(FRACTIONS) if rng.random() < 0.7 else round(rng.uniform(0.05, 6.0), 3)
        if all(float(n) == int(n) for _, n in items):
            items[idx[0]][1] = 1.8
        tags.append('fractional')
    if 'zero' in style:
        absent = [e for e in S.ELEMENT_POOL if e not in elements]
        for e in rng.sample(absent, rng.choice([1, 1, 2, 3])):
            pos = 0 if style.endswith('first') else rng.randint(0, len(items))
            items.insert(pos, [e, 0])
        tags.append('zero')
        if min(i for i, (_, n) in enumerate(items) if n == 0) < max(i for i, (_, n) in enumerate(items) if n != 0):
            tags.append('zero_before_present')
    fractional = any(float(n) != int(n) for _, n in items)
    el_type = el_type or rng.choice(['py', 'py', 'np_float', 'np_float' if fractional else 'np_int'])
    if el_type == 'np_int' and fractional:
        el_type = 'np_float'
    if el_type != 'py':
        tags.append('numpy')
    return {e: n for e, n in items}, tags, el_type


def typed_elements(elements, el_type):
    import numpy as np
    if not elements or el_type in (None, 'py'):
        return dict(elements) if elements else elements
    conv = np.int64 if el_type == 'np_int' else np.float64
    return {e: conv(n) for e, n in elements.items()}


def gen_refs(rng, elements):
    refs = []
    els = sorted(e for e, n in elements.items() if n)
    comps = [{e: 2} for e in els]
    if len(els) > 1:
        comps.append({e: rng.randint(1, 3) for e in els})
    for i, comp in enumerate(comps):
        m = S.gen_statmech(rng, name='ref%d' % i, gas=False, with_elements=False)
        m['elec']['potentialenergy'] = round(rng.uniform(-5, 0), 4)
        refs.append({'name': 'ref%d' % i, 'elements': comp, 'T_ref': 298.15,
                     'HoRT_ref': round(rng.uniform(-150, 150), 4), 'model': m})
    return {'references': refs}


def draw_units(rng, tier, comp):
    k = 4 if tier == 'thorough' else 1
    us = rng.sample(MOLAR, min(len(MOLAR), 2 * k)) + rng.sample(PER_MOLECULE, 1 if k == 1 else 3)
    if comp:
        us += rng.sample(PER_MASS, 2 * k)
    rng.shuffle(us)
    return us


def draw_opts(rng, applicable, force=None):
    """applicable: dict option -> value factory"""
    names = sorted(applicable)
    if force is not None:
        chosen = [o for o in force if o in applicable]
    else:
        r = rng.random()
        if not names or r < 0.12:
            chosen = []
        elif r < 0.62:
            chosen = [rng.choice(names)]
        else:
            chosen = rng.sample(names, min(len(names), rng.randint(2, 3)))
    return {o: applicable[o](rng) for o in sorted(chosen)}


def gen_case(rng, tier, kind=None, units=None, force_opts=None, **fix):
    kind = kind or rng.choice(['mode'] * 4 + ['statmech'] * 6 + ['nasa'] * 2 + ['nasa9'] * 2 + ['shomate'] * 3 +
                              ['reaction'] * 3)
    spec = {'kind': kind}
    if kind == 'mode':
        mcls = fix.get('mcls') or rng.choice(MODE_CLASSES)
        spec['cls'] = mcls
        spec['obj'] = gen_mode(rng, mcls)
        spec['T'] = S.rnd(rng, 60, 3000, 2)
        spec['opts'] = draw_opts(rng, {'P': _P}, force_opts)
        spec['units'] = units or draw_units(rng, tier, False)
        return spec
    if kind == 'statmech':
        name = rng.choice(SPECIES_NAMES)
        with_el = fix.get('with_elements', rng.random() < 0.85)
        sp = S.gen_statmech(rng, name=name, gas=rng.choice([True, False, None]), with_elements=with_el)
        spec['cls'] = 'StatMech'
        spec['obj'] = sp
        spec['el_tags'], spec['el_type'] = [], 'py'
        if with_el:
            sp['elements'], spec['el_tags'], spec['el_type'] = hostile_elements(
                rng, sp['elements'], fix.get('el_style'), fix.get('el_type'))
        want_refs = fix.get('refs', rng.random() < 0.5)
        spec['refs'] = gen_refs(rng, sp['elements']) if (with_el and want_refs) else None
        misc = []
        want_misc = fix.get('misc', rng.random() < 0.6)
        if want_misc:
            if fix.get('misc') or rng.random() < 0.7:
                misc.append(gen_cov(rng, name, rng.choice([name, 'CO(S)', 'O(S)'])))
            if rng.random() < 0.4:
                misc.append(gen_constant_mode(rng))
            if rng.random() < 0.3 or not misc:
                misc.append({'type': 'GasPressureAdj'})
            rng.shuffle(misc)
        spec['misc'] = misc
        spec['T'] = S.rnd(rng, 100, 3000, 2)
        if 'T_container' in fix or rng.random() < 0.25:
            # StatMech is documented for float T: sequences must be refused or accepted by both forms alike
            spec['T_seq'] = {'container': fix.get('T_container') or rng.choice(SEQ_CONTAINERS),
                             'T': sorted(S.rnd(rng, 100, 3000, 2)
                                         for _ in range(fix.get('T_len') or rng.choice([1, 1, 2, 3])))}
        app = {'P': _P, 'verbose': lambda r: True, 'include_ZPE': lambda r: True}
        if any(m['type'] == 'PiecewiseCovEffect' for m in misc):
            app['x'] = lambda r: round(r.uniform(0.02, 1.0), 3)
        if with_el:
            app['S_elements'] = lambda r: True
        if spec['refs']:
            app['use_references'] = lambda r: r.choice([False, False, True])
        spec['opts'] = draw_opts(rng, app, force_opts)
        spec['units'] = units or draw_units(rng, tier, with_el)
        return spec
    if kind in ('nasa', 'nasa9', 'shomate'):
        name = rng.choice(SPECIES_NAMES)
        phase = fix.get('phase') or rng.choice(['G', 'gas', 'g', 'S', 'S', None])
        gen = {'nasa': S.gen_nasa, 'nasa9': S.gen_nasa9, 'shomate': S.gen_shomate}[kind]
        sp = gen(rng, name=name, phase=phase)
        if kind == 'shomate' and rng.random() < 0.4:
            u = rng.choice(['kJ/mol/K', 'cal/mol/K', 'eV/K'])
            f = {'kJ/mol/K': 1e-3, 'cal/mol/K': 1 / 4.184, 'eV/K': 1.0364e-5}[u]
            sp['units'] = u
            sp['a'] = [float('%.10g' % (v * f)) for v in sp['a']]
        if phase is None:
            sp.pop('phase', None)
        with_el = fix.get('with_elements', rng.random() < 0.9)
        spec['el_tags'], spec['el_type'] = [], 'py'
        if not with_el:
            sp['elements'] = None
        else:
            sp['elements'], spec['el_tags'], spec['el_type'] = hostile_elements(
                rng, sp['elements'], fix.get('el_style'), fix.get('el_type'))
        spec['cls'] = sp['type']
        spec['obj'] = sp
        want_cov = fix.get('cov', rng.random() < 0.5)
        spec['misc'] = [gen_cov(rng, name, rng.choice([name, 'CO(S)']))] if want_cov else []
        lo, hi = S.T_range(sp)
        tk = fix.get('T_kind') or rng.choice(['scalar', 'scalar', 'array'])
        if tk == 'array':
            n_T = fix.get('T_len') or rng.choice([1, 1, 2, 2, 3, 3, 4, 5])
            spec['T'] = sorted(S.rnd(rng, lo, hi, 2) for _ in range(n_T))
            # the temperatures arrive as ndarray, list or tuple (length 1 collapses to a float in some twins)
            spec['T_container'] = fix.get('T_container') or rng.choice(['ndarray', 'ndarray', 'list', 'tuple'])
        else:
            edges = [lo, hi] + ([sp['T_mid']] if kind == 'nasa' else []) + \
                    ([n['T_high'] for n in sp['nasas'][:-1]] if kind == 'nasa9' else [])
            spec['T'] = rng.choice(edges) if rng.random() < 0.15 else S.rnd(rng, lo, hi, 2)
        app = {'P': _P}
        if want_cov:
            app['x'] = lambda r: round(r.uniform(0.02, 1.0), 3)
        if with_el:
            app['S_elements'] = lambda r: True
        spec['opts'] = draw_opts(rng, app, force_opts)
        spec['units'] = units or draw_units(rng, tier, with_el)
        return spec
    # ---- reaction
    flavor = fix.get('flavor') or rng.choice(['statmech', 'mixed', 'empirical', 'empirical'])
    rcls = fix.get('rcls')
    r = RG.gen_reaction(rng, flavor=flavor, cls=rcls, ts=fix.get('ts', rng.random() < 0.75))
    spec['cls'] = r['cls']
    spec['obj'] = r
    nts = len(r['ts']) if r['ts'] else 0
    names = sorted(r['species'])
    spec['T'] = S.rnd(rng, 250, 3500, 2)
    spec['state'] = rng.choice(['reactants', 'products'] +
                               (['ts', 'transition state', 'transition_state'] if nts else []))
    spec['cov'] = None
    if fix.get('cov', rng.random() < 0.35):
        on = rng.choice(names)
        spec['cov'] = dict(gen_cov(rng, on, rng.choice(names)), on=on)
    app = {'P': _P, 'rev': lambda q: True, 'S_elements': lambda q: True, 'del_m': lambda q: fix['del_m'] if 'del_m' in fix else q.choice([None, None, 0, -1, 2, 1]),
           'P_block': lambda q: {'name': q.choice(names), 'P': _P(q)}}
    if nts:
        app['act'] = lambda q: True
    if spec['cov']:
        app['x'] = lambda q: round(q.uniform(0.02, 1.0), 3)
    if all(s['type'] == 'StatMech' for s in r['species'].values()):
        app['include_ZPE'] = lambda q: True
    spec['opts'] = draw_opts(rng, app, force_opts)
    spec['units'] = units or draw_units(rng, tier, False)
    return spec


SEQ_CONTAINERS = ['ndarray', 'list', 'tuple']
HIST_CLASSES = {'statmech': 'StatMech', 'nasa': 'Nasa', 'nasa9': 'Nasa9', 'shomate': 'Shomate'}
HIST_EDITS = ['inplace_set', 'inplace_add', 'inplace_del', 'inplace_update', 'reassign']
HIST_VIAS = ['attr', 'held_ref', 'to_dict']
HIST_COUNTS = [1, 2, 3, 5, 0.5, 1.8, 12]


def _draw_edit(rng, comp, k, how=None, via=None):
    """one edit of the composition of live object k, valid for the current composition `comp` (which is
    updated: the generator keeps the same model of the history as the runner)"""
    how = how or rng.choice(HIST_EDITS)
    if how == 'inplace_del' and len(comp) < 2:
        how = 'inplace_set'
    absent = [e for e in S.ELEMENT_POOL if e not in comp]
    step = {'op': 'edit', 'obj': k, 'how': how, 'via': via or rng.choice(HIST_VIAS)}
    if how == 'inplace_set':
        el = rng.choice(sorted(comp))
        n = rng.choice([c for c in HIST_COUNTS if c != comp[el]])
        step['changes'] = {el: n}
        comp[el] = n
    elif how == 'inplace_add':
        step['changes'] = {rng.choice(absent): rng.choice(HIST_COUNTS)}
        comp.update(step['changes'])
    elif how == 'inplace_del':
        step['el'] = rng.choice(sorted(comp))
        del comp[step['el']]
    elif how == 'inplace_update':
        el = rng.choice(sorted(comp))
        step['changes'] = {el: rng.choice([c for c in HIST_COUNTS if c != comp[el]]),
                           rng.choice(absent): rng.choice(HIST_COUNTS)}
        comp.update(step['changes'])
    else:
        new = S.gen_elements(rng)
        if new == comp:
            new[sorted(new)[0]] += 1
        step['new'] = new
        step.pop('via')
        comp.clear()
        comp.update(new)
    return step


def gen_history(rng, tier, sub=None, script=None):
    """History on live objects: evaluate in a unit -> edit the composition (in place through the attribute, a
    reference held since construction or the dict handed out by to_dict; or re-assign it) -> evaluate again in
    the same and in other units; unit A -> B -> A; two objects alive with different compositions."""
    sub = sub or rng.choice(['statmech', 'statmech', 'nasa', 'nasa9', 'shomate'])
    base = gen_case(rng, tier, kind=sub, with_elements=True, el_style=rng.choice(['int', 'int', 'fractional']),
                    units=['J/mol/K'])
    pm = rng.sample(PER_MASS, 3)
    pool = {'A': pm[0], 'B': pm[1], 'C': pm[2], 'M': rng.choice(MOLAR), 'E': rng.choice(PER_MOLECULE)}
    el1 = S.gen_elements(rng)
    comps = [dict(base['obj']['elements']), dict(el1)]
    steps = []
    if script is None:
        two = rng.random() < 0.35
        steps.append({'op': 'eval', 'obj': 0, 'unit': pool['A']})
        if two:
            steps.append({'op': 'eval', 'obj': 1, 'unit': pool['A']})
        for _ in range(rng.randint(4, 9)):
            k = rng.choice([0, 0, 1]) if two else 0
            if rng.random() < 0.4:
                steps.append(_draw_edit(rng, comps[k], k))
            else:
                steps.append({'op': 'eval', 'obj': k, 'unit': pool[rng.choice('AAABBCME')]})
        steps.append({'op': 'eval', 'obj': 0, 'unit': pool['A']})
        steps.append({'op': 'eval', 'obj': 0, 'unit': pool[rng.choice('BC')]})
        if two:
            steps.append({'op': 'eval', 'obj': 1, 'unit': pool['A']})
    else:
        for st in script:
            if st[0] == 'eval':
                steps.append({'op': 'eval', 'obj': st[1], 'unit': pool[st[2]]})
            else:
                steps.append(_draw_edit(rng, comps[st[1]], st[1], how=st[2], via=st[3] if len(st) > 3 else None))
    return {'kind': 'history', 'cls': base['cls'], 'base': base, 'elements1': el1, 'steps': steps}


def generate(rng, tier):
    if rng.random() < 0.08:
        return gen_history(rng, tier)
    return gen_case(rng, tier)


def directed(tier):
    import random
    D = []

    def R(tag):
        return random.Random('C04:directed:' + tag)
    # exhaustive unit sweeps: every class x every getter x every unit string, default options and P
    for m in MODE_CLASSES:
        D.append(gen_case(R('mode0' + m), tier, 'mode', units='ALL', force_opts=[], mcls=m))
        D.append(gen_case(R('mode1' + m), tier, 'mode', units='ALL', force_opts=['P'], mcls=m))
    D.append(gen_case(R('sm0'), tier, 'statmech', units='ALL', force_opts=[], with_elements=True, refs=True, misc=True))
    D.append(gen_case(R('sm1'), tier, 'statmech', units='ALL', force_opts=['P', 'x'], with_elements=True, refs=False,
                      misc=True))
    D.append(gen_case(R('sm2'), tier, 'statmech', units='ALL', force_opts=['S_elements'], with_elements=True, refs=True,
                      misc=False))
    D.append(gen_case(R('sm3'), tier, 'statmech', units='ALL', force_opts=['use_references'], with_elements=True,
                      refs=True, misc=False))
    D.append(gen_case(R('sm4'), tier, 'statmech', units='ALL', force_opts=['verbose'], with_elements=True, refs=True,
                      misc=True))
    D.append(gen_case(R('sm5'), tier, 'statmech', units='ALL', force_opts=['include_ZPE'], with_elements=False,
                      refs=False, misc=False))
    for k in ('nasa', 'nasa9', 'shomate'):
        D.append(gen_case(R(k + '0'), tier, k, units='ALL', force_opts=[], phase='S', cov=False, T_kind='scalar',
                          with_elements=True))
        D.append(gen_case(R(k + '1'), tier, k, units='ALL', force_opts=['P'], phase='G', cov=False, T_kind='scalar',
                          with_elements=True))          # pinned witness of Shomate.get_S dropping P
        D.append(gen_case(R(k + '2'), tier, k, units='ALL', force_opts=['P', 'x'], phase='gas', cov=True,
                          T_kind='array', with_elements=True))
        D.append(gen_case(R(k + '3'), tier, k, units='ALL', force_opts=['S_elements'], phase='S', cov=True,
                          T_kind='array', with_elements=True))
        D.append(gen_case(R(k + '4'), tier, k, units='ALL', force_opts=['x'], phase='S', cov=True,
                          T_kind='scalar', with_elements=True))
    # compositions: fractional counts, explicit zero counts (first / anywhere), NumPy-typed counts
    for k in ('statmech', 'nasa', 'nasa9', 'shomate'):
        kw = dict(refs=False, misc=False) if k == 'statmech' else dict(phase='G', cov=False, T_kind='scalar')
        for j, (st, et, fo) in enumerate((('fractional', 'py', []), ('fractional', 'np_float', ['S_elements']),
                                          ('zero_first', 'py', []), ('zero', 'np_int', ['S_elements']),
                                          ('fractional+zero', 'np_float', ['P']), ('int', 'np_int', []))):
            D.append(gen_case(R('comp%d%s' % (j, k)), tier, k, units='ALL', force_opts=fo, with_elements=True,
                              el_style=st, el_type=et, **kw))
    for rc, fl in (('Reaction', 'statmech'), ('Reaction', 'mixed'), ('Reaction', 'empirical'),
                   ('ChemkinReaction', 'empirical'), ('SurfaceReaction', 'empirical')):
        D.append(gen_case(R('rx0' + rc + fl), tier, 'reaction', units='ALL', force_opts=[], rcls=rc, flavor=fl, ts=True,
                          cov=False))
        D.append(gen_case(R('rx1' + rc + fl), tier, 'reaction', units='ALL', force_opts=['rev'], rcls=rc, flavor=fl,
                          ts=True, cov=False))           # pinned witness of ChemkinReaction.get_H_act dropping rev
        D.append(gen_case(R('rx2' + rc + fl), tier, 'reaction', units='ALL', force_opts=['act', 'P'], rcls=rc,
                          flavor=fl, ts=True, cov=True))
        D.append(gen_case(R('rx3' + rc + fl), tier, 'reaction', units='ALL', force_opts=['x', 'P_block'], rcls=rc,
                          flavor=fl, ts=True, cov=True))
        D.append(gen_case(R('rx4' + rc + fl), tier, 'reaction', units='ALL',
                          force_opts=['del_m', 'include_ZPE', 'S_elements'], rcls=rc, flavor=fl, ts=True, cov=False,
                          del_m=None))
        for j, dm in enumerate((None, 0, -1, 1)):
            D.append(gen_case(R('rx5%d%s%s' % (j, rc, fl)), tier, 'reaction', units='ALL', force_opts=['del_m'], rcls=rc,
                              flavor=fl, ts=True, cov=False, del_m=dm))
    # temperatures as ndarray / list / tuple of length 1, 2, 3: every getter of the four classes
    for k in ('nasa', 'nasa9', 'shomate', 'statmech'):
        for cont in SEQ_CONTAINERS:
            for n_T in (1, 2, 3):
                kw = dict(refs=False, misc=(n_T == 2)) if k == 'statmech' else \
                    dict(phase='G', cov=(n_T == 2), T_kind='array')
                D.append(gen_case(R('seq%s%s%d' % (k, cont, n_T)), tier, k, force_opts=['P'] if n_T == 3 else [],
                                  with_elements=True, el_style='int', el_type='py', T_container=cont, T_len=n_T, **kw))
    # histories on live objects (per class that has a composition)
    for k in HIST_CLASSES:
        for j, (how, via) in enumerate((('inplace_set', 'attr'), ('inplace_add', 'held_ref'), ('inplace_del', 'to_dict'),
                                        ('inplace_update', 'attr'), ('reassign', None), ('inplace_set', 'to_dict'),
                                        ('inplace_add', 'attr'), ('inplace_del', 'held_ref'))):
            D.append(gen_history(R('h%d%s' % (j, k)), tier, k,
                                 [('eval', 0, 'A'), ('eval', 0, 'M'), ('edit', 0, how, via), ('eval', 0, 'A'),
                                  ('eval', 0, 'B'), ('eval', 0, 'M'), ('eval', 0, 'E')]))
        D.append(gen_history(R('haba' + k), tier, k, [('eval', 0, 'A'), ('eval', 0, 'B'), ('eval', 0, 'A'),
                                                      ('eval', 0, 'M'), ('eval', 0, 'A'), ('eval', 0, 'C')]))
        D.append(gen_history(R('htwo' + k), tier, k,
                             [('eval', 0, 'A'), ('eval', 1, 'A'), ('edit', 0, 'inplace_set', 'attr'), ('eval', 1, 'A'),
                              ('eval', 0, 'A'), ('edit', 1, 'inplace_add', 'held_ref'), ('eval', 0, 'A'),
                              ('eval', 1, 'A'), ('eval', 1, 'B'), ('edit', 0, 'reassign'), ('eval', 1, 'A'),
                              ('eval', 0, 'A')]))
    return D


# ----------------------------------------------------------------------------- factories
def build_misc(m):
    if m['type'] == 'PiecewiseCovEffect':
        from pmutt.mixture.cov import PiecewiseCovEffect
        return PiecewiseCovEffect(name_i=m['name_i'], name_j=m['name_j'], intervals=list(m['intervals']),
                                  slopes=list(m['slopes']))
    if m['type'] == 'GasPressureAdj':
        from pmutt.empirical import GasPressureAdj
        return GasPressureAdj()
    return S.build_mode(m)


def build_refs(rspec):
    from pmutt.empirical.references import Reference, References
    refs = [Reference(name=r['name'], elements=dict(r['elements']), T_ref=r['T_ref'], HoRT_ref=r['HoRT_ref'],
                      model=S.build_statmech(r['model'])) for r in rspec['references']]
    return References(references=refs, descriptor='elements')


_SIG = {}


def call_filtered(obj, method, kwargs):
    """obj.method(**kwargs) with the keyword arguments it accepts (all of them if it takes **kwargs)"""
    import inspect
    fn = getattr(obj, method)
    key = (type(obj), method)
    if key not in _SIG:
        ps = inspect.signature(fn).parameters
        _SIG[key] = (any(q.kind == q.VAR_KEYWORD for q in ps.values()), frozenset(ps))
    varkw, names = _SIG[key]
    return fn(**kwargs) if varkw else fn(**{k: v for k, v in kwargs.items() if k in names})


class Subject:
    """The object under observation plus how its getters are addressed."""

    def __init__(self, spec):
        self.spec = spec
        self.kind = spec['kind']
        self.cls = spec['cls']
        self.comp = None
        self.tags = []
        k = self.kind
        if k == 'mode':
            self.obj = S.build_mode(spec['obj'])
            self.getters = species_getters('mode')
        elif k == 'statmech':
            misc = [build_misc(m) for m in spec['misc']] or None
            refs = build_refs(spec['refs']) if spec.get('refs') else None
            self.obj = S.build_statmech(dict(spec['obj'], elements=typed_elements(spec['obj'].get('elements'),
                                                                                   spec.get('el_type'))),
                                        references=refs, misc_models=misc)
            self.getters = species_getters('statmech')
            self.comp = spec['obj'].get('elements')
            self.tags = ['statmech:refs' if refs is not None else 'statmech:norefs',
                         'statmech:misc' if misc else 'statmech:nomisc']
            self.refs_nonzero = False
            if refs is not None:
                try:
                    self.refs_nonzero = abs(float(refs.get_HoRT(descriptors=dict(self.comp)))) > 1e-6
                except Exception:                                # noqa
                    pass
                if self.refs_nonzero:
                    self.tags.append('statmech:refs_nonzero')
        elif k in ('nasa', 'nasa9', 'shomate'):
            misc = [build_misc(m) for m in spec['misc']]
            self.obj = S.build(dict(spec['obj'], elements=typed_elements(spec['obj'].get('elements'),
                                                                          spec.get('el_type'))),
                               **({'misc_models': misc} if misc else {}))
            self.getters = species_getters(k)
            self.comp = spec['obj'].get('elements')
            ph = (spec['obj'].get('phase') or '').lower()
            if ph in ('g', 'gas'):
                self.tags.append(self.cls + ':gas')
            elif ph == 's':
                self.tags.append(self.cls + ':surface')
            if misc:
                self.tags.append(self.cls + ':cov')
        else:
            r = spec['obj']
            objs = {}
            cov = spec.get('cov')
            for n, s in r['species'].items():
                if cov and cov['on'] == n:
                    mm = [build_misc(cov)]
                    objs[n] = S.build(s, misc_models=mm)
                else:
                    objs[n] = S.build(s)
            self.obj, self.species = RG.build_reaction(r, species_objs=objs)
            nts = len(r['ts']) if r['ts'] else 0
            self.has_ts = nts > 0
            all_sm = all(s['type'] == 'StatMech' for s in r['species'].values())
            self.getters = reaction_getters(all_sm, self.has_ts, spec['state'])
            self.tags = ['rxn:' + r['flavor']] + (['rxn:ts'] if nts else []) + (['rxn:cov'] if cov else [])

    # -- keyword arguments for one getter under an option set
    def kwargs(self, g, opts, force=()):
        """force: swept options are handed to both forms even when the getter does not name them"""
        kw = {}
        blocks = {}
        for o, v in opts.items():
            if o not in g['opts'] and o not in force:
                continue
            if o == 'x':
                if self.kind == 'reaction':
                    blocks.setdefault(self.spec['cov']['on'], {})['x'] = v
                else:
                    nj = [m['name_j'] for m in self.spec['misc'] if m['type'] == 'PiecewiseCovEffect'][0]
                    blocks.setdefault(nj, {})['x'] = v
            elif o == 'P_block':
                blocks.setdefault(v['name'], {})['P'] = v['P']
            else:
                kw[o] = v
        for n, b in blocks.items():
            kw['%s_kwargs' % n] = dict(b)
        return kw

    def present(self, g, opts):
        return sorted(o for o in opts if o in g['opts'])

    def sweep_values(self, g, opts, rot=0, gi=0):
        """Every option that this getter, its dimensionless twin or any sibling getter of the class knows,
        one at a time, at the active value AND at the explicitly spelled default, handed identically to both
        forms (a wrapper may give an option a meaning, or a default, that its twin does not share).  For
        reactions the part beyond the getter's own options is rotated over the getters (cost)."""
        k, sp = self.kind, self.spec
        out = []

        def add(o, vals):
            for v in vals:
                if not (o in opts and opts[o] == v and type(opts[o]) is type(v)):
                    out.append((o, v))
        if k != 'reaction':
            add('P', [7.3])
            if any(m['type'] == 'PiecewiseCovEffect' for m in sp.get('misc', [])):
                add('x', [0.37])
            add('use_references', [True, False])
            for o in ('S_elements', 'verbose', 'include_ZPE'):
                add(o, [True])
            if gi % 2 == rot % 2 and k != 'mode':        # explicitly spelled defaults: every other getter
                for o in ('S_elements', 'verbose', 'include_ZPE'):
                    add(o, [False])
                add('raise_error', [False])
                add('raise_warning', [False])
            return out
        own = g['opts']
        if g['name'] == 'get_G_act' or gi % 3 == rot % 3:   # SurfaceReaction.get_G_act names P itself
            add('P', [7.3])
        add('S_elements', [True])
        if 'rev' in own:
            add('rev', [True])
        if 'act' in own and self.has_ts:
            add('act', [True])
        if 'include_ZPE' in own:
            add('include_ZPE', [True])
        if 'del_m' in own:
            add('del_m', [None, 1, 0, -1])
        if gi % 3 == rot % 3:
            add('S_elements', [False])
            if 'rev' in own:
                add('rev', [False])
            if 'act' in own:
                add('act', [False])
            if 'include_ZPE' not in own:
                add('include_ZPE', [True])
            add('include_ZPE', [False])
            add('use_references', [True, False])
            add('verbose', [False])
            add('raise_error', [False])
            add('raise_warning', [False])
        return out

    def applicable(self, g):
        if g.get('needs_ts') and not self.has_ts:
            # the clamped overrides work without a transition state
            return self.cls in ('ChemkinReaction', 'SurfaceReaction') and g['name'] in ('get_H_act', 'get_G_act')
        return True

    def twin(self, g, T, kw):
        a = dict(g['fixed'], **kw)
        if T is not None:
            a['T'] = T
        if self.kind == 'reaction':
            return getattr(self.obj, g['twin'])(**a)
        return call_filtered(self.obj, g['twin'], a)

    def dim(self, g, unit, T, kw):
        a = dict(g['fixed'], **kw)
        if T is not None:
            a['T'] = T
        return getattr(self.obj, g['name'])(units=unit, **a)


# ----------------------------------------------------------------------------- evaluation
def _arr(x):
    import numpy as np
    return np.asarray(x, dtype=float)


def factor(unit, comp):
    """(family, factor with pMuTT's R, factor with SI R) such that X = XoR * factor [* T]"""
    from pmutt import constants as c
    fam, base, mass = unit_info(unit)
    fp, fs = c.R(base), r_si(base)
    if mass is not None:
        m = molar_mass(comp) * MASS_IN_G[mass]
        fp, fs = fp / m, fs / m
    return fam, fp, fs


def call_unit(g, unit):
    return unit[:-2] if g['energy'] else unit


class Eval:
    """One (getter, option set, T) evaluation: twin once, dimensional form per unit."""

    def __init__(self, subj, g, T, opts, ctx, force=(), container=None):
        import numpy as np
        self.subj, self.g, self.ctx = subj, g, ctx
        self.T = T
        cont = container or subj.spec.get('T_container', 'ndarray')
        if T is None or not isinstance(T, list):
            self.Tcall = T
        else:
            self.Tcall = {'ndarray': lambda t: np.array(t, dtype=float), 'list': list, 'tuple': tuple}[cont](T)
        # value used by the oracle: ndarray of the temperatures / the documented default
        self.Tval = 298.15 if T is None else (np.array(T, dtype=float) if isinstance(T, list) else T)
        self.opts = opts
        self.kw = subj.kwargs(g, opts, force)
        self.twin_exc = None
        self.w = None
        try:
            # the default-T form is compared with the twin at the documented 298.15 K
            self.w = _arr(subj.twin(g, 298.15 if T is None else copy.copy(self.Tcall), copy.deepcopy(self.kw)))
        except core.HarnessError:
            raise
        except Exception as e:                                   # noqa
            self.twin_exc = e
        self.finite = self.w is not None and bool(np.all(np.isfinite(self.w)))

    def want(self, f):
        w = self.w * f
        if self.g['energy']:
            w = w * self.Tval
        return w

    def dim(self, unit):
        """-> ('ok', array) | ('exc', exception)"""
        try:
            return 'ok', _arr(self.subj.dim(self.g, call_unit(self.g, unit), copy.copy(self.Tcall),
                                            copy.deepcopy(self.kw)))
        except core.HarnessError:
            raise
        except Exception as e:                                   # noqa
            return 'exc', e


def rel_err(ctx, got, want):
    import numpy as np
    sc = np.maximum(np.maximum(np.abs(got), np.abs(want)), 1e-300) if np.shape(got) == np.shape(want) else None
    if sc is None:
        try:
            g, w = np.broadcast_arrays(got, want)
        except ValueError:
            return float('inf')
        return rel_err(ctx, g, w)
    return ctx.err(got, want, sc)


def u1_ok(ev, unit, comp):
    """True / False / None (not decidable: twin raised or not finite)"""
    if ev.twin_exc is not None or not ev.finite:
        return None
    st, d = ev.dim(unit)
    if st == 'exc':
        return False
    _, fp, _ = factor(unit, comp)
    return rel_err(ev.ctx, d, ev.want(fp)) <= TOL1


def blame(subj, g, T, opts, unit, ctx):
    """Which option makes U1 fail?  'none' if it fails without any option."""
    present = subj.present(g, opts)
    if not present:
        return 'none'
    if u1_ok(Eval(subj, g, T, {}, ctx), unit, subj.comp) is False:
        return 'none'
    culprits = []
    for o in present:
        rest = {k: v for k, v in opts.items() if k != o}
        if u1_ok(Eval(subj, g, T, rest, ctx), unit, subj.comp) is True:
            culprits.append(o)
    return '+'.join(culprits) if culprits else '+'.join(present)


ACTIVE = {'S_elements': True, 'use_references': False, 'verbose': True, 'include_ZPE': True, 'rev': True,
          'act': True}


def og_label(subj, g, o, v):
    """option at its active (non-default) value: 'opt'; explicitly spelled default / del_m: 'opt=value'"""
    if o == 'del_m' or (o in ACTIVE and v != ACTIVE[o]):
        o = '%s=%s' % (o, v)
    if o.startswith('use_references') and subj.kind == 'statmech' and not subj.refs_nonzero:
        o += '(no offset)'                   # counted only on species that carry a fitted, non-zero offset
    return 'og:%s.%s:%s' % (subj.cls, g['name'], o)


def r_ok(c, base):
    """is the unit string accepted by pMuTT's table at all? (a rejected one cannot be driven further)"""
    try:
        c.R(base)
        return True
    except Exception:                                            # noqa
        return False


def t_kind(T, container=None):
    if T is None:
        return 'default'
    if not isinstance(T, list):
        return 'scalar'
    return container if container in ('list', 'tuple') else 'array'


# StatMech is documented for float T.  With a sequence, both forms answering must agree (value and shape); one
# form refusing while the other answers is recorded (evidence: seq_T_one_sided) and becomes a violation with True
SEQ_STRICT_STATMECH = False


def seq_label(cls, g, container, n):
    return 'seq:%s.%s:%s:n%s' % (cls, g['name'], container or 'ndarray', n if n < 3 else '3+')


def apply_edit(obj, held, st):
    """-> (held reference, via actually used)"""
    if st['how'] == 'reassign':
        obj.elements = dict(st['new'])
        return obj.elements, 'reassign'
    via = st['via']
    if via == 'held_ref':
        d = held
    elif via == 'to_dict':
        d = None
        try:
            d = obj.to_dict().get('elements')
        except Exception:                                        # noqa
            pass
        if d is not obj.elements:                                # to_dict hands out a copy: nothing to alias
            d, via = obj.elements, 'attr'
    else:
        d = obj.elements
    if d is not obj.elements:                                    # the held dict was detached meanwhile
        d, via = obj.elements, 'attr'
    if st['how'] == 'inplace_del':
        del d[st['el']]
    elif st['how'] == 'inplace_update':
        d.update(st['changes'])
    else:
        for e, n in st['changes'].items():
            d[e] = n
    return held, via


def run_history(spec, ctx):
    """Same oracle (U1) at every evaluation of the history; the molar mass is that of the composition at the
    time of the call (the runner keeps its own model of the composition)."""
    base = spec['base']
    n_obj = 1 + max(st['obj'] for st in spec['steps'])
    subs, comps = [], []
    for k in range(n_obj):
        b = base if k == 0 else dict(base, obj=dict(base['obj'], elements=dict(spec['elements1'])), el_type='py',
                                     refs=None)
        subs.append(Subject(b))
        comps.append(dict(b['obj']['elements']))
    cls = subs[0].cls
    held = [sj.obj.elements for sj in subs]
    since = [dict() for _ in subs]          # per object: unit -> kinds of edit since the unit was last used
    last_edit = ['none'] * n_obj
    T, opts = base['T'], base['opts']
    tk = t_kind(T, base.get('T_container'))
    ctx.nontrivial()
    if n_obj > 1:
        ctx.cls('hist:%s:two_objects' % cls)
    x = ctx.extra
    for st in spec['steps']:
        k = st['obj']
        sj = subs[k]
        if st['op'] == 'edit':
            held[k], via = apply_edit(sj.obj, held[k], st)
            if st['how'] == 'inplace_del':
                del comps[k][st['el']]
            elif st['how'] == 'reassign':
                comps[k] = dict(st['new'])
            else:
                comps[k].update(st['changes'])
            last_edit[k] = st['how']
            for u in since[k]:
                since[k][u] = st['how']
            if via != 'reassign':
                ctx.cls('hist:%s:via:%s' % (cls, via))
            continue
        u = st['unit']
        fam = unit_info(u)[0]
        if u in since[k]:
            tag = '%s:same_unit' % since[k][u]
        else:
            tag = '%s:new_unit' % last_edit[k]
        since[k][u] = 'none'
        if fam == 'per_mass':
            ctx.cls('hist:%s:%s' % (cls, tag))
        _, fp, _ = factor(u, comps[k])
        for g in sj.getters:
            ev = Eval(sj, g, T, opts, ctx)
            if ev.twin_exc is not None or not ev.finite:
                x['twin_raised_hist'] = x.get('twin_raised_hist', 0) + 1
                continue
            m = {'class': cls, 'getter': g['name'], 'unit_family': fam, 'T_kind': tk, 'clause': 'U1',
                 'option': '+'.join(sj.present(g, opts)) or 'none', 'history': tag + (':other_alive' if n_obj > 1 else '')}
            s_, d = ev.dim(u)
            if s_ == 'exc':
                if m['option'] != 'none' and u1_ok(Eval(sj, g, T, {}, ctx), u, comps[k]) is False:
                    m['option'] = 'none'
                ctx.fail('U1', dict(m, exc=type(d).__name__), message=str(d)[:300], where=core._tb_where(d),
                         unit=call_unit(g, u), composition=comps[k], options=opts)
                continue
            want = ev.want(fp)
            e = rel_err(ctx, d, want)
            if e <= TOL1:
                ctx.held('U1')
                if e > ctx.max_err.get('U1', 0.0):
                    ctx.max_err['U1'] = e
            else:
                # is the mismatch there without any option? (then the options are not part of the mechanism)
                if m['option'] != 'none' and u1_ok(Eval(sj, g, T, {}, ctx), u, comps[k]) is False:
                    m['option'] = 'none'
                ctx.fail('U1', m, err=e, tol=TOL1, got=d, want=want, unit=call_unit(g, u), composition=comps[k],
                         molar_mass=molar_mass(comps[k]), options=opts)
    # the model of the composition and the object must agree at the end (harness self-check)
    for k, sj in enumerate(subs):
        if {e: float(n) for e, n in sj.obj.elements.items()} != {e: float(n) for e, n in comps[k].items()}:
            raise core.HarnessError('history model out of step with the object')


def run_case(spec, ctx):
    import numpy as np
    if spec['kind'] == 'history':
        return run_history(spec, ctx)
    subj = Subject(spec)
    T = spec['T']
    opts = spec['opts']
    units = spec['units']
    if units == 'ALL':
        units = list(MOLAR + PER_MOLECULE + (PER_MASS if subj.comp else []))
    units = [u for u in units if unit_info(u)[0] != 'per_mass' or subj.comp]
    ctx.cls(*subj.tags)
    if subj.comp and any(unit_info(u)[0] == 'per_mass' for u in units):
        ctx.cls(*['comp:%s:%s' % (subj.cls, t) for t in spec.get('el_tags', [])])
    tk = t_kind(T, spec.get('T_container'))
    n_sweep = 0
    ctx.nontrivial(bool(opts) or any(unit_info(u)[0] == 'per_mass' for u in units))
    x = ctx.extra
    # ---- the table itself: R(u) of pMuTT against the SI value
    from pmutt import constants as c
    table_bad = set()
    for base in sorted(set(unit_info(u)[1] for u in units)):
        fam = unit_info(base)[0]
        m = {'class': 'constants.R', 'getter': 'R', 'unit_family': fam, 'clause': 'U1', 'unit': base}
        r = ctx.call('U1', m, c.R, base)
        if r is core.NOVALUE:
            table_bad.add(base)
            continue
        e = abs(r / r_si(base) - 1.0)
        if e <= TOL_R:
            ctx.held('U1')
            ctx.max_err['U1_R_table_vs_SI'] = max(e, ctx.max_err.get('U1_R_table_vs_SI', 0.0))
        else:
            table_bad.add(base)
            ctx.fail('U1', m, err=e, tol=TOL_R, got=r, want=r_si(base))
    units = [u for u in units if unit_info(u)[1] not in table_bad or r_ok(c, unit_info(u)[1])]
    for g in subj.getters:
        if not subj.applicable(g):
            continue
        present = subj.present(g, opts)
        seq = isinstance(T, list)
        ev = Eval(subj, g, T, opts, ctx)
        base_mech = {'class': subj.cls, 'getter': g['name'], 'T_kind': tk}
        if seq:
            ctx.cls(seq_label(subj.cls, g, spec.get('T_container'), len(T)))
        if ev.twin_exc is not None and seq and units:
            # sequences of temperatures: both forms refuse, or both answer
            st, d = ev.dim(units[0])
            if st == 'exc':
                ctx.held('U1')
                x.setdefault('both_refuse', {})
                key = '%s.%s:T=%s%d:%s' % (subj.cls, g['name'], tk, len(T), type(d).__name__)
                x['both_refuse'][key] = x['both_refuse'].get(key, 0) + 1
            else:
                ctx.fail('U1', dict(base_mech, unit_family=unit_info(units[0])[0], option='none', clause='U1',
                                    exc='only_twin_refuses:' + type(ev.twin_exc).__name__),
                         message=str(ev.twin_exc)[:300], got=d, unit=call_unit(g, units[0]), options=opts)
            continue
        if ev.twin_exc is not None:
            x['twin_raised'] = x.get('twin_raised', 0) + 1
            x.setdefault('twin_raised_by', {})
            key = '%s.%s:%s' % (subj.cls, g['twin'], type(ev.twin_exc).__name__)
            x['twin_raised_by'][key] = x['twin_raised_by'].get(key, 0) + 1
            continue
        if not ev.finite:
            x['twin_nonfinite'] = x.get('twin_nonfinite', 0) + 1
            continue
        got = {}
        first_fail_label = {}
        all_ok = True
        for u in units:
            fam, fp, fs = factor(u, subj.comp)
            st, d = ev.dim(u)
            ctx.cls('cg:%s.%s' % (subj.cls, g['name']), 'unit:' + u, 'family:' + fam, 'T:' + tk)
            for o in (present or ['none']):
                ctx.cls('opt:' + o)
            for o in present:
                ctx.cls(og_label(subj, g, o, opts[o]))
            if st == 'exc':
                all_ok = False
                if fam not in first_fail_label:
                    first_fail_label[fam] = blame(subj, g, T, opts, u, ctx)
                ctx.fail('U1', dict(base_mech, unit_family=fam, option=first_fail_label[fam], clause='U1',
                                    exc=type(d).__name__), message=str(d)[:300], where=core._tb_where(d),
                         unit=call_unit(g, u), options=opts)
                continue
            want = ev.want(fp)
            e = rel_err(ctx, d, want)
            if e <= TOL1 and np.shape(d) != np.shape(want):
                # same numbers in another shape: the result must have the shape of dimensionless x R (x T)
                all_ok = False
                ctx.fail('U1', dict(base_mech, unit_family=fam, option='none', clause='U1', exc='shape'),
                         got_shape=list(np.shape(d)), want_shape=list(np.shape(want)), unit=call_unit(g, u),
                         options=opts)
                got[u] = (d, fp, fs)
                continue
            if e <= TOL1:
                ctx.held('U1')
                if e > ctx.max_err.get('U1', 0.0):
                    ctx.max_err['U1'] = e
                got[u] = (d, fp, fs)
            else:
                all_ok = False
                if fam not in first_fail_label:
                    first_fail_label[fam] = blame(subj, g, T, opts, u, ctx)
                ctx.fail('U1', dict(base_mech, unit_family=fam, option=first_fail_label[fam], clause='U1'),
                         err=e, tol=TOL1, got=d, want=want, unit=call_unit(g, u), options=opts, dimensionless=ev.w)
                got[u] = (d, fp, fs)
        # ---- U2: pairs of unit strings (consecutive in the drawn order, which is shuffled)
        us = list(got)
        for u1, u2 in zip(us, us[1:]):
            d1, p1, s1 = got[u1]
            d2, p2, s2 = got[u2]
            f1, f2 = unit_info(u1)[0], unit_info(u2)[0]
            # (a unit conversion does not depend on options or on T: they are not part of the mechanism)
            m = {'class': subj.cls, 'getter': g['name'], 'clause': 'U2',
                 'unit_family': f1 if f1 == f2 else '%s|%s' % tuple(sorted((f1, f2)))}
            e = rel_err(ctx, d1 * p2, d2 * p1)
            if unit_info(u1)[1] in table_bad or unit_info(u2)[1] in table_bad:
                e_si = 0.0                                 # table entry already reported under constants.R
            else:
                e_si = rel_err(ctx, d1 * s2, d2 * s1)
            if e <= TOL1 and e_si <= 2 * TOL_R:
                ctx.held('U2')
                if e > ctx.max_err.get('U2', 0.0):
                    ctx.max_err['U2'] = e
                if e_si > ctx.max_err.get('U2_si', 0.0):
                    ctx.max_err['U2_si'] = e_si
            else:
                ctx.fail('U2', m, err=e, err_si=e_si, u1=u1, u2=u2, got1=d1, got2=d2, options=opts)
        # ---- option sweep: every option the class knows, one at a time, identically to both forms
        if units and 'none' not in first_fail_label.values():
            rot = int(round(100 * (T if isinstance(T, (int, float)) else (T[0] if T else 0)))) % 6
            for o, v in subj.sweep_values(g, opts, rot, subj.getters.index(g)):
                evs = Eval(subj, g, T, dict(opts, **{o: v}), ctx, force=(o,))
                u = units[n_sweep % len(units)]
                n_sweep += 1
                fam, fp, fs = factor(u, subj.comp)
                if fam in first_fail_label:
                    continue                               # this family already fails with the drawn options
                label = og_label(subj, g, o, v)
                m = dict(base_mech, unit_family=fam, option=o, clause='U1')
                if evs.twin_exc is not None:
                    # the twin refuses the option: the dimensional form must refuse it as well
                    st, d = evs.dim(u)
                    if st == 'exc':
                        ctx.held('U1')
                        ctx.cls(label, 'opt:' + o)
                        x.setdefault('both_refuse', {})
                        key = '%s.%s:%s=%s:%s' % (subj.cls, g['name'], o, v, type(d).__name__)
                        x['both_refuse'][key] = x['both_refuse'].get(key, 0) + 1
                    else:
                        ctx.fail('U1', dict(m, exc='only_twin_refuses:' + type(evs.twin_exc).__name__),
                                 message=str(evs.twin_exc)[:300], got=d, unit=call_unit(g, u), options=evs.opts,
                                 swept=[o, v])
                    continue
                if not evs.finite:
                    x['twin_nonfinite_sweep'] = x.get('twin_nonfinite_sweep', 0) + 1
                    continue
                ctx.cls(label, 'opt:' + o)
                st, d = evs.dim(u)
                if st == 'exc':
                    ctx.fail('U1', dict(m, exc=type(d).__name__), message=str(d)[:300], where=core._tb_where(d),
                             unit=call_unit(g, u), options=evs.opts, swept=[o, v])
                    continue
                want = evs.want(fp)
                e = rel_err(ctx, d, want)
                if e <= TOL1:
                    ctx.held('U1')
                    if e > ctx.max_err.get('U1', 0.0):
                        ctx.max_err['U1'] = e
                else:
                    ctx.fail('U1', m, err=e, tol=TOL1, got=d, want=want, unit=call_unit(g, u), options=evs.opts,
                             dimensionless=evs.w, swept=[o, v])
        # ---- U3: each option on its own moves both forms identically (first drawn unit)
        if units and T is not None:
            u = units[0]
            fam, fp, fs = factor(u, subj.comp)
            # (wrong without any option: reported by U1, the same defect is not asked again)
            for o in ([] if first_fail_label.get(fam) == 'none' else present):
                rest = {k: v for k, v in opts.items() if k != o}
                ev0 = Eval(subj, g, T, rest, ctx)
                if ev0.twin_exc is not None or not ev0.finite:
                    x['twin_raised_u3'] = x.get('twin_raised_u3', 0) + 1
                    continue
                m = dict(base_mech, unit_family=fam, option=o, clause='U3')
                if u not in got:
                    break                                  # the getter raised with these options: reported by U1
                d1 = got[u][0]
                s0, d0 = ev0.dim(u)
                if s0 == 'exc':
                    ctx.fail('U3', dict(m, exc=type(d0).__name__), message=str(d0)[:300], unit=call_unit(g, u),
                             options=rest)
                    continue
                w1, w0 = ev.want(fp), ev0.want(fp)
                if np.shape(d1) != np.shape(d0):          # verbose: per-mode contributions vs their sum
                    # (scale = size of the contributions, the sum may cancel)
                    mag = max(float(np.sum(np.abs(a))) for a in (d1, d0, w1, w0))
                    d1, d0, w1, w0 = (np.sum(a) for a in (d1, d0, w1, w0))
                else:
                    mag = 1e-300
                sc = np.maximum.reduce([np.abs(d1), np.abs(d0), np.abs(w1), np.abs(w0),
                                        np.full(np.shape(d1), max(mag, 1e-300))])
                moved = float(np.max(np.abs(w1 - w0) / sc))
                e = ctx.err(d1 - d0, w1 - w0, sc)
                reacts = not (moved > 1e-9 and float(np.max(np.abs(d1 - d0) / sc)) == 0.0)
                if e <= TOL3 and reacts:
                    ctx.held('U3')
                    if e > ctx.max_err.get('U3', 0.0):
                        ctx.max_err['U3'] = e
                    if moved > 1e-9:
                        x['U3_moved'] = x.get('U3_moved', 0) + 1
                        x.setdefault('U3_moved_by', {})
                        x['U3_moved_by'][o] = x['U3_moved_by'].get(o, 0) + 1
                else:
                    ctx.fail('U3', m, err=e, tol=TOL3, unit=call_unit(g, u), moved_dimensionless=moved,
                             delta_dimensional=d1 - d0, delta_expected=w1 - w0, options=opts)
        # ---- documented default temperature (energies of modes / StatMech / reaction E_state)
        # (a getter that already failed with an explicit T is not asked again: same defect)
        if g['energy'] and tk == 'scalar' and units and all_ok and default_T_ok(subj, g):
            u = units[-1]
            st, detail = default_T_check(subj, g, opts, u, ctx)
            if st != 'skip':
                ctx.cls('T:default')
                fam = unit_info(u)[0]
                if st == 'ok':
                    ctx.held('U1')
                else:
                    # is the mismatch there without any option?
                    label = 'none' if (not present or default_T_check(subj, g, {}, u, ctx)[0] == 'fail') \
                        else '+'.join(present)
                    ctx.fail('U1', dict(base_mech, T_kind='default', unit_family=fam, option=label, clause='U1',
                                        **detail.pop('mech', {})), unit=call_unit(g, u), options=opts, **detail)

    if spec.get('T_seq') and units:
        seq_T_stage(subj, spec, units, ctx)


def one_sided(x, subj, g, tk, n, what):
    x.setdefault('seq_T_one_sided', {})
    key = '%s.%s:T=%s%d:%s' % (subj.cls, g['name'], tk, n, what)
    x['seq_T_one_sided'][key] = x['seq_T_one_sided'].get(key, 0) + 1


def seq_T_stage(subj, spec, units, ctx):
    """StatMech (documented for float T) with a list / tuple / ndarray of temperatures: every getter either
    refuses in both forms or answers in both, with equal values and the shape of dimensionless x R (x T)."""
    import numpy as np
    ts = spec['T_seq']
    x = ctx.extra
    tk = t_kind(ts['T'], ts['container'])
    for i, g in enumerate(subj.getters):
        u = units[i % len(units)]
        fam, fp, fs = factor(u, subj.comp)
        ev = Eval(subj, g, ts['T'], spec['opts'], ctx, container=ts['container'])
        ctx.cls(seq_label(subj.cls, g, ts['container'], len(ts['T'])), 'T:' + tk)
        m = {'class': subj.cls, 'getter': g['name'], 'T_kind': tk, 'unit_family': fam, 'option': 'none',
             'clause': 'U1'}
        st, d = ev.dim(u)
        if ev.twin_exc is not None:
            if st == 'exc':
                ctx.held('U1')
                x.setdefault('both_refuse', {})
                key = '%s.%s:T=%s%d:%s' % (subj.cls, g['name'], tk, len(ts['T']), type(d).__name__)
                x['both_refuse'][key] = x['both_refuse'].get(key, 0) + 1
            elif SEQ_STRICT_STATMECH:
                ctx.fail('U1', dict(m, exc='only_twin_refuses:' + type(ev.twin_exc).__name__),
                         message=str(ev.twin_exc)[:300], got=d, unit=call_unit(g, u), options=spec['opts'])
            else:
                one_sided(x, subj, g, tk, len(ts['T']), 'only_twin_refuses:' + type(ev.twin_exc).__name__)
            continue
        if st == 'exc':
            if SEQ_STRICT_STATMECH:
                ctx.fail('U1', dict(m, exc=type(d).__name__), message=str(d)[:300], where=core._tb_where(d),
                         unit=call_unit(g, u), options=spec['opts'], T=ts['T'])
            else:
                one_sided(x, subj, g, tk, len(ts['T']), 'only_dimensional_refuses:' + type(d).__name__)
            continue
        if not ev.finite:
            continue
        want = ev.want(fp)
        e = rel_err(ctx, d, want)
        if e <= TOL1 and np.shape(d) == np.shape(want):
            ctx.held('U1')
            x['seq_T_both_answer'] = x.get('seq_T_both_answer', 0) + 1
        elif e <= TOL1:
            ctx.fail('U1', dict(m, exc='shape'), got_shape=list(np.shape(d)), want_shape=list(np.shape(want)),
                     unit=call_unit(g, u), options=spec['opts'], T=ts['T'])
        else:
            ctx.fail('U1', m, err=e, tol=TOL1, got=d, want=want, unit=call_unit(g, u), options=spec['opts'],
                     T=ts['T'])


def default_T_check(subj, g, opts, u, ctx):
    """get_X(units) without T against the twin at the documented 298.15 K -> ('ok'|'fail'|'skip', detail)"""
    evd = Eval(subj, g, None, opts, ctx)
    if evd.twin_exc is not None or not evd.finite:
        return 'skip', {}
    fam, fp, fs = factor(u, subj.comp)
    st, d = evd.dim(u)
    if st == 'exc':
        return 'fail', {'mech': {'exc': type(d).__name__}, 'message': str(d)[:300]}
    want = evd.want(fp)
    e = rel_err(ctx, d, want)
    if e <= TOL1:
        return 'ok', {}
    return 'fail', {'err': e, 'tol': TOL1, 'got': d, 'want': want}


def default_T_ok(subj, g):
    """getters whose signature documents T=298.15 K"""
    if subj.kind in ('mode', 'statmech'):
        return True
    if subj.kind == 'reaction':
        return g['name'] == 'get_E_state'
    return False

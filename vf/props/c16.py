"""C16  Equilibrium compositions conserve atoms and minimise Gibbs energy.

Workload: random ideal-gas networks (2-12 species, 1-4 elements, NASA-7 polynomials whose
G/RT spans <= 60 at every evaluated temperature, full-rank and rank-deficient formula
matrices, feeds that contain every element, species given as Nasa objects or through a
thermdat file written here in the fixed-column Chemkin layout) and the pinned propane/steam
network of pmutt/tests/equilibrium (subsets, feeds, many T, P).  Every point is solved by
the real `Equilibrium.get_net_comp` in the listed order and in a permuted order, and by the
independent element-potential solver `vf.ref.gibbs`.

Oracles (at the public boundary)
  Q1 atoms      n^T A = b (A, b rebuilt from the spec, not read from the object); an exception of
                the constructor or of get_net_comp on an in-range input is a Q1 violation
  Q2 amounts    n >= 0, sum x = 1, x = n / sum n, species echoed in the listed order
  Q3 optimal    G(n_pmutt) <= G(n_ref) + tol   (reference must certify itself: duality gap)
  Q4 reactions  |sum nu_i (g_i + ln(x_i P))| <= tol * sqrt(sum nu_i^2 / x_i) for an integer
                null-space basis of the formula matrix restricted to species with x > 1e-6
  Q5 order      permuted species order gives the same moles
  Q6 signal     OptimizeResult.success == False (seen by a sys.monitoring probe on
                scipy.optimize.minimize as called from get_net_comp)  =>  the caller got a
                warning or an exception.  Q1-Q5 are waived for runs signalled as failed.
  Q7 function   the composition is a function of (network, feed, T, P) only.  The listed order is ONE
                object driven through a call history (repeat of the bit-identical (T, P) after the
                caller edited the returned arrays in place, same T other P, same P other T, A-B-A);
                every call is checked by Q1-Q4/Q6, and in addition: a repeat / revisit returns the
                first call's numbers, a history-laden object agrees with a newly built one, results
                handed out earlier are not altered by later calls, and a network read with
                from_thermdat agrees with the same network given as Nasa objects.  The thermdat path
                string is reused on purpose (another file with the same species names was read and
                solved at that path string before: overwritten file, or the same relative name in
                another working directory).  Inputs are identical, so the tolerance is 1e-10 (observed 0)
                and the mech carries no regime (the false-convergence finding cannot hide it).

Every (network, feed, T, P) point is classified by the certified reference solution into a
*regime* (an input feature, independent of what pMuTT returned): `regular` = every species has
an equilibrium mole fraction >= 1e-8, `deep_trace` = some species lies below that,
`forced_zero` = the atom balance alone forces some species to zero.  The regime (and the rank
class of the formula matrix) is part of the mech of Q3-Q5, because SLSQP's accuracy on the
unchanged tree depends on it (see the report / known findings); the tolerances are calibrated
on the regular, full-rank class.
"""
import math
import os
import sys
import warnings

from vf import core

ID = 'C16'
N = {'quick': 3000, 'thorough': 100000}
BUDGET = {'quick': 800, 'thorough': 6000}       # seconds per shard; a slow tree is inconclusive, not a hang
NT_RULE = ('case = one network (random: 2-12 species over 1-4 elements with generated NASA-7 '
           'coefficients, G/RT span <= 60 at each T, full-rank or rank-deficient formula matrix; or '
           'a subset of the pinned propane/steam thermdat) + feed containing every element + 1-3 '
           '(T, P) points in 300-2500 K x 0.01-100 atm + a call history on one object (in-place edits of '
           'results, repeats, pressure / temperature sweeps, returns) + a species permutation + element '
           'dictionaries with explicit zero counts at random positions + a reused thermdat path, drawn per case index '
           'from a seeded PRNG after a list of directed cases; non-trivial = >=2 elements, >=4 '
           'species and >=1 independent reaction, solver converged and the certified reference '
           'solution compared; distinct = distinct canonical JSON of the case')
REQUIRED_ORACLES = ['Q1', 'Q2', 'Q3', 'Q4', 'Q5', 'Q6', 'Q7']
REQUIRED_CLASSES = ['network:random', 'network:pinned', 'rank:full', 'rank:deficient',
                    'elements:1', 'elements:2', 'elements:3', 'elements:4',
                    'species:2-3', 'species:4-7', 'species:8-12',
                    'api:model_list', 'api:model_dict', 'api:from_thermdat',
                    'feed:all_positive', 'feed:some_zero', 'feed:single_species',
                    'span:<5', 'span:5-30', 'span:30-60',
                    'T:300', 'T:2500', 'T:<T_mid', 'T:>=T_mid', 'P:0.01', 'P:100', 'P:interior',
                    'perm:nontrivial', 'solver:ok', 'reactions:0', 'reactions:>=3',
                    'regime:regular', 'regime:deep_trace', 'regime:forced_zero', 'asserted:regular',
                    'trace_species_present', 'thermdat:zero_count_slots', 'thermdat:superset',
                    'elements:zero_count_listed', 'elements:zero_count_leading',
                    'elements:zero_count_leading(thermdat)', 'elements:zero_count_leading(model)',
                    'history:thermdat_path_rewritten', 'history:thermdat_same_name_other_dir',
                    'history:repeat_same_TP_after_inplace_edit', 'history:repeat_same_TP',
                    'history:same_T_other_P', 'history:same_P_other_T',
                    'history:revisit_after_other_conditions',
                    'history:network_reordered_on_live_object', 'history:network_amounts_doubled_on_live_object',
                    'species_opts:default(gas label + GasPressureAdj)', 'species_opts:gas_label_without_P_adj',
                    'species_opts:P_adj_without_gas_label', 'species_opts:no_phase_label',
                    'species_opts:mixed_in_one_network']
REQUIRED_BRANCHES = ['Q4:minor_species', 'Q4:major_species_only']
REQUIRED_PROBES = ['scipy.optimize.minimize', 'Equilibrium.get_net_comp', 'Equilibrium._objective',
                   'Equilibrium._constraints1_eq', 'Equilibrium.__init__', 'read_thermdat']
ASSUMPTIONS = [
    'NASA polynomials refer to a standard pressure of 1 bar; P is given in atm (1 atm = 1.01325 bar), '
    'ideal-gas mixture: mu_i/RT = g_i(T) + ln(x_i P/1 bar)',
    'temperatures lie inside [T_low, T_high] of every species and never exactly on a T_mid '
    '(the pinned thermdat entries are discontinuous by ~1e-5 in G/RT there)',
    'a run counts as signalled if get_net_comp raised or emitted any warning other than scipy\'s '
    '"Values in x were outside bounds" clipping notice, which pMuTT itself filters out and which '
    'says nothing about convergence',
    'Q3 is evaluated on the Lagrangian G(n) - pi.(A^T n - b) with the reference element potentials pi, '
    'which equals G(n) for an atom-conserving n and cannot be lowered by the (Q1-tolerated) residual '
    'of the atom balance',
    'pinned-network points below ~1250 K have a G/RT span above 60 (up to 250 at 300 K), i.e. they lie '
    'outside the quantifier: there only Q1, Q2 and the signal clause Q6 are asserted (the witness of the '
    'discarded success flag, 300 K / 100 atm, is one of them); Q3-Q5 are recorded as telemetry',
    'feeds: amounts are 0 or >= 0.01 with three decimals; every element total > 0',
    'element dictionaries may list elements with an explicit count of 0 (as read_thermdat produces for the '
    'fixed element fields of an entry), also for elements that no species of the network contains and at any '
    'position; such entries do not make the element part of the network',
    'species objects: the phase label (None, G, g, gas; given to the constructor or assigned later), '
    'add_gas_P_adj and misc_models ([], [GasPressureAdj()], cleared) do not change the standard-state G/RT of a '
    'species and therefore must not change the equilibrium; the unchanged tree returns bit-identical results '
    'for all 96 combinations (N2O4 = 2 NO2 at 20 atm).  A label such as S declares the species not to be a gas '
    'and is outside the quantifier (not generated)',
    'network attribute of a live object: a re-ordering with the same species and amounts leaves the feed (a '
    'mapping species -> amount) unchanged, so all oracles apply unchanged (the unchanged tree ignores the '
    'attribute after construction).  Changed amounts are ambiguous (construction feed or current feed); for the '
    'one generated edit of that kind (all amounts doubled) the result may be the equilibrium of either feed, i.e. '
    '1x or 2x one and the same composition, which is then checked by Q1-Q4/Q7 after dividing by that factor',
    'Q7: SLSQP is deterministic, so two solves with identical inputs (same object again, a newly built object, '
    'the other API with the same 9-digit coefficients) must agree to rounding; in-place edits applied to a '
    'returned composition are the caller\'s business and must not leak into later results',
    'Q4 measures the affinity of a reaction in the metric sqrt(sum nu_i^2/x_i): an error d in ln x_i '
    'costs n_i d^2/2 of Gibbs energy, so a minimiser that stops on the objective leaves d ~ 1/sqrt(x_i); '
    'for reactions among major species this is the plain |deltaG + RT ln Q| <= ~1e-3 RT',
    'Q3-Q5 tolerances are calibrated on full-rank networks in the regular regime (all equilibrium mole '
    'fractions >= 1e-8); the other classes are asserted with the same tolerances and carry their class in '
    'the mech',
]

POOL = ['H', 'C', 'O', 'N', 'S', 'Ar', 'He', 'Cl']
ATM_IN_BAR = 1.01325
TRACE = 1e-6

# tolerances (calibrated on the unchanged tree, seeds 0-5, see report)
TOL_Q1 = 1e-8          # * sum(b)
TOL_Q2 = 1e-12
TOL_Q3 = 1e-7          # * (1 + |G|)
TOL_Q4 = 5e-4          # * sqrt(sum nu_i^2 / x_i)
TOL_Q5 = 5e-6          # * sum(b)
TOL_Q7 = 1e-10         # * sum(b)   (identical inputs, deterministic solver: observed 0)
DEEP = 1e-8            # regime boundary: smallest equilibrium mole fraction (reference solution)

PINNED_REL = os.path.join('pmutt', 'tests', 'equilibrium', 'thermdat_equilibrium_unittest.txt')
PINNED_ORDER = ['CH3CH2CH3', 'H2O', 'H2', 'CH2CHCH3', 'CH4', 'CHCH', 'CH2CH2', 'CH3CH3', 'CO2', 'CO']
PINNED_FEED = {'CH3CH2CH3': 1, 'H2O': 0.7}
PINNED_TMIDS = (400.0, 500.0, 600.0, 700.0)


# ------------------------------------------------------------------ thermdat (independent I/O)
def _e15(v):
    s = '% .8E' % v
    if len(s) != 15:
        raise core.HarnessError('coefficient does not fit 15 columns: %r' % v)
    return s


def q9(v):
    """value as it survives the 9-significant-digit thermdat field"""
    return float('%.8E' % v)


def thermdat_entry(sp, zero_slots=False):
    """Four fixed-column lines of one species (Chemkin II thermodynamic data format: name 1-18,
    date 19-24, four element slots of 2+3 columns from 25, phase 45, T_low 46-55, T_high 56-65,
    T_common 66-73, line index in column 80; fifteen-column E fields below)."""
    el = [(k, v) for k, v in sp['elements'].items() if v > 0 or zero_slots]
    if len(el) > 4:
        raise core.HarnessError('more than four element slots')
    slots = ''.join('%-2s%3d' % (k, v) for k, v in el).ljust(20)
    l1 = '%-18s%-6s%s%s%10.2f%10.2f%8.2f' % (sp['name'], '', slots, 'G', sp['T_low'], sp['T_high'],
                                             sp['T_mid'])
    l1 = l1.ljust(79) + '1'
    ah, al = sp['a_high'], sp['a_low']
    l2 = ''.join(_e15(v) for v in ah[0:5]).ljust(79) + '2'
    l3 = ''.join(_e15(v) for v in (ah[5], ah[6], al[0], al[1], al[2])).ljust(79) + '3'
    l4 = ''.join(_e15(v) for v in al[3:7]).ljust(79) + '4'
    return '\n'.join((l1, l2, l3, l4)) + '\n'


def write_thermdat(path, species, zero_slots=False):
    with open(path, 'w') as f:
        f.write('THERMO ALL\n   300.000  1000.000  5000.000\n')
        for sp in species:
            f.write(thermdat_entry(sp, zero_slots))
        f.write('END\n')


def parse_thermdat(path):
    """Fixed-column reader written from the format description (not pMuTT's)."""
    out = {}
    with open(path) as f:
        lines = [ln.rstrip('\n') for ln in f]
    i = 0
    while i < len(lines):
        ln = lines[i]
        if len(ln) >= 80 and ln[79] == '1' and i + 3 < len(lines) and lines[i + 1][79:80] == '2':
            name = ln[:18].split()[0]
            elements = {}
            for k in range(4):
                sym = ln[24 + 5 * k:26 + 5 * k].strip()
                cnt = ln[26 + 5 * k:29 + 5 * k].strip()
                if sym and sym != '0':
                    elements[sym] = int(float(cnt)) if cnt else 0
            T_low, T_high, T_mid = float(ln[45:55]), float(ln[55:65]), float(ln[65:73])
            l2, l3, l4 = lines[i + 1], lines[i + 2], lines[i + 3]
            fld = lambda s, k: float(s[15 * k:15 * k + 15])
            a_high = [fld(l2, k) for k in range(5)] + [fld(l3, 0), fld(l3, 1)]
            a_low = [fld(l3, 2), fld(l3, 3), fld(l3, 4)] + [fld(l4, k) for k in range(4)]
            out[name] = {'name': name, 'elements': elements, 'T_low': T_low, 'T_mid': T_mid,
                         'T_high': T_high, 'a_low': a_low, 'a_high': a_high}
            i += 4
        else:
            i += 1
    return out


def g_ref(sp, T):
    from vf.ref import poly
    a = sp['a_low'] if T < sp['T_mid'] else sp['a_high']
    return poly.nasa7_HoRT(a, T) - poly.nasa7_SoR(a, T)


# ------------------------------------------------------------------ generator
def _formula_matrix(species, elems):
    return [[int(sp['elements'].get(e, 0)) for e in elems] for sp in species]


def _elements_of(species):
    out = []
    for sp in species:
        for e, v in sp['elements'].items():
            if v > 0 and e not in out:
                out.append(e)
    return out


def _gen_compositions(rng, ns, elems, want_rank):
    """list of dicts; want_rank 'full' | 'deficient'.  Returns None if impossible."""
    from vf.ref import gibbs
    import numpy as np
    ne = len(elems)
    for _ in range(200):
        style = rng.choice(['small', 'small', 'organic'])
        hi = 3 if style == 'small' else 8
        if want_rank == 'deficient':
            mode = rng.choice(['few_species', 'tied', 'oligomers'])
            if mode == 'few_species' and ns < ne:
                comps = [[rng.randint(0, hi) for _ in elems] for _ in range(ns)]
            elif mode == 'tied' and ne >= 2:
                k = rng.randint(1, 3)
                comps = []
                for _ in range(ns):
                    c = [rng.randint(0, hi) for _ in elems]
                    c[1] = min(99, k * c[0])
                    comps.append(c)
            elif mode == 'oligomers' and ne >= 2:
                base = [rng.randint(1, 3) for _ in elems]
                comps = [[m * x for x in base] for m in (rng.randint(1, 4) for _ in range(ns))]
            else:
                continue
        else:
            comps = []
            for _ in range(ns):
                c = [rng.randint(0, hi) if rng.random() < 0.7 else 0 for _ in elems]
                comps.append(c)
        if any(sum(c) == 0 for c in comps):
            continue
        if any(all(c[k] == 0 for c in comps) for k in range(ne)):
            continue
        r = gibbs.rank(np.array(comps))
        if (want_rank == 'full') == (r == ne):
            return comps
    return None


def _gen_feed(rng, comps, kind):
    """amounts per species (list), every element total > 0; None if impossible."""
    ns, ne = len(comps), len(comps[0])
    for _ in range(60):
        if kind == 'all_positive':
            f = [round(rng.uniform(0.01, 5.0), 3) for _ in range(ns)]
        elif kind == 'single_species':
            cand = [i for i in range(ns) if all(v > 0 for v in comps[i])]
            if not cand:
                return None
            f = [0.0] * ns
            f[rng.choice(cand)] = rng.choice([1, 1.0, round(rng.uniform(0.01, 10.0), 3)])
        else:
            k = rng.randint(1, max(1, ns - 1))
            idx = rng.sample(range(ns), k)
            f = [0] * ns
            for i in idx:
                f[i] = rng.choice([1, 2, round(rng.uniform(0.01, 5.0), 3), round(rng.uniform(0.01, 5.0), 3)])
        tot = [sum(f[i] * comps[i][k] for i in range(ns)) for k in range(ne)]
        if all(t > 0 for t in tot):
            if kind == 'some_zero' and all(v > 0 for v in f):
                continue
            return f
    return None


def _gen_T(rng):
    c = rng.random()
    if c < 0.1:
        return 300.0
    if c < 0.2:
        return 2500.0
    if c < 0.6:
        return round(rng.uniform(300.0, 2500.0), 1)
    return round(math.exp(rng.uniform(math.log(300.0), math.log(2500.0))), 1)


def _gen_P(rng):
    c = rng.random()
    if c < 0.12:
        return 0.01
    if c < 0.24:
        return 100.0
    if c < 0.34:
        return 1.0
    return float('%.4g' % math.exp(rng.uniform(math.log(0.01), math.log(100.0))))


def _gen_poly(rng, T_mid):
    """Cp/R > 0 polynomial pair, H and S continuous at T_mid; a6, a7 still free (set later)."""
    from vf.ref import poly
    def seg():
        a1 = rng.uniform(2.5, 12.0)
        a2 = rng.uniform(-1.0, 3.0) * 1e-3
        a3 = rng.uniform(-1.0, 1.0) * 1e-7
        a4 = rng.uniform(-1.0, 1.0) * 1e-11
        a5 = rng.uniform(-1.0, 1.0) * 1e-15
        return [a1, a2, a3, a4, a5, 0.0, rng.uniform(-10.0, 30.0)]
    al, ah = seg(), seg()
    ah[5] += (poly.nasa7_HoRT(al, T_mid) - poly.nasa7_HoRT(ah, T_mid)) * T_mid
    ah[6] += poly.nasa7_SoR(al, T_mid) - poly.nasa7_SoR(ah, T_mid)
    return al, ah


def _name(rng, comp, elems, idx, used):
    base = ''.join('%s%d' % (e, v) for e, v in zip(elems, comp) if v > 0)
    style = rng.choice(['formula', 'formula', 'plain'])
    nm = base if style == 'formula' else 'SP%d' % idx
    if nm in used or len(nm) > 14:
        nm = ('%s_%d' % (base[:10], idx))
    used.add(nm)
    return nm


def generate(rng, tier):
    if rng.random() < 0.18:
        return _generate_pinned(rng)
    for _ in range(100):
        spec = _generate_random(rng)
        if spec is not None:
            return spec
    raise core.HarnessError('generator failed')


def _generate_random(rng):
    ne = rng.choice([1, 2, 2, 3, 3, 4, 4])
    want_rank = 'deficient' if (ne >= 2 and rng.random() < 0.2) else 'full'
    ns = rng.choice([2, 3, rng.randint(2, 12), rng.randint(4, 12), rng.randint(8, 12)])
    if want_rank == 'full' and ns < ne:
        ns = ne + rng.randint(0, 3)
    elems = rng.sample(POOL, ne)
    comps = _gen_compositions(rng, ns, elems, want_rank)
    if comps is None:
        return None
    feed_kind = rng.choice(['all_positive', 'some_zero', 'some_zero', 'single_species'])
    feed = _gen_feed(rng, comps, feed_kind)
    if feed is None:
        feed_kind = 'all_positive'
        feed = _gen_feed(rng, comps, feed_kind)
    # temperatures: coefficients are tuned at the lowest one
    npts = rng.choice([1, 1, 2, 3])
    pts = sorted(((_gen_T(rng), _gen_P(rng)) for _ in range(npts)), key=lambda tp: tp[0])
    T1 = pts[0][0]
    span = rng.choice([rng.uniform(0.0, 2.0), rng.uniform(0.0, 5.0), rng.uniform(5.0, 30.0), rng.uniform(30.0, 59.0)])
    g0 = rng.uniform(-100.0, 40.0)
    u = [rng.random() for _ in range(ns)]
    lo, hi = rng.sample(range(ns), 2)
    u[lo], u[hi] = 0.0, 1.0
    api = rng.choice(['model_list', 'model_dict', 'from_thermdat', 'from_thermdat'])
    # how the element dictionaries are written: positive counts only | every network element with
    # explicit zeros | thermdat-style fixed fields (network elements + elements NO species contains,
    # one common random order, zeros explicit) | per-species random order with some explicit zeros
    zmode = rng.choice(['none', 'none', 'slots', 'fixed_fields', 'fixed_fields', 'ragged'])
    zero_slots = zmode != 'none'
    room = (4 - ne) if api == 'from_thermdat' else 2
    absent = []
    if zmode in ('fixed_fields', 'ragged') and room > 0:
        absent = rng.sample([e for e in POOL if e not in elems], rng.randint(1, room))
    fields = list(elems) + absent
    if zmode in ('fixed_fields', 'ragged'):
        rng.shuffle(fields)
    used = set()
    species = []
    for i in range(ns):
        T_mid = round(rng.uniform(600.0, 1500.0), 2)
        al, ah = _gen_poly(rng, T_mid)
        count = dict(zip(elems, comps[i]))
        if zmode == 'none':
            eld = {e: v for e, v in zip(elems, comps[i]) if v > 0}
        elif zmode == 'ragged':
            keep = [f for f in fields if count.get(f, 0) > 0 or rng.random() < 0.5]
            rng.shuffle(keep)
            eld = {f: count.get(f, 0) for f in keep}
        else:
            eld = {f: count.get(f, 0) for f in fields}
        sp = {'name': _name(rng, comps[i], elems, i, used), 'elements': eld,
              'T_low': rng.choice([200.0, 298.15, 300.0]), 'T_mid': T_mid,
              'T_high': rng.choice([2500.0, 3000.0, 5000.0]), 'a_low': al, 'a_high': ah}
        shift = (g0 + u[i] * span - g_ref(sp, T1)) * T1
        sp['a_low'] = [q9(v) for v in al[:5]] + [q9(al[5] + shift), q9(al[6])]
        sp['a_high'] = [q9(v) for v in ah[:5]] + [q9(ah[5] + shift), q9(ah[6])]
        species.append(sp)
    if zmode == 'slots' and len(elems) < 4 and rng.random() < 0.5:
        # an element that no species of the network contains, as the last field (N in the pinned file)
        extra = rng.choice([e for e in POOL if e not in elems])
        for sp in species:
            sp['elements'][extra] = 0
    # keep only points that stay inside the quantifier (span <= 60, T away from T_mid)
    good = []
    for T, P in pts:
        if any(abs(T - sp['T_mid']) < 0.05 for sp in species):
            continue
        g = [g_ref(sp, T) for sp in species]
        if max(g) - min(g) <= 60.0:
            good.append([T, P])
    if not good:
        return None
    perm = list(range(ns))
    while perm == list(range(ns)):
        rng.shuffle(perm)

    def ok_T(T):
        if any(abs(T - sp['T_mid']) < 0.05 for sp in species):
            return False
        gg = [g_ref(sp, T) for sp in species]
        return max(gg) - min(gg) <= 60.0
    good, calls = _gen_calls(rng, good, ok_T, lambda: _gen_T(rng))
    _gen_species_options(rng, species, api)
    spec = {'network': 'random', 'api': api, 'species': species,
            'feed': [[sp['name'], f] for sp, f in zip(species, feed)],
            'points': good, 'calls': calls, 'perm': perm}
    if api == 'from_thermdat':
        order = list(range(ns))
        rng.shuffle(order)
        spec['file_order'] = order
        spec['zero_slots'] = zero_slots
        spec['decoys'] = rng.choice([0, 0, 1, 3])
        spec['reuse'] = rng.choice(['rewrite', 'rewrite', 'chdir'])
    return spec


MUTATIONS = ('mmol', 'percent', 'normalise', 'zero_traces', 'sort')
NETWORK_OPS = ('sorted', 'reversed', 'rotate', 'pop_reinsert', 'equal_copy', 'scale2')


def _gen_species_options(rng, species, api):
    """How the caller constructed the (gas) species objects: phase label None | 'G' | 'g' | 'gas', given to
    the constructor or assigned afterwards; add_gas_P_adj default | True | False; misc_models default |
    [] | [GasPressureAdj()] | cleared after construction.  None of this changes the species'
    standard-state G/RT, so none of it may change the equilibrium.  (A label such as 'S' would declare the
    species not to be a gas: outside the quantifier, not generated.)  Species that come from a
    thermdat file can only be edited after the read (eq.model[name])."""
    mode = rng.choice(['default', 'default', 'uniform', 'mixed', 'mixed'])
    if mode == 'default':
        return

    def one():
        o = {'phase': rng.choice([None, 'G', 'g', 'gas', 'gas']),
             'add_gas_P_adj': rng.choice([None, None, True, False, False]),
             'misc': rng.choice([None, None, 'empty', 'adj', 'cleared']),
             'phase_late': rng.random() < 0.3}
        if api == 'from_thermdat':
            o = {'phase': rng.choice(['G', 'g', 'gas', None]), 'add_gas_P_adj': None,
                 'misc': rng.choice([None, 'cleared', 'cleared', 'empty']), 'phase_late': rng.random() < 0.5}
        return o
    common = one()
    for sp in species:
        if mode == 'uniform':
            sp['opts'] = dict(common)
        elif rng.random() < 0.6:
            sp['opts'] = one()




def _gen_calls(rng, points, ok_T, new_T):
    """Call history on ONE Equilibrium object: every point at least once, plus (a) an immediate
    repeat of a bit-identical (T, P) after the caller edited the returned arrays in place, (b) the
    same T at another P, (c) a return to earlier conditions after other ones (A, B, A), (d) the same
    P at another T.  Entries: [point index, in-place edit applied to the result | None, 'fresh' if
    the result is also compared with a newly built object]."""
    points = [list(p) for p in points]
    calls = [[k, None] for k in range(len(points))]

    def pos_of(k):
        return max(i for i, c in enumerate(calls) if c[0] == k)
    if rng.random() < 0.35:
        k = rng.randrange(len(points))
        i = pos_of(k)
        calls[i][1] = rng.choice(MUTATIONS)
        calls.insert(i + 1, [k, None])
        if rng.random() < 0.3:                      # and once more, now unedited in between
            calls.insert(i + 2, [k, None])
    if rng.random() < 0.3:
        k = rng.randrange(len(points))
        T, P = points[k]
        P2 = _gen_P(rng)
        if P2 != P:
            points.append([T, P2])
            calls.insert(pos_of(k) + 1, [len(points) - 1, None, 'fresh'])
    if len(points) >= 2 and rng.random() < 0.25:
        k, j = rng.sample(range(len(points)), 2)
        i = max(pos_of(k), pos_of(j))
        calls.insert(i + 1, [k if calls[i][0] == j else j, None])
    if rng.random() < 0.12:
        k = rng.randrange(len(points))
        T, P = points[k]
        T2 = new_T()
        if T2 != T and ok_T(T2):
            points.append([T2, P])
            calls.insert(pos_of(k) + 1, [len(points) - 1, None, 'fresh'])
    calls = [list(c) + [None] * (4 - len(c)) for c in calls]
    # (e) the `network` attribute of the live object is re-assigned / re-ordered (same species, same
    #     amounts, other key order) or all its amounts are doubled, before one of the calls
    if rng.random() < 0.3:
        i = rng.randrange(len(calls))
        calls[i][3] = rng.choice(NETWORK_OPS)
        if calls[i][3] != 'scale2' and rng.random() < 0.3:
            calls[rng.randrange(len(calls))][3] = rng.choice(NETWORK_OPS[:-1])
    return points, calls


def _nudge(T):
    for tm in PINNED_TMIDS:
        if abs(T - tm) < 0.5:
            return tm + 1.0
    return T


def _generate_pinned(rng):
    ns = rng.choice([10, 10, rng.randint(2, 10), rng.randint(4, 10)])
    names = list(PINNED_ORDER)
    if ns < 10:
        names = rng.sample(PINNED_ORDER, ns)
    comp = {'CH3CH2CH3': (3, 8, 0), 'H2O': (0, 2, 1), 'H2': (0, 2, 0), 'CH2CHCH3': (3, 6, 0),
            'CH4': (1, 4, 0), 'CHCH': (2, 2, 0), 'CH2CH2': (2, 4, 0), 'CH3CH3': (2, 6, 0),
            'CO2': (1, 0, 2), 'CO': (1, 0, 1)}
    cols = [k for k in range(3) if any(comp[n][k] for n in names)]
    comps = [[comp[n][k] for k in cols] for n in names]
    kind = rng.choice(['standard', 'all_positive', 'some_zero', 'single_species'])
    feed = None
    if kind == 'standard' and all(n in names for n in PINNED_FEED):
        feed = [PINNED_FEED.get(n, 0) for n in names]
    elif kind != 'standard':
        feed = _gen_feed(rng, comps, kind)
    if feed is None:
        feed = _gen_feed(rng, comps, 'all_positive')
    npts = rng.choice([1, 2, 3])
    pts = []
    for _ in range(npts):
        c = rng.random()
        T = 300.0 if c < 0.1 else 1500.0 if c < 0.2 else round(rng.uniform(300.0, 1500.0), 1)
        pts.append([_nudge(T), _gen_P(rng)])
    perm = list(range(len(names)))
    while perm == list(range(len(names))):
        rng.shuffle(perm)
    pts, calls = _gen_calls(rng, pts, lambda T: True,
                            lambda: _nudge(round(rng.uniform(300.0, 1500.0), 1)))
    return {'network': 'pinned', 'api': 'from_thermdat', 'names': names,
            'feed': [[n, f] for n, f in zip(names, feed)], 'points': pts, 'calls': calls, 'perm': perm}


def _mk_sp(name, elements, g_at_1000, cp=3.5, s=20.0):
    """simple constant-Cp species with prescribed G/RT at 1000 K"""
    from vf.ref import poly
    a = [cp, 0.0, 0.0, 0.0, 0.0, 0.0, s]
    a[5] = q9((g_at_1000 - (poly.nasa7_HoRT(a, 1000.0) - poly.nasa7_SoR(a, 1000.0))) * 1000.0)
    return {'name': name, 'elements': dict(elements), 'T_low': 200.0, 'T_mid': 1000.0 + 0.5,
            'T_high': 3000.0, 'a_low': list(a), 'a_high': list(a)}


def directed(tier):
    D = []
    rev = list(range(9, -1, -1))
    std = [[n, PINNED_FEED.get(n, 0)] for n in PINNED_ORDER]
    # witness of the discarded success flag named by the design: pinned network, 300 K, 100 atm ends
    # with status 8 (multi-threaded OpenBLAS; see the note at the two random witnesses below)
    D.append({'network': 'pinned', 'api': 'from_thermdat', 'names': PINNED_ORDER, 'feed': std,
              'points': [[300.0, 100.0]], 'perm': rev})
    for T in (300.0, 350.0, 450.0, 501.0, 650.0, 800.0, 1000.0, 1250.0, 1500.0):
        D.append({'network': 'pinned', 'api': 'from_thermdat', 'names': PINNED_ORDER, 'feed': std,
                  'points': [[T, 0.01], [T, 1.0]] + ([[T, 100.0]] if T != 300.0 else []),
                  'perm': rev if int(T) % 100 else [3, 7, 1, 9, 0, 5, 2, 8, 6, 4]})
    # robust witnesses of the same defect (status 8 with single- and multi-threaded BLAS alike, unlike
    # the pinned point above, which converges when OpenBLAS runs single-threaded as in the shard workers)
    D.append({"network": "random", "api": "model_dict", "species": [
        {"name": "SP0", "elements": {"H": 3}, "T_low": 300.0, "T_mid": 1070.62, "T_high": 5000.0,
         "a_low": [9.84543355, 0.0020892072, -5.03589267e-08, -8.29009071e-12, -7.96267303e-16, 3651.34339, 28.2891327],
         "a_high": [3.66955026, -0.000344620631, -6.64302054e-08, -7.61689278e-12, -6.57421723e-16, 11664.5413, 73.986647]},
        {"name": "C6", "elements": {"C": 6}, "T_low": 200.0, "T_mid": 669.1, "T_high": 2500.0,
         "a_low": [11.3703842, 0.00253429762, -4.18100441e-08, -1.03268317e-12, 9.45012709e-16, -24666.4844, 2.95141122],
         "a_high": [3.00285961, 0.00243808644, -7.89826748e-08, 1.4945259e-12, 4.23002991e-16, -19042.638, 57.4624398]},
        {"name": "H1C8", "elements": {"H": 1, "C": 8}, "T_low": 298.15, "T_mid": 1276.31, "T_high": 3000.0,
         "a_low": [7.0913002, 0.00230813365, 9.90785879e-08, -9.06593561e-12, 2.83502619e-16, -65821.852, 1.55531489],
         "a_high": [8.14499116, 0.00224731999, -4.87070335e-08, 6.32711012e-12, 6.85273171e-16, -67025.2215, -5.79334488]}],
        "feed": [["SP0", 1], ["C6", 0], ["H1C8", 1.537]], "points": [[1619.8, 0.09809]], "perm": [2, 0, 1]})
    D.append({"network": "random", "api": "model_list", "species": [
        {"name": "SP0", "elements": {"S": 3, "He": 1}, "T_low": 300.0, "T_mid": 688.65, "T_high": 2500.0,
         "a_low": [7.31288593, 0.000966579204, 3.26460849e-08, -2.6718035e-12, 9.68650019e-16, -2401.87603, -8.48743437],
         "a_high": [8.43246745, 0.00190271365, 9.99791025e-09, -6.55175164e-12, -1.28070244e-16, -3392.13386, -16.4424155]},
        {"name": "He2", "elements": {"S": 0, "He": 2}, "T_low": 200.0, "T_mid": 1426.19, "T_high": 3000.0,
         "a_low": [7.9115985, 0.00234543264, -2.60277628e-09, 3.13843963e-12, -4.59255093e-16, 6731.91605, 16.9659196],
         "a_high": [7.00028617, 0.000576688461, -4.48742379e-09, -6.50455507e-13, 1.17186164e-16, 9835.51027, 26.1121134]},
        {"name": "SP2", "elements": {"S": 2, "He": 0}, "T_low": 200.0, "T_mid": 683.79, "T_high": 2500.0,
         "a_low": [10.136927, -0.000896410007, -6.32573533e-08, 3.21712161e-12, 3.78912492e-16, 12720.1909, 25.4696046],
         "a_high": [3.28238281, -5.17469743e-05, -2.31063231e-08, -8.73269606e-12, -1.6582776e-16, 17206.181, 69.6280203]}],
        "feed": [["SP0", 6.718], ["He2", 0.0], ["SP2", 0.0]], "points": [[539.1, 100.0]], "perm": [2, 0, 1]})
    # the unit-test point, nudged off the T_mid of CH4 / propene
    D.append({'network': 'pinned', 'api': 'from_thermdat', 'names': PINNED_ORDER, 'feed': std,
              'points': [[499.0, 1.0]], 'perm': rev})
    # one element (H / H2), dissociation equilibrium
    h = [_mk_sp('H', {'H': 1}, -5.0), _mk_sp('H2', {'H': 2}, -20.0)]
    for api in ('model_list', 'from_thermdat'):
        d = {'network': 'random', 'api': api, 'species': h, 'feed': [['H', 0], ['H2', 1]],
             'points': [[1000.0, 1.0], [2500.0, 0.01], [300.0, 100.0]], 'perm': [1, 0]}
        if api == 'from_thermdat':
            d.update(file_order=[1, 0], zero_slots=False, decoys=0)
        D.append(d)
    # no reaction possible: two species, two elements (composition fixed by the atom balance)
    ab = [_mk_sp('A', {'C': 1}, -3.0), _mk_sp('B', {'O': 2}, 10.0)]
    D.append({'network': 'random', 'api': 'model_dict', 'species': ab, 'feed': [['A', 0.5], ['B', 2]],
              'points': [[700.0, 1.0]], 'perm': [1, 0]})
    # a species that cannot be present: all C is bound in CO, nothing else can take the O
    fz = [_mk_sp('C1', {'C': 1}, -30.0), _mk_sp('CO', {'C': 1, 'O': 1}, 0.0)]
    D.append({'network': 'random', 'api': 'model_list', 'species': fz, 'feed': [['C1', 0], ['CO', 1]],
              'points': [[900.0, 10.0]], 'perm': [1, 0]})
    # rank-deficient formula matrix: H and O always 1:1 (oligomers of OH)
    ol = [_mk_sp('HO', {'H': 1, 'O': 1}, 0.0), _mk_sp('H2O2', {'H': 2, 'O': 2}, -5.0),
          _mk_sp('H3O3', {'H': 3, 'O': 3}, -9.0)]
    D.append({'network': 'random', 'api': 'model_list', 'species': ol,
              'feed': [['HO', 1.0], ['H2O2', 0], ['H3O3', 0.5]], 'points': [[500.0, 1.0]], 'perm': [2, 0, 1]})
    # water-gas shift with a zero-count element slot, written to thermdat with decoys
    wgs = [_mk_sp('CO', {'C': 1, 'O': 1, 'H': 0, 'N': 0}, -30.0), _mk_sp('H2O', {'C': 0, 'O': 1, 'H': 2, 'N': 0}, -45.0),
           _mk_sp('CO2', {'C': 1, 'O': 2, 'H': 0, 'N': 0}, -70.0), _mk_sp('H2', {'C': 0, 'O': 0, 'H': 2, 'N': 0}, -17.0)]
    D.append({'network': 'random', 'api': 'from_thermdat', 'species': wgs,
              'feed': [['CO', 1], ['H2O', 1], ['CO2', 0], ['H2', 0]],
              'points': [[1000.0, 0.01], [1000.0, 100.0]], 'perm': [3, 2, 1, 0],
              'file_order': [2, 0, 3, 1], 'zero_slots': True, 'decoys': 2})
    # ---- call histories on one object (repeat after an in-place edit, pressure sweep at one T, A-B-A)
    D.append({'network': 'random', 'api': 'from_thermdat', 'species': wgs,
              'feed': [['CO', 1], ['H2O', 1.5], ['CO2', 0], ['H2', 0]],
              'points': [[900.0, 2.0], [900.0, 20.0], [1200.0, 2.0]],
              'calls': [[0, 'mmol'], [0, None], [0, 'normalise'], [0, None], [1, None, 'fresh'], [2, None, 'fresh'],
                        [0, None], [1, 'percent'], [1, None]],
              'perm': [2, 0, 3, 1], 'file_order': [0, 1, 2, 3], 'zero_slots': True, 'decoys': 0, 'reuse': 'chdir'})
    D.append({'network': 'pinned', 'api': 'from_thermdat', 'names': PINNED_ORDER, 'feed': std,
              'points': [[1300.0, 1.0], [1300.0, 100.0], [1000.0, 1.0], [1300.0, 0.01]],
              'calls': [[0, 'zero_traces'], [0, None], [1, None, 'fresh'], [3, None, 'fresh'], [2, None, 'fresh'],
                        [0, None], [2, 'sort'], [2, None]], 'perm': rev})
    # ---- explicit zero counts for elements no species contains, met BEFORE a present element:
    #      oxygen-free and carbon-free networks from the C/O/H/N fields of the pinned thermdat ...
    for names, feed in ((['CH3CH3', 'CH2CH2', 'H2', 'CH4'], [1, 0, 0, 0]), (['H2', 'CH4', 'CHCH', 'CH2CHCH3'], [0.5, 1, 0.2, 0]),
                        (['H2O', 'H2'], [1, 0.5])):
        D.append({'network': 'pinned', 'api': 'from_thermdat', 'names': names,
                  'feed': [[n, f] for n, f in zip(names, feed)], 'points': [[1100.0, 1.0], [1400.0, 0.1]],
                  'perm': list(range(len(names) - 1, -1, -1))})
    # ... and the same with Nasa objects: ammonia synthesis with thermdat-style C/O/H/N dictionaries,
    #     an absent element first / in the middle
    nh = [_mk_sp('N2', {'C': 0, 'O': 0, 'H': 0, 'N': 2}, -25.0), _mk_sp('H2', {'C': 0, 'O': 0, 'H': 2, 'N': 0}, -17.0),
          _mk_sp('NH3', {'C': 0, 'O': 0, 'H': 3, 'N': 1}, -24.0)]
    for api in ('model_list', 'model_dict', 'from_thermdat'):
        d = {'network': 'random', 'api': api, 'species': nh, 'feed': [['N2', 1], ['H2', 3], ['NH3', 0]],
             'points': [[700.0, 100.0], [1000.0, 1.0]], 'perm': [2, 0, 1]}
        if api == 'from_thermdat':
            d.update(file_order=[1, 2, 0], zero_slots=True, decoys=1, reuse='rewrite')
        D.append(d)
    hx = [_mk_sp('HCl', {'H': 1, 'Ar': 0, 'Cl': 1}, -30.0), _mk_sp('H2', {'Ar': 0, 'H': 2}, -16.0),
          _mk_sp('Cl2', {'Cl': 2, 'He': 0}, -28.0), _mk_sp('Cl', {'He': 0, 'Ar': 0, 'Cl': 1}, -10.0)]
    D.append({'network': 'random', 'api': 'model_list', 'species': hx,
              'feed': [['HCl', 2], ['H2', 0], ['Cl2', 0.1], ['Cl', 0]], 'points': [[1500.0, 1.0]], 'perm': [3, 1, 0, 2]})
    # ---- species construction options: N2O4 = 2 NO2 away from 1 bar, gas label with and without GasPressureAdj
    def dimer(opts_a, opts_b):
        a = _mk_sp('N2O4', {'N': 2, 'O': 4}, -40.0)
        bb = _mk_sp('NO2', {'N': 1, 'O': 2}, -22.0)
        a['opts'], bb['opts'] = opts_a, opts_b
        return [a, bb]
    for oa, ob in (({'phase': 'G', 'add_gas_P_adj': False}, {'phase': 'gas', 'add_gas_P_adj': False}),
                   ({'phase': 'gas', 'phase_late': True}, {'phase': 'G'}),
                   ({'phase': 'g', 'misc': 'cleared'}, {'phase': None, 'misc': 'adj'}),
                   ({'phase': None}, {'phase': 'G', 'misc': 'empty', 'add_gas_P_adj': False})):
        D.append({'network': 'random', 'api': 'model_list' if oa.get('phase') else 'model_dict',
                  'species': dimer(oa, ob), 'feed': [['N2O4', 1], ['NO2', 0]],
                  'points': [[1000.0, 20.0], [1000.0, 0.05]], 'perm': [1, 0]})
    D.append({'network': 'random', 'api': 'from_thermdat',
              'species': dimer({'phase': 'gas', 'misc': 'cleared', 'phase_late': True}, {'phase': 'G', 'misc': 'cleared'}),
              'feed': [['N2O4', 1], ['NO2', 0.5]], 'points': [[900.0, 50.0]], 'perm': [1, 0],
              'file_order': [1, 0], 'zero_slots': False, 'decoys': 0, 'reuse': 'rewrite'})
    # ---- the network attribute of a live object is re-ordered / doubled between calls
    D.append({'network': 'random', 'api': 'model_list', 'species': wgs,
              'feed': [['CO', 1], ['H2O', 1.5], ['CO2', 0.1], ['H2', 0]],
              'points': [[900.0, 2.0], [1100.0, 2.0]],
              'calls': [[0, None, None, None], [0, None, None, 'sorted'], [1, None, None, 'pop_reinsert'],
                        [0, None, None, 'reversed'], [1, None, 'fresh', 'scale2']], 'perm': [2, 0, 3, 1]})
    D.append({'network': 'pinned', 'api': 'from_thermdat', 'names': PINNED_ORDER, 'feed': std,
              'points': [[1300.0, 1.0]], 'calls': [[0, None, None, 'sorted'], [0, None, None, 'rotate']], 'perm': rev})
    # widest allowed span, four elements, twelve species
    import random
    rng = random.Random('C16-directed')
    k = 0
    while k < 4:
        s = _generate_random(rng)
        if s is not None and len(s['species']) >= 8:
            D.append(s)
            k += 1
    return D


# ------------------------------------------------------------------ probes
_ST = {'ctx': None, 'min': [], 'args': None}


def _min_on_call(label, loc):
    f = sys._getframe(3)            # on_call <- Probes._start <- minimize <- caller
    from_pmutt = (f.f_code.co_name == 'get_net_comp')
    if from_pmutt:
        a = loc.get('args')
        try:
            _ST['args'] = ([float(v) for v in a[0]], float(a[1]))
        except Exception:
            _ST['args'] = None
    return from_pmutt


def _min_on_ret(label, ret, snap):
    if snap is True:
        try:
            _ST['min'].append({'success': bool(ret.success), 'status': int(ret.status),
                               'message': str(ret.message)[:120], 'nit': int(getattr(ret, 'nit', -1))})
        except Exception as e:
            _ST['min'].append({'success': None, 'status': 'unreadable', 'message': repr(e), 'nit': -1})


def install_probes(pr, ctx):
    _ST['ctx'] = ctx

    def E():
        from pmutt.equilibrium import Equilibrium
        return Equilibrium

    def mini():
        import scipy.optimize
        return scipy.optimize.minimize
    pr.watch(mini, 'scipy.optimize.minimize', on_call=_min_on_call, on_ret=_min_on_ret)
    pr.watch(lambda: E().__init__, 'Equilibrium.__init__')
    pr.watch(lambda: E().get_net_comp, 'Equilibrium.get_net_comp')
    pr.watch(lambda: E()._objective, 'Equilibrium._objective')
    pr.watch(lambda: E()._objective_jac, 'Equilibrium._objective_jac')
    pr.watch(lambda: E()._constraints1_eq, 'Equilibrium._constraints1_eq')
    pr.watch(lambda: E()._constraints1_eq_jac, 'Equilibrium._constraints1_eq_jac')
    pr.watch(lambda: E().from_thermdat, 'Equilibrium.from_thermdat')

    def rt():
        from pmutt.io import thermdat
        return thermdat.read_thermdat
    pr.watch(rt, 'read_thermdat')


# ------------------------------------------------------------------ determinism
_BLAS = {'done': False}


def _pin_blas_threads():
    """SLSQP's path through a badly scaled problem depends on the last bits of small dot products,
    and those depend on whether OpenBLAS runs single-threaded.  The shard workers run with
    OPENBLAS_NUM_THREADS=1; `check.py --replay` does not set it, so the same state is forced here
    at run time (best effort, via the libraries numpy/scipy have loaded), otherwise a replay may
    end with a different solver status than the run that produced it."""
    if _BLAS['done']:
        return
    _BLAS['done'] = True
    if os.environ.get('OPENBLAS_NUM_THREADS') == '1':
        return
    try:
        import ctypes
        import numpy            # noqa  (make sure the libraries are mapped)
        import scipy.optimize   # noqa
        libs = set()
        with open('/proc/self/maps') as f:
            for ln in f:
                path = ln.rsplit(' ', 1)[-1].strip()
                if 'openblas' in os.path.basename(path).lower():
                    libs.add(path)
        for path in libs:
            lib = ctypes.CDLL(path)
            for sym in ('scipy_openblas_set_num_threads64_', 'scipy_openblas_set_num_threads',
                        'openblas_set_num_threads64_', 'openblas_set_num_threads'):
                fn = getattr(lib, sym, None)
                if fn is not None:
                    fn(ctypes.c_int(1))
                    break
    except Exception:           # noqa
        pass


# ------------------------------------------------------------------ driver
def _previous_tenant(sp, i):
    """same name and formula, other thermodynamics (what was at that path before)"""
    d = dict(sp)
    shift = 1000.0 * (1 + (i * 3) % 4) * (-1) ** i
    d['a_low'] = list(sp['a_low'][:5]) + [q9(sp['a_low'][5] + shift), q9(sp['a_low'][6] + 0.5 * i)]
    d['a_high'] = list(sp['a_high'][:5]) + [q9(sp['a_high'][5] + shift), q9(sp['a_high'][6] + 0.5 * i)]
    return d


def _species_of(spec, ctx):
    """-> (species list in network order, thermdat path or None).

    For generated thermdat files the path string is deliberately NOT unique: before the file of this
    case is written, another file (same species names, other thermodynamics) is put at the very same
    path string and read + solved through from_thermdat.  'rewrite': one absolute path per shard,
    overwritten (also from case to case); 'chdir': the relative name 'thermdat' in two working
    directories.  The current directory is restored by run_case."""
    if spec['network'] == 'pinned':
        path = os.path.join(core.repo_path(), PINNED_REL)
        table = parse_thermdat(path)
        return [table[n] for n in spec['names']], path
    species = spec['species']
    path = None
    if spec['api'] == 'from_thermdat':
        in_file = [species[i] for i in spec['file_order']]
        for k in range(spec.get('decoys', 0)):
            d = dict(species[k % len(species)])
            d['name'] = 'DECOY%d' % k
            d['a_low'] = [q9(v * 1.25 + 1.0) for v in d['a_low']]
            d['a_high'] = [q9(v * 0.75 - 1.0) for v in d['a_high']]
            d['elements'] = {e: v + 1 for e, v in d['elements'].items()}
            in_file.insert((k * 2) % (len(in_file) + 1), d)
        zs = spec.get('zero_slots', False)
        reuse = spec.get('reuse', 'rewrite')
        before = [_previous_tenant(sp, i) for i, sp in enumerate(in_file)]
        if reuse == 'chdir':
            da, db = os.path.join(ctx.tmpdir, 'wd_a'), os.path.join(ctx.tmpdir, 'wd_b')
            os.makedirs(da, exist_ok=True)
            os.makedirs(db, exist_ok=True)
            path = 'thermdat'
            write_thermdat(os.path.join(da, path), before, zs)
            os.chdir(da)
            _touch_path(spec, path)
            write_thermdat(os.path.join(db, path), in_file, zs)
            os.chdir(db)
            ctx.cls('history:thermdat_same_name_other_dir')
        else:
            path = os.path.join(ctx.tmpdir, 'thermdat')
            write_thermdat(path, before, zs)
            _touch_path(spec, path)
            write_thermdat(path, in_file, zs)
            ctx.cls('history:thermdat_path_rewritten')
    return species, path


def _touch_path(spec, path):
    """read + solve the previous content of the path through the real API (history only: nothing
    is asserted about that network, its G/RT span is not controlled)"""
    from pmutt.equilibrium import Equilibrium
    try:
        with warnings.catch_warnings():
            warnings.simplefilter('ignore')
            eq = Equilibrium.from_thermdat(path, {n: f for n, f in spec['feed']})
            eq.get_net_comp(T=spec['points'][0][0], P=spec['points'][0][1])
    except core.HarnessError:
        raise
    except Exception:           # noqa
        pass


def _build(spec, species, path, order, ctx, mech):
    from pmutt.equilibrium import Equilibrium
    from pmutt.empirical import GasPressureAdj
    feed = dict((n, f) for n, f in spec['feed'])
    names = [species[i]['name'] for i in order]
    network = {n: feed[n] for n in names}
    if path is not None:
        ctx.cls('api:from_thermdat')
        eq = ctx.call('Q1', dict(mech, what='construct'), Equilibrium.from_thermdat, path, network)
        if eq is not core.NOVALUE:
            for sp in species:                  # edits of the species after the read
                o = sp.get('opts')
                if not o:
                    continue
                try:
                    obj = eq.model[sp['name']]
                    if o.get('phase_late'):
                        obj.phase = o.get('phase')
                    if o.get('misc') == 'cleared':
                        obj.misc_models = None
                    elif o.get('misc') == 'empty':
                        obj.misc_models = []
                except (AttributeError, KeyError, TypeError):
                    pass
        return eq
    from vf.gen import species as gs
    objs = []
    for i in order:
        sp = species[i]
        o = sp.get('opts') or {'phase': 'G'}
        extra = {}
        if o.get('add_gas_P_adj') is not None:
            extra['add_gas_P_adj'] = o['add_gas_P_adj']
        if o.get('misc') == 'empty':
            extra['misc_models'] = []
        elif o.get('misc') == 'adj':
            extra['misc_models'] = [GasPressureAdj()]
        obj = gs.build({'type': 'Nasa', 'name': sp['name'], 'T_low': sp['T_low'], 'T_mid': sp['T_mid'],
                        'T_high': sp['T_high'], 'a_low': sp['a_low'], 'a_high': sp['a_high'],
                        'phase': None if o.get('phase_late') else o.get('phase'),
                        'elements': sp['elements']}, **extra)
        if o.get('phase_late'):
            obj.phase = o.get('phase')
        if o.get('misc') == 'cleared':
            obj.misc_models = None
        objs.append(obj)
    if spec['api'] == 'model_dict':
        ctx.cls('api:model_dict')
        model = {o.name: o for o in reversed(objs)}
    else:
        ctx.cls('api:model_list')
        model = objs
    return ctx.call('Q1', dict(mech, what='construct'), Equilibrium, model, network)


def _species_option_classes(eq, names, ctx):
    """classes from what the objects look like at solve time"""
    from pmutt.empirical import GasPressureAdj
    lab, adj, nol = [], [], []
    try:
        for n in names:
            o = eq.model[n]
            ph = getattr(o, 'phase', None)
            lab.append(isinstance(ph, str) and ph.lower() in ('g', 'gas'))
            nol.append(ph is None)
            adj.append(any(isinstance(m, GasPressureAdj) for m in (getattr(o, 'misc_models', None) or [])))
    except Exception:           # noqa  (model container refactored: classes stay empty -> inconclusive)
        return
    if all(a and b_ for a, b_ in zip(lab, adj)):
        ctx.cls('species_opts:default(gas label + GasPressureAdj)')
    if any(a and not b_ for a, b_ in zip(lab, adj)):
        ctx.cls('species_opts:gas_label_without_P_adj')
    if any(b_ and not a for a, b_ in zip(lab, adj)):
        ctx.cls('species_opts:P_adj_without_gas_label')
    if any(nol):
        ctx.cls('species_opts:no_phase_label')
    if len(set(zip(lab, adj))) > 1:
        ctx.cls('species_opts:mixed_in_one_network')


def _network_op(eq, op):
    """edit the `network` attribute of a live object; -> True if the key order / amounts changed"""
    net = eq.network
    items = list(net.items())
    if op == 'sorted':
        eq.network = dict(sorted(items))
    elif op == 'reversed':
        eq.network = dict(reversed(items))
    elif op == 'rotate':
        eq.network = dict(items[1:] + items[:1])
    elif op == 'pop_reinsert':
        k0 = items[0][0]
        net[k0] = net.pop(k0)
    elif op == 'equal_copy':
        eq.network = dict(items)
    elif op == 'scale2':
        for k0 in list(net):
            net[k0] = net[k0] * 2
        return True
    return list(eq.network.keys()) != [k0 for k0, _ in items]


def _solve(eq, T, P):
    """-> (result | None, exception | None, [warning texts], [minimize records], minimize args)"""
    _ST['min'] = []
    _ST['args'] = None
    res = exc = None
    with warnings.catch_warnings(record=True) as w:
        warnings.simplefilter('always')
        warnings.filterwarnings('ignore', 'Values in x were outside bounds during a ')
        try:
            res = eq.get_net_comp(T=T, P=P)
        except core.HarnessError:
            raise
        except Exception as e:          # noqa
            exc = e
    return res, exc, [('%s: %s' % (x.category.__name__, x.message))[:200] for x in w], list(_ST['min']), _ST['args']


def _bump(ctx, key, val):
    """telemetry maximum (merged across shards by max, printed with the oracle maxima)"""
    val = float(val)
    if val == val and val > ctx.max_err.get(key, 0.0):
        ctx.max_err[key] = val


def _zero_leading(species, order):
    """an element that no species contains is listed (count 0) and met, in the order in which the
    constructor walks species and their element dictionaries, BEFORE an element that is present"""
    met = []
    for i in order:
        for e in species[i]['elements']:
            if e not in met:
                met.append(e)
    present = set(_elements_of(species))
    seen_absent = False
    for e in met:
        if e not in present:
            seen_absent = True
        elif seen_absent:
            return True
    return False


def _edit_in_place(res, kind):
    """what a caller may do to a returned composition (unit change, renormalisation, clean-up)"""
    import numpy as np
    m, f = res.moles, res.mole_frac
    if not (isinstance(m, np.ndarray) and isinstance(f, np.ndarray)):
        return False
    if kind == 'mmol':
        m *= 1000.0
    elif kind == 'percent':
        f *= 100.0
    elif kind == 'normalise':
        m /= m.sum()
    elif kind == 'zero_traces':
        m[m < 1e-3 * m.max()] = 0.0
        f[f < 1e-3] = 0.0
        m += 1.0
    else:
        m.sort()
        f[:] = f[::-1].copy()
    return True


def run_case(spec, ctx):
    cwd = os.getcwd()
    try:
        _run_case(spec, ctx)
    finally:
        os.chdir(cwd)


def _run_case(spec, ctx):
    import numpy as np
    from vf.ref import gibbs
    _pin_blas_threads()
    ctx.extra.setdefault('status_histogram', {})
    species, path = _species_of(spec, ctx)
    ns = len(species)
    elems = _elements_of(species)
    A = np.array(_formula_matrix(species, elems), dtype=float)
    feed = np.array([float(f) for _, f in spec['feed']])
    b = feed @ A
    bsum = float(b.sum())
    rk = gibbs.rank(A.astype(int))
    rank_cls = 'full' if rk == len(elems) else 'deficient'
    nreact = ns - rk
    net = spec['network']
    base = {'network': net, 'rank': rank_cls}
    ident = list(range(ns))
    # ---- input classes
    ctx.cls('network:' + net, 'rank:' + rank_cls, 'elements:%d' % len(elems))
    ctx.cls('species:2-3' if ns <= 3 else 'species:4-7' if ns <= 7 else 'species:8-12')
    ctx.cls('reactions:0' if nreact == 0 else 'reactions:1-2' if nreact < 3 else 'reactions:>=3')
    nz = int(np.sum(feed > 0))
    ctx.cls('feed:all_positive' if nz == ns else 'feed:single_species' if nz == 1 else 'feed:some_zero')
    if spec['perm'] != list(range(ns)):
        ctx.cls('perm:nontrivial')
    if any(v == 0 for sp in species for v in sp['elements'].values()):
        ctx.cls('elements:zero_count_listed')
    if _zero_leading(species, ident) or _zero_leading(species, spec['perm']):
        ctx.cls('elements:zero_count_leading')
        ctx.cls('elements:zero_count_leading(%s)' % ('thermdat' if path is not None else 'model'))
    if path is not None and net == 'random':
        if spec.get('zero_slots'):
            ctx.cls('thermdat:zero_count_slots')
        if spec.get('decoys'):
            ctx.cls('thermdat:superset')
    if net == 'pinned':
        ctx.cls('thermdat:zero_count_slots')
        if ns < 10:
            ctx.cls('thermdat:superset')
    mech0 = dict(base, solver_status='not_run', signalled=False, api=spec['api'],
                 n_elements='1' if len(elems) == 1 else '>=2')
    # ---- build both orderings through the real API
    eq1 = _build(spec, species, path, ident, ctx, mech0)
    if eq1 is core.NOVALUE:
        return
    eq2 = _build(spec, species, path, spec['perm'], ctx, mech0)
    if eq2 is core.NOVALUE:
        return
    _species_option_classes(eq1, [sp['name'] for sp in species], ctx)
    points = [list(tp) for tp in spec['points']]
    calls = spec.get('calls') or [[k, None] for k in range(len(points))]
    calls = [list(c) + [None] * (4 - len(c)) for c in calls]
    scales = (1.0,)
    info = {}

    def point_info(k):
        if k in info:
            return info[k]
        T, P = points[k]
        g = np.array([g_ref(sp, T) for sp in species])
        span = float(g.max() - g.min())
        mu0 = g + math.log(P * ATM_IN_BAR)
        ctx.cls('span:<5' if span < 5 else 'span:5-30' if span < 30 else 'span:30-60' if span <= 60
                else 'span:>60(pinned)')
        if T == 300.0:
            ctx.cls('T:300')
        if T == 2500.0:
            ctx.cls('T:2500')
        ctx.cls('P:0.01' if P == 0.01 else 'P:100' if P == 100.0 else 'P:interior')
        for sp in species:
            ctx.cls('T:<T_mid' if T < sp['T_mid'] else 'T:>=T_mid')
        pbase = dict(base, span='<=60' if span <= 60 else '>60')
        ref = gibbs.solve(A, b, mu0)
        # regime = feature of the *input* (network, feed, T, P), taken from the certified reference
        if not ref.converged:
            regime = 'unknown'
        elif ref.forced_zero:
            regime = 'forced_zero'
        elif float(np.min(ref.n / ref.N)) < DEEP:
            regime = 'deep_trace'
        else:
            regime = 'regular'
        ctx.cls('regime:' + regime)
        pbase['regime'] = regime
        info[k] = (g, span, mu0, ref, pbase, regime)
        return info[k]

    def m7(status, signalled, what):
        return {'what': what, 'network': net, 'rank': rank_cls, 'solver_status': status,
                'signalled': bool(signalled)}

    # ---- the listed order: ONE object driven through the call history; every call is fully checked
    first = {}            # point index -> (moles in spec order, status) of the first call there
    live = []             # (result object, copy of its arrays as the caller left them, call number)
    prev = None
    for ci, call in enumerate(calls):
        k, edit = call[0], call[1]
        fresh = len(call) > 2 and call[2] == 'fresh'
        T, P = points[k]
        g, span, mu0, ref, pbase, regime = point_info(k)
        if prev is not None:
            Tp, Pp = points[prev[0]]
            if (Tp, Pp) == (T, P):
                ctx.cls('history:repeat_same_TP_after_inplace_edit' if prev[1] else 'history:repeat_same_TP')
            elif Tp == T:
                ctx.cls('history:same_T_other_P')
            elif Pp == P:
                ctx.cls('history:same_P_other_T')
            if k in first and prev[0] != k:
                ctx.cls('history:revisit_after_other_conditions')
        if call[3]:
            # The feed of the object as a mapping species -> amount is unchanged by a re-ordering, so every
            # oracle applies as before.  Doubled amounts: the unchanged tree keeps the construction feed, a
            # tree that follows the attribute would use the doubled one; either is accepted, but the
            # result must be the equilibrium of ONE of them (it is then 1x or 2x the same composition).
            try:
                if _network_op(eq1, call[3]):
                    ctx.cls('history:network_amounts_doubled_on_live_object' if call[3] == 'scale2'
                            else 'history:network_reordered_on_live_object')
                    if call[3] == 'scale2':
                        scales = (1.0, 2.0)
                else:
                    ctx.cls('history:network_reassigned_same_order')
            except (AttributeError, TypeError, KeyError):
                ctx.branch('network_attribute_not_editable')
        out = {'scales': scales}
        r = _run_one(ctx, spec, eq1, ident, species, T, P, A, b, bsum, g, mu0, ref, pbase,
                     'listed, call %d of %s' % (ci + 1, [c[:2] + c[3:4] for c in calls]), nreact, out)
        res = out.get('res')
        st, sg = out.get('status'), out.get('signalled')
        # Q7a  results handed out earlier are not touched by a later call
        for obj, em, ef, cj in live:
            try:
                same = bool(np.array_equal(np.asarray(obj.moles), em) and
                            np.array_equal(np.asarray(obj.mole_frac), ef))
            except Exception:       # noqa
                same = False
            ctx.check('Q7', same, m7(st, sg, 'earlier_result_changed_by_later_call'), T=T, P=P,
                      earlier_call=cj + 1, this_call=ci + 1)
        # Q7b  same object, same (T, P) again: the same composition as the first time
        if r is not None and first.get(k) is not None and first[k][1] == r[1]:
            what = ('repeat_same_TP' if prev is not None and prev[0] == k else 'revisit_after_other_conditions')
            if prev is not None and prev[0] == k and prev[1]:
                what = 'repeat_same_TP_after_inplace_edit'
            _bump(ctx, 'Q7[%s]' % what, ctx.err(r[0], first[k][0], bsum))
            ctx.close('Q7', r[0], first[k][0], TOL_Q7, m7(st, sg, what), scale=bsum, T=T, P=P,
                      call=ci + 1, calls=calls, points=points)
        if k not in first:
            first[k] = r
        # Q7c  same conditions on a newly built object: the call history does not matter
        if fresh and r is not None:
            eqf = _build(spec, species, path, ident, ctx, mech0)
            if eqf is not core.NOVALUE:
                rf, ef_, wf, mf, _a = _solve(eqf, T, P)
                okf = bool(mf) and mf[-1]['success'] is True and ef_ is None and rf is not None
                if okf and r[1] == 'ok':
                    nf = np.array(rf.moles, dtype=float)
                    _bump(ctx, 'Q7[vs_fresh_object]', ctx.err(r[0], nf, bsum))
                    ctx.close('Q7', r[0], nf, TOL_Q7, m7(st, sg, 'reused_object_vs_fresh_object'), scale=bsum,
                              T=T, P=P, call=ci + 1, calls=calls, points=points)
        if res is not None:
            if edit:
                try:
                    if _edit_in_place(res, edit):
                        ctx.branch('caller_edit:' + edit)
                except Exception:   # noqa  (read-only arrays would be a legitimate defence)
                    ctx.branch('caller_edit:refused')
            try:
                live.append((res, np.array(res.moles, dtype=float, copy=True),
                             np.array(res.mole_frac, dtype=float, copy=True), ci))
                live = live[-3:]
            except Exception:       # noqa
                pass
        prev = (k, edit)
    # ---- Q7d  the same network through the other API (thermdat file vs Nasa objects): same result
    if path is not None and net == 'random' and first.get(calls[0][0]) is not None:
        k = calls[0][0]
        T, P = points[k]
        alt = dict(spec, api='model_list')
        eqm = _build(alt, species, None, ident, ctx, mech0)
        if eqm is not core.NOVALUE:
            rm, em_, wm, mm, _a = _solve(eqm, T, P)
            if mm and mm[-1]['success'] is True and em_ is None and rm is not None and first[k][1] == 'ok':
                nm = np.array(rm.moles, dtype=float)
                _bump(ctx, 'Q7[thermdat_vs_model_objects]', ctx.err(first[k][0], nm, bsum))
                ctx.close('Q7', first[k][0], nm, TOL_Q7, m7('ok', False, 'thermdat_vs_model_objects'),
                          scale=bsum, T=T, P=P, reuse=spec.get('reuse', 'rewrite'))
    # ---- the permuted order: each point once; Q5 against the first call of the listed order
    for k in range(len(points)):
        T, P = points[k]
        g, span, mu0, ref, pbase, regime = point_info(k)
        r2 = _run_one(ctx, spec, eq2, spec['perm'], species, T, P, A, b, bsum, g, mu0, ref, pbase,
                      'permuted', nreact, {})
        r1 = first.get(k)
        if r1 is None or r2 is None:
            continue
        (n1, s1), (n2, s2) = r1, r2
        if regime == 'unknown':
            ctx.inconc('Q5', 'regime_unknown(reference_not_converged)', T=T, P=P)
        elif span > 60.0:
            # outside the quantifier (pinned network at low T): telemetry only
            if s1 == 'ok' and s2 == 'ok':
                _bump(ctx, 'telemetry:Q5[%s,%s,span>60]' % (rank_cls, regime), ctx.err(n2, n1, bsum))
        else:
            mech = dict(pbase, what='moles', solver_status=s1 if s1 != 'ok' else s2, signalled=False)
            if s1 == 'ok' and s2 == 'ok':
                _bump(ctx, 'Q5[%s,%s]' % (rank_cls, regime), ctx.err(n2, n1, bsum))
            ctx.close('Q5', n2, n1, TOL_Q5, mech, scale=bsum, T=T, P=P, perm=spec['perm'],
                      ref=ref.n if ref.converged else None)
            if s1 == 'ok' and s2 == 'ok':
                ctx.cls('asserted:' + regime)           # both orderings converged, span <= 60
                if len(elems) >= 2 and ns >= 4 and nreact >= 1 and ref.converged:
                    ctx.nontrivial()


def _run_one(ctx, spec, eq, order, species, T, P, A, b, bsum, g, mu0, ref, pbase, tag, nreact, out):
    """Solve one ordering; evaluate Q6, then Q1-Q4 unless waived.  Returns (moles in spec
    order, mech) when the run counts for Q5, else None."""
    import numpy as np
    from vf.ref import gibbs
    ns = len(species)
    res, exc, warns, mins, args = _solve(eq, T, P)
    signalled = bool(warns) or exc is not None
    if not mins:
        status = 'raised' if exc is not None else 'unobserved'
        failed = None
    else:
        m = mins[-1]
        failed = (m['success'] is not True)
        status = 'ok' if not failed else m['status']
    hist = ctx.extra['status_histogram']
    hist[str(status)] = hist.get(str(status), 0) + 1
    out.update(res=res, status=status, signalled=signalled)
    # Q1, Q2, Q6 are keyed by network / rank / solver outcome; Q3-Q5 additionally by the regime of the
    # equilibrium (regular | deep_trace | forced_zero) and the span class
    mech = {'network': pbase['network'], 'rank': pbase['rank'], 'solver_status': status, 'signalled': signalled}
    mech_r = dict(pbase, solver_status=status, signalled=signalled)
    detail = dict(T=T, P=P, order=tag, warnings=warns[:3], minimize=mins[-1:] if mins else None)
    # ---- Q6 signal clause
    if failed is not None:
        ctx.cls('solver:ok' if not failed else 'solver:failed')
        if failed:
            ctx.branch('solver_failed:%s' % ('signalled' if signalled else 'silent'))
            ctx.check('Q6', signalled, dict(mech, what='failure_not_signalled'), **detail)
            if signalled:
                ctx.extra['waived_runs'] = ctx.extra.get('waived_runs', 0) + 1
                return None                      # Q1-Q5 waived
        else:
            ctx.held('Q6')
    if exc is not None:
        if failed:
            return None
        # no value was reported although the solver did not report a failure
        m2 = {'what': 'get_net_comp', 'exc': type(exc).__name__, 'network': pbase['network'],
              'rank': pbase['rank'], 'solver_status': status, 'signalled': signalled}
        ctx.fail('Q1', m2, message=str(exc)[:300], where=core._tb_where(exc), **detail)
        return None
    # ---- result in spec order
    try:
        names = list(res.species)
        moles = np.array(res.moles, dtype=float)
        frac = np.array(res.mole_frac, dtype=float)
    except Exception as e:              # noqa
        ctx.fail('Q2', dict(mech, what='result_shape', exc=type(e).__name__), **detail)
        return None
    want_names = [species[i]['name'] for i in order]
    ok = ctx.check('Q2', names == want_names and moles.shape == (ns,) and frac.shape == (ns,),
                   dict(mech, what='species_echo'), got=names, want=want_names, **detail)
    if not ok:
        return None
    n = np.empty(ns)
    x = np.empty(ns)
    n[order] = moles
    x[order] = frac
    scales = out.get('scales') or (1.0,)
    if len(scales) > 1 and bsum > 0:
        rho = float((n @ A).sum()) / bsum
        sc = min(scales, key=lambda v: abs(rho - v))
        n = n / sc
        detail['feed_scale_taken'] = sc
    detail.update(moles=n, feed=[f for _, f in spec['feed']])
    if args is not None:
        gp = np.empty(ns)
        try:
            gp[order] = args[0]
            _bump(ctx, 'telemetry:|g_pmutt-g_ref|', float(np.max(np.abs(gp - g))))
            detail['max_dg_input'] = float(np.max(np.abs(gp - g)))
            detail['p_factor'] = args[1]
        except Exception:
            pass
    # ---- Q2 amounts
    finite = bool(np.all(np.isfinite(n)) and np.all(np.isfinite(x)))
    if not ctx.check('Q2', finite, dict(mech, what='finite'), **detail):
        return None
    ctx.check('Q2', bool(np.all(n >= 0.0)), dict(mech, what='negative_moles'), min_moles=float(n.min()), **detail)
    ctx.check('Q2', bool(np.all(x >= 0.0)), dict(mech, what='negative_fraction'), **detail)
    ctx.close('Q2', float(x.sum()), 1.0, TOL_Q2, dict(mech, what='sum_x'), **detail)
    ntot = float(n.sum())
    if ntot > 0:
        ctx.close('Q2', x, n / ntot, TOL_Q2, dict(mech, what='x_vs_n'), **detail)
    # ---- Q1 atoms
    if status == 'ok':
        _bump(ctx, 'Q1[%s]' % pbase['rank'], ctx.err(n @ A, b, bsum))
    ctx.close('Q1', n @ A, b, TOL_Q1, dict(mech, what='atoms'), scale=bsum, **detail)
    if not (ntot > 0 and np.all(n >= 0.0)):
        return None
    # ---- Q3, Q4 are asserted inside the quantifier only (G/RT span <= 60); the pinned network at low
    #      temperature lies outside, there they are telemetry
    if pbase['span'] == '>60':
        ctx.branch('outside_quantifier:span>60(Q3-Q5 telemetry only)')
        if ref.converged and status == 'ok':
            d = gibbs.lagrangian_excess(n, A, b, mu0, ref)
            _bump(ctx, 'telemetry:Q3[%s,%s,span>60]' % (pbase['rank'], pbase['regime']),
                  max(d, 0.0) / (1.0 + abs(ref.G)))
        return n, status
    # ---- Q3 optimality against the certified reference
    if ref.converged:
        d = gibbs.lagrangian_excess(n, A, b, mu0, ref)
        d_plain = gibbs.gibbs(n, mu0) - ref.G
        scale = 1.0 + abs(ref.G)
        if d < -TOL_Q3 * scale:
            ctx.inconc('Q3', 'reference_higher_than_pmutt', d=d, G_ref=ref.G, T=T, P=P)
        else:
            ctx.close('Q3', max(d, 0.0) / scale, 0.0, TOL_Q3, dict(mech_r, what='gibbs_excess'),
                      scale=1.0, G_excess=d, G_plain_difference=d_plain, G_ref=ref.G, n_ref=ref.n,
                      ref_gap=ref.gap, **detail)
            if status == 'ok':
                _bump(ctx, 'Q3[%s,%s]' % (pbase['rank'], pbase['regime']), max(d, 0.0) / scale)
                _bump(ctx, 'telemetry:|n-n_ref|/sum(b)[%s,%s]' % (pbase['rank'], pbase['regime']), float(np.max(np.abs(n - ref.n))) / bsum)
    else:
        ctx.inconc('Q3', 'reference_not_converged:' + ref.reason, T=T, P=P, gap=ref.gap,
                   balance=ref.balance, iterations=ref.iterations)
    # ---- Q4 reaction equilibrium among non-trace species
    if pbase['regime'] == 'unknown':
        ctx.inconc('Q4', 'regime_unknown(reference_not_converged)', T=T, P=P)
        return n, status
    big = [i for i in range(ns) if x[i] > TRACE]
    if len(big) < ns:
        ctx.cls('trace_species_present')
    big.sort(key=lambda i: -x[i])
    sub = A[big].astype(int)
    reactions = gibbs.nullspace_reactions(sub)
    xb = x[big]
    mu = g[big] + np.log(xb * P * ATM_IN_BAR)
    if not reactions:
        ctx.held('Q4')                           # no reaction among the species present: vacuous
        ctx.branch('Q4:no_reaction_among_present')
    for nu in reactions:
        aff = float(nu @ mu)
        # an error d_i in ln x_i costs ~ n_i d_i^2 / 2 of Gibbs energy, so a solver that stops on the
        # objective leaves d_i ~ 1/sqrt(x_i): the affinity is measured in that metric
        w = math.sqrt(float(np.sum(nu * nu / xb)))
        if status == 'ok':
            _bump(ctx, 'Q4[%s,%s]' % (pbase['rank'], pbase['regime']), abs(aff) / w)
        ctx.branch('Q4:minor_species' if float(np.min(xb[nu != 0])) < 1e-3 else 'Q4:major_species_only')
        ctx.close('Q4', aff / w, 0.0, TOL_Q4, dict(mech_r, what='affinity'), scale=1.0,
                  affinity=aff, weight=w, nu=nu, species=[species[i]['name'] for i in big],
                  x=xb, x_ref=(ref.n[big] / ref.N) if ref.converged else None, **detail)
    return n, status

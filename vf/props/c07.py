"""C07  OpenMKM / Cantera input files transcribe the model faithfully.

Generated models (phases, species, surface reactions, BEPs, lateral interactions, unit
systems) and reactor option sets are pushed through the real writers (`write_cti`,
`write_thermo_yaml`, `write_yaml`, `organize_phases`); what comes back is *text*, which is
read by independent parsers (`vf/ref/cti.py`: the CTI program is executed against recording
stubs with the documented directive signatures; `yaml.safe_load`; pMuTT's bundled
`ctml_writer.convert` as an additional validity oracle) and compared token by token with
values re-derived from the case spec, the species' own getters and SI unit definitions.

Oracles
  Y1 well-formedness   Y2 species   Y3 reactions   Y4 phases   Y5 interactions / BEPs
  Y6 reactor YAML      YH history clause (a dict phase -> species names shadows every
                       append/extend/remove/pop/clear/new on 1-4 coexisting phase objects and
                       is compared with *every* live phase after each operation)
  YW line width of a phase directive written with max_line_len=L (C18's clause observed at phase
     level; only what the writers guarantee: multi-token lines <= L, the line that closes a wrapped
     value <= L+1, range fields not covered)
Every violation carries mech = {file, rule, entity, field, class, value_type, units_given, exc,
...} so that findings are separated by mechanism.
"""
import contextlib
import io
import math
import os
import random

from vf import core
from vf.gen import omkm_model as G
from vf.ref import cti as C

ID = 'C07'
N = {'quick': 28000, 'thorough': 600000}
WEIGHTS = {'model': 20, 'history': 35, 'reactor': 45}
NT_RULE = ('case kinds: model (units x 1-4 phases x 2-40 Nasa/Nasa9/Shomate species x 0-40 surface reactions '
           'x BEPs x lateral interactions, phases populated at construction / through organize_phases / '
           'incrementally), history (1-4 coexisting phase objects, 3-14 species operations), reactor '
           '(subset of write_yaml options x value type x units given or not); drawn per case index from a '
           'seeded PRNG after the directed witnesses.  non-trivial = model with (>=1 BEP or >=1 interaction) '
           'and >=2 phases, or history with >=2 phase objects and >=3 operations, or reactor case with >=3 '
           'options; distinct = distinct canonical JSON of the spec')
REQUIRED_ORACLES = ['Y1', 'Y2', 'Y3', 'Y4', 'Y5', 'Y6', 'YH', 'YW']
REQUIRED_CLASSES = ['kind:model', 'kind:history', 'kind:reactor',
                    'populate:construct', 'populate:organize', 'populate:incremental', 'populate:moved',
                    'move:add_first', 'move:remove_first', 'move:surface_reactant_computed_A',
                    'move:gas_sticking_species', 'move:by_remove', 'move:by_pop', 'move:by_clear',
                    'hist:move_add_first', 'hist:move_remove_first', 'rxn:bulk_reactant_computed_A',
                    'wrap:hyphen_name', 'hist:phase_reactions_Reaction', 'hist:phase_reactions_ChemkinReaction',
                    'hist:phase_reactions_value_equal_twins', 'bep:twins_unnamed', 'bep:twins_named',
                    'write:repeated', 'cti:wrapped_note',
                    'species:Nasa', 'species:Nasa9', 'species:Shomate', 'rxn:adsorption', 'rxn:surface',
                    'ts:bep', 'ts:species', 'ts:none', 'ids:user', 'ids:auto', 'interactions:some',
                    'units:none', 'units:dict', 'units:object', 'motz:on', 'motz:off',
                    'first:cti', 'first:yaml', 'cti:to_file', 'cti:parsed', 'cti:ctml_accepted',
                    'yaml:parsed', 'phases:1', 'phases:4',
                    'hist:default_args', 'hist:explicit_species', 'hist:append', 'hist:extend',
                    'hist:remove', 'hist:pop', 'hist:clear', 'hist:new', 'hist:coexisting>=2',
                    'opt:float', 'opt:int', 'opt:np.float64', 'opt:np.int64', 'opt:np.float32',
                    'opt:str', 'opt:mixlist', 'opt:mixlist_numbers+unit_strings', 'opt:mixlist_python+numpy',
                    'opt:mixlist_objects', 'rate:Ea<0_adsorption', 'rate:Ea<0_surface', 'rate:Ea=0',
                    'rate:Ea_tiny', 'rate:A=0', 'rate:beta<0', 'rate:sticking=0', 'rate:sticking=1',
                    'ids:blocks', 'cti:long_range_list', 'cti:max_line_len',
                    'opt:units_given', 'opt:units_omitted', 'phases_arg:omitted',
                    'phases_arg:objects']
REQUIRED_PROBES = ['write_cti', 'write_thermo_yaml', 'write_yaml', 'organize_phases', '_assign_yaml_val',
                   'Nasa.to_cti', 'Nasa.to_omkm_yaml', 'Nasa9.to_omkm_yaml', 'Shomate.to_cti',
                   'Shomate.to_omkm_yaml', 'SurfaceReaction.to_cti', 'SurfaceReaction.to_omkm_yaml',
                   'SurfaceReaction.get_A', 'BEP.to_cti', 'BEP.to_omkm_yaml',
                   'InteractingInterface.to_cti', 'InteractingInterface.to_omkm_yaml',
                   'IdealGas.to_cti', 'StoichSolid.to_cti', 'PiecewiseCovEffect.to_cti',
                   'PiecewiseCovEffect.to_omkm_yaml', 'Units.to_cti', 'Phase.species.setter',
                   'Phase.append_species', 'Phase.extend_species', 'Phase.remove_species',
                   'Phase.pop_species', 'Phase.clear_species', '_get_omkm_range', 'ctml_writer.convert']
ASSUMPTIONS = [
    'gas species take part only in adsorption steps (activation enthalpy has no pressure dependence), every '
    'reaction involves exactly one interface and at least one surface reactant; species thermo is valid on '
    '[250,1200] K and the model temperature lies inside',
    'unit systems are those both the CTI format and pMuTT know: length cm|m, time s|min|hr, quantity '
    'mol|molec, energy J|kJ|cal|kcal, act_energy (J|kJ|cal|kcal)/mol, pressure Pa|bar|atm, mass kg|g',
    'user reaction / interaction ids use prefixes u_, rx_, li_ (different from the automatic r_, i_, b_) and '
    '4-digit footers; integer stoichiometry and compositions; Shomate coefficients in J/mol/K',
    '"the model\'s value": A given -> as given (assumed to be in the requested units); otherwise kB/h divided '
    'by (sum of the site densities of the surface reactant molecules)^(n_surf-1) [pMuTT get_A default '
    'sden_operation=sum] in quantity/length^2 and per requested time unit; sticking coefficient as given or '
    '0.5; beta as given or 1 (0 for adsorption); Ea given (kcal/mol) -> converted; otherwise '
    'max(0, activation, reaction) x R T of H (adsorption) or G, species H/RT and G/RT from the species\' own '
    'getters, a BEP transition state contributing (slope_adj x descriptor + intercept)/RT',
    'tolerances: untouched numbers exact in YAML (1e-12) and to the printed 9 digits in CTI (1e-8, the '
    'rounding bound 5e-9 is a hard limit); unit-converted numbers 2e-4 relative to the largest term (pMuTT '
    'tabulates cal = 1/0.239006 J, 4.4e-7 from 4.184, CODATA-2014 kB/h and NA: observed maximum 1.1e-6; the '
    'nearest realistic wrong constant, the IT calorie, is 6.7e-4 away); CTI rate parameters 2.1e-4 (adds the '
    'printed 6 digits, 5e-6)',
    'BEP objects are distinct members of the model even when their parameters are equal (one object per '
    'family member): each must be written once, with its own id and members; reactions handed to IdealGas / '
    'StoichSolid as base Reaction / ChemkinReaction objects may be legitimate duplicates (equal content, '
    'different ids) and the phase keeps every id whose species all belong to it',
    'line width (YW) asserts only what the unchanged writers guarantee: a line with >= 2 tokens is at most '
    'max_line_len wide, the line closing a wrapped value (""" + template , or )) at most max_line_len+1; '
    'reactions=/interactions= range fields are written unwrapped and are not covered; notes are compared '
    'token-wise (a long note is wrapped)',
    'history: list semantics (append/extend at the end, remove = first occurrence, pop(i)); a species may sit '
    'in several phases; remove/pop only address entries present in the model',
    'reactor YAML: option -> key as documented in write_yaml\'s docstring; a number given with `units` must '
    'appear as "<number> <unit>", a string with units verbatim, without `units` a bare number (or number + '
    'SI unit); when a multi_* list is supplied its scalar option is supplied too',
]
TOL_EXACT = 1e-12
TOL_CTI9 = 1e-8
TOL_CONV = 2e-4
TOL_CTI_RATE = 2.1e-4


# ====================================================================== cases
def _sp(rng, name, kind, phase, el, n_sites):
    return G.gen_species_spec(rng, name, kind, phase, el, n_sites)


def _base_model(seed, **over):
    """Small fixed model used by the directed witnesses."""
    rng = random.Random('C07-directed-%s' % seed)
    kinds = over.pop('kinds', {})
    k = lambda nm, d='Nasa': kinds.get(nm, d)
    gasn = over.pop('gas_names', ['H2', 'N2'])
    species = [_sp(rng, gasn[0], k(gasn[0]), 'gas', {'H': 2}, None),
               _sp(rng, gasn[1], k(gasn[1]), 'gas', {'N': 2}, None),
               _sp(rng, 'PT(B)', k('PT(B)'), 'bulk', {'Pt': 1}, None),
               _sp(rng, 'PT(T)', k('PT(T)'), 'terrace', {'Pt': 1}, 1),
               _sp(rng, 'H(T)', k('H(T)'), 'terrace', {'H': 1, 'Pt': 1}, 1),
               _sp(rng, 'N(T)', k('N(T)'), 'terrace', {'N': 1, 'Pt': 1}, 1),
               _sp(rng, 'N2(T)', k('N2(T)'), 'terrace', {'N': 2, 'Pt': 1}, 2),
               _sp(rng, 'NH(T)', k('NH(T)'), 'terrace', {'N': 1, 'H': 1, 'Pt': 1}, 1),
               _sp(rng, 'PT(S)', k('PT(S)'), 'step', {'Pt': 1}, 1),
               _sp(rng, 'H(S)', k('H(S)'), 'step', {'H': 1, 'Pt': 1}, 1),
               _sp(rng, 'N(S)', k('N(S)'), 'step', {'N': 1, 'Pt': 1}, 1)]
    ts = [_sp(rng, 'TS1(T)', 'Nasa', 'terrace', {'N': 1, 'H': 1, 'Pt': 1}, 1)]
    phases = [{'type': 'IdealGas', 'name': 'gas', 'species': list(gasn), 'note': None},
              {'type': 'StoichSolid', 'name': 'bulk', 'species': ['PT(B)'], 'density': 21.45, 'note': 'Pt metal'},
              {'type': 'InteractingInterface', 'name': 'terrace',
               'species': ['PT(T)', 'H(T)', 'N(T)', 'N2(T)', 'NH(T)'], 'site_density': 2.1671e-09,
               'phases': ['gas', 'bulk'], 'phases_as': 'objects', 'note': 'Pt(111)'},
              {'type': 'InteractingInterface', 'name': 'step', 'species': ['PT(S)', 'H(S)', 'N(S)'],
               'site_density': 4.4385e-10, 'phases': ['gas', 'bulk'], 'phases_as': 'names', 'note': None}]
    site_first = over.pop('site_first', False)
    ads1 = [[gasn[0], 1], ['PT(T)', 2]]
    if site_first:
        ads1.reverse()
    rx = lambda **kw: dict({'A': None, 'beta': None, 'Ea': None, 'sticking_coeff': None, 'id': None,
                            'ts': None, 'direction': None, 'is_adsorption': False}, **kw)
    reactions = [
        rx(phase='terrace', is_adsorption=True, reactants=ads1, products=[['H(T)', 2]]),
        rx(phase='terrace', is_adsorption=True, reactants=[[gasn[1], 1], ['PT(T)', 2]],
           products=[['N2(T)', 1], ['PT(B)', 2]], sticking_coeff=0.2, Ea=1.5),
        rx(phase='terrace', reactants=[['N2(T)', 1]], products=[['N(T)', 2]], ts={'bep': 0}, direction='cleavage'),
        rx(phase='terrace', reactants=[['N(T)', 1], ['H(T)', 1]], products=[['NH(T)', 1], ['PT(T)', 1]],
           ts={'species': 'TS1(T)'}),
        rx(phase='terrace', reactants=[['NH(T)', 1], ['PT(T)', 1]], products=[['N(T)', 1], ['H(T)', 1]],
           ts={'bep': 0}, direction='synthesis', A=9.6e17, beta=0.5, Ea=14.2),
        rx(phase='step', is_adsorption=True, reactants=[[gasn[0], 1], ['PT(S)', 2]], products=[['H(S)', 2]]),
        rx(phase='step', reactants=[['N(S)', 2], ['PT(B)', 1]], products=[['PT(S)', 2]], id='u_0007'),
        rx(phase='step', reactants=[['N(S)', 1], ['H(S)', 2]], products=[['PT(S)', 3]], ts={'bep': 1},
           direction='cleavage'),
    ]
    beps = [{'name': 'N-N', 'slope': 0.52, 'intercept': 19.78, 'direction': 'cleavage', 'descriptor': 'delta_H'},
            {'name': 'N-H', 'slope': 0.29, 'intercept': 23.23, 'direction': 'synthesis',
             'descriptor': 'rev_delta_H'}]
    if over.pop('bep_unnamed', False):
        for b in beps:
            b['name'] = None
    interactions = [
        {'name_i': 'N(T)', 'name_j': 'N(T)', 'intervals': [0.0, 0.25], 'slopes': [-52.6, -10.0], 'name': None,
         'phase': 'terrace'},
        {'name_i': 'N(T)', 'name_j': 'H(T)', 'intervals': [0.0], 'slopes': [-17.7], 'name': 'li_0100',
         'phase': 'terrace'},
        {'name_i': 'H(S)', 'name_j': 'N(S)', 'intervals': [0.0, 0.1, 0.5], 'slopes': [-3.0, 4.5, -20.7],
         'name': None, 'phase': 'step'}]
    spec = {'kind': 'model', 'units': dict(G.DEFAULT_UNITS, quantity='mol', energy='kcal', act_energy='kcal/mol',
                                           pressure='atm', mass='g'),
            'units_as': 'object', 'T': 612.5, 'P': 1.0, 'motz_wise': True, 'populate': 'construct',
            'phases': phases, 'species': species, 'ts_species': ts, 'beps': beps, 'reactions': reactions,
            'interactions': interactions, 'reactions_arg': 'list', 'interactions_arg': 'list',
            'first': 'cti', 'fresh_second': False, 'to_file': False}
    spec.update(over)
    return spec


def directed(tier):
    D = []
    # ---- models: one per populate mode / unit representation / writer order
    D.append(_base_model(0))
    D.append(_base_model(1, populate='organize', first='yaml', to_file=True,
                         units=dict(G.DEFAULT_UNITS, length='m', act_energy='kJ/mol', energy='kJ', pressure='Pa',
                                    quantity='mol')))
    D.append(_base_model(2, units_as='none', units=dict(G.DEFAULT_UNITS), motz_wise=False, fresh_second=True))
    D.append(_base_model(3, units_as='dict', first='yaml',
                         units=dict(G.DEFAULT_UNITS, act_energy='J/mol', energy='J', quantity='mol', length='m',
                                    mass='g')))
    m = _base_model(4, populate='incremental')
    m['phases'] = [p for p in m['phases'] if p['name'] != 'step']      # one interface: not hit by (a)
    m['species'] = [s for s in m['species'] if s['phase'] != 'step']
    m['reactions'] = [r for r in m['reactions'] if r['phase'] != 'step']
    m['interactions'] = [i for i in m['interactions'] if i['phase'] != 'step']
    m['beps'] = m['beps'][:1]
    m['ops'] = [['append', 'terrace', 'PT(T)'], ['extend', 'gas', ['H2', 'N2']], ['append', 'bulk', 'PT(B)'],
                ['extend', 'terrace', ['H(T)', 'N(T)']], ['append', 'terrace', 'NH(T)'],
                ['remove', 'terrace', 'H(T)'], ['extend', 'terrace', ['N2(T)', 'H(T)']],
                ['pop', 'gas', 0], ['append', 'gas', 'H2']]
    D.append(m)
    m2 = _base_model(5, populate='incremental')                       # two default interfaces: witness of (a)
    m2['ops'] = G.gen_fill_ops(random.Random('C07-ops'), m2['phases'])
    D.append(m2)
    # ---- pinned witnesses of file-level findings
    D.append(_base_model(6, kinds={'PT(T)': 'Shomate', 'H(T)': 'Shomate'}))              # (b) sites 1-tuple
    D.append(_base_model(7, site_first=True, first='yaml'))                              # (e) .lower() on phase
    D.append(_base_model(8, kinds={'N2': 'Nasa9', 'N(T)': 'Nasa9'}))                     # Nasa9 in CTI
    D.append(_base_model(9, gas_names=['H2', 'NO'], first='yaml'))                       # YAML keyword name
    D.append(_base_model(10, units=dict(G.DEFAULT_UNITS, time='min', quantity='mol', energy='kcal',
                                         act_energy='kcal/mol')))                   # time unit
    D.append(_base_model(11, bep_unnamed=True))                                          # BEP without a name
    D.append(_base_model(12, bep_unnamed=True, first='yaml'))
    # species moved between coexisting phase objects before writing (both orders, every way of removing)
    def moved(seed, ops, init_delta, scratch, moves, **over):
        m = _base_model(seed, populate='moved', **over)
        init = {p['name']: list(p['species']) for p in m['phases']}
        for sc in scratch:
            init[sc['name']] = []
        for n, src, dst in init_delta:
            init[dst].remove(n)
            init[src].append(n)
        m.update(init_phases=init, scratch=scratch, ops=ops,
                 moves=[{'species': n, 'from': a, 'to': b, 'order': o, 'removal': r, 'role': role}
                        for n, a, b, o, r, role in moves])
        return m
    og = {'type': 'IdealGas', 'name': 'old_IdealGas'}
    oi = {'type': 'InteractingInterface', 'name': 'old_InteractingInterface'}
    D.append(moved(20, [['append', 'terrace', 'N(T)'], ['remove', 'step', 'N(T)'],
                        ['extend', 'gas', ['H2']], ['pop', 'old_IdealGas', 0],
                        ['remove', 'old_InteractingInterface', 'H(T)'], ['append', 'terrace', 'H(T)']],
                   [('N(T)', 'step', 'terrace'), ('H2', 'old_IdealGas', 'gas'),
                    ('H(T)', 'old_InteractingInterface', 'terrace')], [og, oi],
                   [('N(T)', 'step', 'terrace', 'add_first', 'remove', 'surface_reactant_computed_A'),
                    ('H2', 'old_IdealGas', 'gas', 'add_first', 'pop', 'gas_sticking_species'),
                    ('H(T)', 'old_InteractingInterface', 'terrace', 'remove_first', 'remove',
                     'surface_reactant_computed_A')]))
    D.append(moved(21, [['append', 'gas', 'N2'], ['clear', 'old_IdealGas'],
                        ['extend', 'step', ['N(S)']], ['pop', 'terrace', 4],
                        ['clear', 'old_InteractingInterface'], ['extend', 'terrace', ['NH(T)']]],
                   [('N2', 'old_IdealGas', 'gas'), ('N(S)', 'terrace', 'step'),
                    ('NH(T)', 'old_InteractingInterface', 'terrace')], [og, oi],
                   [('N2', 'old_IdealGas', 'gas', 'add_first', 'clear', 'gas_sticking_species'),
                    ('N(S)', 'terrace', 'step', 'add_first', 'pop', 'surface_reactant_computed_A'),
                    ('NH(T)', 'old_InteractingInterface', 'terrace', 'remove_first', 'clear',
                     'surface_reactant_computed_A')], first='yaml'))
    # user-supplied rate parameters at sign / zero boundaries (negative Ea on adsorption and surface steps)
    for k, (units, first) in enumerate([(None, 'cti'),
                                        (dict(G.DEFAULT_UNITS, quantity='mol', energy='kJ', act_energy='kJ/mol'),
                                         'yaml'),
                                        (dict(G.DEFAULT_UNITS, quantity='mol', energy='J', act_energy='J/mol',
                                              length='m'), 'cti')]):
        m = _base_model(30 + k, first=first, **({'units': units} if units else {}))
        m['reactions'][0].update(Ea=-0.65, sticking_coeff=1.0)
        m['reactions'][1].update(Ea=-1e-9, sticking_coeff=0.0)
        m['reactions'][5].update(Ea=0.0, sticking_coeff=1e-12, beta=-0.5)
        m['reactions'][4].update(Ea=-14.2, A=0.0, beta=-1)
        m['reactions'][6].update(Ea=-3.25, A=1e-30, beta=0.0)
        m['reactions'][3].update(Ea=1e-9)
        D.append(m)
    # many id groups with gaps -> long reactions= / interactions= range lists, at several line lengths
    rngb = random.Random('C07-directed-blocks')
    for k in range(3):
        m = G.gen_model(rngb, tier, profile='plain', layout=['g+b+s', 'g+s+s', 'g+b+s+s'][k], n_species=14,
                        n_reactions=[24, 40, 16][k], ids='blocks', int_names='blocks', n_interactions=[8, 10, 6][k],
                        populate='construct')
        m.update(line_lens=[[80, 60, 100], [45, 72, 120], [79, 81, 50]][k], first='cti', to_file=(k == 1))
        D.append(m)
    # twin BEPs: distinct objects with identical parameters, anonymous / named, either writer first, re-written
    for k, (tw, first) in enumerate([('unnamed', 'cti'), ('unnamed', 'yaml'), ('named', 'yaml'), ('named', 'cti')]):
        m = _base_model(40 + k, first=first, rewrite=True, bep_twins=tw)
        b0 = dict(m['beps'][0], name=None if tw == 'unnamed' else 'N-N')
        m['beps'] = [dict(b0), dict(b0, name=None if tw == 'unnamed' else 'N-N-b'),
                     dict(b0, name=None if tw == 'unnamed' else 'N-N-c')]
        m['reactions'][2]['ts'] = {'bep': 0}
        m['reactions'][4]['ts'] = {'bep': 1}
        m['reactions'][7]['ts'] = {'bep': 2}
        m['line_lens'] = [60, 80]
        for p_, note in zip(m['phases'], ['feed gas of the reactor after drying over molecular sieve 4A',
                                          'Pt metal', 'Pt(111) terrace sites only DFT PBE-D3 slab four layers '
                                          'p(3x3) cell see ref. 12 and SI', 'stepped surface of the catalyst']):
            p_['note'] = note
        D.append(m)
    # single-phase models
    rng = random.Random('C07-directed-single')
    D.append(G.gen_model(rng, tier, layout='g', n_species=3, populate='construct', yaml_keyword_name=False))
    D.append(G.gen_model(rng, tier, layout='s', n_species=5, populate='construct', n_reactions=4,
                         bep_named=True, kinds_w=[8, 0, 0], site_first_p=0.0))
    D.append(G.gen_model(rng, tier, layout='g+b+s+s', n_species=40, n_reactions=40, n_interactions=10,
                         populate='organize', bep_named=True, kinds_w=[8, 0, 0], site_first_p=0.0,
                         yaml_keyword_name=False, ids='mixed'))
    # ---- histories
    U = dict(G.DEFAULT_UNITS)
    H = lambda phases, n_start, ops, pool=5: {'kind': 'history', 'pool': pool, 'phases': phases,
                                              'n_start': n_start, 'ops': ops, 'units': U, 'emit': True}
    I = lambda k, init=None: {'type': 'InteractingInterface', 'name': 'ph%d' % k, 'init': init}
    Gs = lambda k, init=None: {'type': 'IdealGas', 'name': 'ph%d' % k, 'init': init}
    B = lambda k, init=None: {'type': 'StoichSolid', 'name': 'ph%d' % k, 'init': init}
    D.append(H([I(0), I(1)], 2, [['append', 0, 0], ['append', 1, 1], ['extend', 0, [2, 3]]]))       # (a)
    D.append(H([I(0), I(1)], 1, [['append', 0, 0], ['new', 1], ['append', 1, 1], ['pop', 0, 0]]))   # (a) late
    D.append(H([I(0), Gs(1), B(2)], 3, [['extend', 0, [0, 1]], ['append', 1, 2], ['append', 2, 3],
                                        ['remove', 0, 0], ['clear', 1], ['extend', 1, [4, 2]], ['pop', 1, 0]]))
    D.append(H([Gs(0), Gs(1), B(2), B(3)], 4, [['append', 0, 0], ['append', 1, 1], ['append', 2, 2],
                                               ['append', 3, 3], ['extend', 0, [1, 2]], ['clear', 2],
                                               ['pop', 0, 1], ['remove', 1, 1]]))
    D.append(H([I(0, [0, 1]), I(1, [2]), I(2, [])], 3, [['append', 2, 3], ['extend', 1, [0, 4]],
                                                       ['remove', 0, 1], ['pop', 1, 2], ['clear', 0]]))
    D.append(H([I(0, [0])], 1, [['append', 0, 1], ['extend', 0, [2, 3]], ['pop', 0, 0], ['remove', 0, 3]]))
    # homogeneous reactions given to IdealGas / StoichSolid as base Reaction / ChemkinReaction objects with ids:
    # value-equal twins with different ids, gaps, a reaction with a foreign species
    for k, cls in enumerate(['Reaction', 'ChemkinReaction']):
        rx = lambda i, eq, foreign=False: {'cls': cls, 'id': i, 'eq': eq, 'foreign': foreign}
        D.append({'kind': 'history', 'flavour': 'plain', 'pool': 5, 'names': None,
                  'phases': [dict(Gs(0, [0, 1]), rxns=[rx('g0_0003', 0), rx('g0_0001', 0), rx('g0_0002', 1),
                                                       rx('g0_0007', 0), rx('g0_0005', 2, True), rx('g0_0009', 1)]),
                             dict(B(1, [2]), rxns=[rx('g1_0001', 0), rx('g1_0002', 0)]), I(2)],
                  'n_start': 3, 'ops': [['append', 2, 3], ['append', 0, 4]], 'moves': {}, 'units': U, 'emit': True})
    # long species lists with hyphenated names: the special names at every position of a wrapped list
    fill = G.WRAP_FILLERS[:18]
    special = ['cis-HCOOH(S)', 'trans-HCOOH(S)', 'CO-OH(S)']
    for k in range(len(fill) + 1):
        names = fill[:k] + special + fill[k:]
        t = ['InteractingInterface', 'IdealGas', 'StoichSolid'][k % 3]
        D.append({'kind': 'history', 'flavour': 'wrap', 'pool': len(names), 'names': names,
                  'phases': [{'type': t, 'name': 'ph0', 'init': list(range(len(names)))},
                             {'type': 'InteractingInterface', 'name': 'ph1', 'init': None}],
                  'n_start': 2, 'ops': [['append', 1, k % len(names)], ['pop', 0, k % len(names)]],
                  'moves': {'add_first': 1, 'remove_first': 0}, 'units': U, 'emit': True})
    # ---- reactor option sets
    Un = dict(G.DEFAULT_UNITS, pressure='atm', mass='g')
    Rr = lambda options, units=Un, phases='empty', generic=None: {
        'kind': 'reactor', 'units': units, 'units_as': 'object', 'options': options, 'phases': phases,
        'generic': generic or {}}
    f = lambda t, v: {'t': t, 'v': v}
    D.append(Rr({'reactor_type': f('str', 'cstr'), 'V': f('float', 1.0), 'T': f('int', 900), 'P': f('int', 1),
                 'cat_abyv': f('int', 1500), 'flow_rate': f('float', 1.0), 'end_time': f('int', 50),
                 'transient': f('bool', True), 'stepping': f('str', 'logarithmic'), 'init_step': f('float', 1e-15),
                 'atol': f('float', 1e-15), 'rtol': f('float', 1e-10), 'output_format': f('str', 'CSV')},
                phases='objects', generic={'reactor': {'mode': 'isothermal'}}))
    D.append(Rr({'V': f('float', 1.0)}, units=None))                                     # (c) units=None
    D.append(Rr({'T': f('float', 500.0), 'atol': f('float', 1e-9), 'reactor_type': f('str', 'pfr')}, units=None))
    D.append(Rr({'V': f('np.int64', 2)}))                                                # (c) dropped
    D.append(Rr({'V': f('np.float32', 2.0)}))
    D.append(Rr({'V': f('np.float64', 2.0), 'L': f('np.float64', 0.5)}))
    D.append(Rr({'T': f('np.float64', 3.0)}))                                            # (c) python tag
    D.append(Rr({'nodes': f('np.int64', 3)}))
    D.append(Rr({'atol': f('np.float32', 0.25)}))
    D.append(Rr({'T': f('float', 3.0)}, phases='omitted'))                               # (d)
    D.append(Rr({'P': f('str', '1 atm'), 'flow_rate': f('str', '1 cm3/s')}))             # strings with units
    D.append(Rr({'P': f('str', '1 atm')}, units=None))
    D.append(Rr({'P': f('float', 1.0), 'multi_P': f('strlist_units', ['1 atm', '2 atm'])}))
    D.append(Rr({'T': f('float', 500.0), 'multi_T': f('list:float', [500.0, 600.0]), 'P': f('float', 1.0),
                 'multi_P': f('list:float', [1.0, 2.0]), 'flow_rate': f('int', 3),
                 'multi_flow_rate': f('list:int', [3, 4]), 'full_SA': f('bool', False),
                 'reactions_SA': f('strlist', ['r_0001', 'u_0007']), 'species_SA': f('strlist', ['H2', 'N2(T)']),
                 'nodes': f('int', 4), 'A': f('float', 2.5), 'L': f('int', 3), 'residence_time': f('float', 0.5),
                 'mass_flow_rate': f('float', 0.1), 'step_size': f('float', 1.5),
                 'temperature_mode': f('str', 'Isothermal'), 'pressure_mode': f('str', 'Isobaric')},
                units=dict(G.DEFAULT_UNITS, length='m', time='min', mass='g', pressure='Pa')))
    # lists with element-wise mixed forms (numbers + strings with units, Python + NumPy, ids + objects)
    e = lambda t, v: {'t': t, 'v': v}
    mix = {'P': f('float', 1.0), 'multi_P': {'t': 'mixlist', 'v': [e('float', 1.5), e('str', '2 atm'),
                                                                      e('np.float64', 3.0), e('int', 4)]},
           'T': f('int', 500), 'multi_T': {'t': 'mixlist', 'v': [e('int', 500), e('np.float32', 512.0),
                                                                   e('float', 600.5), e('np.int64', 700)]},
           'multi_flow_rate': {'t': 'mixlist', 'v': [e('np.int64', 2), e('str', '3 cm3/s'), e('float', 0.25)]},
           'reactions_SA': {'t': 'mixlist', 'v': [e('obj:reaction', 'u_0007'), e('str', 'r_0001')]},
           'species_SA': {'t': 'mixlist', 'v': [e('str', 'H2'), e('obj:species', 'N2(T)')]}}
    D.append(Rr(dict(mix)))
    D.append(Rr(dict(mix), units=None))
    D.append(Rr({'multi_P': {'t': 'mixlist', 'v': [e('str', '2 atm'), e('float', 1.5)]},
                 'multi_flow_rate': {'t': 'mixlist', 'v': [e('float', 1.0), e('np.float32', 0.5)]}},
                units=dict(G.DEFAULT_UNITS, length='m', time='min')))
    return D


def generate(rng, tier):
    kinds = sorted(WEIGHTS)
    k = rng.choices(kinds, [WEIGHTS[x] for x in kinds])[0]
    if k == 'model':
        return G.gen_model(rng, tier)
    if k == 'history':
        return G.gen_history(rng, tier)
    return G.gen_reactor(rng, tier)


# ====================================================================== probes
_P = {'ctx': None}


def _branch_assign(label, loc):
    ctx = _P['ctx']
    try:
        p, units = loc.get('param'), loc.get('units')
        v = p.val
        tn = type(v).__module__.split('.')[0] + '.' + type(v).__name__ if type(v).__module__ != 'builtins' \
            else type(v).__name__
        ctx.branch('_assign_yaml_val:%s|unit=%s|units=%s' % (
            tn, 'yes' if p.units is not None else 'no', 'given' if units is not None else 'None'))
    except Exception:
        pass
    return None


def _branch_setter(label, loc):
    ctx = _P['ctx']
    try:
        from pmutt.omkm.phase import InteractingInterface
        val = loc.get('val')
        dflt = (InteractingInterface.__init__.__defaults__ or (None,))[0]
        if val is None:
            ctx.branch('species.setter:None')
        elif dflt is not None and val is dflt:
            ctx.branch('species.setter:shared_default_object')
        else:
            ctx.branch('species.setter:caller_list')
    except Exception:
        pass
    return None


def _branch_rxn(label, loc):
    ctx = _P['ctx']
    try:
        s = loc.get('self')
        ctx.branch('%s:%s|Ea=%s|ts=%s' % (label, 'ads' if s.is_adsorption else 'surf',
                                          'given' if s.Ea is not None else 'computed',
                                          'none' if s.transition_state is None else
                                          type(s.transition_state[0]).__name__))
    except Exception:
        pass
    return None


def install_probes(pr, ctx):
    _P['ctx'] = ctx

    def imp(path):
        mod, _, attr = path.rpartition(':')
        def g():
            import importlib
            o = importlib.import_module(mod)
            for a in attr.split('.'):
                o = getattr(o, a)
            return o
        return g
    W = lambda path, label, **kw: pr.watch(imp(path), label, **kw)
    W('pmutt.io.omkm:write_cti', 'write_cti')
    W('pmutt.io.omkm:write_thermo_yaml', 'write_thermo_yaml')
    W('pmutt.io.omkm:write_yaml', 'write_yaml')
    W('pmutt.io.omkm:organize_phases', 'organize_phases')
    W('pmutt.omkm:_assign_yaml_val', '_assign_yaml_val', on_call=_branch_assign)
    W('pmutt.cantera:_get_omkm_range', '_get_omkm_range')
    W('pmutt.io.cantera:obj_to_cti', 'obj_to_cti')
    W('pmutt.io.ctml_writer:convert', 'ctml_writer.convert')
    for cls, mod in (('Nasa', 'pmutt.empirical.nasa'), ('Nasa9', 'pmutt.empirical.nasa'),
                     ('Shomate', 'pmutt.empirical.shomate'), ('PiecewiseCovEffect', 'pmutt.mixture.cov'),
                     ('BEP', 'pmutt.omkm.reaction'), ('InteractingInterface', 'pmutt.omkm.phase'),
                     ('Units', 'pmutt.cantera.units')):
        W('%s:%s.to_cti' % (mod, cls), cls + '.to_cti')
        W('%s:%s.to_omkm_yaml' % (mod, cls), cls + '.to_omkm_yaml')
    W('pmutt.empirical.nasa:SingleNasa9.to_cti', 'SingleNasa9.to_cti')
    W('pmutt.omkm.reaction:SurfaceReaction.to_cti', 'SurfaceReaction.to_cti', on_call=_branch_rxn)
    W('pmutt.omkm.reaction:SurfaceReaction.to_omkm_yaml', 'SurfaceReaction.to_omkm_yaml', on_call=_branch_rxn)
    W('pmutt.omkm.reaction:SurfaceReaction.get_A', 'SurfaceReaction.get_A')
    W('pmutt.cantera.phase:IdealGas.to_cti', 'IdealGas.to_cti')
    W('pmutt.cantera.phase:StoichSolid.to_cti', 'StoichSolid.to_cti')
    W('pmutt.omkm.phase:IdealGas.to_omkm_yaml', 'IdealGas.to_omkm_yaml')
    W('pmutt.omkm.phase:StoichSolid.to_omkm_yaml', 'StoichSolid.to_omkm_yaml')
    pr.watch_setter(imp('pmutt.cantera.phase:Phase.species'), 'Phase.species.setter', on_call=_branch_setter)
    for m in ('append_species', 'extend_species', 'remove_species', 'pop_species', 'clear_species'):
        W('pmutt.cantera.phase:Phase.%s' % m, 'Phase.' + m)


# ====================================================================== helpers
class _Rejected(Exception):
    """pMuTT (or its bundled converter) left through sys.exit."""


def _quiet(fn, *a, **k):
    """Call into pMuTT with stderr captured; SystemExit (ctml_writer) becomes _Rejected."""
    buf = io.StringIO()
    try:
        with contextlib.redirect_stderr(buf):
            return fn(*a, **k), buf.getvalue()
    except SystemExit as e:
        v = buf.getvalue()
        raise _Rejected('sys.exit(%s): %s ... %s' % (e.code, v[:300], v[-400:]))


def _rel(ctx, oracle, got, want, tol, mech, scale=None, **detail):
    """purely relative comparison (coefficients span 1e-14 .. 1e6)."""
    try:
        got = float(got)
    except (TypeError, ValueError):
        return ctx.fail(oracle, dict(mech, what='not_a_number'), got=repr(got)[:80], want=want)
    sc = max(abs(want), scale or 0.0)
    if sc == 0.0:
        return ctx.check(oracle, got == 0.0, mech, got=got, want=want, **detail)
    return ctx.close(oracle, got, want, tol, mech, scale=sc, **detail)


def _f(x):
    import numpy as np
    return float(np.asarray(x, dtype=float).ravel()[0])


def _split_unit(s):
    """'12.5 kJ/mol' -> (12.5, 'kJ/mol'); None if not of that form."""
    if not isinstance(s, str):
        return None
    toks = s.strip().split(None, 1)
    if len(toks) != 2:
        return None
    try:
        return float(toks[0]), toks[1].strip()
    except ValueError:
        return None


def _cause(msg):
    """finite vocabulary of reasons ctml_writer gives (mechanism, not message text)."""
    table = (('coefficient list must have length', 'coeff_len'), ('SyntaxError', 'SyntaxError'),
             ('not found while parsing', 'species_not_in_phase'), ('at most one surface phase', 'two_surface_phases'),
             ('one gas-phase reactant', 'stick_gas_count'), ('No species declared', 'empty_phase'),
             ('density must be specified', 'no_density'), ('KeyError', 'KeyError'), ('TypeError', 'TypeError'),
             ('NameError', 'NameError'), ('ValueError', 'ValueError'), ('AttributeError', 'AttributeError'))
    for needle, tag in table:
        if needle in msg:
            return tag
    return 'other'


# ====================================================================== history clause
def _check_live(ctx, live, model, elements_of, after, operated, info):
    """compare every live phase with the model; False at the first divergence."""
    for key, ph in live.items():
        mech = {'file': 'history', 'rule': 'Y4', 'entity': 'phase', 'field': 'species',
                'class': type(ph).__name__, 'after': after, 'default_args': bool(info[key]['default']),
                'other_phase': key != operated}
        got = ctx.call('YH', mech, lambda: list(ph.species_names))
        if got is core.NOVALUE:
            return False
        if not ctx.check('YH', got == model[key], mech, got=got, want=model[key], phase=str(key)):
            return False
        m2 = dict(mech, field='elements')
        el = ctx.call('YH', m2, lambda: set(ph.elements))
        if el is core.NOVALUE:
            return False
        want = set()
        for n in model[key]:
            want |= set(elements_of[n])
        if not ctx.check('YH', el == want, m2, got=sorted(el), want=sorted(want)):
            return False
    # back references: a species points at the phase that added it last, as long as that phase lists it
    objs, owner = info.get('_objs'), info.get('_owner')
    if objs is not None:
        for name, key in owner.items():
            if key not in live or name not in model[key] or name in info.setdefault('_reported', set()):
                continue
            listed_by = [k for k in live if name in model[k]]
            m3 = {'file': 'history', 'rule': 'Y4', 'entity': 'species', 'field': 'phase_backref',
                  'class': type(live[key]).__name__, 'after': after, 'listed_by_one_phase': len(listed_by) == 1}
            got = getattr(objs[name], 'phase', None)
            # (recorded, but the case goes on: the files written afterwards show the consequence)
            if not ctx.check('YH', got is live[key], m3, species=name, got=getattr(got, 'name', repr(got)),
                             want=live[key].name):
                info['_reported'].add(name)          # once per species and case
    return True


def _apply_op(ctx, op, live, model, obj_of, info):
    """apply one species operation to the real phase and to the model. -> False if pMuTT raised."""
    kind, key = op[0], op[1]
    ph = live[key]
    mech = {'file': 'history', 'rule': 'Y4', 'entity': 'phase', 'field': 'species', 'class': type(ph).__name__,
            'after': kind, 'default_args': bool(info[key]['default']), 'other_phase': False}
    ctx.cls('hist:' + kind)
    if kind == 'append':
        r = ctx.call('YH', mech, ph.append_species, obj_of(op[2]))
        model[key].append(obj_of(op[2]).name)
        info.setdefault('_owner', {})[obj_of(op[2]).name] = key
    elif kind == 'extend':
        objs = [obj_of(i) for i in op[2]]
        r = ctx.call('YH', mech, ph.extend_species, objs)
        model[key].extend(o.name for o in objs)
        for o in objs:
            info.setdefault('_owner', {})[o.name] = key
    elif kind == 'remove':
        nm = obj_of(op[2]).name
        r = ctx.call('YH', mech, ph.remove_species, nm)
        model[key].remove(nm)
    elif kind == 'pop':
        r = ctx.call('YH', mech, ph.pop_species, op[2])
        model[key].pop(op[2])
    elif kind == 'clear':
        r = ctx.call('YH', mech, ph.clear_species)
        model[key] = []
    else:
        raise core.HarnessError('unknown op %r' % (op,))
    return r is not core.NOVALUE


def _pool_species(n, names=None):
    """light-weight species objects sp0..sp{n-1} (or with the given names)"""
    rng = random.Random('C07-pool')
    els = [{'H': 2}, {'N': 2}, {'C': 1, 'O': 1}, {'Pt': 1}, {'O': 2}, {'C': 1, 'H': 4}, {'Ni': 1, 'H': 1},
           {'N': 1, 'H': 3}, {'Cu': 1}, {'Fe': 1, 'O': 1}]
    out = []
    for k in range(n):
        nm = names[k] if names else 'sp%d' % k
        out.append(G.build_species(G.gen_species_spec(rng, nm, 'Nasa', 'S', els[k % len(els)], 1)))
    return out


def _run_history(spec, ctx):
    pool = _pool_species(spec['pool'], spec.get('names'))
    elements_of = {o.name: dict(o.elements) for o in pool}
    obj_of = lambda i: pool[i]
    live, model = {}, {}
    rxn_ids = {}
    info = {'_objs': {o.name: o for o in pool}, '_owner': {}}
    for how, n in (spec.get('moves') or {}).items():
        if n:
            ctx.cls('hist:move_' + how)
    if len(spec['phases']) >= 2 and len(spec['ops']) >= 3:
        ctx.nontrivial()

    def create(k):
        p = spec['phases'][k]
        cls = G.phase_class(p['type'])
        kw = {'name': p['name']}
        if p['type'] == 'StoichSolid':
            kw['density'] = 10.0
        if p['type'] == 'InteractingInterface':
            kw['site_density'] = 2.0e-9
            kw['phases'] = []
        if p['init'] is not None:
            kw['species'] = [pool[i] for i in p['init']]
            ctx.cls('hist:explicit_species')
        else:
            ctx.cls('hist:default_args')
        mech = {'file': 'history', 'rule': 'Y4', 'entity': 'phase', 'field': 'species', 'class': p['type'],
                'after': 'new', 'default_args': p['init'] is None, 'other_phase': False}
        if p.get('rxns'):
            kw['reactions'], want_ids = _phase_reactions(p)
            rxn_ids[k] = (want_ids, p['rxns'][0]['cls'],
                          len({(r['eq'], r['foreign']) for r in p['rxns']}) < len(p['rxns']))
        ph = ctx.call('YH', mech, cls, **kw)
        if ph is core.NOVALUE:
            return False
        if p.get('rxns'):
            ctx.cls('hist:phase_reactions_' + p['rxns'][0]['cls'])
            if rxn_ids[k][2]:
                ctx.cls('hist:phase_reactions_value_equal_twins')
            got = sorted(str(getattr(r, 'id', None)) for r in (ph.reactions or []))
            ctx.check('YH', got == rxn_ids[k][0],
                      dict(mech, field='reactions', reaction_class=rxn_ids[k][1], value_equal_twins=rxn_ids[k][2]),
                      got=got, want=rxn_ids[k][0])
        live[k] = ph
        model[k] = [pool[i].name for i in (p['init'] or [])]
        info[k] = {'default': p['init'] is None}
        for n in model[k]:
            info['_owner'][n] = k
        return True

    for k in range(spec['n_start']):
        if not create(k):
            return
    if not _check_live(ctx, live, model, elements_of, 'new', None, info):
        return
    for op in spec['ops']:
        if op[0] == 'new':
            ctx.cls('hist:new')
            if not create(op[1]):
                return
        elif not _apply_op(ctx, op, live, model, obj_of, info):
            return
        if len(live) >= 2:
            ctx.cls('hist:coexisting>=2')
        if not _check_live(ctx, live, model, elements_of, op[0], op[1], info):
            return
    if spec.get('emit'):
        _emit_phases_only(spec, ctx, live, model, elements_of, rxn_ids)


def _phase_reactions(p):
    """base Reaction / ChemkinReaction objects with an ad-hoc id, on species that belong to phase p (by
    name, as the phase constructors expect) -> (objects, sorted ids the phase must keep)"""
    import pmutt.reaction as R
    rng = random.Random('C07-phase-rxn')
    mk = lambda nm, phase: G.build_species(G.gen_species_spec(rng, nm, 'Nasa', phase, {'H': 1}, None))
    own = [mk('q%d' % i, p['name']) for i in range(5)]
    alien = mk('alien', 'elsewhere')
    eqs = [([0], [1]), ([0, 1], [2]), ([2], [3, 4]), ([1], [4])]
    out, keep = [], []
    for r in p['rxns']:
        a, b = eqs[r['eq']]
        reac = [own[i] for i in a] + ([alien] if r['foreign'] else [])
        obj = getattr(R, r['cls'])(reactants=reac, reactants_stoich=[1] * len(reac),
                                   products=[own[i] for i in b], products_stoich=[1] * len(b))
        obj.id = r['id']
        out.append(obj)
        if not r['foreign']:
            keep.append(r['id'])
    return out, sorted(keep)


def _emit_phases_only(spec, ctx, live, model, elements_of, rxn_ids=None):
    """after the history: what the real writers say about the phases (Y4 on files)."""
    from pmutt.io.omkm import write_cti, write_thermo_yaml
    import yaml
    keys = [k for k in sorted(live) if model[k]]
    if not keys:
        return
    phases = [live[k] for k in keys]
    u = dict(spec['units'])
    base = {'file': 'cti', 'rule': 'Y4', 'entity': 'phase', 'after_history': True}
    try:
        (text, _err) = _quiet(write_cti, phases=phases, units=dict(u))
        doc = C.evaluate(text)
    except Exception as e:
        ctx.fail('Y4', dict(base, exc=type(e).__name__), message=str(e)[:300])
        doc = None
    if doc is not None:
        byname = {p['name']: p for p in doc.phases}
        ctx.check('Y4', len(doc.phases) == len(keys) and len(byname) == len(keys), dict(base, field='count'),
                  got=[p['name'] for p in doc.phases])
        for k in keys:
            ph = byname.get(live[k].name)
            if ph is None:
                ctx.fail('Y4', dict(base, field='name', **{'class': type(live[k]).__name__}))
                continue
            m = dict(base, **{'class': type(live[k]).__name__})
            if len(' '.join(model[k])) >= 60 and any('-' in n for n in model[k]):
                ctx.cls('wrap:hyphen_name')
                m['wrapped_hyphen_names'] = True
            if rxn_ids and k in rxn_ids and ph['kind'] == 'ideal_gas':
                want, rcls, tw = rxn_ids[k]
                mr = dict(m, field='reactions', reaction_class=rcls, value_equal_twins=tw)
                try:
                    got = sorted(C.expand_ids([e for e in ph.get('reactions', []) if e != 'none']))
                    ctx.check('Y4', got == want, mr, got=got, want=want, written=ph.get('reactions'))
                except C.CTIInvalid as e:
                    ctx.fail('Y4', dict(mr, exc='CTIInvalid'), message=str(e)[:200])
            ctx.check('Y4', ph['species'] == model[k], dict(m, field='species'), got=ph['species'], want=model[k])
            want_el = set()
            for n in model[k]:
                want_el |= set(elements_of[n])
            ctx.check('Y4', set(ph['elements']) == want_el and len(ph['elements']) == len(want_el),
                      dict(m, field='elements'), got=ph['elements'], want=sorted(want_el))
    base = dict(base, file='thermo_yaml')
    try:
        (text, _err) = _quiet(write_thermo_yaml, phases=phases, units=dict(u))
        ydoc = yaml.safe_load(text)
        yph = {p['name']: p for p in ydoc['phases']}
    except Exception as e:
        ctx.fail('Y4', dict(base, exc=type(e).__name__), message=str(e)[:300])
        return
    ctx.check('Y4', len(ydoc['phases']) == len(keys), dict(base, field='count'))
    for k in keys:
        ph = yph.get(live[k].name)
        m = dict(base, **{'class': type(live[k]).__name__})
        if ph is None:
            ctx.fail('Y4', dict(m, field='name'))
            continue
        ctx.check('Y4', ph.get('species') == model[k], dict(m, field='species'), got=ph.get('species'),
                  want=model[k])


# ====================================================================== model: construction
def _build(spec, ctx, check_history=True):
    """-> Model with .phases (list in spec order) or None when pMuTT failed on the way."""
    from pmutt.io.omkm import organize_phases
    M = G.build_model_objects(spec)
    mode = spec['populate']
    by_name = {}
    M.phases = []
    if mode == 'organize':
        mech = {'file': 'history', 'rule': 'Y4', 'entity': 'phase', 'field': 'species', 'after': 'organize_phases'}
        if any(b['name'] is None for b in spec['beps']):
            mech['bep_named'] = False
        phs = ctx.call('YH', mech, organize_phases, G.organize_data(spec), species=list(M.species_list),
                       reactions=list(M.reactions) or None, interactions=list(M.interactions) or None)
        if phs is core.NOVALUE:
            return None
        if not ctx.check('YH', [p.name for p in phs] == [p['name'] for p in spec['phases']],
                         dict(mech, field='phases'), got=[p.name for p in phs]):
            return None
        M.phases = list(phs)
    else:
        init = spec.get('init_phases') if mode == 'moved' else None
        for p in spec['phases']:
            cls = G.phase_class(p['type'])
            pp = dict(p, species=init[p['name']]) if init is not None else p
            kw = G.phase_kwargs(spec, pp, M, by_name, with_species=(mode in ('construct', 'moved')))
            mech = {'file': 'history', 'rule': 'Y4', 'entity': 'phase', 'field': 'species', 'class': p['type'],
                    'after': 'new', 'default_args': mode != 'construct', 'other_phase': False}
            ph = ctx.call('YH', mech, cls, **kw)
            if ph is core.NOVALUE:
                return None
            by_name[p['name']] = ph
            M.phases.append(ph)
    live = {p['name']: ph for p, ph in zip(spec['phases'], M.phases)}
    elements_of = {s['name']: s['elements'] for s in spec['species']}
    info = {p['name']: {'default': mode == 'incremental'} for p in spec['phases']}
    info['_objs'] = dict(M.sp)
    info['_owner'] = {}
    if mode == 'moved':
        # scratch phases coexist with the model's phases but are not written
        for sc in spec['scratch']:
            kw = {'name': sc['name'], 'species': [M.sp[n] for n in init[sc['name']]]}
            if sc['type'] == 'StoichSolid':
                kw['density'] = 1.0
            if sc['type'] == 'InteractingInterface':
                kw['site_density'] = 1.0e-12
                kw['phases'] = []
            mech = {'file': 'history', 'rule': 'Y4', 'entity': 'phase', 'field': 'species', 'class': sc['type'],
                    'after': 'new', 'default_args': False, 'other_phase': False}
            ph = ctx.call('YH', mech, G.phase_class(sc['type']), **kw)
            if ph is core.NOVALUE:
                return None
            live[sc['name']] = ph
            info[sc['name']] = {'default': False}
        model = {k: list(v) for k, v in init.items()}
        for k, v in model.items():
            for n in v:
                info['_owner'][n] = k
        for mv in spec['moves']:
            ctx.cls('move:' + mv['order'], 'move:' + mv['role'], 'move:by_' + mv['removal'])
    elif mode != 'incremental':
        for p in spec['phases']:
            for n in p['species']:
                info['_owner'][n] = p['name']
    if mode in ('incremental', 'moved'):
        if mode == 'incremental':
            model = {p['name']: [] for p in spec['phases']}
        if check_history and not _check_live(ctx, live, model, elements_of, 'new', None, info):
            return None
        for op in spec['ops']:
            opx = list(op)
            if op[0] == 'extend':
                obj_of = lambda n: M.sp[n]
            else:
                obj_of = lambda n: M.sp[n]
            if not _apply_op(ctx, opx, live, model, obj_of, info):
                return None
            if len(live) >= 2:
                ctx.cls('hist:coexisting>=2')
            if check_history and not _check_live(ctx, live, model, elements_of, op[0], op[1], info):
                return None
        if mode == 'incremental':
            ctx.cls('hist:default_args')
        tracked = model
    # final state against the spec (all modes)
    model = {p['name']: list(p['species']) for p in spec['phases']}
    if mode == 'moved':
        for sc in spec['scratch']:
            model[sc['name']] = list(tracked[sc['name']])
    if mode in ('incremental', 'moved'):
        # order follows the operation sequence
        for k in model:
            if sorted(tracked[k]) != sorted(model[k]):
                raise core.HarnessError('operation sequence does not reach the target species of %s' % k)
            model[k] = tracked[k]
    if check_history and not _check_live(ctx, live, model, elements_of, mode, None, info):
        return None
    return M


# ====================================================================== model: expected values
def _surface_names(spec, phase_name):
    for p in spec['phases']:
        if p['name'] == phase_name:
            return set(p['species']), p
    raise core.HarnessError('reaction on unknown phase %s' % phase_name)


def _expected_rate(spec, i, M, T):
    """(kind, A, b, Ea, Ea_scale) of reaction i in the requested unit system."""
    rx = spec['reactions'][i]
    u = spec['units']
    ads = rx['is_adsorption']
    b = rx['beta'] if rx['beta'] is not None else (0.0 if ads else 1.0)
    if ads:
        A = rx['sticking_coeff'] if rx['sticking_coeff'] is not None else 0.5
    elif rx['A'] is not None:
        A = rx['A']
    else:
        names, p = _surface_names(spec, rx['phase'])
        sd = C.site_density(p['site_density'], u['quantity'], u['length'])
        n_surf = sum(st for n, st in rx['reactants'] if n in names)
        eff = sum(sd * int(st) for n, st in rx['reactants'] if n in names)
        A = (C.KB / C.H_PLANCK) * C.TIME_S[u['time']] / eff ** (n_surf - 1)
    if rx['Ea'] is not None:
        Ea = C.act_energy(rx['Ea'], u['act_energy'])
        return ('stick' if ads else 'Arrhenius'), A, b, Ea, abs(Ea)
    getter = 'get_HoRT' if ads else 'get_GoRT'
    val = {}
    for n, _ in rx['reactants'] + rx['products']:
        val[n] = _f(getattr(M.sp[n], getter)(T=T))
    R = sum(st * val[n] for n, st in rx['reactants'])
    P_ = sum(st * val[n] for n, st in rx['products'])
    scale = sum(abs(st * val[n]) for n, st in rx['reactants'] + rx['products'])
    d_rxn = P_ - R
    ts = rx['ts']
    if ts is None:
        d_act = d_rxn
    elif 'species' in ts:
        v = _f(getattr(M.ts[ts['species']], getter)(T=T))
        d_act = v - R
        scale += abs(v)
    else:
        bep = spec['beps'][ts['bep']]
        hv = {n: _f(M.sp[n].get_HoRT(T=T)) for n, _ in rx['reactants'] + rx['products']}
        dH = sum(st * hv[n] for n, st in rx['products']) - sum(st * hv[n] for n, st in rx['reactants'])
        RT_kcal = C.R_SI * T / 4184.0
        dH_kcal = dH * RT_kcal
        if bep['descriptor'] == 'delta_H':
            E = bep['slope'] * dH_kcal + bep['intercept']
        else:                                            # rev_delta_H, forward direction
            E = (bep['slope'] - 1.0) * (-dH_kcal) + bep['intercept']
        d_act = E / RT_kcal
        scale += sum(abs(st * hv[n]) for n, st in rx['reactants'] + rx['products']) + abs(bep['intercept']) / RT_kcal
    rt = C.RT(T, u['act_energy'])
    return ('stick' if ads else 'Arrhenius'), A, b, max(0.0, d_act, d_rxn) * rt, scale * rt


def _bep_order(spec):
    """BEPs are written once each, in the order the reactions first use them."""
    order = []
    for r in spec['reactions']:
        if r['ts'] and 'bep' in r['ts'] and r['ts']['bep'] not in order:
            order.append(r['ts']['bep'])
    return order


def _bep_members(spec, b, direction, written_ids):
    return sorted(written_ids[i] for i, r in enumerate(spec['reactions'])
                  if r['ts'] and r['ts'].get('bep') == b and r['direction'] == direction)


def _phase_expect(spec, p, written_ids, written_int_ids, bep_ids):
    rx = [i for i, r in enumerate(spec['reactions']) if r['phase'] == p['name']]
    out = {'reactions': sorted(written_ids[i] for i in rx) if written_ids else None,
           'interactions': sorted(written_int_ids[i] for i, r in enumerate(spec['interactions'])
                                  if r['phase'] == p['name']) if written_int_ids is not None else None}
    bs = []
    for i in rx:
        t = spec['reactions'][i]['ts']
        if t and 'bep' in t and t['bep'] not in bs:
            bs.append(t['bep'])
    out['beps'] = sorted(str(bep_ids[b]) for b in bs) if bep_ids is not None else None
    out['n_beps'] = len(bs)
    out['elements'] = set()
    byname = {s['name']: s for s in spec['species']}
    for n in p['species']:
        out['elements'] |= set(byname[n]['elements'])
    return out


def _species_class_by_name(spec):
    return {s['name']: s['type'] for s in spec['species']}


def _flags(spec):
    """input-class features that go into every mech of a model case."""
    return {'units_as': spec['units_as']}


# ====================================================================== model: CTI file
def _writer_kwargs(spec, M):
    kw = dict(phases=list(M.phases), species=list(M.species_list), units=G.units_arg(spec),
              T=spec['T'], P=spec['P'], use_motz_wise=spec['motz_wise'])
    kw['reactions'] = list(M.reactions) if (M.reactions or spec['reactions_arg'] == 'list') else None
    kw['lateral_interactions'] = list(M.interactions) if (M.interactions or spec['interactions_arg'] == 'list') \
        else None
    return kw


def _diagnose(spec, M, method, writer_exc):
    """which emitter raises on its own (same exception type as the writer)?  Emitters are tried in
    the writer's order with the ids the writer would have assigned; the first entity kind that has a
    failing member is the culprit.  -> list of (entity, class, extra)"""
    from pmutt import _force_pass_arguments
    from pmutt.omkm.units import Units
    u = Units(**spec['units'])
    restore = []
    for k, o in enumerate(M.interactions):
        if o.name is None:
            o.name = 'i_%04d' % k
            restore.append((o, 'name'))
    for k, o in enumerate(M.reactions):
        if o.id is None:
            o.id = 'r_%04d' % k
            restore.append((o, 'id'))
    groups = (('interaction', M.interactions), ('reaction', M.reactions), ('phase', M.phases),
              ('species', M.species_list), ('bep', M.beps))
    uniq = []
    try:
        for entity, objs in groups:
            seen = set()
            for o in objs:
                try:
                    _force_pass_arguments(getattr(o, method), units=u, T=spec['T'])
                except Exception as e:
                    if type(e).__name__ != writer_exc:
                        continue
                    extra = {}
                    if entity == 'reaction':
                        extra['is_adsorption'] = bool(o.is_adsorption)
                    if entity == 'bep':
                        extra['bep_named'] = o.name is not None
                    if entity == 'interaction':
                        extra['quantity'] = spec['units']['quantity']
                    if entity == 'phase' and any(b['name'] is None for b in spec['beps']):
                        extra['bep_named'] = False
                    k = (type(o).__name__, tuple(sorted(extra.items())))
                    if k not in seen:
                        seen.add(k)
                        uniq.append((entity, type(o).__name__, extra))
            if uniq:
                break
    finally:
        for o, attr in restore:
            setattr(o, attr, None)
    return uniq


def _fail_write(ctx, spec, M, fname, method, e):
    exc = type(e).__name__
    culprits = _diagnose(spec, M, method, exc)
    if not culprits:
        ctx.fail('Y1', {'file': fname, 'rule': 'Y1', 'entity': 'file', 'exc': exc},
                 message=str(e)[:400], where=core._tb_where(e))
    for entity, cls, extra in culprits:
        ctx.fail('Y1', dict({'file': fname, 'rule': 'Y1', 'entity': entity, 'class': cls, 'exc': exc}, **extra),
                 message=str(e)[:400], where=core._tb_where(e))


_COUNTER = [0]


def _do_cti(spec, M, ctx):
    from pmutt.io.omkm import write_cti
    from pmutt.io.ctml_writer import convert
    kw = _writer_kwargs(spec, M)
    xml_path = None
    rejected = None
    _COUNTER[0] += 1
    try:
        if spec['to_file']:
            ctx.cls('cti:to_file')
            path = os.path.join(ctx.tmpdir, 'm%d.cti' % _COUNTER[0])
            try:
                _quiet(write_cti, filename=path, write_xml=True, **kw)
                xml_path = path[:-4] + '.xml'
            except _Rejected as e:
                # the file itself was written before the converter refused it
                rejected = e
                xml_path = 'rejected'
            text = open(path).read()
        else:
            text, _ = _quiet(write_cti, **kw)
    except Exception as e:
        _fail_write(ctx, spec, M, 'cti', 'to_cti', e)
        return False
    if not ctx.check('Y1', isinstance(text, str) and text, {'file': 'cti', 'rule': 'Y1', 'entity': 'file',
                                                           'field': 'returned_text'}):
        return False
    cls_of = _species_class_by_name(spec)
    # ---- Y1a: valid sequence of directives
    try:
        doc = C.evaluate(text)
        ctx.held('Y1')
        ctx.cls('cti:parsed')
        whole_ok = True
        skip_names = set()
    except C.CTIInvalid as e:
        whole_ok = False
        doc, bad = C.evaluate_chunks(text)
        skip_names = set()
        if not bad:
            ctx.fail('Y1', {'file': 'cti', 'rule': 'Y1', 'entity': 'file', 'exc': e.kind}, message=str(e)[:300])
        for head, err in bad:
            d = head.split('(')[0]
            entity = {'species': 'species', 'surface_reaction': 'reaction', 'lateral_interaction': 'interaction',
                      'bep': 'bep', 'units': 'units'}.get(d, 'phase')
            m = {'file': 'cti', 'rule': 'Y1', 'entity': entity, 'exc': err.kind}
            if entity == 'species':
                nm = head.split('name="')[1].split('"')[0] if 'name="' in head else None
                m['class'] = cls_of.get(nm, '?')
                skip_names.add(nm)
            ctx.fail('Y1', m, directive=head, message=str(err)[:300])
    for kind, key, val in doc.problems:
        ctx.fail('Y1', {'file': 'cti', 'rule': 'Y1', 'entity': 'units', 'field': key}, value=val)
    # ---- Y1b: accepted by pMuTT's own CTI -> XML converter, same counts
    if whole_ok and rejected is not None:
        ctx.fail('Y1', {'file': 'cti', 'rule': 'Y1', 'entity': 'file', 'validator': 'ctml_writer',
                        'cause': _cause(str(rejected)), 'exc': 'SystemExit'}, message=str(rejected)[-500:])
    elif whole_ok:
        _ctml(spec, ctx, text, xml_path, convert)
    # ---- units directive states the requested system
    m = {'file': 'cti', 'rule': 'Y1', 'entity': 'units'}
    if ctx.check('Y1', len(doc.units) == 1, dict(m, field='count'), got=len(doc.units)):
        ctx.check('Y1', doc.units[0] == spec['units'], dict(m, field='value'), got=doc.units[0], want=spec['units'])
    _cti_species(spec, ctx, doc, skip_names)
    written_ids = _cti_reactions(spec, M, ctx, doc)
    int_ids = _cti_interactions(spec, ctx, doc)
    bep_ids = _cti_beps(spec, ctx, doc, written_ids)
    _cti_phases(spec, ctx, doc, written_ids, int_ids, bep_ids)
    _cti_line_lengths(spec, M, ctx, written_ids, int_ids, bep_ids)


def _phase_line_widths(ctx, text, L, cls):
    """What the writers guarantee about the width of a phase directive written with max_line_len=L
    (C18's clause observed at phase level): a line that carries two or more tokens of a wrapped value is
    at most L wide, except that the line closing a wrapped value (\"\"\" followed by the template's ',' or
    ')') may be L+1.  Range fields (reactions=, interactions=) are written unwrapped and are not covered;
    a line with a single token may be as long as that token."""
    import re
    in_range_field = False
    for line in text.split('\n'):
        body = line.strip()
        if re.match(r'^(reactions|interactions)=', body):
            in_range_field = not re.search(r'\][,)]$', body)
            continue
        if in_range_field:
            in_range_field = not re.search(r'\][,)]$', body)
            continue
        if len(line) <= L:
            ctx.held('YW')
            continue
        toks = re.sub(r'^\w+\(', '', body)
        toks = re.sub(r'^\w+=', '', toks).replace('"""', ' ')
        toks = re.sub(r'[,)]$', '', toks).split()
        closing = re.search(r'"""[,)]$', body) is not None
        if len(toks) <= 1:
            ctx.held('YW')
            continue
        if closing and len(line) == L + 1:
            ctx.held('YW')
            ctx.branch('width:closing_quotes_plus_template_char=L+1')
            continue
        ctx.fail('YW', {'file': 'cti', 'rule': 'Y1', 'entity': 'phase', 'class': cls, 'field': 'line_width',
                        'closing_line': closing, 'excess': min(len(line) - L, 3)}, line=line, L=L, width=len(line))


def _cti_line_lengths(spec, M, ctx, written_ids, int_ids, bep_ids):
    """the phase directives at other max_line_len values: still valid directives that say the same"""
    from pmutt import _force_pass_arguments
    from pmutt.omkm.units import Units
    for L in spec.get('line_lens') or []:
        ctx.cls('cti:max_line_len')
        extra = {'max_line_len': 'custom'}
        parts = []
        ok = True
        for p, ph in zip(spec['phases'], M.phases):
            m = {'file': 'cti', 'rule': 'Y1', 'entity': 'phase', 'class': p['type'], 'max_line_len': 'custom'}
            try:
                parts.append(_force_pass_arguments(ph.to_cti, units=Units(**spec['units']), max_line_len=L))
            except Exception as e:
                ctx.fail('Y1', dict(m, exc=type(e).__name__), message=str(e)[:300], L=L)
                ok = False
        if not ok:
            continue
        for p, text in zip(spec['phases'], parts):
            _phase_line_widths(ctx, text, L, p['type'])
        try:
            doc = C.evaluate('\n'.join(parts))
            ctx.held('Y1')
        except C.CTIInvalid as e:
            doc, bad = C.evaluate_chunks('\n'.join(parts))
            for head, err in bad:
                kind = head.split('(')[0]
                cls = {'ideal_gas': 'IdealGas', 'stoichiometric_solid': 'StoichSolid',
                       'interacting_interface': 'InteractingInterface'}.get(kind, kind)
                ctx.fail('Y1', {'file': 'cti', 'rule': 'Y1', 'entity': 'phase', 'class': cls, 'exc': err.kind,
                                'max_line_len': 'custom'}, directive=head, message=str(err)[:200], L=L)
            continue
        _cti_phases(spec, ctx, doc, written_ids, int_ids, bep_ids, extra=extra)


def _ctml(spec, ctx, text, xml_path, convert):
    import xml.etree.ElementTree as ET
    m = {'file': 'cti', 'rule': 'Y1', 'entity': 'file', 'validator': 'ctml_writer'}
    if xml_path is None:
        _COUNTER[0] += 1
        xml_path = os.path.join(ctx.tmpdir, 'x%d.xml' % _COUNTER[0])
        try:
            _quiet(convert, text=text, outName=xml_path)
        except _Rejected as e:
            ctx.fail('Y1', dict(m, cause=_cause(str(e)), exc='SystemExit'), message=str(e)[-500:])
            return
        except Exception as e:
            ctx.fail('Y1', dict(m, exc=type(e).__name__), message=str(e)[:300])
            return
    try:
        root = ET.parse(xml_path).getroot()
    except Exception as e:
        ctx.fail('Y1', dict(m, field='xml', exc=type(e).__name__), message=str(e)[:300])
        return
    finally:
        with contextlib.suppress(OSError):
            os.remove(xml_path)
    ctx.cls('cti:ctml_accepted')
    n = {'species': len(root.findall('./speciesData/species')),
         'reaction': len(root.findall('./reactionData/reaction')),
         'phase': len(root.findall('./phase')),
         'interaction': len(root.findall('./interactionData/interaction')),
         'bep': len(root.findall('./bepData/bep'))}
    want = {'species': len(spec['species']), 'reaction': len(spec['reactions']), 'phase': len(spec['phases']),
            'interaction': len(spec['interactions']), 'bep': len(spec['beps'])}
    for k in want:
        ctx.check('Y1', n[k] == want[k], dict(m, field='count', entity=k), got=n[k], want=want[k])
    # the converter's reading of ids and species names
    ids = [r.get('id') for r in root.findall('./reactionData/reaction')]
    ctx.check('Y1', len(set(ids)) == len(ids), dict(m, field='id', entity='reaction'), got=ids)
    names = sorted(s.get('name') for s in root.findall('./speciesData/species'))
    ctx.check('Y1', names == sorted(s['name'] for s in spec['species']), dict(m, field='name', entity='species'),
              got=names)


def _want_segments(s):
    """[(kind, Tlo, Thi, coeffs)] a species spec stands for."""
    if s['type'] == 'Nasa':
        return [('NASA', s['T_low'], s['T_mid'], s['a_low']), ('NASA', s['T_mid'], s['T_high'], s['a_high'])]
    if s['type'] == 'Nasa9':
        return [('NASA9', n['T_low'], n['T_high'], n['a']) for n in sorted(s['nasas'], key=lambda n: n['T_low'])]
    return [('Shomate', s['T_low'], s['T_high'], s['a'][:7])]


def _cti_species(spec, ctx, doc, skip_names=()):
    base = {'file': 'cti', 'rule': 'Y2', 'entity': 'species'}
    names = [s['name'] for s in doc.species]
    want_names = [s['name'] for s in spec['species'] if s['name'] not in skip_names]
    ctx.check('Y2', sorted(names) == sorted(want_names), dict(base, field='each_once'),
              got=names[:50], want=want_names[:50])
    first = {}
    for s in doc.species:
        first.setdefault(s['name'], s)
    for s in spec['species']:
        m = dict(base, **{'class': s['type']})
        w = first.get(s['name'])
        if w is None:
            continue                                  # reported by each_once (or by Y1 for its directive)
        ctx.check('Y2', w['atoms'] == {k: float(v) for k, v in s['elements'].items()}, dict(m, field='composition'),
                  got=w['atoms'], want=s['elements'])
        if s['n_sites'] is None:
            ctx.check('Y2', (not w['size_given']) or w['size'] == 1, dict(m, field='sites'), got=w['size'], want=None)
        else:
            ctx.check('Y2', w['size_given'] and w['size'] == s['n_sites'], dict(m, field='sites'),
                      got=w['size'], want=s['n_sites'])
        segs = _want_segments(s)
        if not ctx.check('Y2', len(w['thermo']) == len(segs), dict(m, field='T_ranges', what='count'),
                         got=len(w['thermo']), want=len(segs)):
            continue
        got_sorted = sorted(w['thermo'], key=lambda t: t.Trange[0])
        for t, (kind, lo, hi, a) in zip(got_sorted, segs):
            ctx.check('Y2', t.kind == kind, dict(m, field='thermo_directive'), got=t.kind, want=kind)
            ctx.check('Y2', t.Trange == [lo, hi], dict(m, field='T_ranges'), got=t.Trange, want=[lo, hi])
            if ctx.check('Y2', len(t.coeffs) == len(a), dict(m, field='coefficients', what='count'),
                         got=len(t.coeffs), want=len(a)):
                for k, (g, x) in enumerate(zip(t.coeffs, a)):
                    _rel(ctx, 'Y2', g, x, TOL_CTI9, dict(m, field='coefficients'), index=k, name=s['name'])


def _cti_reactions(spec, M, ctx, doc):
    """-> list of written ids (by reaction index) or None when the reactions cannot be matched."""
    base = {'file': 'cti', 'rule': 'Y3', 'entity': 'reaction'}
    n = len(spec['reactions'])
    if not ctx.check('Y3', len(doc.reactions) == n, dict(base, field='each_once'), got=len(doc.reactions), want=n):
        return None
    if n == 0:
        return []
    ids = [r['id'] for r in doc.reactions]
    ctx.check('Y3', len(set(ids)) == n and all(ids), dict(base, field='id', what='unique'), got=ids[:60])
    ctx.check('Y3', doc.motz_wise == [spec['motz_wise']], dict(base, field='motz_wise'), got=doc.motz_wise,
              want=spec['motz_wise'])
    nonsec = spec['units']['time'] != 's'
    for i, (rx, w) in enumerate(zip(spec['reactions'], doc.reactions)):
        ts = rx['ts']
        m = dict(base, is_adsorption=rx['is_adsorption'],
                 ts='none' if ts is None else ('bep' if 'bep' in ts else 'species'))
        want_r, want_p = {}, {}
        for nme, st in rx['reactants']:
            want_r[nme] = want_r.get(nme, 0.0) + st
        for nme, st in rx['products']:
            want_p[nme] = want_p.get(nme, 0.0) + st
        ctx.check('Y3', w['reactants'] == want_r and w['products'] == want_p and w['reversible'],
                  dict(m, field='equation'), got=w['equation'], want=[want_r, want_p])
        ctx.check('Y3', w['kind'] == 'surface_reaction', dict(m, field='directive'), got=w['kind'])
        if rx['id'] is not None:
            ctx.check('Y3', w['id'] == rx['id'], dict(m, field='id', what='user_id_kept'), got=w['id'], want=rx['id'])
            ctx.cls('ids:user')
            if spec.get('ids_mode') == 'blocks':
                ctx.cls('ids:blocks')
        else:
            ctx.cls('ids:auto')
        try:
            kind, A, b, Ea, sc = _expected_rate(spec, i, M, spec['T'])
        except Exception as e:
            ctx.inconc('Y3', 'reference rate failed: ' + type(e).__name__, message=str(e)[:200])
            continue
        rate = w['rate']
        ctx.check('Y3', rate.kind == kind, dict(m, field='rate_kind'), got=rate.kind, want=kind)
        src = 'given' if (rx['A'] is not None or rx['is_adsorption']) else 'computed'
        mA = dict(base, is_adsorption=rx['is_adsorption'], field='A', source=src)
        if src == 'computed' and nonsec:
            mA['time_unit'] = 'not_s'
        _rel(ctx, 'Y3', rate.A, A, TOL_CTI_RATE if src == 'computed' else 1e-5, mA, eq=w['equation'])
        _rel(ctx, 'Y3', rate.b, b, TOL_EXACT, dict(base, is_adsorption=rx['is_adsorption'], field='b'))
        _rel(ctx, 'Y3', rate.E, Ea, TOL_CTI_RATE, dict(m, field='Ea', source='given' if rx['Ea'] is not None
                                                      else 'computed'), scale=sc, eq=w['equation'])
    return ids


def _cti_interactions(spec, ctx, doc):
    base = {'file': 'cti', 'rule': 'Y5', 'entity': 'interaction'}
    n = len(spec['interactions'])
    if not ctx.check('Y5', len(doc.interactions) == n, dict(base, field='each_once'), got=len(doc.interactions),
                     want=n):
        return None
    if n:
        ctx.cls('interactions:some')
    u = spec['units']
    ids = [w['id'] for w in doc.interactions]
    if n:
        ctx.check('Y5', len(set(ids)) == n and all(ids) and 'None' not in ids, dict(base, field='id', what='unique'),
                  got=ids)
    for it, w in zip(spec['interactions'], doc.interactions):
        ctx.check('Y5', w['species'] == [it['name_i'], it['name_j']], dict(base, field='members'),
                  got=w['species'], want=[it['name_i'], it['name_j']])
        ctx.check('Y5', w['coverage_thresholds'] == it['intervals'], dict(base, field='coverage_thresholds'),
                  got=w['coverage_thresholds'], want=it['intervals'])
        if ctx.check('Y5', len(w['strengths']) == len(it['slopes']), dict(base, field='strengths', what='count')):
            for g, s in zip(w['strengths'], it['slopes']):
                _rel(ctx, 'Y5', g, C.interaction_strength(s, u['energy'], u['quantity']), TOL_CONV,
                     dict(base, field='strengths'))
        if it['name'] is not None:
            ctx.check('Y5', w['id'] == it['name'], dict(base, field='id', what='user_id_kept'), got=w['id'])
    return ids


def _cti_beps(spec, ctx, doc, written_ids):
    base = {'file': 'cti', 'rule': 'Y5', 'entity': 'bep'}
    if spec.get('bep_twins'):
        base.update(bep_twins=spec['bep_twins'], first_writer=_P.get('first_writer', spec['first']))
    n = len(spec['beps'])
    if not ctx.check('Y5', len(doc.beps) == n, dict(base, field='each_once'), got=len(doc.beps), want=n):
        return None
    u = spec['units']
    order = _bep_order(spec)
    ids_written = [w['id'] for w in doc.beps]
    ids = [None] * n
    for b, w in zip(order, doc.beps):
        ids[b] = w['id']
    for b, w in zip(order, doc.beps):
        bp = spec['beps'][b]
        m = dict(base, bep_named=bp['name'] is not None)
        if bp['name'] is not None:
            ctx.check('Y5', w['id'] == bp['name'], dict(m, field='id'), got=w['id'], want=bp['name'])
        else:
            ctx.check('Y5', w['id'] not in ('', 'None') and ids_written.count(w['id']) == 1, dict(m, field='id'),
                      got=w['id'])
        _rel(ctx, 'Y5', w['slope'], bp['slope'], TOL_EXACT, dict(m, field='slope'))
        _rel(ctx, 'Y5', w['intercept'], C.act_energy(bp['intercept'], u['act_energy']), TOL_CONV,
             dict(m, field='intercept'))
        ctx.check('Y5', w['direction'] == bp['direction'], dict(m, field='direction'), got=w['direction'])
        if written_ids is None:
            continue
        known = set(written_ids)
        for d in ('cleavage', 'synthesis'):
            mm = dict(m, field='members', direction=d)
            try:
                got = sorted(C.expand_ids(w[d + '_reactions'], known))
            except C.CTIInvalid as e:
                ctx.fail('Y5', dict(mm, exc='CTIInvalid'), message=str(e)[:200])
                continue
            want = _bep_members(spec, b, d, written_ids)
            ctx.check('Y5', got == want, mm, got=got, want=want, written=w[d + '_reactions'])
    return ids


def _cti_phases(spec, ctx, doc, written_ids, int_ids, bep_ids, extra=None):
    base = dict({'file': 'cti', 'rule': 'Y4', 'entity': 'phase'}, **(extra or {}))
    names = [p['name'] for p in doc.phases]
    want_names = [p['name'] for p in spec['phases']]
    ctx.cls('phases:%d' % len(spec['phases']))
    if not ctx.check('Y4', sorted(names) == sorted(want_names), dict(base, field='each_once'), got=names,
                     want=want_names):
        return
    u = spec['units']
    byname = {p['name']: p for p in doc.phases}
    kind_of = {'IdealGas': 'ideal_gas', 'StoichSolid': 'stoichiometric_solid',
               'InteractingInterface': 'interacting_interface'}
    for p in spec['phases']:
        w = byname[p['name']]
        m = dict(base, **{'class': p['type']})
        ex = _phase_expect(spec, p, written_ids, int_ids, bep_ids)
        ctx.check('Y4', w['kind'] == kind_of[p['type']], dict(m, field='directive'), got=w['kind'])
        ctx.check('Y4', sorted(w['species']) == sorted(p['species']), dict(m, field='species'),
                  got=w['species'][:50], want=p['species'][:50])
        ctx.check('Y4', set(w['elements']) == ex['elements'] and len(w['elements']) == len(ex['elements']),
                  dict(m, field='elements'), got=w['elements'], want=sorted(ex['elements']))
        if p.get('note') is not None:
            ctx.check('Y4', isinstance(w.get('note'), str) and w['note'].split() == p['note'].split(),
                      dict(m, field='note'), got=w.get('note'), want=p['note'])
            if isinstance(w.get('note'), str) and '\n' in w['note']:
                ctx.cls('cti:wrapped_note')
        if p['type'] == 'StoichSolid':
            if ctx.check('Y4', 'density' in w, dict(m, field='density', what='missing')):
                _rel(ctx, 'Y4', w['density'], C.mass_density(p['density'], u['mass'], u['length']), TOL_CONV,
                     dict(m, field='density'))
        if p['type'] == 'InteractingInterface':
            if ctx.check('Y4', 'site_density' in w, dict(m, field='site_density', what='missing')):
                _rel(ctx, 'Y4', w['site_density'], C.site_density(p['site_density'], u['quantity'], u['length']),
                     TOL_CONV, dict(m, field='site_density'))
            ctx.check('Y4', w.get('phases', []) == p['phases'], dict(m, field='phases'), got=w.get('phases'),
                      want=p['phases'])
        for fld, known in (('reactions', written_ids), ('interactions', int_ids)):
            if ex[fld] is None or known is None:
                continue
            if p['type'] != 'InteractingInterface' and fld == 'interactions':
                continue
            try:
                got = sorted(C.expand_ids([e for e in w.get(fld, []) if e not in ('none',)], set(known)))
            except C.CTIInvalid as e:
                ctx.fail('Y4', dict(m, field=fld, exc='CTIInvalid'), message=str(e)[:200])
                continue
            want = ex[fld] if p['type'] == 'InteractingInterface' else []
            if len(w.get(fld, [])) >= 4:
                ctx.cls('cti:long_range_list')
            ctx.check('Y4', got == want, dict(m, field=fld), got=got, want=want, written=w.get(fld))
        if p['type'] == 'InteractingInterface' and ex['beps'] is not None:
            mb = dict(m, field='beps')
            if spec.get('bep_twins'):
                mb.update(bep_twins=spec['bep_twins'], first_writer=_P.get('first_writer', spec['first']))
            ctx.check('Y4', sorted(w.get('beps', [])) == ex['beps'], mb, got=w.get('beps'), want=ex['beps'])


# ====================================================================== YAML loading
class _Tagged:
    """node carrying a python/* tag that yaml.safe_load refuses."""

    def __init__(self, tag, value):
        self.tag, self.value = tag, value

    def __repr__(self):
        return '<%s %r>' % (self.tag, self.value)


def _tolerant_loader():
    import yaml

    class L(yaml.SafeLoader):
        pass

    def multi(loader, suffix, node):
        if isinstance(node, yaml.ScalarNode):
            v = loader.construct_scalar(node)
        elif isinstance(node, yaml.SequenceNode):
            v = loader.construct_sequence(node, deep=True)
        else:
            v = loader.construct_mapping(node, deep=True)
        return _Tagged('python/' + suffix.split(':')[0], v)
    L.add_multi_constructor('tag:yaml.org,2002:python/', multi)
    return L


def _load_yaml(text):
    """-> (doc, safe_ok, error name)"""
    import yaml
    try:
        return yaml.safe_load(text), True, None
    except yaml.YAMLError as e:
        err = type(e).__name__
    try:
        return yaml.load(text, Loader=_tolerant_loader()), False, err
    except yaml.YAMLError as e:
        return None, False, type(e).__name__


def _tagged_paths(node, path=()):
    if isinstance(node, _Tagged):
        yield path, node
    elif isinstance(node, dict):
        for k, v in node.items():
            yield from _tagged_paths(v, path + (str(k),))
    elif isinstance(node, list):
        for i, v in enumerate(node):
            yield from _tagged_paths(v, path + (i,))


def _name_class(name):
    return 'yaml_bool' if str(name).lower() in ('yes', 'no', 'on', 'off', 'true', 'false', 'null', '~') else 'plain'


# ====================================================================== model: thermo YAML file
def _do_yaml(spec, M, ctx):
    from pmutt.io.omkm import write_thermo_yaml
    kw = _writer_kwargs(spec, M)
    _COUNTER[0] += 1
    try:
        if spec['to_file']:
            path = os.path.join(ctx.tmpdir, 'm%d.yaml' % _COUNTER[0])
            _quiet(write_thermo_yaml, filename=path, **kw)
            text = open(path).read()
        else:
            text, _ = _quiet(write_thermo_yaml, **kw)
    except Exception as e:
        _fail_write(ctx, spec, M, 'thermo_yaml', 'to_omkm_yaml', e)
        return False
    doc, safe_ok, err = _load_yaml(text)
    base = {'file': 'thermo_yaml', 'rule': 'Y1'}
    if doc is None or not isinstance(doc, dict):
        ctx.fail('Y1', dict(base, entity='file', exc=err or 'not_a_mapping'), head=text[:300])
        return
    cls_of = _species_class_by_name(spec)
    if safe_ok:
        ctx.held('Y1')
    else:
        found = False
        for path, node in _tagged_paths(doc):
            found = True
            entity = {'species': 'species', 'reactions': 'reaction', 'phases': 'phase', 'beps': 'bep',
                      'interactions': 'interaction'}.get(path[0], 'file')
            m = dict(base, entity=entity, field=str(path[-1]), exc=err, tag=node.tag)
            if entity == 'species':
                try:
                    m['class'] = cls_of.get(doc['species'][path[1]].get('name'), '?')
                except Exception:
                    pass
            ctx.fail('Y1', m, path=list(path), value=repr(node.value)[:80])
        if not found:
            ctx.fail('Y1', dict(base, entity='file', exc=err), head=text[:300])
    ctx.cls('yaml:parsed')
    want_sections = {'units', 'phases', 'species'}
    if kw['reactions'] is not None:
        want_sections.add('reactions')
    if spec['beps']:
        want_sections.add('beps')
    if kw['lateral_interactions'] is not None:
        want_sections.add('interactions')
    ctx.check('Y1', set(doc) == want_sections, dict(base, entity='file', field='sections'), got=sorted(doc),
              want=sorted(want_sections))
    u = spec['units']
    want_u = {'mass': u['mass'], 'length': u['length'], 'time': u['time'], 'quantity': u['quantity'],
              'energy': u['energy'], 'activation-energy': u['act_energy'], 'pressure': u['pressure']}
    ctx.check('Y1', doc.get('units') == want_u, dict(base, entity='units', field='value'), got=doc.get('units'),
              want=want_u)
    _yaml_species(spec, ctx, doc.get('species') or [])
    written_ids = _yaml_reactions(spec, M, ctx, doc.get('reactions') or [])
    _yaml_interactions(spec, ctx, doc.get('interactions') or [])
    _yaml_beps(spec, ctx, doc.get('beps') or [], written_ids)
    _yaml_phases(spec, ctx, doc.get('phases') or [])


def _yaml_species(spec, ctx, ys):
    base = {'file': 'thermo_yaml', 'rule': 'Y2', 'entity': 'species'}
    n = len(spec['species'])
    if not ctx.check('Y2', isinstance(ys, list) and len(ys) == n, dict(base, field='each_once'),
                     got=len(ys) if isinstance(ys, list) else repr(ys)[:60], want=n):
        return
    model_name = {'Nasa': 'NASA7', 'Nasa9': 'NASA9', 'Shomate': 'Shomate'}
    for s, w in zip(spec['species'], ys):
        m = dict(base, **{'class': s['type']})
        if not isinstance(w, dict):
            ctx.fail('Y2', dict(m, field='entry'))
            continue
        ctx.check('Y2', w.get('name') == s['name'], dict(m, field='name', name_class=_name_class(s['name'])),
                  got=w.get('name'), want=s['name'])
        ctx.check('Y2', w.get('composition') == s['elements'], dict(m, field='composition'),
                  got=w.get('composition'), want=s['elements'])
        if s['n_sites'] is None:
            ctx.check('Y2', 'sites' not in w or w['sites'] == 1, dict(m, field='sites'), got=w.get('sites'))
        else:
            g = w.get('sites')
            ctx.check('Y2', not isinstance(g, (_Tagged, list, bool)) and g == s['n_sites'], dict(m, field='sites'),
                      got=repr(g), want=s['n_sites'])
        th = w.get('thermo')
        if not ctx.check('Y2', isinstance(th, dict), dict(m, field='thermo')):
            continue
        ctx.check('Y2', th.get('model') == model_name[s['type']], dict(m, field='thermo_model'), got=th.get('model'))
        segs = _want_segments(s)
        want_T = [segs[0][1]] + [sg[2] for sg in segs]
        ctx.check('Y2', th.get('temperature-ranges') == want_T, dict(m, field='T_ranges'),
                  got=th.get('temperature-ranges'), want=want_T)
        data = th.get('data')
        if not ctx.check('Y2', isinstance(data, list) and len(data) == len(segs),
                         dict(m, field='coefficients', what='segments'), got=repr(data)[:80]):
            continue
        for row, sg in zip(data, segs):
            if ctx.check('Y2', isinstance(row, list) and len(row) == len(sg[3]),
                         dict(m, field='coefficients', what='count'), got=repr(row)[:80], want=len(sg[3])):
                for k, (g, x) in enumerate(zip(row, sg[3])):
                    _rel(ctx, 'Y2', g, x, TOL_EXACT, dict(m, field='coefficients'), index=k, name=s['name'])


def _yaml_reactions(spec, M, ctx, yr):
    base = {'file': 'thermo_yaml', 'rule': 'Y3', 'entity': 'reaction'}
    n = len(spec['reactions'])
    if not ctx.check('Y3', isinstance(yr, list) and len(yr) == n, dict(base, field='each_once'),
                     got=len(yr) if isinstance(yr, list) else repr(yr)[:60], want=n):
        return None
    if n == 0:
        return []
    ids = [r.get('id') if isinstance(r, dict) else None for r in yr]
    ctx.check('Y3', len(set(map(str, ids))) == n and all(i not in (None, '', 'None') for i in ids),
              dict(base, field='id', what='unique'), got=ids[:60])
    u = spec['units']
    gas = set()
    for p in spec['phases']:
        if p['type'] == 'IdealGas':
            gas |= set(p['species'])
    nonsec = u['time'] != 's'
    for i, (rx, w) in enumerate(zip(spec['reactions'], yr)):
        ts = rx['ts']
        m = dict(base, is_adsorption=rx['is_adsorption'],
                 ts='none' if ts is None else ('bep' if 'bep' in ts else 'species'))
        if not isinstance(w, dict):
            ctx.fail('Y3', dict(m, field='entry'))
            continue
        want_r, want_p = {}, {}
        for nme, st in rx['reactants']:
            want_r[nme] = want_r.get(nme, 0.0) + st
        for nme, st in rx['products']:
            want_p[nme] = want_p.get(nme, 0.0) + st
        try:
            r_, p_, rev = C.parse_equation(w.get('equation'))
            ctx.check('Y3', r_ == want_r and p_ == want_p and rev, dict(m, field='equation'),
                      got=w.get('equation'), want=[want_r, want_p])
        except C.CTIInvalid as e:
            ctx.fail('Y3', dict(m, field='equation', exc='unparsable'), got=repr(w.get('equation'))[:100])
        if rx['id'] is not None:
            ctx.check('Y3', w.get('id') == rx['id'], dict(m, field='id', what='user_id_kept'), got=w.get('id'))
        try:
            kind, A, b, Ea, sc = _expected_rate(spec, i, M, spec['T'])
        except Exception as e:
            ctx.inconc('Y3', 'reference rate failed: ' + type(e).__name__, message=str(e)[:200])
            continue
        key = 'sticking-coefficient' if rx['is_adsorption'] else 'rate-constant'
        other = 'rate-constant' if rx['is_adsorption'] else 'sticking-coefficient'
        rc = w.get(key)
        if not ctx.check('Y3', isinstance(rc, dict) and other not in w, dict(m, field='rate_kind'), got=sorted(w)):
            continue
        if rx['is_adsorption']:
            gs = [nme for nme, _ in rx['reactants'] if nme in gas]
            ctx.check('Y3', w.get('sticking-species') == gs[0],
                      dict(base, is_adsorption=True, field='sticking-species', name_class=_name_class(gs[0])),
                      got=w.get('sticking-species'), want=gs[0])
            ctx.check('Y3', w.get('Motz-Wise') is spec['motz_wise'], dict(m, field='motz_wise'),
                      got=repr(w.get('Motz-Wise')), want=spec['motz_wise'])
        src = 'given' if (rx['A'] is not None or rx['is_adsorption']) else 'computed'
        mA = dict(base, is_adsorption=rx['is_adsorption'], field='A', source=src)
        if src == 'computed' and nonsec:
            mA['time_unit'] = 'not_s'
        _rel(ctx, 'Y3', rc.get('A'), A, TOL_CONV if src == 'computed' else TOL_EXACT, mA, eq=w.get('equation'))
        _rel(ctx, 'Y3', rc.get('b'), b, TOL_EXACT, dict(base, is_adsorption=rx['is_adsorption'], field='b'))
        mE = dict(m, field='Ea', source='given' if rx['Ea'] is not None else 'computed')
        sp = _split_unit(rc.get('Ea'))
        if ctx.check('Y3', sp is not None, dict(mE, what='value_with_unit'), got=repr(rc.get('Ea'))[:60]):
            ctx.check('Y3', sp[1] == u['act_energy'], dict(mE, what='unit'), got=sp[1], want=u['act_energy'])
            _rel(ctx, 'Y3', sp[0], Ea, TOL_CONV, mE, scale=sc, eq=w.get('equation'))
    return ids


def _yaml_interactions(spec, ctx, yi):
    base = {'file': 'thermo_yaml', 'rule': 'Y5', 'entity': 'interaction'}
    n = len(spec['interactions'])
    if not ctx.check('Y5', isinstance(yi, list) and len(yi) == n, dict(base, field='each_once'),
                     got=len(yi) if isinstance(yi, list) else repr(yi)[:60], want=n):
        return
    u = spec['units']
    ids = [w.get('id') if isinstance(w, dict) else None for w in yi]
    if n:
        ctx.check('Y5', len(set(map(str, ids))) == n and all(i not in (None, '', 'None') for i in ids),
                  dict(base, field='id', what='unique'), got=ids)
    want_unit = '%s/%s' % (u['energy'], u['quantity'])
    kcal_mol = (u['energy'], u['quantity']) == ('kcal', 'mol')
    for it, w in zip(spec['interactions'], yi):
        if not isinstance(w, dict):
            ctx.fail('Y5', dict(base, field='entry'))
            continue
        ctx.check('Y5', w.get('species') == [it['name_i'], it['name_j']], dict(base, field='members'),
                  got=w.get('species'), want=[it['name_i'], it['name_j']])
        ctx.check('Y5', w.get('coverage-threshold') == it['intervals'], dict(base, field='coverage_thresholds'),
                  got=w.get('coverage-threshold'), want=it['intervals'])
        st = w.get('strength')
        if ctx.check('Y5', isinstance(st, list) and len(st) == len(it['slopes']),
                     dict(base, field='strengths', what='count'), got=repr(st)[:80]):
            for g, s in zip(st, it['slopes']):
                sp = _split_unit(g)
                if not ctx.check('Y5', sp is not None, dict(base, field='strengths', what='value_with_unit'),
                                 got=repr(g)[:60]):
                    continue
                ctx.check('Y5', sp[1] == want_unit, dict(base, field='strengths', what='unit'), got=sp[1],
                          want=want_unit)
                _rel(ctx, 'Y5', sp[0], C.interaction_strength(s, u['energy'], u['quantity']), TOL_CONV,
                     dict(base, field='strengths', what='value', unit_is_kcal_per_mol=kcal_mol), slope_kcal_mol=s)
        if it['name'] is not None:
            ctx.check('Y5', w.get('id') == it['name'], dict(base, field='id', what='user_id_kept'), got=w.get('id'))


def _yaml_beps(spec, ctx, yb, written_ids):
    base = {'file': 'thermo_yaml', 'rule': 'Y5', 'entity': 'bep'}
    if spec.get('bep_twins'):
        base.update(bep_twins=spec['bep_twins'], first_writer=_P.get('first_writer', spec['first']))
    n = len(spec['beps'])
    if not ctx.check('Y5', isinstance(yb, list) and len(yb) == n, dict(base, field='each_once'),
                     got=len(yb) if isinstance(yb, list) else repr(yb)[:60], want=n):
        return
    if n:
        ctx.cls('ts:bep')
    u = spec['units']
    ids = [w.get('id') if isinstance(w, dict) else None for w in yb]
    order = _bep_order(spec)
    for b, w in zip(order, yb):
        bp = spec['beps'][b]
        m = dict(base, bep_named=bp['name'] is not None)
        if not isinstance(w, dict):
            ctx.fail('Y5', dict(m, field='entry'))
            continue
        if bp['name'] is not None:
            ctx.check('Y5', w.get('id') == bp['name'], dict(m, field='id'), got=w.get('id'), want=bp['name'])
        else:
            ctx.check('Y5', w.get('id') not in (None, '', 'None') and ids.count(w.get('id')) == 1, dict(m, field='id'),
                      got=w.get('id'))
        _rel(ctx, 'Y5', w.get('slope'), bp['slope'], TOL_EXACT, dict(m, field='slope'))
        sp = _split_unit(w.get('intercept'))
        if ctx.check('Y5', sp is not None, dict(m, field='intercept', what='value_with_unit'),
                     got=repr(w.get('intercept'))[:60]):
            ctx.check('Y5', sp[1] == u['act_energy'], dict(m, field='intercept', what='unit'), got=sp[1])
            _rel(ctx, 'Y5', sp[0], C.act_energy(bp['intercept'], u['act_energy']), TOL_CONV,
                 dict(m, field='intercept'))
        ctx.check('Y5', w.get('direction') == bp['direction'], dict(m, field='direction'), got=w.get('direction'))
        if written_ids is None:
            continue
        known = set(map(str, written_ids))
        for d in ('cleavage', 'synthesis'):
            mm = dict(m, field='members', direction=d)
            raw = w.get(d + '-reactions', [])
            try:
                got = sorted(C.expand_ids([str(x).strip('"') for x in raw], known))
            except (C.CTIInvalid, TypeError) as e:
                ctx.fail('Y5', dict(mm, exc='unparsable'), got=repr(raw)[:100])
                continue
            want = sorted(map(str, _bep_members(spec, b, d, written_ids)))
            ctx.check('Y5', got == want, mm, got=got, want=want, written=raw)


def _yaml_phases(spec, ctx, yp):
    base = {'file': 'thermo_yaml', 'rule': 'Y4', 'entity': 'phase'}
    n = len(spec['phases'])
    if not ctx.check('Y4', isinstance(yp, list) and len(yp) == n, dict(base, field='each_once'),
                     got=len(yp) if isinstance(yp, list) else repr(yp)[:60], want=n):
        return
    u = spec['units']
    yaml_bool_names = any(_name_class(s['name']) != 'plain' for s in spec['species'])
    for p, w in zip(spec['phases'], yp):
        m = dict(base, **{'class': p['type']})
        if not isinstance(w, dict):
            ctx.fail('Y4', dict(m, field='entry'))
            continue
        ex = _phase_expect(spec, p, None, None, None)
        ctx.check('Y4', w.get('name') == p['name'], dict(m, field='name'), got=w.get('name'), want=p['name'])
        ws = w.get('species')
        ok = isinstance(ws, list) and sorted(map(str, ws)) == sorted(p['species'])
        mm = dict(m, field='species')
        if yaml_bool_names and p['type'] == 'IdealGas':
            mm['name_class'] = 'yaml_bool'
        ctx.check('Y4', ok, mm, got=repr(ws)[:200], want=p['species'][:50])
        we = w.get('elements')
        ctx.check('Y4', isinstance(we, list) and set(we) == ex['elements'] and len(we) == len(ex['elements']),
                  dict(m, field='elements'), got=repr(we)[:100], want=sorted(ex['elements']))
        if p['type'] == 'InteractingInterface':
            sp = _split_unit(w.get('site-density'))
            if ctx.check('Y4', sp is not None, dict(m, field='site_density', what='value_with_unit'),
                         got=repr(w.get('site-density'))[:60]):
                wu = '%s/%s^2' % (u['quantity'], u['length'])
                ctx.check('Y4', sp[1] == wu, dict(m, field='site_density', what='unit'), got=sp[1], want=wu)
                _rel(ctx, 'Y4', sp[0], C.site_density(p['site_density'], u['quantity'], u['length']), TOL_CONV,
                     dict(m, field='site_density'))
            has_rx = any(r['phase'] == p['name'] for r in spec['reactions'])
            has_int = any(r['phase'] == p['name'] for r in spec['interactions'])
            ctx.check('Y4', (w.get('reactions') != 'none') == has_rx, dict(m, field='reactions_flag'),
                      got=w.get('reactions'), want=has_rx)
            ctx.check('Y4', (w.get('interactions') != 'none') == has_int, dict(m, field='interactions_flag'),
                      got=w.get('interactions'), want=has_int)
            ctx.check('Y4', (w.get('beps') != 'none') == (ex['n_beps'] > 0), dict(m, field='beps_flag'),
                      got=w.get('beps'), want=ex['n_beps'])


# ====================================================================== reactor YAML
def _flatten(node, path=''):
    """leaf paths of nested mappings (lists and tagged nodes are leaves)."""
    out = {}
    if isinstance(node, dict):
        for k, v in node.items():
            p = '%s.%s' % (path, k) if path else str(k)
            if isinstance(v, dict):
                out.update(_flatten(v, p))
            else:
                out[p] = v
    return out


def _reactor_phase_objects():
    pool = _pool_species(6)
    IG, SS, II = G.phase_class('IdealGas'), G.phase_class('StoichSolid'), G.phase_class('InteractingInterface')
    gas = IG(name='gas', species=[pool[0], pool[1]], initial_state={'sp0': 0.75, 'sp1': 0.25})
    bulk = SS(name='bulk', species=[pool[3]], density=21.4)
    t = II(name='terrace', species=[pool[2], pool[4]], site_density=2e-9, phases=[gas, bulk],
           initial_state={'sp2': 1.0})
    s = II(name='step', species=[pool[5]], site_density=1e-9, phases=[gas, bulk], initial_state={'sp5': 1.0})
    want = {'gas': [{'name': 'gas', 'initial_state': {'sp0': 0.75, 'sp1': 0.25}}],
            'bulk': [{'name': 'bulk', 'initial_state': None}],
            'surfaces': [{'name': 'terrace', 'initial_state': {'sp2': 1.0}},
                         {'name': 'step', 'initial_state': {'sp5': 1.0}}]}
    return [gas, bulk, t, s], want


def _parse_state(s):
    out = {}
    for tok in str(s).strip().strip('"').split(','):
        k, _, v = tok.strip().rpartition(':')
        out[k] = float(v)
    return out


def _unit_string(template, u):
    return template.format(**u)


def _opt_mech(o, d, units_given, **kw):
    return dict({'file': 'reactor_yaml', 'rule': 'Y6', 'entity': 'option', 'field': o, 'value_type': d['t'],
                 'units_given': units_given,
                 'unit_bearing': G.REACTOR_OPTIONS[o][1] is not None}, **kw)


def _value_ok(ctx, o, d, leaf, u, units_given):
    """one supplied option against the leaf the file holds."""
    path, template, fam, _ = G.REACTOR_OPTIONS[o]
    t, v = d['t'], d['v']
    m = _opt_mech(o, d, units_given)

    def one(leaf, v, t):
        if isinstance(leaf, _Tagged):
            return ctx.fail('Y6', dict(m, what='python_tag'), tag=leaf.tag)
        if t == 'bool':
            return ctx.check('Y6', leaf is v, dict(m, what='value'), got=repr(leaf), want=v)
        if t in ('str', 'strlist_units', 'strlist') and not (t == 'str' and False):
            if t == 'str' and template is None:
                return ctx.check('Y6', leaf == v, dict(m, what='value'), got=repr(leaf), want=v)
            if t == 'strlist':
                return ctx.check('Y6', leaf == v, dict(m, what='value'), got=repr(leaf), want=v)
            # string with units: verbatim
            return ctx.check('Y6', leaf == v, dict(m, what='value'), got=repr(leaf), want=v)
        num = float(v)
        if template is None:
            return ctx.check('Y6', isinstance(leaf, (int, float)) and not isinstance(leaf, bool) and float(leaf) == num,
                             dict(m, what='value'), got=repr(leaf), want=num)
        sp = _split_unit(leaf)
        if units_given:
            if not ctx.check('Y6', sp is not None, dict(m, what='value_with_unit'), got=repr(leaf), want=num):
                return False
            ok = ctx.check('Y6', sp[0] == num, dict(m, what='value'), got=sp[0], want=num)
            return ctx.check('Y6', sp[1] == _unit_string(template, u), dict(m, what='unit'), got=sp[1],
                             want=_unit_string(template, u)) and ok
        # no unit system given: SI is implied -> bare number (or number + SI unit)
        if sp is not None:
            si = _unit_string(template, {'length': 'm', 'time': 's', 'mass': 'kg', 'pressure': 'Pa'})
            return ctx.check('Y6', sp[0] == num and sp[1] == si, dict(m, what='value'), got=repr(leaf), want=num)
        return ctx.check('Y6', isinstance(leaf, (int, float)) and not isinstance(leaf, bool) and float(leaf) == num,
                         dict(m, what='value'), got=repr(leaf), want=num)

    if t == 'mixlist':
        if not ctx.check('Y6', isinstance(leaf, list) and len(leaf) == len(v), dict(m, what='list_length'),
                         got=repr(leaf)[:100], want=len(v)):
            return
        for k, (lf, e) in enumerate(zip(leaf, v)):
            m['element_type'] = e['t']
            if e['t'].startswith('obj:') or (e['t'] == 'str' and template is None):
                ctx.check('Y6', lf == e['v'], dict(m, what='value'), got=repr(lf), want=e['v'], index=k)
            else:
                one(lf, e['v'], 'strlist_units' if e['t'] == 'str' else e['t'])
        m.pop('element_type', None)
        return
    if t.startswith('list:') or t in ('strlist_units',):
        et = t[5:] if t.startswith('list:') else 'str'
        if not ctx.check('Y6', isinstance(leaf, list) and len(leaf) == len(v), dict(m, what='list_length'),
                         got=repr(leaf)[:100], want=len(v)):
            return
        for lf, x in zip(leaf, v):
            one(lf, x, et if et != 'str' else 'strlist_units')
        return
    one(leaf, v, t)


def _run_reactor(spec, ctx):
    from pmutt.io.omkm import write_yaml
    u = spec['units']
    units_given = u is not None
    ctx.cls('opt:units_given' if units_given else 'opt:units_omitted')
    if len(spec['options']) >= 3:
        ctx.nontrivial()

    def units_obj():
        if u is None:
            return None
        return G.units_arg({'units': u, 'units_as': spec['units_as']})

    for o, d in spec['options'].items():
        t = d['t']
        ctx.cls('opt:' + ('str' if t in ('str', 'strlist', 'strlist_units') else t.replace('list:', '')))
        if t == 'mixlist':
            ets = {e['t'] for e in d['v']}
            for et in ets:
                ctx.cls('opt:' + ('str' if et == 'str' else et))
            if 'str' in ets and ets - {'str'} and G.REACTOR_OPTIONS[o][1] is not None:
                ctx.cls('opt:mixlist_numbers+unit_strings')
            if any(et.startswith('np.') for et in ets) and ets & {'float', 'int'}:
                ctx.cls('opt:mixlist_python+numpy')
            if any(et.startswith('obj:') for et in ets):
                ctx.cls('opt:mixlist_objects')
    want_ph = None

    def call(options, phases_mode):
        kw = G.reactor_kwargs(dict(spec, options=options))
        nonlocal want_ph
        if phases_mode == 'empty':
            kw['phases'] = []
        elif phases_mode == 'objects':
            kw['phases'], want_ph = _reactor_phase_objects()
        return _quiet(write_yaml, units=units_obj(), **kw)[0]

    ctx.cls('phases_arg:' + spec['phases'])
    options = dict(spec['options'])
    phases_mode = spec['phases']
    text = None
    try:
        text = call(options, phases_mode)
    except Exception as e0:
        # ---- which supplied value is refused?  each option on its own
        found = False
        if phases_mode == 'omitted':
            try:
                call({}, 'omitted')
            except Exception as e:
                found = True
                ctx.fail('Y6', {'file': 'reactor_yaml', 'rule': 'Y6', 'entity': 'option', 'field': 'phases',
                                'value_type': 'omitted', 'units_given': units_given, 'exc': type(e).__name__},
                         message=str(e)[:200], where=core._tb_where(e))
                phases_mode = 'empty'
        for o in list(options):
            try:
                call({o: options[o]}, 'empty')
            except Exception as e:
                found = True
                ctx.fail('Y6', _opt_mech(o, options[o], units_given, exc=type(e).__name__), message=str(e)[:200],
                         where=core._tb_where(e))
                del options[o]
        if not found:
            ctx.fail('Y6', {'file': 'reactor_yaml', 'rule': 'Y6', 'entity': 'option', 'field': 'combination',
                            'units_given': units_given, 'exc': type(e0).__name__}, message=str(e0)[:200])
            return
        try:
            text = call(options, phases_mode)
        except Exception as e:
            ctx.fail('Y6', {'file': 'reactor_yaml', 'rule': 'Y6', 'entity': 'option', 'field': 'combination',
                            'units_given': units_given, 'exc': type(e).__name__}, message=str(e)[:200])
            return
    doc, safe_ok, err = _load_yaml(text)
    base = {'file': 'reactor_yaml', 'rule': 'Y6', 'entity': 'file', 'units_given': units_given}
    if doc is None:
        doc = {}
        if not ctx.check('Y6', not options and not spec['generic'] and phases_mode != 'objects',
                         dict(base, what='empty_document')):
            return
    if not isinstance(doc, dict):
        ctx.fail('Y6', dict(base, what='not_a_mapping', exc=err), head=text[-200:])
        return
    if safe_ok:
        ctx.held('Y6')
    leaves = _flatten({k: v for k, v in doc.items() if k != 'phases'})
    expected = {}
    for o, d in options.items():
        expected[G.REACTOR_OPTIONS[o][0]] = (o, d)
    # scalar derived from a multi_* list (undocumented fallback): tolerated; if written it must be the
    # first list value with its unit
    derived = {}
    for mo, so in G.MULTI_SCALAR.items():
        if mo in options and so not in options and options[mo]['v']:
            dm = options[mo]
            if dm['t'] == 'mixlist':
                derived[G.REACTOR_OPTIONS[so][0]] = (so, {'t': dm['v'][0]['t'], 'v': dm['v'][0]['v']})
                ctx.cls('opt:derived_scalar')
                continue
            et = 'str' if dm['t'] == 'strlist_units' else dm['t'].replace('list:', '')
            derived[G.REACTOR_OPTIONS[so][0]] = (so, {'t': et, 'v': dm['v'][0]})
            ctx.cls('opt:derived_scalar')
    generic_paths = {}
    for sect, dd in spec['generic'].items():
        for k, v in dd.items():
            generic_paths[(k if sect == 'misc' else '%s.%s' % (sect, k))] = v
    if not safe_ok:
        n_tag = 0
        for path, node in _tagged_paths(doc):
            n_tag += 1
            if '.'.join(map(str, path)) not in expected and not any(
                    '.'.join(map(str, path)).startswith(p) for p in expected):
                ctx.fail('Y6', dict(base, what='python_tag', exc=err), path=list(path))
        if n_tag == 0:
            ctx.fail('Y6', dict(base, what='not_safe_loadable', exc=err), head=text[-200:])
    for path, (o, d) in expected.items():
        if path not in leaves:
            ctx.fail('Y6', _opt_mech(o, d, units_given, what='missing'), value=d['v'], keys=sorted(leaves))
            continue
        _value_ok(ctx, o, d, leaves[path], u, units_given)
    for path, v in generic_paths.items():
        ctx.check('Y6', leaves.get(path) == v, dict(base, entity='option', field='generic', what='value'),
                  got=repr(leaves.get(path)), want=v, path=path)
    for path, (o, d) in derived.items():
        if path in leaves:
            _value_ok(ctx, o, d, leaves[path], u, units_given)
    extra = sorted(set(leaves) - set(expected) - set(generic_paths) - set(derived))
    ctx.check('Y6', not extra, dict(base, entity='option', field='extra_key', what='extra'), got=extra)
    # ---- phases block
    m = dict(base, entity='option', field='phases')
    if phases_mode != 'objects':
        ctx.check('Y6', 'phases' not in doc, dict(m, what='extra'), got=repr(doc.get('phases'))[:100])
        return
    ph = doc.get('phases')
    if not ctx.check('Y6', isinstance(ph, dict) and set(ph) == set(want_ph), dict(m, what='keys'),
                     got=repr(ph)[:200]):
        return
    for k, want in want_ph.items():
        got = ph[k]
        if isinstance(got, dict):
            got = [got]
        if not ctx.check('Y6', isinstance(got, list) and len(got) == len(want), dict(m, what='count', group=k),
                         got=repr(got)[:200]):
            continue
        for g, w in zip(got, want):
            ok = isinstance(g, dict) and g.get('name') == w['name']
            if ok and w['initial_state'] is not None:
                try:
                    ok = _parse_state(g.get('initial_state')) == w['initial_state']
                except Exception:
                    ok = False
            elif ok:
                ok = 'initial_state' not in g
            ok = ok and set(g) <= {'name', 'initial_state'}
            ctx.check('Y6', ok, dict(m, what='value', group=k), got=repr(g)[:200], want=w)


# ====================================================================== driver
def _classes(spec, ctx):
    ctx.cls('profile:' + spec.get('profile', 'directed'), 'populate:' + spec['populate'], 'units:' + spec['units_as'],
            'motz:on' if spec['motz_wise'] else 'motz:off', 'first:' + spec['first'])
    for s in spec['species']:
        ctx.cls('species:' + s['type'])
    bulk = {n for p in spec['phases'] if p['type'] == 'StoichSolid' for n in p['species']}
    for r in spec['reactions']:
        ctx.cls('rxn:adsorption' if r['is_adsorption'] else 'rxn:surface')
        if not r['is_adsorption'] and r['A'] is None and any(n in bulk for n, _ in r['reactants']):
            ctx.cls('rxn:bulk_reactant_computed_A')
        ctx.cls('ts:none' if r['ts'] is None else ('ts:bep' if 'bep' in r['ts'] else 'ts:species'))
        # user-supplied rate parameters at sign / zero boundaries
        if r['Ea'] is not None:
            if r['Ea'] < 0:
                ctx.cls('rate:Ea<0_adsorption' if r['is_adsorption'] else 'rate:Ea<0_surface')
            if r['Ea'] == 0:
                ctx.cls('rate:Ea=0')
            if 0 < abs(r['Ea']) < 1e-6:
                ctx.cls('rate:Ea_tiny')
        if r['A'] == 0:
            ctx.cls('rate:A=0')
        if r['beta'] is not None and r['beta'] < 0:
            ctx.cls('rate:beta<0')
        if r['sticking_coeff'] is not None and r['sticking_coeff'] in (0.0, 1.0):
            ctx.cls('rate:sticking=%d' % r['sticking_coeff'])
    if spec.get('bep_twins'):
        ctx.cls('bep:twins_' + spec['bep_twins'])
    if (spec['beps'] or spec['interactions']) and len(spec['phases']) >= 2:
        ctx.nontrivial()


def _run_model(spec, ctx):
    _classes(spec, ctx)
    M = _build(spec, ctx)
    if M is None:
        return
    order = [spec['first'], 'yaml' if spec['first'] == 'cti' else 'cti']
    failed = False
    _P['first_writer'] = order[0]            # the writer that sees the objects before any id / name is assigned
    for k, which in enumerate(order):
        if k == 1 and (spec['fresh_second'] or failed):
            _P['first_writer'] = which
            # (a writer that raised leaves half-assigned ids behind: start again from fresh objects)
            M = _build(spec, ctx)
            if M is None:
                return
        r = _do_cti(spec, M, ctx) if which == 'cti' else _do_yaml(spec, M, ctx)
        failed = r is False
    if spec.get('rewrite') and not failed:
        # the same objects written once more (ids and names assigned by the earlier writes are kept)
        ctx.cls('write:repeated')
        for which in order:
            if (_do_cti(spec, M, ctx) if which == 'cti' else _do_yaml(spec, M, ctx)) is False:
                break


def _fresh_process_state():
    """A mutable default argument outlives the case that polluted it; every case must see what a fresh
    interpreter sees, otherwise verdicts depend on case order and replays do not reproduce."""
    try:
        from pmutt.omkm.phase import InteractingInterface
        for d in (InteractingInterface.__init__.__defaults__ or ()):
            if isinstance(d, list):
                d.clear()
    except Exception:
        pass


def run_case(spec, ctx):
    _fresh_process_state()
    k = spec['kind']
    ctx.cls('kind:' + k)
    if k == 'model':
        _run_model(spec, ctx)
    elif k == 'history':
        _run_history(spec, ctx)
    elif k == 'reactor':
        _run_reactor(spec, ctx)
    else:
        raise core.HarnessError('unknown case kind %r' % k)

"""C19  Phase diagrams and energy spans select the true extrema.

D1 tabulated energy [i, j(, k)] = reaction i's own get_delta_GoRT at that grid point / norm_i
   (x R T when units are requested)
D2 stable_phases has the grid's shape and at every grid point is a minimiser of the tabulated
   column; identically for 1-D and 2-D scans (a 1-D scan equals the matching row of a 2-D scan)
D3 energy span of a reaction sequence = highest state G - lowest state G (+ overall reaction G
   when the highest state comes before the lowest) -- Reactions.get_E_span and Network.get_E_span
"""
from vf import core
from vf.gen import reactions as RG
from vf.gen import species as S

ID = 'C19'
N = {'quick': 15000, 'thorough': 200000}
NT_RULE = ('1-8 formation reactions sharing gas reference species, norm factors 0.1-10, scans over T, P and '
           '<species>_kwargs pressures with 1-30 grid values (1-D) and pairs (2-D), with and without G_units; '
           'reaction sequences of 1-8 steps with/without transition states.  non-trivial = diagram with >=2 '
           'reactions whose stable phase changes along the grid, or a span case in the highest-before-lowest '
           'branch; distinct = canonical JSON')
REQUIRED_ORACLES = ['D1', 'D2', 'D3']
REQUIRED_CLASSES = ['scan:1D', 'scan:2D', 'var:T', 'var:P', 'var:species_kwargs', 'units:yes', 'units:no',
                    'stable:changes', 'norms:int', 'norms:float', 'norms:huge', 'norms:tiny', 'span:max_before_min', 'span:max_after_min', 'span:with_ts', 'span:network', 'span:chain', 'span:cycle', 'span:unchained', 'span:unchained:scaled', 'span:unchained:third_decimal', 'span:unchained:twin', 'span:chain:shared_bep', 'fixed:also_axis_variable', 'span:species_repeated_in_state', 'span:species_repeated_with_equal_amount', 'span:cycle:shared_bep', 'reactions:duplicate',
                    'grid:1', 'reactions:1']
REQUIRED_PROBES = ['PhaseDiagram.get_GoRT_1D', 'PhaseDiagram.get_GoRT_2D', 'Reactions.get_E_span',
                   'Network.get_E_span']
ASSUMPTIONS = ['ties between reactions at a grid point: any minimiser is accepted',
               'state Gibbs energies for D3 are recomputed from the species\' own get_GoRT times R T']

GAS = ['O2', 'H2', 'CO']
UNITS = ['kJ/mol', 'kcal/mol', 'eV', 'J/mol']


def _gen_diagram(rng):
    species = {g: RG.gen_empirical(rng, g, kind=rng.choice(['Nasa', 'Shomate']), phase='G') for g in GAS}
    species['M(S)'] = RG.gen_empirical(rng, 'M(S)', kind='Nasa', phase='S')
    nrx = rng.choice([1, 2, 2, 3, 4, 5, 8])
    rxns, norms = [], []
    for i in range(nrx):
        prod = 'MX%d(S)' % i
        species[prod] = RG.gen_empirical(rng, prod, phase='S')
        # spread formation enthalpies so that the stable phase changes with conditions
        if species[prod]['type'] == 'Nasa':
            for key in ('a_low', 'a_high'):
                species[prod][key][5] += rng.uniform(-2e4, 2e4)
            species[prod] = S.make_continuous_nasa(species[prod])
        react = [['M(S)', rng.choice([1, 2, 3])]] + [[g, rng.choice([0.5, 1, 1.5, 2, 3])]
                                                     for g in rng.sample(GAS, rng.randint(1, 2))]
        rxns.append({'reactants': react, 'products': [[prod, 1]]})
        norms.append(round(rng.uniform(0.1, 10), 3))
    # the same formation reaction listed twice with different normalisation (e.g. per atom and per cell)
    dup = nrx >= 1 and rng.random() < 0.2
    if dup:
        rxns.append({'reactants': [list(x) for x in rxns[0]['reactants']], 'products': [list(x) for x in rxns[0]['products']]})
        norms.append(round(norms[0] * rng.choice([0.5, 2.0, 3.0]), 3))
    # normalisation factors are often integers (atoms or sites per cell)
    norm_kind = rng.choice(['float', 'float', 'int', 'huge', 'tiny'])
    if norm_kind == 'int':
        norms = [rng.choice([1, 2, 3, 4, 6, 9]) for _ in norms]
    elif norm_kind == 'huge':
        # per pm^2 of slab area, per Bohr^3 ...: normalised energies of order 1e-6 and below
        norms = [float('%.4g' % (v * 10 ** rng.choice([5, 6, 7, 8, 9]))) for v in norms]
    elif norm_kind == 'tiny':
        norms = [float('%.4g' % (v * 10 ** rng.choice([-3, -5, -6]))) for v in norms]
    def axis(kind, n):
        if kind == 'T':
            return 'T', sorted(round(rng.uniform(300, 3000), 2) for _ in range(n))
        if kind == 'P':
            return 'P', [S.logu(rng, 1e-4, 1e2, 4) for _ in range(n)]
        g = rng.choice(GAS)
        return '%s_kwargs' % g, [{'P': S.logu(rng, 1e-8, 1e2, 4)} for _ in range(n)]
    dim = rng.choice([1, 1, 2])
    kinds = rng.sample(['T', 'P', 'species_kwargs'], dim)
    axes = [axis(k, rng.choice([1, 2, 5, 10, 30]) if dim == 1 else rng.choice([1, 2, 4, 7])) for k in kinds]
    fixed = {}
    if 'T' not in kinds:
        fixed['T'] = round(rng.uniform(300, 3000), 2)
    if 'P' not in kinds and rng.random() < 0.5:
        fixed['P'] = S.logu(rng, 1e-3, 1e2, 4)
    also_fixed = None
    if rng.random() < 0.3:
        # the scanned variable is ALSO among the fixed conditions (a base dictionary passed unfiltered): the
        # grid value is what each point is evaluated at
        nm0, v0 = axes[rng.randrange(len(axes))]
        if nm0 == 'T':
            also_fixed = ['T', round(rng.uniform(300, 3000), 2)]
        elif nm0 == 'P':
            also_fixed = ['P', S.logu(rng, 1e-3, 1e2, 4)]
        else:
            also_fixed = [nm0, {'P': S.logu(rng, 1e-8, 1e2, 4)}]
    return {'kind': 'diagram', 'also_fixed': also_fixed, 'species': species, 'reactions': rxns, 'norms': norms,
            'norms_as': rng.choice(['list', 'array']), 'norm_kind': norm_kind, 'duplicate_reaction': dup,
            'axes': [[n, v] for n, v in axes], 'fixed': fixed, 'units': rng.choice([None, None] + UNITS)}


def _gen_span(rng):
    n = rng.choice([1, 2, 3, 3, 4, 5, 8])
    species = {}
    def state(tag, k):
        names = []
        for j in range(k):
            nm = '%s%s' % (tag, 'ab'[j])
            sp = RG.gen_empirical(rng, nm, kind='Nasa', phase=rng.choice(['G', 'S']))
            for key in ('a_low', 'a_high'):
                sp[key][5] += rng.uniform(-3e4, 3e4)
            species[nm] = S.make_continuous_nasa(sp)
            names.append([nm, rng.choice([1, 1, 2, 0.5, 0.33, 1.5])])
        if rng.random() < 0.12:
            # the same species listed twice in one state (2 H* written as H* + H*), equal or different amounts
            nm, v = names[rng.randrange(len(names))]
            names.append([nm, v if rng.random() < 0.6 else rng.choice([1, 2, 0.5])])
        return names
    states = [state('I%d' % i, rng.choice([1, 1, 2])) for i in range(n + 1)]
    ts = [state('TS%d' % i, 1) if rng.random() < 0.6 else None for i in range(n)]
    shape = rng.choice(['chain', 'chain', 'cycle', 'unchained', 'unchained'])
    if shape == 'cycle' and n >= 2:
        states[-1] = [list(x) for x in states[0]]         # a catalytic cycle: the path ends where it started
    elif shape == 'cycle':
        shape = 'chain'
    consumed = None
    if shape == 'unchained':
        # step i+1 consumes slightly different amounts than step i produced (coefficients differ beyond the
        # second decimal): consecutive states are different states
        variant = rng.choice(['scaled', 'third_decimal', 'third_decimal', 'twin'])
        if variant == 'scaled':
            consumed = [[[nm, round(v * 1.0101, 4)] for nm, v in st] for st in states[1:-1]]
        elif variant == 'third_decimal':
            # amounts that print alike to two decimals (0.33 produced, 0.3333 consumed)
            consumed = [[[nm, round(v + rng.choice([0.0033, 0.004, -0.004, 0.0049]), 4)] for nm, v in st]
                        for st in states[1:-1]]
        else:
            # the next step was taken from another data set: same species NAMES, other objects and data
            consumed = []
            for st in states[1:-1]:
                new = []
                for nm, v in st:
                    sp = RG.gen_empirical(rng, nm, kind='Nasa', phase=rng.choice(['G', 'S']))
                    for key in ('a_low', 'a_high'):
                        sp[key][5] += rng.uniform(-3e4, 3e4)
                    species[nm + '~2'] = S.make_continuous_nasa(sp)
                    new.append([nm + '~2', v])
                consumed.append(new)
        shape = 'unchained:' + variant
    bep = None
    if shape in ('chain', 'cycle') and n >= 2 and rng.random() < 0.25:
        # ONE Bronsted-Evans-Polanyi object is the transition state of several steps (a family of
        # elementary steps correlated by one relation): its energy depends on the step it is asked for
        bep = {'slope': round(rng.uniform(0, 1), 3), 'intercept': round(rng.uniform(0, 40), 3),
               'descriptor': rng.choice(['delta_H', 'delta_H', 'rev_delta_H'])}
        k_ = rng.sample(range(n), rng.randint(2, n))
        for i in range(n):
            if i in k_:
                for nm, _ in (ts[i] or []):
                    species.pop(nm, None)
                ts[i] = [['@bep', 1]]
        shape = shape + ':shared_bep'
    return {'kind': 'span', 'species': species, 'states': states, 'ts': ts, 'shape': shape, 'consumed': consumed,
            'bep': bep,
            'cond': {'T': round(rng.uniform(300, 2500), 2), 'P': S.logu(rng, 1e-2, 1e1, 4)},
            # the same objects are evaluated again at other conditions (stale caches, state kept between calls)
            'cond2': {'T': round(rng.uniform(300, 2500), 2), 'P': S.logu(rng, 1e-2, 1e1, 4)},
            'units': rng.choice(UNITS)}


def generate(rng, tier):
    return _gen_diagram(rng) if rng.random() < 0.6 else _gen_span(rng)


def directed(tier):
    return []


def install_probes(pr, ctx):
    def pd():
        from pmutt.reaction.phasediagram import PhaseDiagram
        return PhaseDiagram
    pr.watch(lambda: pd().get_GoRT_1D, 'PhaseDiagram.get_GoRT_1D')
    pr.watch(lambda: pd().get_GoRT_2D, 'PhaseDiagram.get_GoRT_2D')
    pr.watch(lambda: __import__('pmutt.reaction', fromlist=['x']).Reactions.get_E_span, 'Reactions.get_E_span')
    pr.watch(lambda: __import__('pmutt.reaction.network', fromlist=['x']).Network.get_E_span, 'Network.get_E_span')
    pr.watch(lambda: __import__('pmutt.reaction', fromlist=['x']).Reaction.get_delta_GoRT, 'Reaction.get_delta_GoRT')
    pr.watch(lambda: __import__('pmutt.reaction', fromlist=['x']).Reaction.get_G_state, 'Reaction.get_G_state')


def _build_rxns(spec, rx_specs):
    from pmutt.reaction import Reaction
    objs = {n: S.build(s) for n, s in spec['species'].items()}
    if spec.get('bep'):
        from pmutt.reaction.bep import BEP
        objs['@bep'] = BEP(name='bep_shared', **spec['bep'])
    out = []
    for r in rx_specs:
        kw = dict(reactants=[objs[n] for n, _ in r['reactants']], reactants_stoich=[v for _, v in r['reactants']],
                  products=[objs[n] for n, _ in r['products']], products_stoich=[v for _, v in r['products']])
        if r.get('ts'):
            kw['transition_state'] = [objs[n] for n, _ in r['ts']]
            kw['transition_state_stoich'] = [v for _, v in r['ts']]
        out.append(Reaction(**kw))
    return out, objs


def _var_class(name):
    return {'T': 'var:T', 'P': 'var:P'}.get(name, 'var:species_kwargs')


def _diagram(spec, ctx):
    import numpy as np
    from pmutt.reaction.phasediagram import PhaseDiagram
    from pmutt import constants as c
    rxns, objs = _build_rxns(spec, spec['reactions'])
    norms = spec['norms'] if spec['norms_as'] == 'list' else np.array(spec['norms'])
    pdg = PhaseDiagram(reactions=rxns, norm_factors=norms)
    axes, fixed, units = spec['axes'], dict(spec['fixed']), spec['units']
    if spec.get('also_fixed'):
        fixed[spec['also_fixed'][0]] = spec['also_fixed'][1]
        ctx.cls('fixed:also_axis_variable')
    dim = len(axes)
    ctx.cls('scan:%dD' % dim, 'units:yes' if units else 'units:no', 'norms:' + spec.get('norm_kind', 'float'))
    for n, v in axes:
        ctx.cls(_var_class(n))
        if len(v) == 1:
            ctx.cls('grid:1')
    if len(rxns) == 1:
        ctx.cls('reactions:1')
    if spec.get('duplicate_reaction'):
        ctx.cls('reactions:duplicate')
    mech = {'dim': dim, 'units': bool(units)}
    if spec.get('also_fixed'):
        mech['axis_variable_also_fixed'] = True

    def own(i, point):
        kw = dict(fixed)
        kw.update(point)
        g = float(np.squeeze(rxns[i].get_delta_GoRT(**kw))) / spec['norms'][i]
        if units:
            g *= c.R('%s/K' % units) * kw['T']
        return g

    if dim == 1:
        (xn, xv), = axes
        res = ctx.call('D1', dict(mech, step='get_GoRT_1D'), pdg.get_GoRT_1D, x_name=xn, x_values=list(xv),
                       G_units=units, **dict(fixed))
        if res is core.NOVALUE:
            return
        G, stable = res
        G = np.asarray(G)
        if not ctx.check('D1', G.shape == (len(rxns), len(xv)), dict(mech, what='shape'), shape=list(G.shape)):
            return
        want = np.array([[own(i, {xn: x}) for x in xv] for i in range(len(rxns))])
        ctx.close('D1', G, want, 1e-12, dict(mech, what='values'), scale=_rel(want))
        _stable(ctx, mech, np.asarray(stable), want, (len(xv),))
        # same object, same scan, other fixed conditions: nothing may be remembered from the first call
        if 'T' in fixed:
            fixed2 = dict(fixed, T=fixed['T'] * (0.73 if fixed['T'] > 2000 else 1.37))   # stays inside 100-4000 K
            res2 = ctx.call('D1', dict(mech, step='get_GoRT_1D', call='repeat'), pdg.get_GoRT_1D, x_name=xn,
                            x_values=list(xv), G_units=units, **fixed2)
            if res2 is not core.NOVALUE:
                fixed_saved = dict(fixed)
                fixed.clear(); fixed.update(fixed2)
                want2 = np.array([[own(i, {xn: x}) for x in xv] for i in range(len(rxns))])
                fixed.clear(); fixed.update(fixed_saved)
                ctx.close('D1', np.asarray(res2[0]), want2, 1e-12, dict(mech, what='values', call='repeat'), scale=_rel(want2))
    else:
        (n1, v1), (n2, v2) = axes
        res = ctx.call('D1', dict(mech, step='get_GoRT_2D'), pdg.get_GoRT_2D, x1_name=n1, x1_values=list(v1),
                       x2_name=n2, x2_values=list(v2), G_units=units, **dict(fixed))
        if res is core.NOVALUE:
            return
        G, stable = res
        G = np.asarray(G)
        if not ctx.check('D1', G.shape == (len(rxns), len(v1), len(v2)), dict(mech, what='shape'), shape=list(G.shape)):
            return
        want = np.array([[[own(i, {n1: a, n2: b}) for b in v2] for a in v1] for i in range(len(rxns))])
        ctx.close('D1', G, want, 1e-12, dict(mech, what='values'), scale=_rel(want))
        _stable(ctx, mech, np.asarray(stable), want, (len(v1), len(v2)))
        # a 1-D scan along axis 2 at a fixed value of axis 1 equals the row of the 2-D scan
        j = (ctx.case_index or 0) % len(v1)
        kw = dict(fixed)
        kw[n1] = v1[j]
        res1 = ctx.call('D2', dict(mech, step='1D_row'), pdg.get_GoRT_1D, x_name=n2, x_values=list(v2),
                        G_units=units, **kw)
        if res1 is not core.NOVALUE:
            G1, st1 = res1
            ctx.close('D2', np.asarray(G1), G[:, j, :], 1e-12, dict(mech, what='1D_equals_2D_row_values'), scale=_rel(G[:, j, :]))
            st1 = np.asarray(st1)
            if ctx.check('D2', st1.shape == (len(v2),), dict(mech, what='1D_row_shape'), shape=list(st1.shape)):
                col = want[:, j, :]
                for k in range(len(v2)):
                    s = int(st1[k])
                    ctx.check('D2', 0 <= s < len(rxns) and col[s, k] <= col[:, k].min() + 1e-12 * float(np.abs(col[:, k]).max()),
                              dict(mech, what='1D_row_minimiser'), picked=s, column=col[:, k].tolist())


def _rel(table):
    """element-wise relative scale (the library divides the reaction's own value by the norm factor: the table
    is exact to rounding whatever its magnitude)"""
    import numpy as np
    t = np.abs(np.asarray(table, float))
    return np.maximum(t, 1e-12 * max(float(t.max()), 1e-300))


def _stable(ctx, mech, stable, table, grid_shape):
    import numpy as np
    if not ctx.check('D2', tuple(stable.shape) == tuple(grid_shape), dict(mech, what='stable_shape'),
                     shape=list(stable.shape), grid=list(grid_shape), n_reactions=int(table.shape[0])):
        return
    flat_tab = table.reshape(table.shape[0], -1)
    flat_st = stable.reshape(-1)
    mins = flat_tab.argmin(axis=0)
    if len(set(mins.tolist())) > 1:
        ctx.cls('stable:changes')
        ctx.nontrivial()
    for k in range(flat_tab.shape[1]):
        s = flat_st[k]
        ok = float(s).is_integer() and 0 <= int(s) < flat_tab.shape[0]
        if ok:
            col = flat_tab[:, k]
            ok = col[int(s)] <= col.min() + 1e-12 * float(np.abs(col).max())
        ctx.check('D2', ok, dict(mech, what='minimiser'), picked=float(s), column=flat_tab[:, k].tolist())


def _span(spec, ctx):
    import numpy as np
    from pmutt.reaction import Reactions
    from pmutt import constants as c
    states, ts = spec['states'], spec['ts']
    shape = spec.get('shape', 'chain')
    consumed = spec.get('consumed')
    ctx.cls('span:' + shape.split(':')[0], 'span:' + shape)
    if any(len(set(n for n, _ in st)) < len(st) for st in states):
        ctx.cls('span:species_repeated_in_state')
        if any(len(set((n, v) for n, v in st)) < len(st) for st in states):
            ctx.cls('span:species_repeated_with_equal_amount')
    rx_specs = []
    for i in range(len(ts)):
        react = states[i] if not (consumed and i >= 1) else consumed[i - 1]
        rx_specs.append({'reactants': react, 'products': states[i + 1], 'ts': ts[i]})
    rxns, objs = _build_rxns(spec, rx_specs)
    units = spec['units']
    reactions_obj = Reactions(reactions=rxns)
    try:
        from pmutt.reaction.network import Network, state_to_set
    except Exception:
        Network = None
    net = None
    if Network is not None:
        net = ctx.call('D3', {'api': 'Network', 'step': 'construct'}, Network, reactions=rxns)
        if net is core.NOVALUE:
            net = None
    path = [states[0]]
    bep_steps = {}                              # index in path -> (reactants, products) of the step a BEP TS belongs to
    for i in range(len(ts)):
        if consumed and i >= 1:
            path.append(consumed[i - 1])       # a different state from what step i-1 produced
        if ts[i]:
            if ts[i][0][0] == '@bep':
                bep_steps[len(path)] = (rx_specs[i]['reactants'], rx_specs[i]['products'])
            path.append(ts[i])
        path.append(states[i + 1])
    if bep_steps:
        net = None                              # only Reactions.get_E_span is driven with a shared BEP
    if shape.startswith('unchained'):
        ctx.cls('span:unchained')
        net = None                              # not a connected pathway
    node_path = None
    if net is not None:
        ctx.cls('span:network')
        node_path = [state_to_set([objs[n] for n, _ in s], [v for _, v in s]) for s in path]
    for call_no, cond in enumerate([spec['cond'], spec.get('cond2') or spec['cond']]):
        RT = c.R('%s/K' % units) * cond['T']

        def G(side):
            tot, _ = RG.state_sum(objs, side, 'get_GoRT', cond)
            return tot * RT
        def G_bep(react, prod):
            # reference BEP transition state: H = H_reactants + Ea, Ea = adjusted slope * descriptor + intercept
            # (kcal/mol), S = S_reactants (default entropy_state)
            hr, _ = RG.state_sum(objs, react, 'get_HoRT', cond)
            hp, _ = RG.state_sum(objs, prod, 'get_HoRT', cond)
            sr, _ = RG.state_sum(objs, react, 'get_SoR', cond)
            Rk = c.R('kcal/mol/K')
            d = spec['bep']['descriptor']
            dH = (hp - hr) * Rk * cond['T']
            slope = spec['bep']['slope']
            if d == 'delta_H':
                ea = slope * dH + spec['bep']['intercept']
            else:                               # rev_delta_H: descriptor = H_reactants - H_products, forward slope - 1
                ea = (slope - 1.0) * (-dH) + spec['bep']['intercept']
            return (hr + ea / (Rk * cond['T']) - sr) * RT
        Gs = [G_bep(*bep_steps[k]) if k in bep_steps else G(s_) for k, s_ in enumerate(path)]
        imax, imin = int(np.argmax(Gs)), int(np.argmin(Gs))
        want = Gs[imax] - Gs[imin]
        before = imax < imin
        if before:
            want += Gs[-1] - Gs[0]
            ctx.nontrivial()
        ctx.cls('span:max_before_min' if before else 'span:max_after_min')
        if any(ts):
            ctx.cls('span:with_ts')
        mech = {'branch': 'max_before_min' if before else 'max_after_min', 'has_ts': any(bool(t) for t in ts),
                'call': 'first' if call_no == 0 else 'repeat_other_conditions'}
        scale = max(1.0, max(abs(g) for g in Gs))
        got = ctx.call('D3', dict(mech, api='Reactions'), reactions_obj.get_E_span, units=units, **cond)
        if got is not core.NOVALUE:
            ctx.close('D3', float(np.squeeze(got)), want, 1e-10, dict(mech, api='Reactions'), scale=scale, states_G=Gs)
        if net is None:
            continue
        for u in (units, None):
            got = ctx.call('D3', dict(mech, api='Network', units=bool(u)), net.get_E_span, path=node_path, units=u, **cond)
            if got is not core.NOVALUE:
                w = want if u else want / RT
                ctx.close('D3', float(np.squeeze(got)), w, 1e-10, dict(mech, api='Network', units=bool(u)),
                          scale=scale if u else scale / RT)


def run_case(spec, ctx):
    if spec['kind'] == 'diagram':
        _diagram(spec, ctx)
    else:
        _span(spec, ctx)

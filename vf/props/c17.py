"""C17  The coverage-effect function stays continuous piecewise-linear under edits.

History monitor: random sequences of construction / insert / pop / reload on the real
PiecewiseCovEffect, shadowed by an executable model (a sorted list of
(breakpoint, slope) pairs).  After every operation the object's observable state is
compared with the model (P1), the function it evaluates is compared with the unique
continuous piecewise-linear function of the model (P2) and reload must not change it
(P3).  An online invariant runs at PY_RETURN of __init__/insert/pop/_set_intercepts
("invariant at a hook").
"""
import json
import math

from vf import core

ID = 'C17'
N = {'quick': 45000, 'thorough': 1000000}
NT_RULE = ('history = initial (breakpoints, slopes) + <=6 insert/pop/reload operations + probe '
           'coverages, drawn per case index from a seeded PRNG after a list of directed histories; '
           'non-trivial = >=1 insert and >=1 evaluation beyond the first piece; distinct = distinct '
           'canonical JSON of the history')
REQUIRED_ORACLES = ['P1', 'P2', 'P3', 'P0', 'INV']
REQUIRED_CLASSES = ['insert:below_second', 'insert:between', 'insert:equal', 'insert:above_last',
                    'pop:0', 'pop:inner', 'pop:last', 'pop:negative_index', 'bps:int_typed', 'slopes:all_int_fractional_breakpoints',
                    'insert:just_below_existing', 'insert:just_above_existing', 'eval:dimensional', 'slope:zero', 'reload', 'reload_dict', 'eval:on_break', 'eval:beyond_last']
REQUIRED_PROBES = ['PiecewiseCovEffect.insert', 'PiecewiseCovEffect.pop',
                   'PiecewiseCovEffect._set_intercepts', 'PiecewiseCovEffect.get_UoRT']
ASSUMPTIONS = ['breakpoints and slopes are Python / NumPy float64 or int (the documented type is float): np.float32 / '
               'np.float16 breakpoints are not generated -- the unchanged tree cannot encode them to JSON (same limitation '
               'as numpy integer scalars, DESIGN 9.5), so the reload clause is undecidable for them; the runner still '
               'understands a 4th element of an insert op naming a narrow type (replays)',
               'breakpoints in [0,1], first one 0, initial list strictly ascending; pop index in '
               '-(len-1)..len-1 (Python semantics; -len is not generated); coverages evaluated in [0,1.3]',
               'for an insertion equal to an existing breakpoint either order of the two equal '
               'breakpoints is accepted (the function is the same except for which slope follows)']


# ---------------------------------------------------------------- reference model
def ref_value(pairs, x):
    """Unique continuous piecewise-linear function, zero at zero, slope s_k on
    [b_k, b_{k+1}) and the last slope beyond the last breakpoint (kcal/mol)."""
    total = 0.0
    for k, (b, s) in enumerate(pairs):
        hi = pairs[k + 1][0] if k + 1 < len(pairs) else float('inf')
        if x <= b:
            break
        total += s * (min(x, hi) - b)
    # contribution of [0, b_0) is zero because b_0 == 0
    return total


def model_insert(pairs, x, s):
    out = list(pairs)
    i = 0
    while i < len(out) and out[i][0] <= x:
        i += 1
    out.insert(i, (x, s))
    return out


# ---------------------------------------------------------------- generator
def _r(rng, lo, hi, nd=3):
    return round(rng.uniform(lo, hi), nd)


def directed(tier):
    D = []
    base = {'intervals': [0.0, 0.3, 0.6], 'slopes': [10.0, -20.0, 35.0]}
    ev = [0.0, 0.1, 0.3, 0.45, 0.6, 0.8, 1.0, 1.2]
    D.append(dict(base, ops=[['insert', 0.8, 5.0]], xs=ev, Ts=[300.0, 750.0]))          # above last
    D.append(dict(base, ops=[['insert', 0.45, 5.0]], xs=ev, Ts=[300.0]))                 # between
    D.append(dict(base, ops=[['insert', 0.1, 5.0]], xs=ev, Ts=[300.0]))                  # below second
    D.append(dict(base, ops=[['insert', 0.3, 5.0]], xs=ev, Ts=[300.0]))                  # equal
    D.append(dict(base, ops=[['pop', 0]], xs=ev, Ts=[300.0]))
    D.append(dict(base, ops=[['pop', 1], ['reload']], xs=ev, Ts=[300.0]))
    D.append(dict(base, ops=[['pop', 2], ['insert', 0.9, -3.0], ['reload'], ['pop', 1]], xs=ev, Ts=[50.0, 3000.0]))
    D.append({'intervals': [0.0], 'slopes': [7.5], 'ops': [['insert', 0.5, -7.5], ['insert', 1.0, 2.0], ['pop', 1]],
              'xs': ev, 'Ts': [298.15]})
    D.append({'intervals': [0.0, 1.0], 'slopes': [1.0, 2.0], 'ops': [['insert', 1.0, 3.0], ['reload']],
              'xs': ev, 'Ts': [298.15]})
    D.append(dict(base, ops=[['reload_dict'], ['insert', 0.45, 5.0], ['pop', 1]], xs=ev, Ts=[300.0]))
    D.append({'intervals': [0, 1], 'slopes': [2.5, -7.25], 'ops': [], 'xs': ev, 'Ts': [300.0]})
    D.append({'intervals': [0], 'slopes': [3.3], 'ops': [['insert', 1, 4.7], ['insert', 0.5, 1.1], ['pop', 1]], 'xs': ev, 'Ts': [300.0]})
    D.append(dict(base, ops=[['insert', 0.8, 0.0], ['insert', 0.45, 0], ['pop', -1], ['pop', -2]], xs=ev, Ts=[300.0]))
    D.append(dict(base, ops=[['insert', 0.2, 1.0], ['reload_dict'], ['pop', 2], ['insert', 0.9, 4.0]], xs=ev, Ts=[300.0]))
    D.append({'intervals': [0.0, 0.25, 0.55], 'slopes': [2, -3, 5], 'ops': [['insert', 0.4, 7], ['reload'], ['pop', 1]],
              'xs': ev, 'Ts': [300.0]})
    D.append(dict(base, ops=[['insert', 0.7 - 0.4, 5.0]], xs=ev + [0.7 - 0.4], Ts=[300.0]))   # 0.29999999999999993
    D.append(dict(base, ops=[['insert', 0.6 - 3e-6, 5.0], ['reload']], xs=ev + [0.6 - 3e-6, 0.6 - 1e-6], Ts=[300.0]))
    D.append(dict(base, ops=[['insert', math.nextafter(0.6, 1.0), 5.0], ['insert', math.nextafter(0.3, 0.0), -2.0]],
                  xs=ev, Ts=[300.0]))
    return D


def generate(rng, tier):
    n = rng.randint(1, 6)
    bps = sorted(set([0.0] + [_r(rng, 0.01, 1.0) for _ in range(n - 1)]))
    slopes = [_r(rng, -100, 100, 2) for _ in bps]
    if rng.random() < 0.1:
        # breakpoints typed as Python ints ([0] or [0, 1]); slopes of exactly zero
        bps = [0] if rng.random() < 0.5 else [0, 1]
        slopes = [_r(rng, -100, 100, 2) for _ in bps]
    if rng.random() < 0.15:
        slopes[rng.randrange(len(slopes))] = 0.0
    int_slopes = rng.random() < 0.12
    if int_slopes:
        # every slope a Python int (whole kcal/mol per ML) while the breakpoints are fractional
        slopes = [rng.randint(-100, 100) for _ in bps]
    cur = list(bps)
    ops = []
    for _ in range(rng.randint(0, 6)):
        kind = rng.choices(['insert', 'pop', 'reload', 'reload_dict'], [5, 3, 1, 1])[0]
        if kind == 'insert':
            where = rng.choice(['below_second', 'between', 'equal', 'above_last', 'any', 'near_existing'])
            narrow = None
            if where == 'narrow_type':
                # a breakpoint typed np.float32 / np.float16 next to a float64 one that rounds to the same narrow value
                import numpy as np
                narrow = rng.choice(['float32', 'float32', 'float16'])
                b0 = rng.choice([b for b in cur if b > 0] or [0.5])
                xn = float(getattr(np, narrow)(b0))
                x = xn if (xn not in cur and 0 < xn <= 1.0) else float(getattr(np, narrow)(_r(rng, 0.05, 0.95)))
                if x in cur or not 0 < x <= 1.0:
                    where, narrow, x = 'any', None, _r(rng, 0.0, 1.0)
            elif where == 'near_existing':
                # a hair below / above an existing breakpoint (0.7 - 0.4 next to 0.3): NOT equal to it
                b0 = rng.choice(cur)
                cands = [math.nextafter(b0, 2.0), b0 + 1e-9, b0 * (1 + 3e-6) + 1e-12, b0 + 1e-6]
                if b0 > 0:
                    cands += [math.nextafter(b0, 0.0), b0 - 1e-9, b0 * (1 - 3e-6), b0 - min(1e-6, b0 / 2),
                              b0 * (1 - 1e-12)]
                x = rng.choice([c for c in cands if 0 < c <= 1.0 and c not in cur] or [b0])
            elif where == 'below_second' and len(cur) > 1 and cur[1] > 0.002:
                x = _r(rng, 0.001, cur[1] - 0.001)
            elif where == 'between' and len(cur) > 2:
                k = rng.randint(1, len(cur) - 2)
                lo, hi = cur[k], cur[k + 1]
                x = _r(rng, lo, hi) if hi - lo > 0.002 else lo
            elif where == 'equal':
                x = rng.choice(cur)
            elif where == 'above_last':
                x = _r(rng, cur[-1], 1.0) if cur[-1] < 0.999 else 1.0
                if x <= cur[-1]:
                    x = cur[-1]
            else:
                x = _r(rng, 0.0, 1.0)
            if isinstance(bps[0], int) and rng.random() < 0.6:
                x = 1                      # int-typed insertion at full coverage
            ops.append(['insert', x, rng.randint(-100, 100) if (int_slopes and rng.random() < 0.85) else
                        rng.choice([_r(rng, -100, 100, 2)] * 5 + [0.0, 0])] + ([narrow] if narrow else []))
            if narrow and rng.random() < 0.6:
                # ... followed by a float64 neighbour inside the narrow type's rounding interval
                import numpy as np
                eps_ = {'float32': 3e-8, 'float16': 2e-4}[narrow]
                y = x * (1 + rng.choice([-1, 1]) * eps_ * rng.choice([0.3, 0.5, 0.9]))
                if 0 < y <= 1.0 and y not in cur and y != x:
                    ops.append(['insert', y, _r(rng, -100, 100, 2)])
                    cur = sorted(cur + [y])
            cur = sorted(cur + [x])
        elif kind == 'pop':
            i = rng.randint(0, len(cur) - 1)
            if i != 0 and rng.random() < 0.3:
                i = i - len(cur)               # the same breakpoint addressed from the end (pop(-1) = last)
            ops.append(['pop', i])
            if i != 0:
                cur.pop(i)
        else:
            ops.append([kind])
    xs = [0.0, _r(rng, 0, 1.3), _r(rng, 0, 1.3), _r(rng, 0, 1.3), 1.0]
    xs += rng.sample(cur, min(len(cur), 3))
    xs.append(min(1.3, cur[-1] + _r(rng, 0.0, 0.3)))
    Ts = [round(rng.choice([50.0, 298.15, 3000.0, rng.uniform(50, 3000)]), 3), round(rng.uniform(50, 3000), 3)]
    return {'intervals': bps, 'slopes': slopes, 'ops': ops, 'xs': xs, 'Ts': Ts}


# ---------------------------------------------------------------- probes
_INV = {'ctx': None}


def _inv_check(label, ret, snap):
    """Online invariant at PY_RETURN: the object is a well formed continuous
    piecewise-linear function, zero at zero."""
    ctx = _INV['ctx']
    obj = snap
    if ctx is None or obj is None or isinstance(obj, tuple):
        return
    try:
        iv, sl, ic = [float(v) for v in obj.intervals], list(obj.slopes), list(obj._intercepts)
    except AttributeError:
        return
    mech = {'at': label}
    if not (len(iv) == len(sl) == len(ic)):
        ctx.fail('INV', dict(mech, what='lengths'), intervals=iv, slopes=sl, intercepts=ic)
        return
    if any(iv[k] > iv[k + 1] for k in range(len(iv) - 1)):
        ctx.fail('INV', dict(mech, what='not_ascending'), intervals=iv)
        return
    if ic and ic[0] != 0.0:
        ctx.fail('INV', dict(mech, what='nonzero_at_zero'), intercepts=ic)
        return
    for k in range(1, len(iv)):
        left = sl[k - 1] * iv[k] + ic[k - 1]
        right = sl[k] * iv[k] + ic[k]
        if abs(left - right) > 1e-9 * max(1.0, abs(left)):
            ctx.fail('INV', dict(mech, what='discontinuous'), at_break=iv[k], left=left, right=right)
            return
    ctx.held('INV')


def install_probes(pr, ctx):
    _INV['ctx'] = ctx

    def cls():
        from pmutt.mixture.cov import PiecewiseCovEffect
        return PiecewiseCovEffect
    snap = lambda label, loc: loc.get('self')
    pr.watch(lambda: cls().__init__, 'PiecewiseCovEffect.__init__', on_call=snap, on_ret=_inv_check)
    pr.watch(lambda: cls().insert, 'PiecewiseCovEffect.insert', on_call=snap, on_ret=_inv_check)
    pr.watch(lambda: cls().pop, 'PiecewiseCovEffect.pop', on_call=snap, on_ret=_inv_check)
    pr.watch(lambda: cls()._set_intercepts, 'PiecewiseCovEffect._set_intercepts', on_call=snap,
             on_ret=_inv_check)
    pr.watch(lambda: cls().get_UoRT, 'PiecewiseCovEffect.get_UoRT')


# ---------------------------------------------------------------- driver + oracles
def _observe(ctx, obj, pairs, spec, after):
    """P1 state and P2 function against the model."""
    from pmutt import constants as c
    # numeric values of the breakpoints (a breakpoint may be typed np.float32 / np.float16: comparing such a scalar
    # with a Python float happens in the narrow type under NumPy 2, so convert before comparing anything)
    iv, sl = [float(v) for v in obj.intervals], list(obj.slopes)
    mech = {'after': after}
    ok = ctx.check('P1', sorted(zip(iv, sl)) == sorted(pairs) and iv == sorted(iv), mech,
                   intervals=iv, slopes=sl, model=pairs)
    if not ok:
        return False
    actual_pairs = list(zip(iv, sl))        # tie order as the implementation chose it
    R = c.R('kcal/mol/K')
    first_piece_end = iv[1] if len(iv) > 1 else float('inf')
    for x in spec['xs']:
        want = ref_value(actual_pairs, x)
        if x in iv:
            ctx.cls('eval:on_break')
        if x > iv[-1]:
            ctx.cls('eval:beyond_last')
        if x >= first_piece_end and any(o[0] == 'insert' for o in spec['ops']):
            ctx.nontrivial()
        for T in spec['Ts']:
            u = ctx.call('P2', dict(mech, q='UoRT'), obj.get_UoRT, x=x, T=T)
            if u is core.NOVALUE:
                continue
            ctx.close('P2', u * R * T, want, 1e-10, dict(mech, q='UoRT'), x=x, T=T,
                      intervals=iv, slopes=sl)
            h = ctx.call('P2', dict(mech, q='HoRT'), obj.get_HoRT, x=x, T=T)
            g = ctx.call('P2', dict(mech, q='GoRT'), obj.get_GoRT, x=x, T=T)
            f = ctx.call('P2', dict(mech, q='FoRT'), obj.get_FoRT, x=x, T=T)
            for q, v in (('HoRT', h), ('GoRT', g), ('FoRT', f)):
                if v is not core.NOVALUE:
                    ctx.check('P2', v == u, dict(mech, q=q), x=x, T=T, got=v, UoRT=u)
            # in energy units the function does not depend on temperature: the dimensional getters with BOTH the
            # coverage and the temperature given
            if x == spec['xs'][1] or x == spec['xs'][-1]:
                for q in ('get_U', 'get_H', 'get_F', 'get_G'):
                    d = ctx.call('P2', dict(mech, q=q), getattr(obj, q), units='kcal/mol', x=x, T=T)
                    if d is not core.NOVALUE:
                        ctx.cls('eval:dimensional')
                        ctx.close('P2', d, want, 1e-10, dict(mech, q=q), x=x, T=T)
    ctx.check('P0', obj.get_SoR() == 0.0 and obj.get_CvoR() == 0.0 and obj.get_CpoR() == 0.0,
              dict(mech, q='S/Cv/Cp'))
    return True


def run_case(spec, ctx):
    from pmutt.mixture.cov import PiecewiseCovEffect
    from pmutt.io.json import pmuttEncoder, json_to_pmutt
    pairs = list(zip(spec['intervals'], spec['slopes']))
    if all(isinstance(b, int) for b in spec['intervals']):
        ctx.cls('bps:int_typed')
    if len(spec['slopes']) >= 2 and all(isinstance(sl, int) for sl in spec['slopes']) and \
            any(b != int(b) for b in spec['intervals']):
        ctx.cls('slopes:all_int_fractional_breakpoints')
    if any(sl == 0 for sl in spec['slopes']) or any(o[0] == 'insert' and o[2] == 0 for o in spec['ops']):
        ctx.cls('slope:zero')
    obj = ctx.call('P1', {'after': 'init'}, PiecewiseCovEffect, name_i='A(S)', name_j='B(S)',
                   intervals=list(spec['intervals']), slopes=list(spec['slopes']), name='cov1')
    if obj is core.NOVALUE:
        return
    if not _observe(ctx, obj, pairs, spec, 'init'):
        return
    shadows = []      # (object, pairs) left behind by a dict reload: later edits of the copy must not reach them
    for op in spec['ops']:
        for k_, (sh_obj, sh_pairs) in enumerate(shadows):
            if not _observe(ctx, sh_obj, sh_pairs, spec, 'shadow_of_dict_reload'):
                shadows.pop(k_)
                break
        if op[0] == 'insert':
            x, s = op[1], op[2]
            x_arg = x
            if len(op) > 3:
                import numpy as np
                x_arg = getattr(np, op[3])(x)
                if float(x_arg) != x:
                    raise core.HarnessError('narrow-typed breakpoint not representable')
                ctx.cls('insert:typed_' + op[3])
            bps = [p[0] for p in pairs]
            if x in bps:
                where = 'equal'
            elif x > bps[-1]:
                where = 'above_last'
            elif len(bps) > 1 and x < bps[1]:
                where = 'below_second'
            else:
                where = 'between'
            ctx.cls('insert:' + where)
            for b_ in bps:
                if len(op) > 3 and x != b_ and abs(x - b_) <= {'float32': 6e-8, 'float16': 5e-4}[op[3]] * abs(b_):
                    ctx.cls('insert:narrow_type_next_to_float64_neighbour')
                if x != b_ and abs(x - b_) <= 1e-8 + 1e-5 * abs(b_):
                    ctx.cls('insert:just_below_existing' if x < b_ else 'insert:just_above_existing')
            r = ctx.call('P1', {'after': 'insert:' + where}, obj.insert, x_arg, s)
            if r is core.NOVALUE:
                return
            pairs = model_insert(pairs, x, s)
            if not _observe(ctx, obj, pairs, spec, 'insert:' + where):
                return
        elif op[0] == 'pop':
            i = op[1]
            if i == 0:
                ctx.cls('pop:0')
                ctx.raises('P1', (ValueError,), {'after': 'pop:0'}, obj.pop, 0)
                if not _observe(ctx, obj, pairs, spec, 'pop:0'):
                    return
                continue
            if i >= len(pairs) or i <= -len(pairs):
                continue
            if i < 0:
                ctx.cls('pop:negative_index')
            kind = 'pop:last' if i % len(pairs) == len(pairs) - 1 else 'pop:inner'
            ctx.cls(kind)
            # the model removes the i-th pair of the *object's* current order
            cur = list(zip(obj.intervals, obj.slopes))
            r = ctx.call('P1', {'after': kind}, obj.pop, i)
            if r is core.NOVALUE:
                return
            cur.pop(i)
            pairs = cur
            if not _observe(ctx, obj, pairs, spec, kind):
                return
        elif op[0] == 'reload_dict':
            # reload straight from the dictionary (no JSON text in between): the copy must be independent
            ctx.cls('reload_dict')
            new = ctx.call('P3', {'step': 'from_dict(to_dict)'}, lambda o: PiecewiseCovEffect.from_dict(o.to_dict()), obj)
            if new is core.NOVALUE:
                return
            if not ctx.check('P3', isinstance(new, PiecewiseCovEffect), {'step': 'class', 'via': 'dict'}):
                return
            shadows.append((obj, list(pairs)))
            obj = new
            if not _observe(ctx, obj, pairs, spec, 'reload_dict'):
                return
        elif op[0] == 'reload':
            ctx.cls('reload')
            before = [(x, obj.get_UoRT(x=x, T=spec['Ts'][0])) for x in spec['xs']]
            txt = ctx.call('P3', {'step': 'encode'}, json.dumps, obj, cls=pmuttEncoder)
            if txt is core.NOVALUE:
                return
            new = ctx.call('P3', {'step': 'decode'}, json.loads, txt, object_hook=json_to_pmutt)
            if new is core.NOVALUE:
                return
            if not ctx.check('P3', isinstance(new, PiecewiseCovEffect), {'step': 'class'}, got=type(new).__name__):
                return
            ctx.check('P3', list(new.intervals) == list(obj.intervals) and list(new.slopes) == list(obj.slopes),
                      {'step': 'state'}, got=[new.intervals, new.slopes], want=[obj.intervals, obj.slopes])
            after = [(x, new.get_UoRT(x=x, T=spec['Ts'][0])) for x in spec['xs']]
            ctx.close('P3', [v for _, v in after], [v for _, v in before], 1e-12, {'step': 'function'})
            obj = new
            if not _observe(ctx, obj, pairs, spec, 'reload'):
                return
    for sh_obj, sh_pairs in shadows:
        _observe(ctx, sh_obj, sh_pairs, spec, 'shadow_of_dict_reload')

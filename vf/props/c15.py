"""C15  The spreadsheet reader maps rows and special columns as documented.

Workbooks are generated cell by cell (header strings and cell values are the case spec),
written with openpyxl into ctx.tmpdir and read back with the real
``pmutt.io.excel.read_excel``.  The records are compared with an independent reference
reader (``vf/ref/excel.py``) that is fed from the *same cell matrix* (never from pandas):

X1  one record per data row, in row order
X2  every record has exactly the reference's keys and values (numbers numerically, arrays
    elementwise, classes by identity)
X3  no key whose source cells were all empty, no NaN anywhere in a record
X4  row isolation: records and their mutable values are pairwise distinct objects
INV online invariant at PY_RETURN of each ``set_*`` helper: the documented slot of
    ``output_structure`` holds the value that was passed in (probe based, not required)
"""
import math
import os
import sys

from vf import core
from vf.ref import excel as ref

ID = 'C15'
N = {'quick': 12500, 'thorough': 125000}
NT_RULE = ('workbook = sheet name + decoy sheets + comment row or not + header strings + cell matrix, '
           'drawn per case index from a seeded PRNG after a list of directed workbooks; non-trivial = '
           '>=2 data rows, >=1 special column family with a filled cell and >=1 empty cell; distinct = '
           'distinct canonical JSON of the workbook')
REQUIRED_ORACLES = ['X1', 'X2', 'X3', 'X4', 'P0']

FAMILIES = ['ordinary', 'element', 'formula', 'statmech_model', 'trans_model', 'vib_model', 'rot_model',
            'elec_model', 'nucl_model', 'vib_wavenumber', 'rot_temperature', 'nasa', 'list', 'dict']
PRESET_NAMES = ['idealgas', 'harmonic', 'electronic', 'placeholder', 'constant']
MODE_NAMES = {h: sorted(t) + ['EmptyMode'] for h, t in ref.MODE_CLASSES.items()}

REQUIRED_CLASSES = (['fam:' + f for f in FAMILIES]
                    + ['preset:' + p for p in PRESET_NAMES]
                    + ['mode:%s:%s' % (h, n) for h in MODE_NAMES for n in MODE_NAMES[h]]
                    + ['rows:1', 'rows:2-59', 'rows:60', 'comment:yes', 'comment:no',
                       'vib:1', 'vib:30', 'list:repeated', 'list:indexed', 'nasa:a_low', 'nasa:a_high',
                       'hdr:blank', 'cell:str_blank', 'cell:numstr_blank', 'cell:zero', 'cell:empty',
                       'group:empty_in_row', 'group:empty_everywhere', 'row:empty_interior', 'sheet:not_first',
                       'sheet:odd_name', 'preset:explicit_left', 'preset:explicit_right',
                       'preset:explicit_left_zero', 'preset:explicit_right_zero',
                       'element:elements.X', 'element:element.X', 'name:random_case',
                       'name:random_case:statmech_model', 'num:near_integer:numstr']
                    + ['name:random_case:' + h for h in ref.MODE_CLASSES]
                    + ['preset:%s:zero_n_degrees' % p for p in PRESET_NAMES if p != 'idealgas']
                    + ['num:%s:%s' % (k, f) for k in ('near_integer', 'big_fraction')
                       for f in ('ordinary', 'vib_wavenumber', 'list', 'dict', 'nasa')]
                    # "programs": what ran in the process before the sheet was read
                    + ['prog:none', 'prog:lsr_float', 'prog:extlsr_float', 'prog:lsr_species', 'prog:lsr_dict',
                       'prog:read_other', 'prog:edit_reread', 'prog:edit_reread:nested']
                    + ['prog:statmech_preset:' + p for p in PRESET_NAMES]
                    + ['prog:preset_used_before_row:' + p for p in PRESET_NAMES])
REQUIRED_PROBES = ['read_excel', 'set_element', 'set_formula', 'set_statmech_model', 'set_trans_model',
                   'set_vib_model', 'set_rot_model', 'set_elec_model', 'set_nucl_model',
                   'set_vib_wavenumbers', 'set_rot_temperatures', 'set_nasa_a_low', 'set_nasa_a_high',
                   'set_list_value', 'set_dict_value']
ASSUMPTIONS = [
    'the first and the last data row have at least one filled cell (a trailing empty row does not exist in the '
    'file; what a leading one means is not documented); completely empty interior rows are generated and must '
    'give an empty record',
    'headers are unique after trimming except vib_wavenumber / rot_temperature / list.name, which are '
    'documented as repeated; list.name.i columns appear with ascending i (index order == column order)',
    'ordinary headers and list/dict names contain none of the special substrings and are not record keys '
    'that special columns produce; dict keys and list names contain no delimiter',
    'a row fills either formula or element.X cells, never both; formulas do not repeat an element',
    'string cells are not blank-only, do not start with "=", are not one of pandas\' default NA markers, '
    'booleans or inf/nan spellings; string cells that spell a number may come back as that number or as '
    'the trimmed string (documentation silent) - both accepted',
    'an int cell may come back as float / numpy scalar; number cells are compared EXACTLY (float(got) == '
    'float(written value): generated floats have <= 16 significant digits, which openpyxl writes and reads back exactly), including floats within 1e-12..1e-9 relative of an '
    'integer and numbers >= 5e8 with a fractional part; string cells that spell a number are compared with '
    '|got-want| <= 2e-15*max(|got|,|want|) (pandas parses them; observed maximum reported as max_err X2)',
    'EmptyMode and the statmech_model preset names are case-insensitive (the code lower-cases them; the '
    'documentation spreadsheets write IdealGas, the table idealgas): any letter case is generated',
    'key "model" is optional when only per-mode model columns are filled; the bookkeeping keys '
    '"required"/"optional" of a preset are optional and their values are not asserted',
    'an explicit column wins over the same key of a preset wherever it stands',
    'read_excel is called with sheet_name=<name> and the default skiprows (comment row present) or '
    'skiprows=None (absent); no other option is exercised',
    'the per-mode model catalogue is fixed in vf/ref/excel.py (never derived from the live module namespaces): the '
    'classes of the mode\'s module, LSR / ExtendedLSR / ConstantMode for elec_model (ConstantMode is the elec_model '
    'of the library\'s own "constant" preset), EmptyMode everywhere',
    '"programs": before the sheet is read a case may run other public pMuTT operations (LSR / ExtendedLSR from '
    'numbers and from species, LSR to_dict/from_dict, StatMech(**presets[p]), reading another sheet) and may edit '
    'the records of a first read (incl. nested lists / dicts / arrays) and read again; failures of those '
    'operations themselves are telemetry (not C15); P0: pmutt.statmech.presets equals the documented table and '
    'its snapshot taken before the first case, at the end of every case (restored after a violation so that a '
    'case depends on its own spec only)',
]

NUM_TOL = 2e-15          # only for string cells that spell a number (parsed by pandas); number cells: exact
_BAD_STRINGS = {'', '#n/a', '#n/a n/a', '#na', '-1.#ind', '-1.#qnan', '-nan', '1.#ind', '1.#qnan', '<na>',
                'n/a', 'na', 'null', 'nan', 'none', 'true', 'false', 'inf', '-inf', 'infinity',
                '-infinity', '+inf', '+infinity'}


# ---------------------------------------------------------------- generator helpers
def _is_numeric_text(s):
    try:
        float(s)
        return True
    except ValueError:
        return False


def _safe_word(s):
    t = s.strip()
    return (t != '' and t.lower() not in _BAD_STRINGS and not _is_numeric_text(t)
            and not t.startswith('=') and t[0].isalpha())


def _pad(rng, s, p=0.3):
    if rng.random() < p:
        return ' ' * rng.choice([0, 1, 1, 2, 3]) + s + ' ' * rng.choice([0, 1, 1, 2])
    return s


_WORDS = ['CH4', 'H2O', 'H2O(S)', 'RU(S)', 'G', 'S', 'gas', 'surface', 'linear', 'nonlinear',
          'monatomic', 'H2 + 0.5O2 = H2O', 'NH3(S) + RU(S) = NH2(S) + H(S)', 'J/mol/K', 'kcal/mol',
          'terrace site', 'see note 3', 'TS1_NH3', 'a.b', 'x=1', 'N2', 'O', 'bulk', "it's", 'Δ-phase',
          'é', '50%', 'A;B', 'C,D', 'tab\tin', 'Nb', 'Na2', 'none given']
_ALPHA = 'abcdefghijklmnopqrstuvwxyzABCDEFGHIJKLMNOPQRSTUVWXYZ'
_INNER = _ALPHA + '0123456789_-+() '


def _word(rng):
    for _ in range(50):
        if rng.random() < 0.5:
            w = rng.choice(_WORDS)
        else:
            w = rng.choice(_ALPHA) + ''.join(rng.choice(_INNER) for _ in range(rng.randint(0, 9)))
            w = w.strip()
        if _safe_word(w):
            return w
    return 'word'


_NEAR_REL = (1e-10, 3e-10, 1e-12)
_BIG_FRAC = (0.25, 0.5, 0.75)


def _x16(v):
    """openpyxl writes numbers with 16 significant digits ('%.16g'); generated floats are made exactly
    representable that way, so the spec value IS the value in the file and must come back bit-equal"""
    return float('%.16g' % v) if isinstance(v, float) else v


def _near_int(rng):
    """a float close to, but not equal to, an integer (never 'round-off noise' to be removed)"""
    k = float(rng.choice([1, 2, 3, 7, 100, 298, 1500, 3000, 4401, rng.randint(1, 4500), rng.randint(1, 10 ** 6)]))
    r = rng.random()
    if r < 0.25:
        v = k * (1.0 + 2.0 ** -40)
    elif r < 0.3:
        v = k * (1.0 - 2.0 ** -40)
    else:
        v = k + rng.choice([-1.0, 1.0]) * k * rng.choice(_NEAR_REL)
    v = _x16(v)
    if v == round(v):                       # cannot happen for these k, but never emit an integer here
        v = _x16(k * (1.0 + 2.0 ** -40))
    return -v if rng.random() < 0.15 else v


def _big_frac(rng):
    """large number with an exactly representable fractional part (>= 5e8, .25/.5/.75)"""
    v = float(rng.randint(5 * 10 ** 8, rng.choice([10 ** 9, 10 ** 10, 10 ** 12, 4 * 10 ** 13]))) + rng.choice(_BIG_FRAC)
    return -v if rng.random() < 0.15 else v


def _is_near_int(v):
    if isinstance(v, bool) or not isinstance(v, float) or v != v or v in (float('inf'), float('-inf')):
        return False
    k = round(v)
    return k != v and k != 0 and abs(v - k) <= 1e-9 * abs(k) and abs(v) < 5e8


def _is_big_frac(v):
    return isinstance(v, float) and abs(v) >= 5e8 and v != round(v)


def _num(rng, kind=None):
    kind = kind or rng.choice(['int', 'float', 'float', 'small', 'zero', 'neg', 'nearint', 'bigfrac'])
    if kind == 'nearint':
        return _near_int(rng)
    if kind == 'bigfrac':
        return _big_frac(rng)
    if kind == 'int':
        return rng.randint(-5, 4000)
    if kind == 'float':
        return round(rng.uniform(0.0, 4500.0), rng.choice([1, 3, 6]))
    if kind == 'small':
        return _x16(float('%.6e' % (rng.uniform(-9, 9) * 10.0 ** rng.randint(-14, -2))))
    if kind == 'zero':
        return rng.choice([0, 0.0])
    return round(-rng.uniform(0.0, 700.0), 4)


def _numstr(rng):
    v = _num(rng, rng.choice(['int', 'float', 'neg', 'nearint']))
    s = repr(v)
    return ' ' * rng.randint(0, 2) + s + ' ' * rng.randint(1, 2)


_ELEMENTS = ['H', 'C', 'N', 'O', 'Ru', 'Pt', 'Na', 'Cl', 'S', 'Si', 'He', 'Cu', 'RU']
_ORD_POOL = ['name', 'phase', 'potentialenergy', 'spin', 'symmetrynumber', 'geometry', 'T_low', 'T_high',
             'T_ref', 'HoRT_ref', 'notes', 'n_sites', 'reaction_str', 'beta', 'A', 'Ea', 'density',
             'site_density', 'molecular_weight', 'smiles', 'Description', 'act_energy', 'cat_abyv',
             'mode', 'note', 'slope', 'intercept', 'direction', 'n_degrees', 'is_adsorption', 'energy',
             # near misses of the special headings (different case / not the documented substring)
             'Formula', 'NASA', 'List.tags', 'Dict.opts.a', 'Element.H', 'atom', 'model_name',
             'vib_wavenumbe', 'Statmech_Model', 'a_low_0', 'listing', 'dictionary']
_NAME_POOL = ['intervals', 'slopes', 'phases', 'tags', 'initial_state', 'opts', 'misc', 'kw', 'Ts',
              'species_names', 'x0', 'bounds']
_KEY_POOL = ['NH3', 'RU(S)', 'RU(T)', 'a', 'b', 'tol', 'max iter', 'H2', '1', '2', 'k_0', 'T']
_HDR_INNER = _ALPHA + '0123456789_ ()-'


def _ident(rng, taken, pool, allow_dot=False):
    """identifier usable as ordinary header / list name / dict name (trimmed form unique)."""
    for _ in range(200):
        if rng.random() < 0.7:
            w = rng.choice(pool)
        else:
            w = rng.choice(_ALPHA) + ''.join(rng.choice(_HDR_INNER) for _ in range(rng.randint(0, 10)))
            w = w.strip()
            if allow_dot and rng.random() < 0.15 and len(w) > 2:
                k = rng.randint(1, len(w) - 1)
                w = (w[:k].strip() + '.' + w[k:].strip()).strip('.')
        if (w and w not in taken and w not in ref.RESERVED_KEYS and (allow_dot or '.' not in w)
                and not any(s in '.%s.' % w for s in ref.SPECIAL_SUBSTRINGS)):
            taken.add(w)
            return w
    raise core.HarnessError('identifier pool exhausted')


def _formula(rng):
    while True:
        els = rng.sample([e for e in _ELEMENTS if e != 'RU'], rng.randint(1, 4))
        out = ''
        for e in els:
            n = rng.choice([1, 1, 2, 3, 4, 10, 12])
            out += e + (str(n) if n != 1 or rng.random() < 0.2 else '')
        if _safe_word(out):            # 'NaN' (Na + N) is one of pandas' NA markers
            return out


_CAMEL = {'idealgas': 'IdealGas', 'harmonic': 'Harmonic', 'electronic': 'Electronic',
          'placeholder': 'Placeholder', 'constant': 'Constant'}


def _rand_case(rng, s):
    """the documented names are case-insensitive: any letter case must work"""
    r = rng.random()
    if r < 0.25:
        return s.upper()
    if r < 0.4:
        return s.lower().capitalize()
    if r < 0.55:
        return s[0].lower() + s[1:]
    for _ in range(20):
        t = ''.join(c.upper() if rng.random() < 0.5 else c.lower() for c in s)
        if t not in (s, s.lower()):
            return t
    return s.upper()


def _preset_name(rng, p=None):
    p = p or rng.choice(PRESET_NAMES)
    r = rng.random()
    if r < 0.35:
        return p
    if r < 0.7:
        return _CAMEL[p]
    return _rand_case(rng, _CAMEL[p])


def _mode_name(rng, header, name=None):
    name = name or rng.choice(MODE_NAMES[header] + ['EmptyMode'])
    if name == 'EmptyMode':
        r = rng.random()
        if r < 0.25:
            return 'emptymode'
        if r < 0.6:
            return _rand_case(rng, 'EmptyMode')
    return name


def _sheet_name(rng):
    r = rng.random()
    if r < 0.3:
        return rng.choice(['Sheet1', 'species', 'refs', 'reactions', 'lateral_interactions'])
    alphabet = _ALPHA + "0123456789 ._-()+,;'#&é Δ"
    for _ in range(50):
        n = rng.choice([1, 2, 5, 12, 31, rng.randint(1, 31)])
        s = ''.join(rng.choice(alphabet) for _ in range(n))
        if s.strip() and not s.startswith("'") and not s.endswith("'"):
            return s
    return 'data'


# ---------------------------------------------------------------- generator
class _Col:
    def __init__(self, header, fam, gen, group):
        self.header, self.fam, self.gen, self.group = header, fam, gen, group


def _build(rng, nrows, fams, opts=None):
    """-> headers, rows.  fams: list of family names to include."""
    opts = opts or {}
    taken = set()
    cols = []
    hdr_pad = opts.get('hdr_pad', rng.choice([0.0, 0.0, 0.15, 0.5]))

    def H(s):
        return _pad(rng, s, hdr_pad)

    gid = [0]

    def group():
        gid[0] += 1
        return gid[0]

    if opts.get('n_degrees') and 'statmech_model' in fams:
        # ordinary column whose key the idealgas preset also defines; a falsy value (0, 0.0) is a value
        taken.add('n_degrees')
        zero = rng.choice([[0], [0.0], [0, 0.0, 0, 1, 2, 3]])
        cols.append(_Col(H('n_degrees'), 'ordinary', lambda rng, zero=zero: rng.choice(zero), group()))
    if 'ordinary' in fams:
        for _ in range(opts.get('n_ord', rng.randint(1, 8))):
            name = _ident(rng, taken, _ORD_POOL, allow_dot=True)
            kind = rng.choice(['num', 'num', 'str', 'str', 'mixed', 'numstr', 'int'])
            if name == 'n_degrees':
                kind = 'int'

            def g(rng, kind=kind):
                k = kind if kind != 'mixed' else rng.choice(['num', 'str', 'numstr'])
                if k == 'num':
                    return _num(rng)
                if k == 'int':
                    return rng.randint(0, 6)
                if k == 'numstr':
                    return _numstr(rng)
                return _pad(rng, _word(rng))
            cols.append(_Col(H(name), 'ordinary', g, group()))
    if 'element' in fams:
        g_el = group()
        prefix = opts.get('el_prefix', rng.choice(['element', 'elements']))
        for e in rng.sample(_ELEMENTS, rng.randint(1, 5)):
            cols.append(_Col(H('%s.%s' % (prefix, e)), 'element',
                             lambda rng: rng.choice([0, 1, 1, 2, 3, 4, 6, 10, 12]), g_el))
    if 'formula' in fams:
        cols.append(_Col(H('formula'), 'formula', lambda rng: _pad(rng, _formula(rng)), group()))
    if 'statmech_model' in fams:
        fixed = opts.get('preset')
        cols.append(_Col(H('statmech_model'), 'statmech_model',
                         lambda rng: _pad(rng, _preset_name(rng, fixed)), group()))
    for h in ref.MODE_HEADERS:
        if h in fams:
            cols.append(_Col(H(h), h, lambda rng, h=h: _pad(rng, _mode_name(rng, h)), group()))
    if 'vib_wavenumber' in fams:
        g_v = group()
        n = opts.get('n_vib', rng.choice([1, 2, 3, 6, 9, 30, rng.randint(1, 30)]))
        style = rng.choice(['plain', 'plain', 'same', 'varied'])
        same = _pad(rng, 'vib_wavenumber', 1.0)
        for _ in range(n):
            h = {'plain': 'vib_wavenumber', 'same': same}.get(style) or _pad(rng, 'vib_wavenumber', 0.5)
            cols.append(_Col(h, 'vib_wavenumber',
                             lambda rng: _num(rng, rng.choice(['float', 'float', 'float', 'int', 'zero', 'neg', 'nearint',
                                                               'nearint', 'bigfrac'])),
                             g_v))
    if 'rot_temperature' in fams:
        g_r = group()
        for _ in range(rng.randint(1, 3)):
            cols.append(_Col(H('rot_temperature'), 'rot_temperature',
                             lambda rng: round(rng.uniform(0.01, 90.0), 4), g_r))
    if 'nasa' in fams:
        for which in rng.choice([['a_low'], ['a_high'], ['a_low', 'a_high'], ['a_low', 'a_high']]):
            g_n = group()
            idx = rng.sample(range(7), rng.choice([7, 7, rng.randint(1, 7)]))
            if rng.random() < 0.5:
                idx.sort()
            for i in idx:
                cols.append(_Col(H('nasa.%s.%d' % (which, i)), 'nasa',
                                 lambda rng: _num(rng, rng.choice(['float', 'small', 'small', 'neg', 'zero', 'int', 'nearint',
                                                                   'bigfrac'])),
                                 g_n))
    if 'list' in fams:
        for _ in range(rng.randint(1, 3)):
            g_l = group()
            name = _ident(rng, taken, _NAME_POOL)
            n = rng.randint(1, 6)
            style = opts.get('list_style', rng.choice(['repeated', 'repeated', 'indexed', 'indexed1',
                                                       'repeated_same_pad', 'repeated_varied']))
            kind = rng.choice(['num', 'str', 'mixed'])
            same = _pad(rng, 'list.' + name, 1.0)
            for i in range(n):
                if style == 'repeated':
                    h = 'list.' + name
                elif style == 'indexed':
                    h = H('list.%s.%d' % (name, i))
                elif style == 'indexed1':
                    h = H('list.%s.%d' % (name, i + 1))
                elif style == 'repeated_same_pad':
                    h = same
                else:
                    h = _pad(rng, 'list.' + name, 0.6)

                def g(rng, kind=kind):
                    k = kind if kind != 'mixed' else rng.choice(['num', 'str'])
                    return _num(rng) if k == 'num' else _pad(rng, _word(rng))
                cols.append(_Col(h, 'list', g, g_l))
    if 'dict' in fams:
        for _ in range(rng.randint(1, 2)):
            g_d = group()
            name = _ident(rng, taken, _NAME_POOL)
            keys = set()
            for _k in range(rng.randint(1, 4)):
                key = rng.choice(_KEY_POOL) if rng.random() < 0.7 else _ident(rng, set(), _KEY_POOL)
                if key in keys or '.' in key:
                    continue
                keys.add(key)

                def g(rng):
                    return _num(rng) if rng.random() < 0.6 else _pad(rng, _word(rng))
                cols.append(_Col(H('dict.%s.%s' % (name, key)), 'dict', g, g_d))

    # column order: fully shuffled, or groups kept together in random order
    order = rng.choice(['shuffle', 'groups', 'groups'])
    if order == 'shuffle':
        # keep the relative order inside a group whose order is meaningful (indexed lists)
        pos = list(range(len(cols)))
        rng.shuffle(pos)
        by_group = {}
        for p, c in sorted(zip(pos, cols), key=lambda t: t[0]):
            by_group.setdefault(c.group, []).append(p)
        slots = {g: sorted(ps) for g, ps in by_group.items()}
        placed = [None] * len(cols)
        for c in cols:                      # original (meaningful) order inside each group
            placed[slots[c.group].pop(0)] = c
        cols = placed
    else:
        groups = {}
        for c in cols:
            groups.setdefault(c.group, []).append(c)
        gl = list(groups.values())
        rng.shuffle(gl)
        cols = [c for g in gl for c in g]

    # empty-cell pattern
    p_col = [rng.choice([0.0, 0.1, 0.3, 0.6, 0.9, 1.0]) if rng.random() < 0.8 else 0.0 for _ in cols]
    gids = sorted(set(c.group for c in cols))
    dead_groups = set(g for g in gids if rng.random() < 0.08)          # empty in every row
    p_group_row = {g: rng.choice([0.0, 0.2, 0.5]) for g in gids}       # empty in a given row
    rows = []
    for _ in range(nrows):
        blank_g = set(g for g in gids if rng.random() < p_group_row[g]) | dead_groups
        row = []
        for j, c in enumerate(cols):
            if c.group in blank_g or rng.random() < p_col[j]:
                row.append(None)
            else:
                row.append(c.gen(rng))
        _fix_row(rng, cols, row, dead_groups)
        rows.append(row)
    for c in cols:
        _check_header(c.header.strip(), c.fam)
    return [c.header for c in cols], rows


_OWN = {'element': ('element',), 'nasa': ('nasa',), 'list': ('list.',), 'dict': ('dict.',),
        'ordinary': ()}


def _check_header(h, fam):
    """the header must be special in exactly one documented way (precedence between two
    special substrings in one header is not documented)"""
    own = _OWN.get(fam, (fam,))
    hit = [s for s in ref.SPECIAL_SUBSTRINGS if s in h]
    if sorted(hit) != sorted(own) or ref.classify(h)[0] != fam:
        raise core.HarnessError('ambiguous header %r (%s): %s' % (h, fam, hit))


def _fix_row(rng, cols, row, dead_groups=()):
    # formula and element cells are exclusive within a row
    if any(c.fam == 'formula' and v is not None for c, v in zip(cols, row)):
        if rng.random() < 0.5:
            for j, c in enumerate(cols):
                if c.fam == 'element':
                    row[j] = None
        else:
            for j, c in enumerate(cols):
                if c.fam == 'formula':
                    row[j] = None
    # at least one filled cell per data row
    if all(v is None for v in row):
        live = [j for j, c in enumerate(cols) if c.group not in dead_groups] or list(range(len(cols)))
        j = rng.choice(live)
        row[j] = cols[j].gen(rng)
        if cols[j].fam == 'formula':
            for k, c in enumerate(cols):
                if c.fam == 'element':
                    row[k] = None


def _comment_row(rng, ncols):
    row = [rng.choice([None, 'comment', 'units: cm-1', 'K', 1, 2.5, 'IdealGas', 'H2O', ' x ', 'EmptyNucl',
                       'not a number']) for _ in range(ncols)]
    if all(v is None for v in row):
        row[0] = 'comment'
    return row


def _spec(rng, headers, rows, comment=None, sheet=None, decoys=None):
    comment = rng.random() < 0.6 if comment is None else comment
    sheet = sheet if sheet is not None else _sheet_name(rng)
    if decoys is None:
        r = rng.random()
        decoys = [0, 0] if r < 0.4 else ([1, 0] if r < 0.7 else ([0, 1] if r < 0.85 else [2, 1]))
    return {'sheet': sheet, 'decoys_before': decoys[0], 'decoys_after': decoys[1],
            'comment': _comment_row(rng, len(headers)) if comment else None,
            'headers': headers, 'rows': rows}


def generate(rng, tier):
    nrows = rng.choice([1, 2, 3, 60, rng.randint(1, 60), rng.randint(1, 60), rng.randint(2, 20)])
    special = [f for f in FAMILIES if f != 'ordinary']
    k = rng.choice([1, 2, 3, 5, 8, len(special)])
    fams = rng.sample(special, k)
    if rng.random() < 0.85:
        fams.append('ordinary')
    opts = {}
    if 'statmech_model' in fams and rng.random() < 0.5:
        opts['n_degrees'] = True
    if 'statmech_model' in fams and rng.random() < 0.5:
        # explicit columns that compete with a preset
        for h in rng.sample(list(ref.MODE_HEADERS), rng.randint(1, 3)):
            if h not in fams:
                fams.append(h)
    headers, rows = _build(rng, nrows, fams, opts)
    # completely empty *interior* data rows ("any pattern of empty cells"): one (empty) record each
    if len(rows) >= 3 and rng.random() < 0.2:
        for j in rng.sample(range(1, len(rows) - 1), min(2, len(rows) - 2)):
            rows[j] = [None] * len(headers)
    spec = _spec(rng, headers, rows)
    spec['program'] = _program(rng, 'statmech_model' in fams)
    return spec


def _e(rng):
    return round(rng.uniform(-60.0, 60.0), 3)


def _program(rng, has_preset):
    """operations run in the same process before the sheet is read ("programs" of the quantifier)"""
    if rng.random() < (0.3 if has_preset else 0.5):
        return []
    ops = []
    for _ in range(rng.choice([1, 1, 2, 3])):
        kind = rng.choice(['lsr_float', 'extlsr_float', 'lsr_species', 'lsr_dict', 'statmech_preset',
                           'statmech_preset', 'read_other', 'edit_reread'])
        if kind in ('lsr_float', 'lsr_dict'):
            ops.append([kind, round(rng.uniform(0, 1), 3), _e(rng), _e(rng), _e(rng), _e(rng)])
        elif kind == 'extlsr_float':
            n = rng.randint(1, 3)
            ops.append([kind, [round(rng.uniform(0, 1), 3) for _ in range(n)], _e(rng),
                        [_e(rng) for _ in range(n)], [_e(rng) for _ in range(n)], [_e(rng) for _ in range(n)]])
        elif kind == 'lsr_species':
            ops.append([kind, round(rng.uniform(0, 1), 3), _e(rng), _e(rng), _e(rng), _e(rng)])
        elif kind == 'statmech_preset':
            ops.append([kind, rng.choice(PRESET_NAMES)])
        elif not any(o[0] == kind for o in ops):
            ops.append([kind])
    return ops


# ---------------------------------------------------------------- directed cases
def directed(tier):
    import random
    D = []
    # 0: pinned witness - nuclear model named by its real class
    D.append({'sheet': 'species', 'decoys_before': 0, 'decoys_after': 0, 'comment': ['c', None],
              'headers': ['name', 'nucl_model'], 'rows': [['H2', 'EmptyNucl'], ['O2', 'EmptyMode']]})
    # 1: pinned witness - repeated list header with a trailing blank
    D.append({'sheet': 'lateral_interactions', 'decoys_before': 0, 'decoys_after': 0, 'comment': None,
              'headers': ['name_i', 'list.intervals ', 'list.intervals ', 'list.intervals '],
              'rows': [['H(S)', 0, 0.25, 0.5], ['N(S)', 0, None, 0.75]]})
    # 2: every preset, explicit competitors left and right of statmech_model
    hdr = ['vib_model', 'n_degrees', 'statmech_model', 'elec_model', 'rot_model', 'name']
    rows = []
    for p in PRESET_NAMES:
        rows.append([None, None, p, None, None, p])
        rows.append(['EinsteinVib', 2, ' %s ' % _CAMEL[p], 'LSR', 'EmptyMode', p + '_explicit'])
        rows.append([None, None, None, None, None, p + '_none'])
    D.append({'sheet': 'presets', 'decoys_before': 1, 'decoys_after': 1, 'comment': ['x'] * 6,
              'headers': hdr, 'rows': rows})
    # 3: every per-mode model name, one per row, nothing else in the row (leak detector)
    hdr = ['id'] + list(ref.MODE_HEADERS)
    rows = []
    i = 0
    for h in ref.MODE_HEADERS:
        for n in MODE_NAMES[h] + ['emptymode']:
            i += 1
            r = [i] + [None] * len(ref.MODE_HEADERS)
            r[1 + list(ref.MODE_HEADERS).index(h)] = ' %s ' % n if i % 2 else n
            rows.append(r)
            rows.append([-i] + [None] * len(ref.MODE_HEADERS))
    D.append({'sheet': 'modes', 'decoys_before': 0, 'decoys_after': 1, 'comment': None,
              'headers': hdr, 'rows': rows})
    # 4: boundary sizes - 60 rows, 30 wavenumbers, all families; 5: a single row without comment row
    rng = random.Random('C15-directed-4')
    headers, rows = _build(rng, 60, list(FAMILIES), {'n_vib': 30, 'hdr_pad': 0.3})
    D.append(_spec(rng, headers, rows, comment=True, sheet="60 rows.x (b)", decoys=[1, 1]))
    rng = random.Random('C15-directed-5')
    headers, rows = _build(rng, 1, list(FAMILIES), {'n_vib': 1, 'hdr_pad': 0.0})
    D.append(_spec(rng, headers, rows, comment=False, sheet='S', decoys=[0, 0]))
    # 6: zeros are values, not empty cells; alternate full / empty rows (leak detector)
    hdr = ['name', 'vib_wavenumber', 'vib_wavenumber', 'rot_temperature', 'nasa.a_low.0', 'nasa.a_high.6',
           'list.v', 'list.v', 'dict.d.k', 'element.H', 'spin', 'elements.O']
    D.append({'sheet': 'zeros', 'decoys_before': 0, 'decoys_after': 0, 'comment': [0] * 12, 'headers': hdr,
              'rows': [['a', 0, 0.0, 0, 0, 0.0, 0, 0.0, 0, 0, 0, 0],
                       ['b'] + [None] * 11,
                       ['c', None, 5.5, None, None, 1e-12, None, 'z', None, None, 0.0, 2],
                       [None] * 10 + [1, None]]})
    # 7: wavenumbers interleaved with other columns, order must be column order
    hdr = ['vib_wavenumber', 'name', ' vib_wavenumber', 'list.q.0', 'vib_wavenumber ', 'list.q.1',
           'vib_wavenumber', 'formula', 'list.q.2', 'vib_wavenumber']
    D.append({'sheet': 'Sheet1', 'decoys_before': 2, 'decoys_after': 0, 'comment': ['cm-1'] * 10,
              'headers': hdr,
              'rows': [[3000.5, ' CH4 ', 1500, 'a', 1300.25, 'b', None, ' CH4', 'c', 200],
                       [None, 'H2', 4401.2, None, None, 'only', None, 'H2', None, None],
                       [1, 'NH3', 2, 3, 3, 2, 4, 'NH3', 1, 5]]})
    # 8/9: a zero-valued explicit n_degrees (falsy, but a value) left / right of every preset
    rows = []
    for k, p in enumerate(PRESET_NAMES):
        rows.append([0 if k % 2 else 0.0, _CAMEL[p], p + '_zero'])
        rows.append([0.0 if k % 2 else 0, p, p + '_zero2'])
        rows.append([None, p, p + '_preset_only'])
    rows.append([0, None, 'no_preset'])
    D.append({'sheet': 'zero_left', 'decoys_before': 0, 'decoys_after': 0, 'comment': ['c'] * 3,
              'headers': ['n_degrees', 'statmech_model', 'name'], 'rows': rows})
    D.append({'sheet': 'zero_right', 'decoys_before': 0, 'decoys_after': 0, 'comment': None,
              'headers': ['name', 'statmech_model', ' n_degrees '], 'rows': [[r[2], r[1], r[0]] for r in rows]})
    # 10: every case-insensitive name in odd letter case
    hdr = ['id'] + list(ref.MODE_HEADERS) + ['statmech_model']
    rows = []
    odd = ['EMPTYMODE', 'Emptymode', 'emptyMode', 'eMPTYmODE', ' EmptyMODE ']
    for k, v in enumerate(odd):
        for j in range(len(ref.MODE_HEADERS)):
            r = [10 * k + j] + [None] * (len(ref.MODE_HEADERS) + 1)
            r[1 + j] = v
            rows.append(r)
        rows.append([100 + k] + [odd[(k + j) % len(odd)] for j in range(len(ref.MODE_HEADERS))] + [None])
    for k, v in enumerate(['IDEALGAS', 'idealGas', 'HARMONIC', 'harMonic', 'ELECTRONIC', 'eLECTRONIC', 'PLACEHOLDER',
                           'PlaceHolder', 'CONSTANT', 'cONSTANT']):
        rows.append([200 + k] + [None] * len(ref.MODE_HEADERS) + [v])
    D.append({'sheet': 'letter case', 'decoys_before': 0, 'decoys_after': 0, 'comment': None,
              'headers': hdr, 'rows': rows})
    # 11: floats next to an integer and large numbers with a fraction are values, not round-off noise
    hdr = ['energy', 'vib_wavenumber', 'vib_wavenumber', 'list.xs', 'list.xs', 'dict.d.a', 'nasa.a_low.0',
           'nasa.a_high.5', 'T_ref']
    near = [1500.0000000004, 1500.0 * (1 + 2.0 ** -40), 3000.0 - 3000.0 * 1e-10, 7.0 + 7.0 * 3e-10,
            298.0 + 298.0 * 1e-12, 1.0000000001, -4401.0 * (1 + 1e-10), 999999.9999]
    big = [4167824531.75, 500000000.5, 987654321012.25, -5e8 - 0.75]
    rows = []
    for k in range(len(near)):
        a, b = near[k], big[k % len(big)]
        a, b, c = _x16(a), _x16(b), _x16(near[(k + 1) % len(near)])
        rows.append([a, b, a, a, b, b, a, b, c])
        rows.append([b, a, None, None, a, a, b, a, None])
    D.append({'sheet': 'near integers', 'decoys_before': 0, 'decoys_after': 0, 'comment': ['x'] * 9,
              'headers': hdr, 'rows': rows})
    # 12/13: program context - every preset is used by other public operations before rows naming it are read;
    # rows with and without cells for keys such an operation could leak (notes, U, H ...); records of a first
    # read are edited (nested values too) and the sheet is read again
    hdr = ['name', 'statmech_model', 'notes', 'U', 'dict.opts.a', 'list.tags', 'list.tags', 'nasa.a_low.0']
    rows = []
    for p in PRESET_NAMES:
        rows.append([p, p, None, None, None, None, None, None])
        rows.append([p + '+', _CAMEL[p], 'own note', 1.5, 2, 'x', 'y', 0.5])
    rows.append(['none', None, None, None, 3, None, 'z', None])
    prog = [['lsr_float', 0.5, 1.2, -20.0, -5.0, 2.0], ['extlsr_float', [0.5, 0.2], 1.0, [-20.0, 3.0], [-5.0, 1.0],
            [2.0, 0.5]], ['lsr_species', 1.0, 0.0, 1.0, 2.0, 3.0], ['lsr_dict', 0.3, 0.1, -2.0, 0.0, 0.0]]
    prog += [['statmech_preset', p] for p in PRESET_NAMES]
    D.append({'sheet': 'after a program', 'decoys_before': 1, 'decoys_after': 0, 'comment': None,
              'headers': hdr, 'rows': rows, 'program': prog + [['read_other'], ['edit_reread']]})
    D.append({'sheet': 'program, no edit', 'decoys_before': 0, 'decoys_after': 1, 'comment': ['c'] * 8,
              'headers': ['name', 'statmech_model', 'elec_model'],
              'rows': [['a', 'constant', None], ['b', None, 'ConstantMode'], ['c', 'Constant', ' ConstantMode '],
                       ['d', 'placeholder', 'ConstantMode'], ['e', None, None]],
              'program': [['lsr_float', 1.0, 0.0, 4167824531.75, 0.0, 1500.0000000004], ['read_other']]})
    return D


# ---------------------------------------------------------------- workbook writer
def _write(spec, path):
    from openpyxl import Workbook
    wb = Workbook(write_only=True)

    def decoy(title):
        ws = wb.create_sheet(title=title)
        ws.append(['name', 'vib_wavenumber', 'list.decoy', 'DECOY', 'statmech_model', 'notes', 'dict.decoyd.k',
                   'nasa.a_low.0'])
        ws.append(['decoy comment'])
        ws.append(['DECOY', 1.0, 'x', 1, 'constant', 'decoy note', 7, 0.25])
        ws.append(['DECOY2', 2.0, 'y', 2, 'IdealGas', None, None, None])
    names = set([spec['sheet'].lower()])
    k = 0
    for _ in range(spec['decoys_before']):
        k += 1
        while ('decoy%d' % k) in names:
            k += 1
        decoy('decoy%d' % k)
    ws = wb.create_sheet(title=spec['sheet'])
    ws.append(list(spec['headers']))
    if spec['comment'] is not None:
        ws.append(list(spec['comment']))
    for r in spec['rows']:
        ws.append(list(r))
    for _ in range(spec['decoys_after']):
        k += 1
        while ('decoy%d' % k) in names:
            k += 1
        decoy('decoy%d' % k)
    wb.save(path)


# ---------------------------------------------------------------- probes
_P = {'ctx': None}
_SETTER_FAMILY = {'set_element': 'element', 'set_formula': 'formula', 'parse_formula': 'formula',
                  'set_statmech_model': 'statmech_model', 'set_trans_model': 'trans_model',
                  'set_vib_model': 'vib_model', 'set_rot_model': 'rot_model', 'set_elec_model': 'elec_model',
                  'set_nucl_model': 'nucl_model', 'set_vib_wavenumbers': 'vib_wavenumber',
                  'set_rot_temperatures': 'rot_temperature', 'set_nasa_a_low': 'nasa',
                  'set_nasa_a_high': 'nasa', 'set_list_value': 'list', 'set_dict_value': 'dict'}


def _same(a, b):
    if a is b:
        return True
    try:
        return bool(a == b)
    except Exception:
        return False


def _inv(label, ret, snap):
    """Online invariant at PY_RETURN of a set_* helper: the documented slot holds the value."""
    ctx = _P['ctx']
    if ctx is None or not isinstance(snap, dict):
        return
    os_ = snap.get('output_structure')
    if not isinstance(os_, dict):
        return
    fam = _SETTER_FAMILY.get(label)
    mech = {'column': fam, 'rule': 'INV', 'at': label}
    v = snap.get('value')
    try:
        if label == 'set_vib_wavenumbers':
            ok = _same(os_['vib_wavenumbers'][-1], v)
        elif label == 'set_rot_temperatures':
            ok = _same(os_['rot_temperatures'][-1], v)
        elif label == 'set_list_value':
            ok = _same(os_[snap['header']][-1], v)
        elif label == 'set_dict_value':
            ok = _same(os_[snap['dict_name']][snap['key']], v)
        elif label == 'set_element':
            sym = snap['header'].split(snap.get('delimiter', '.'))[-1]
            ok = _same(os_['elements'][sym], v)
        elif label in ('set_nasa_a_low', 'set_nasa_a_high'):
            key = 'a_low' if label.endswith('low') else 'a_high'
            i = int(snap['header'].split(snap.get('delimiter', '.'))[-1])
            ok = len(os_[key]) == 7 and _same(float(os_[key][i]), float(v))
        elif label == 'set_formula':
            ok = isinstance(os_.get('elements'), dict) and len(os_['elements']) > 0
        else:
            return
    except Exception as e:                                   # slot missing
        ctx.fail('INV', dict(mech, exc=type(e).__name__))
        return
    ctx.check('INV', ok, mech, value=v)


def install_probes(pr, ctx):
    _P['ctx'] = ctx
    _snapshot_presets()

    def mod():
        import pmutt.io.excel as m
        return m
    pr.watch(lambda: mod().read_excel, 'read_excel')
    snap = lambda label, loc: dict(loc)
    for name in _SETTER_FAMILY:
        if name == 'parse_formula':
            continue
        pr.watch(lambda name=name: getattr(mod(), name), name, on_call=snap, on_ret=_inv)


# ---------------------------------------------------------------- comparison
def _isnan(x):
    try:
        return isinstance(x, float) and math.isnan(x) or (hasattr(x, 'dtype') and x.ndim == 0 and bool(x != x))
    except Exception:
        return False


def _is_number(x):
    import numpy as np
    return isinstance(x, (int, float, np.integer, np.floating)) and not isinstance(x, (bool, np.bool_))


def _scalar_eq(got, want):
    """documented value of one cell; returns (ok, max relative error)"""
    if isinstance(want, str):
        if isinstance(got, str):
            if got == want:
                return True, 0.0
            if _is_numeric_text(want) and _is_numeric_text(got):
                return _num_eq(float(got), float(want))
            return False, None
        if _is_numeric_text(want) and _is_number(got):
            return _num_eq(float(got), float(want))
        return False, None
    if not _is_number(got):
        return False, None
    # a number cell round-trips exactly through xlsx (generated floats have <= 16 significant digits, which
    # is what openpyxl writes): bit equality
    return (float(got) == float(want)), 0.0


_ERR = [0.0]


def _num_eq(g, w):
    if g == w:
        return True, 0.0
    if math.isnan(g) or math.isnan(w):
        return False, None
    e = abs(g - w) / max(abs(g), abs(w))          # purely relative: NASA coefficients are tiny
    if e <= NUM_TOL and e > _ERR[0]:
        _ERR[0] = e
    return e <= NUM_TOL, e


def _resolve(sym):
    import importlib
    modname, cls = sym
    m = importlib.import_module('pmutt.statmech' + ('.' + modname if modname else ''))
    return getattr(m, cls)


def _value_eq(got, want):
    """-> (ok, what) comparing one record value with the reference value."""
    import numpy as np
    if isinstance(want, ref.Cls):
        return (got is _resolve(want)), 'class'
    if isinstance(want, ref.Arr):
        if not isinstance(got, (np.ndarray, list, tuple)) or len(got) != len(want):
            return False, 'array_shape'
        for g, w in zip(list(got), want):
            if not _scalar_eq(g, w)[0]:
                return False, 'array_value'
        return True, ''
    if isinstance(want, list):
        if not isinstance(got, list):
            return False, 'type'
        if len(got) != len(want):
            return False, 'list_length'
        if all(_scalar_eq(g, w)[0] for g, w in zip(got, want)):
            return True, ''
        # same multiset in another order?
        rest = list(want)
        for g in got:
            for k, w in enumerate(rest):
                if _scalar_eq(g, w)[0]:
                    rest.pop(k)
                    break
            else:
                return False, 'list_value'
        return False, 'list_order'
    if isinstance(want, dict):
        if not isinstance(got, dict):
            return False, 'type'
        if set(got) != set(want):
            return False, 'dict_keys'
        for k in want:
            if not _scalar_eq(got[k], want[k])[0]:
                return False, 'dict_value'
        return True, ''
    return _scalar_eq(got, want)[0], 'value'


def _has_nan(v):
    import numpy as np
    if isinstance(v, dict):
        return any(_has_nan(x) for x in v.values())
    if isinstance(v, (list, tuple)):
        return any(_has_nan(x) for x in v)
    if isinstance(v, np.ndarray):
        try:
            return bool(np.isnan(v.astype(float)).any())
        except Exception:
            return False
    return _isnan(v)


def _record_matches(got, r):
    if not isinstance(got, dict):
        return False
    for k, w in r['values'].items():
        if k not in got or not _value_eq(got[k], w)[0]:
            return False
    return all(k in r['values'] or k in r['optional'] for k in got)


def _hdr_class(headers, cols):
    raw = [headers[c] for c in cols]
    for h in set(raw):
        if h != h.rstrip() and headers.count(h) >= 2:
            return 'trailing_blank_repeated'
    if any(h != h.strip() for h in raw):
        return 'blank'
    return 'plain'


def _compare(ctx, spec, headers, rows, records, refs):
    import numpy as np
    n = len(rows)
    if not isinstance(records, list):
        ctx.fail('X1', {'column': 'sheet', 'rule': 'X1', 'what': 'not_a_list'}, got=type(records).__name__)
        return
    if len(records) != n:
        ctx.fail('X1', {'column': 'sheet', 'rule': 'X1', 'what': 'record_count'}, got=len(records), want=n,
                 first=records[:2])
        return
    match = [_record_matches(g, r) for g, r in zip(records, refs)]
    if not all(match) and n > 1:
        # a permutation of the expected records?  (greedy matching on the mismatching ones)
        bad = [i for i in range(n) if not match[i]]
        free = list(bad)
        perm_ok = True
        for i in bad:
            for j in free:
                if j != i and _record_matches(records[i], refs[j]):
                    free.remove(j)
                    break
            else:
                perm_ok = False
                break
        if perm_ok:
            ctx.fail('X1', {'column': 'sheet', 'rule': 'X1', 'what': 'row_order'}, rows_out_of_place=bad[:10])
            return
    ctx.held('X1')
    keyfam = ref.key_families(headers)
    fam_cols = {}
    for j, h in enumerate(headers):
        fam_cols.setdefault(ref.classify(h.strip())[0], []).append(j)
    all_hdr_cls = {f: _hdr_class(headers, cs) for f, cs in fam_cols.items()}
    for i, (got, r) in enumerate(zip(records, refs)):
        if not isinstance(got, dict):
            ctx.fail('X2', {'column': 'sheet', 'rule': 'X2', 'what': 'record_type'}, row=i)
            continue
        want = r['values']
        # X2 values / missing keys
        for k, w in want.items():
            fam = r['family'][k]
            mech = {'column': fam, 'rule': 'X2', 'hdr': _hdr_class(headers, r['src'][k])}
            if k not in got:
                ctx.fail('X2', dict(mech, what='missing_key'), row=i, key=k, want=w, got_keys=sorted(map(str, got)))
                continue
            ok, what = _value_eq(got[k], w)
            ctx.check('X2', ok, dict(mech, what=what), row=i, key=k, got=got[k], want=w)
        # keys that should not be there: X3 when all their source cells are empty, else X2
        extra = 0
        for k, v in got.items():
            if k in want:
                continue
            if k in r['optional']:
                if k == 'model':
                    ctx.check('X2', v is _resolve(ref.STATMECH),
                              {'column': 'mode_model', 'rule': 'X2', 'what': 'class', 'hdr': 'plain'},
                              row=i, key=k, got=v)
                continue
            extra += 1
            ks = k.strip() if isinstance(k, str) else k
            fam = keyfam.get(k) or keyfam.get(ks)
            if fam is None and isinstance(ks, str):
                # e.g. 'tags.1', 'tags ' : attribute to the list/dict family of that name
                stem = ks.split('.')[0].strip()
                fam = keyfam.get(stem)
            fam = fam or 'unknown'
            hdr = all_hdr_cls.get(fam, 'plain')
            if fam != 'unknown' and (k in keyfam):
                ctx.fail('X3', {'column': fam, 'rule': 'X3', 'what': 'key_from_empty_cells', 'hdr': hdr},
                         row=i, key=k, got=v, row_cells=rows[i])
            else:
                ctx.fail('X2', {'column': fam, 'rule': 'X2', 'what': 'unexpected_key', 'hdr': hdr},
                         row=i, key=k, got=v, want_keys=sorted(want))
        if not extra:
            ctx.held('X3')
        # X3 NaN anywhere
        for k, v in got.items():
            if _has_nan(v):
                fam = keyfam.get(k, 'unknown')
                ctx.fail('X3', {'column': fam, 'rule': 'X3', 'what': 'nan_value',
                                'hdr': all_hdr_cls.get(fam, 'plain')}, row=i, key=k, got=v)
    # X4 row isolation
    seen = {}
    ok4 = True
    for i, got in enumerate(records):
        if not isinstance(got, dict):
            continue
        items = [('<record>', got)] + list(got.items())
        for k, v in items:
            if isinstance(v, np.ndarray):
                root = v
                while getattr(root, 'base', None) is not None and isinstance(root.base, np.ndarray):
                    root = root.base
                oid = id(root)
            elif isinstance(v, (list, dict, set)):
                oid = id(v)
            else:
                continue
            if oid in seen:
                j, kj = seen[oid]
                fam = keyfam.get(k, 'record' if k == '<record>' else 'unknown')
                ctx.fail('X4', {'column': fam, 'rule': 'X4', 'what': 'shared_object'},
                         row=i, key=k, other_row=j, other_key=kj)
                ok4 = False
            else:
                seen[oid] = (i, k)
    if ok4:
        ctx.held('X4')
    ctx.max_err['X2'] = max(ctx.max_err.get('X2', 0.0), _ERR[0])


# ---------------------------------------------------------------- driver
def _classes(ctx, spec, refs):
    headers, rows = spec['headers'], spec['rows']
    n = len(rows)
    ctx.cls('rows:1' if n == 1 else ('rows:60' if n == 60 else 'rows:2-59'))
    ctx.cls('comment:yes' if spec['comment'] is not None else 'comment:no')
    if spec['decoys_before']:
        ctx.cls('sheet:not_first')
    if not spec['sheet'].replace('_', '').isalnum():
        ctx.cls('sheet:odd_name')
    fams = [ref.classify(h.strip()) for h in headers]
    if any(h != h.strip() for h in headers):
        ctx.cls('hdr:blank')
    nvib = sum(1 for f, _ in fams if f == 'vib_wavenumber')
    if nvib:
        ctx.cls('vib:%d' % nvib if nvib in (1, 30) else 'vib:2-29')
    for (f, par), h in zip(fams, headers):
        if f == 'list':
            ctx.cls('list:indexed' if h.strip().count('.') == 2 else 'list:repeated')
        if f == 'nasa':
            ctx.cls('nasa:' + par[0])
        if f == 'element':
            ctx.cls('element:' + h.strip().split('.')[0] + '.X')
    for f in set(_SETTER_FAMILY.values()) | {'ordinary'}:
        cs = [j for j, (ff, _) in enumerate(fams) if ff == f]
        if cs and all(r[j] is None for r in rows for j in cs):
            ctx.cls('group:empty_everywhere')
    filled_special = False
    any_empty = False
    cellcount = {}
    for r, rr in zip(rows, refs):
        row_fams = set()
        for j, v in enumerate(r):
            f = fams[j][0]
            if v is None:
                any_empty = True
                continue
            row_fams.add(f)
            cellcount[f] = cellcount.get(f, 0) + 1
            if isinstance(v, str):
                if v != v.strip():
                    ctx.cls('cell:numstr_blank' if _is_numeric_text(v.strip()) else 'cell:str_blank')
            elif v == 0:
                ctx.cls('cell:zero')
            elif _is_near_int(v):
                ctx.cls('num:near_integer:' + f)
            elif _is_big_frac(v):
                ctx.cls('num:big_fraction:' + f)
            if isinstance(v, str) and _is_numeric_text(v.strip()) and _is_near_int(float(v)):
                ctx.cls('num:near_integer:numstr')
            if f == 'statmech_model':
                ctx.cls('preset:' + v.strip().lower())
                pj = j
                for jj, vv in enumerate(r):
                    if vv is not None and (fams[jj][0] in ref.MODE_HEADERS or headers[jj].strip() == 'n_degrees'):
                        key = headers[jj].strip()
                        if key in ref.PRESETS[v.strip().lower()]:
                            side = 'preset:explicit_left' if jj < pj else 'preset:explicit_right'
                            ctx.cls(side)
                            if not isinstance(vv, str) and vv == 0:
                                ctx.cls(side + '_zero')
                        elif not isinstance(vv, str) and vv == 0:
                            # zero-valued n_degrees next to a preset that does not define it
                            ctx.cls('preset:%s:zero_n_degrees' % v.strip().lower())
                if v.strip() not in (v.strip().lower(), _CAMEL[v.strip().lower()]):
                    ctx.cls('name:random_case', 'name:random_case:statmech_model')
            if f in ref.MODE_HEADERS:
                name = v.strip()
                ctx.cls('mode:%s:%s' % (f, 'EmptyMode' if name.lower() == 'emptymode' else name))
                if name.lower() == 'emptymode' and name not in ('EmptyMode', 'emptymode'):
                    ctx.cls('name:random_case', 'name:random_case:' + f)
        for f in row_fams:
            ctx.cls('fam:' + f)
            if f != 'ordinary':
                filled_special = True
        if set(ff for ff, _ in fams) - row_fams:
            ctx.cls('group:empty_in_row')
    if any_empty:
        ctx.cls('cell:empty')
    if any(all(v is None for v in r) for r in spec['rows'][1:-1]):
        ctx.cls('row:empty_interior')
    ctx.nontrivial(n >= 2 and filled_special and any_empty)
    prog = spec.get('program') or []
    if not prog:
        ctx.cls('prog:none')
    used = set()
    for op in prog:
        if op[0] in ('lsr_float', 'extlsr_float', 'lsr_species', 'lsr_dict'):
            used.add('constant')
        elif op[0] == 'statmech_preset':
            used.add(op[1])
        elif op[0] == 'read_other' and (spec['decoys_before'] or spec['decoys_after']):
            used.update(['constant', 'idealgas'])
    in_rows = set()
    for r in rows:
        for j, v in enumerate(r):
            if v is not None and fams[j][0] == 'statmech_model':
                in_rows.add(v.strip().lower())
    for p in sorted(used & in_rows):
        ctx.cls('prog:preset_used_before_row:' + p)
    exp = ctx.extra.setdefault('expected_cells_by_family', {})
    for f, c in cellcount.items():
        exp[f] = exp.get(f, 0) + c


def _exc_family(e, headers):
    """column family an exception raised inside read_excel belongs to"""
    tb = e.__traceback__
    fam = None
    while tb is not None:
        name = tb.tb_frame.f_code.co_name
        if name in _SETTER_FAMILY:
            fam = _SETTER_FAMILY[name]
        elif name == 'read_excel' and fam is None:
            col = tb.tb_frame.f_locals.get('col')
            if isinstance(col, str):
                for h in headers:
                    hs = h.strip()
                    if col.strip() == hs or col.strip().startswith(hs + '.'):
                        try:
                            fam = ref.classify(hs)[0]
                        except ref.RefError:
                            pass
                        break
        tb = tb.tb_next
    return fam or 'sheet'


def _drop_family(spec, fam):
    keep = [j for j, h in enumerate(spec['headers']) if ref.classify(h.strip())[0] != fam]
    if len(keep) == len(spec['headers']) or not keep:
        return None
    rows = [[r[j] for j in keep] for r in spec['rows']]
    rows = [r for r in rows if any(v is not None for v in r)]
    if not rows:
        return None
    out = dict(spec)
    out['headers'] = [spec['headers'][j] for j in keep]
    out['rows'] = rows
    if spec['comment'] is not None:
        out['comment'] = [spec['comment'][j] for j in keep]
        if all(v is None for v in out['comment']):
            out['comment'][0] = 'comment'
    return out


# ---------------------------------------------------------------- program context and the presets invariant
_SNAP = {'presets': None}
_PRESET_KW = {
    'idealgas': dict(molecular_weight=18.0, vib_wavenumbers=[3825.4, 1654.4, 3936.6], potentialenergy=-14.2,
                     spin=0, geometry='nonlinear', rot_temperatures=[40.0, 21.0, 13.0], symmetrynumber=2),
    'harmonic': dict(vib_wavenumbers=[500.0, 600.0], potentialenergy=-1.0, spin=0),
    'electronic': dict(potentialenergy=-1.0, spin=0.5),
    'placeholder': {},
    'constant': dict(U=1.0, H=1.0, G=1.0, S=0.1),
}


def _snapshot_presets():
    """copy of pmutt.statmech.presets taken before the first case of the process"""
    if _SNAP['presets'] is None:
        from pmutt.statmech import presets
        _SNAP['presets'] = {k: dict(v) for k, v in presets.items()}
    return _SNAP['presets']


def _check_presets(ctx, after):
    """P0: the shared presets table is what it was at import and what the documentation says"""
    from pmutt.statmech import presets
    snap = _snapshot_presets()
    mech0 = {'column': 'statmech_model', 'rule': 'P0'}
    ok = True
    if set(presets) != set(snap):
        ctx.fail('P0', dict(mech0, what='preset_names'), got=sorted(presets), want=sorted(snap), after=after)
        ok = False
    for p, want in snap.items():
        got = presets.get(p)
        if not isinstance(got, dict):
            continue
        for k in sorted(set(got) | set(want), key=str):
            if k not in want:
                ctx.fail('P0', dict(mech0, preset=p, what='key_added'), key=k, value=got[k], after=after)
            elif k not in got:
                ctx.fail('P0', dict(mech0, preset=p, what='key_removed'), key=k, after=after)
            elif not (got[k] is want[k] or (type(got[k]) is type(want[k]) and not isinstance(want[k], type)
                                            and got[k] == want[k])):
                ctx.fail('P0', dict(mech0, preset=p, what='value_changed'), key=k, got=got[k], want=want[k],
                         after=after)
            else:
                continue
            ok = False
    # the snapshot itself against the documented table (hard-coded reference)
    for p, doc in ref.PRESETS.items():
        have = snap.get(p, {})
        keys = set(have) - set(ref.PRESET_META_KEYS)
        same = keys == set(doc) and all(
            (have[k] is _resolve(v)) if isinstance(v, tuple) else (have[k] == v and type(have[k]) is type(v))
            for k, v in doc.items() if k in have)
        if not same:
            ctx.fail('P0', dict(mech0, preset=p, what='differs_from_documented_table'),
                     got=sorted(map(str, keys)), want=sorted(doc))
            ok = False
    if ok:
        ctx.held('P0')
    else:
        # restore, so that the verdict of the next case depends on its own spec only
        for p in list(presets):
            if p not in snap:
                del presets[p]
        for p, want in snap.items():
            if isinstance(presets.get(p), dict):
                presets[p].clear()
                presets[p].update(want)
            else:
                presets[p] = dict(want)
    return ok


def _run_program(ctx, spec, path):
    """other public pMuTT operations executed before the sheet is read.  Their own failures are not C15's
    business (telemetry); what they may do to the reader's shared state is."""
    from pmutt.io.excel import read_excel
    flags = set()
    for op in spec.get('program') or []:
        kind = op[0]
        try:
            if kind in ('lsr_float', 'lsr_dict'):
                from pmutt.statmech import lsr
                obj = lsr.LSR(slope=op[1], intercept=op[2], reaction=op[3], surf_species=op[4], gas_species=op[5])
                obj.get_UoRT(T=300.0)
                if kind == 'lsr_dict':
                    import copy
                    lsr.LSR.from_dict(copy.deepcopy(obj.to_dict())).get_UoRT(T=300.0)
            elif kind == 'extlsr_float':
                from pmutt.statmech import lsr
                obj = lsr.ExtendedLSR(slopes=op[1], intercept=op[2], reactions=op[3], surf_species=op[4],
                                      gas_species=op[5])
                obj.get_UoRT(T=300.0)
            elif kind == 'lsr_species':
                from pmutt.statmech import lsr, presets, StatMech
                from pmutt.reaction import Reaction
                sp = [StatMech(U=v, H=v, F=v, G=v, **presets['constant']) for v in op[3:6]]
                rx = Reaction(reactants=[StatMech()], reactants_stoich=[1.0], products=[sp[0]],
                              products_stoich=[1.0])
                lsr.LSR(slope=op[1], intercept=op[2], reaction=rx, surf_species=sp[1],
                        gas_species=sp[2]).get_UoRT(T=300.0)
            elif kind == 'statmech_preset':
                from pmutt.statmech import presets, StatMech
                kw = {k: (list(v) if isinstance(v, list) else v) for k, v in _PRESET_KW[op[1]].items()}
                StatMech(**kw, **presets[op[1]]).get_GoRT(T=300.0, raise_error=False, raise_warning=False)
            elif kind == 'read_other':
                if spec['decoys_before'] or spec['decoys_after']:
                    other = read_excel(path, sheet_name='decoy1' if spec['sheet'].lower() != 'decoy1' else 'decoy2')
                else:
                    kw = {'sheet_name': spec['sheet']}
                    if spec['comment'] is None:
                        kw['skiprows'] = None
                    other = read_excel(path, **kw)
                _scramble(other)
            elif kind == 'edit_reread':
                flags.add('edit_reread')
            else:
                continue
        except Exception as e:                                    # noqa: telemetry only
            errs = ctx.extra.setdefault('program_op_errors', {})
            key = '%s:%s' % (kind, type(e).__name__)
            errs[key] = errs.get(key, 0) + 1
        ctx.cls('prog:' + kind + (':' + op[1] if kind == 'statmech_preset' else ''))
    return flags


def _scramble(records):
    """edit records a read returned, nested values too; a later read must not see any of it.
    -> True when a nested (list / dict / array) value was edited"""
    import numpy as np
    nested = False
    for rec in records if isinstance(records, list) else []:
        if not isinstance(rec, dict):
            continue
        for k in list(rec):
            v = rec[k]
            if isinstance(v, list):
                v.append('LEAK')
                v.reverse()
                nested = True
            elif isinstance(v, dict):
                v.clear()
                v['LEAK'] = -1
                nested = True
            elif isinstance(v, np.ndarray):
                try:
                    v.fill(-777.0)
                    nested = True
                except Exception:
                    pass
            else:
                rec[k] = 'LEAK'
        rec['LEAK'] = ['leak']
        rec['notes'] = 'leaked note'
    return nested


class _Tagged:
    """ctx proxy that adds discriminating features to every mech of a comparison"""

    def __init__(self, ctx, **tag):
        self._ctx, self._tag = ctx, tag

    def fail(self, oracle, mech=None, **detail):
        return self._ctx.fail(oracle, dict(mech or {}, **self._tag), **detail)

    def check(self, oracle, cond, mech=None, **detail):
        return self._ctx.check(oracle, cond, dict(mech or {}, **self._tag), **detail)

    def __getattr__(self, name):
        return getattr(self._ctx, name)


def run_case(spec, ctx):
    try:
        _run_case(spec, ctx)
    finally:
        _check_presets(ctx, 'case')


def _run_case(spec, ctx):
    from pmutt.io.excel import read_excel
    refs = ref.read(spec['headers'], spec['rows'])
    _classes(ctx, spec, refs)
    _snapshot_presets()
    flags = None
    cmp_ctx = ctx
    cur = spec
    for attempt in range(4):
        path = os.path.join(ctx.tmpdir, 'case_%s_%d.xlsx' % (ctx.case_index, attempt))
        _write(cur, path)
        kwargs = {'sheet_name': cur['sheet']}
        if cur['comment'] is None:
            kwargs['skiprows'] = None
        if flags is None:
            flags = _run_program(ctx, spec, path)
        try:
            records = read_excel(path, **kwargs)
            if 'edit_reread' in flags:
                # first read is compared as usual, its records are then edited and the sheet is read again
                if cur is not spec:
                    refs = ref.read(cur['headers'], cur['rows'])
                _compare(_Tagged(ctx, read='first_of_two'), cur, cur['headers'], cur['rows'], records, refs)
                if _scramble(records):
                    ctx.cls('prog:edit_reread:nested')
                _check_presets(ctx, 'edit')
                records = read_excel(path, **kwargs)
                cmp_ctx = _Tagged(ctx, read='after_edit')
        except Exception as e:                                    # noqa: violation, no records reported
            fam = _exc_family(e, cur['headers'])
            rule = 'X2' if fam != 'sheet' else 'X1'
            ctx.fail(rule, {'column': fam, 'rule': rule, 'exc': type(e).__name__},
                     message=str(e)[:300], where=core._tb_where(e))
            records = None
            nxt = _drop_family(cur, fam) if fam != 'sheet' else None
        finally:
            try:
                os.remove(path)
            except OSError:
                pass
        if records is not None:
            if cur is not spec:
                refs = ref.read(cur['headers'], cur['rows'])
            _compare(cmp_ctx, cur, cur['headers'], cur['rows'], records, refs)
            return
        if nxt is None:
            return
        cur = nxt              # carry on without the column family that made the reader refuse

"""C14  Reaction strings print and parse as inverses; the balance check is exact.

S1 from_string(to_string(r)) gives back the same species objects, TS and coefficients (to the
   printed precision) for every delimiter choice / stoich_format / stoich_space
S2 parsing a generated string (integer, decimal, omitted coefficients, repeats, arbitrary blanks,
   any delimiters) equals an independent reference grammar's parse; RING files likewise
S3 a species that cannot be found is named in a KeyError
S4 check_element_balance raises exactly when the exact (Fraction) element totals differ on the two
   sides or at the transition state
S5 parse_formula equals the reference tokenizer (repeats summed, missing counts = 1)
"""
import os
from fractions import Fraction

from vf import core

ID = 'C14'
N = {'quick': 600000, 'thorough': 3000000}
NT_RULE = ('reaction strings over names from the stated grammar (letter/(/*/_ first, then letters, digits, '
           '()*_), 1-4 species per side, integer / decimal / omitted coefficients, repeated species, 0-1 '
           'transition state, random blanks, delimiters + = <=> . >> and custom ones, every stoich_format and '
           'stoich_space; balance cases with dyadic-rational compositions/coefficients; formulas from 1-3 letter '
           'symbols with counts 1-999.  non-trivial = string with a decimal coefficient, a repeat, a TS or a '
           'non-default delimiter, an unbalanced/TS-unbalanced reaction, a formula with a repeat or omitted '
           'count; distinct = distinct canonical JSON')
REQUIRED_ORACLES = ['S1', 'S2', 'S3', 'S4', 'S5']
REQUIRED_CLASSES = ['print:ts', 'print:decimal', 'print:near_integer', 'print:custom_delim', 'print:space',
                    'parse:repeat', 'parse:decimal', 'parse:omitted', 'parse:ts', 'parse:blanks', 'parse:ring_file',
                    'parse:padded_delimiter_core_inside_token', 'print:padded_delimiter_core_inside_token',
                    'parse:list_of_real_species', 'parse:list_with_Nasa9', 'balance:non_dyadic_same_terms',
                    'unknown:reactant', 'unknown:product', 'unknown:ts',
                    'balance:balanced', 'balance:off_by_one', 'balance:off_by_quarter', 'balance:ts_only',
                    'balance:missing_element', 'balance:empty_composition', 'balance:zero_count_entry', 'formula:repeat', 'formula:omitted_count', 'formula:three_letter']
REQUIRED_PROBES = ['_parse_reaction_state', '_parse_reaction', '_write_reaction_state', 'Reaction.from_string',
                   'Reaction.to_string', 'Reaction.check_element_balance', 'parse_formula', 'ring.read_reactions']
ASSUMPTIONS = ['delimiters that occur inside a species name or inside the printed numerals (e.g. "." with '
               'decimal coefficients, exponent formats) make the string itself ambiguous and are not generated',
               'printed precision: the parsed coefficient may be as far from the original as format(v, '
               'stoich_format) is, plus 1.1e-5 relative for the integer snapping pMuTT applies',
               'balance cases use dyadic rationals (k/4) so that "totals agree" is decidable exactly in floats']

NAME_FIRST = 'ABCDEFGHKLMNOPRSTXYZabcdhmnoprst(*_'
NAME_REST = 'ABCDHNOPSabcdeghilnorst0123456789()*_'
SPECIES_DELIMS = ['+', '+', '+', '.', '&', ' + ', ',', '++', ' plus ', ' . ', ' . ', ' * ', ' _ ', ' 0 ']
REACTION_DELIMS = ['=', '=', '<=>', '>>', '->', ' = ', '==>', '<->', ' . . ', ' ) ']
FORMATS = ['.2f', '.2f', '.1f', '.3f', '.4f', '.6f', 'g', '.3g', '.6g', '.0f']


class _Sp:
    """minimal species stand-in: from_string/to_string only need .name, the balance check .elements"""

    def __init__(self, name, elements=None):
        self.name = name
        self.elements = elements or {}


# ------------------------------------------------------------------ generators
def _name(rng, taken, forbid):
    for _ in range(100):
        n = rng.choice(NAME_FIRST) + ''.join(rng.choice(NAME_REST) for _ in range(rng.randint(0, 7)))
        # names have no blanks: a blank-padded delimiter cannot occur inside one, whatever its core character
        # (a name that IS the core, surrounded by the blanks a writer may add, would spell the delimiter)
        if n in taken or any(f.strip() and ((f == f.strip() and f in n) or n == f.strip()) for f in forbid):
            continue
        return n
    raise core.HarnessError('no name')


def _coef(rng, kind=None):
    kind = kind or rng.choice(['one', 'int', 'dec', 'dec', 'quarter'])
    if kind == 'one':
        return 1.0
    if kind == 'int':
        return float(rng.choice([2, 3, 4]))
    if kind == 'quarter':
        return rng.choice([0.25, 0.5, 0.75, 1.25, 1.5, 2.5, 3.75])
    return round(rng.uniform(0.25, 4.0), rng.choice([1, 2, 3]))


def _gen_print(rng):
    sd, rd = rng.choice(SPECIES_DELIMS), rng.choice(REACTION_DELIMS)
    fmt = rng.choice(FORMATS)
    taken = []
    def side(n):
        out = []
        for _ in range(n):
            nm = _name(rng, taken, [sd, rd])
            taken.append(nm)
            out.append([nm, _coef(rng)])
        return out
    spec = {'kind': 'print', 'sd': sd, 'rd': rd, 'fmt': fmt, 'space': rng.random() < 0.4,
            'reactants': side(rng.randint(1, 4)), 'products': side(rng.randint(1, 4)),
            'ts': side(1) if rng.random() < 0.4 else None}
    if rng.random() < 0.15:
        k = rng.choice([1, 2, 3, 4])
        d = rng.choice([1e-7, -1e-7, 1e-9, -1e-9, -2.3e-16 * k, 4.5e-16 * k])
        spec['reactants'][0][1] = k + d
        spec['near_integer'] = True
    if sd == '.' or ('.' in rd and rd == rd.strip()):
        # "." inside numerals would be ambiguous: integer coefficients only (a blank-padded " . " is not)
        for part in ('reactants', 'products', 'ts'):
            for p in spec[part] or []:
                p[1] = float(round(p[1])) or 1.0
        spec.pop('near_integer', None)
    return spec


def _fmt_coef(rng, v):
    if v == 1.0 and rng.random() < 0.7:
        return ''
    if v == int(v):
        return rng.choice(['%d' % v, '%d' % v, '%.1f' % v, '%d.' % v])
    return repr(v)


def _blank(rng):
    return ' ' * rng.choice([0, 0, 1, 1, 2, 4])


def _gen_parse(rng, ring=False):
    sd, rd = ('.', '>>') if ring else (rng.choice(SPECIES_DELIMS), rng.choice(REACTION_DELIMS))
    taken = []
    pool = []
    for _ in range(rng.randint(2, 6)):
        nm = _name(rng, taken, [sd, rd])
        taken.append(nm)
        pool.append(nm)
    intonly = sd == '.' or ('.' in rd and rd == rd.strip())

    def side(n, allow_repeat=True):
        toks = []
        for _ in range(n):
            nm = rng.choice(pool) if allow_repeat else pool[0]
            v = _coef(rng, rng.choice(['one', 'int']) if intonly else None)
            txt = _fmt_coef(rng, v)
            if intonly and '.' in txt:
                txt = '%d' % v
            gap = ' ' * rng.choice([0, 0, 1, 2]) if txt else ''
            toks.append([txt, gap, nm])
        return toks
    states = [side(rng.randint(1, 4))]
    if rng.random() < 0.35:
        states.append(side(1))
    states.append(side(rng.randint(1, 4)))
    text = (_blank(rng) + rd + _blank(rng)).join(
        (_blank(rng) + sd + _blank(rng)).join(_blank(rng) + t[0] + t[1] + t[2] + _blank(rng) for t in st)
        for st in states)
    return {'kind': 'parse', 'sd': sd, 'rd': rd, 'text': text, 'pool': pool,
            'states': [[[t[0], t[2]] for t in st] for st in states], 'as_list': rng.random() < 0.3}


def _gen_ring(rng):
    lines = []
    n = rng.randint(1, 8)
    for i in range(n):
        if rng.random() < 0.25:
            lines.append({'text': rng.choice(['', '# comment', 'species list', 'rule 3 applied']), 'rxn': None})
        r = _gen_parse(rng, ring=True)
        lines.append({'text': r['text'], 'rxn': r})
    pool = sorted(set(p for l in lines if l['rxn'] for p in l['rxn']['pool']))
    return {'kind': 'ring', 'lines': lines, 'pool': pool}


def _gen_unknown(rng):
    r = _gen_parse(rng)
    which = rng.choice(['reactant', 'product', 'ts'])
    if which == 'ts' and len(r['states']) == 2:
        which = 'reactant'
    idx = {'reactant': 0, 'product': len(r['states']) - 1, 'ts': 1}[which]
    missing = r['states'][idx][0][1]
    return {'kind': 'unknown', 'parse': r, 'which': which, 'missing': missing}


ELS = ['H', 'C', 'O', 'N', 'Pt', 'Ni']


def _gen_balance_nondyadic(rng):
    """non-dyadic amounts (0.1, 0.2, 1/3 ...): the two sides carry the SAME (count, coefficient) terms per
    element, at most two per side and element, in another order -- the exact totals agree and so do the
    floating-point sums (a + b == b + a); optionally one count is then moved by a whole unit"""
    els = rng.sample(ELS, rng.randint(1, 3))
    comp = {e: rng.choice([1, 2, 3, 4, 6, 8]) for e in els}
    c1, c2 = rng.sample([0.1, 0.2, 0.3, 0.7, 1.1, 0.15, 0.45, 2.3, round(1 / 3, 4)], 2)
    reactants = [[{'name': 'A', 'elements': dict(comp)}, c1], [{'name': 'B', 'elements': dict(comp)}, c2]]
    products = [[{'name': 'C', 'elements': dict(comp)}, c2], [{'name': 'D', 'elements': dict(comp)}, c1]]
    ts = [[{'name': 'TS1', 'elements': dict(comp)}, c2], [{'name': 'TS2', 'elements': dict(comp)}, c1]] \
        if rng.random() < 0.4 else None
    mode = rng.choice(['balanced', 'balanced', 'off_by_one'])
    if mode == 'off_by_one':
        products[rng.randrange(2)][0]['elements'][els[0]] += 1
    return {'kind': 'balance', 'mode': mode, 'reactants': reactants, 'products': products, 'ts': ts,
            'non_dyadic': True}


def _gen_balance(rng):
    """build a balanced reaction, then possibly perturb it"""
    if rng.random() < 0.15:
        return _gen_balance_nondyadic(rng)
    els = rng.sample(ELS, rng.randint(1, 4))
    def sp(i):
        return {'name': 'S%d' % i, 'elements': {e: rng.choice([1, 2, 3, 4, 0.5, 1.25, 6]) for e in
                                                 rng.sample(els, rng.randint(1, len(els)))}}
    nr = rng.randint(1, 3)
    reactants = [[sp(i), rng.choice([1, 2, 3, 0.5, 0.25, 1.5])] for i in range(nr)]
    # products: one lumped species carrying the total, optionally split in two
    tot = {}
    for s, v in reactants:
        for e, c in s['elements'].items():
            tot[e] = tot.get(e, 0) + Fraction(c) * Fraction(v)
    v = rng.choice([1, 2, 4, 0.5])
    lump = {'name': 'P0', 'elements': {e: float(t / Fraction(v)) for e, t in tot.items()}}
    products = [[lump, v]]
    if rng.random() < 0.5:
        half = {'name': 'P1', 'elements': {e: float(t / 2) for e, t in tot.items()}}
        products = [[half, 1], [dict(half, name='P2'), 1]]
    ts = None
    if rng.random() < 0.5:
        ts = [[{'name': 'TS', 'elements': {e: float(t) for e, t in tot.items()}}, 1]]
    # explicit zero-count entries (what an element.X spreadsheet column holding 0 produces): contribute nothing
    if rng.random() < 0.3:
        for side in (reactants, products):
            for sp_, _ in side:
                if rng.random() < 0.5:
                    sp_['elements'][rng.choice(['Ar', 'He', 'Cl'])] = 0
    # a species without atoms (a vacant site): legal, contributes nothing; listed first on its side half the time
    if rng.random() < 0.35:
        site = {'name': 'VAC', 'elements': {}}
        for side in (reactants, products):
            if rng.random() < 0.7:
                side.insert(0 if rng.random() < 0.6 else len(side), [dict(site), rng.choice([1, 2])])
    mode = rng.choice(['balanced', 'balanced', 'off_by_one', 'off_by_quarter', 'ts_only', 'missing_element'])
    if mode == 'ts_only' and ts is None:
        ts = [[{'name': 'TS', 'elements': {e: float(t) for e, t in tot.items()}}, 1]]
    tgt = [sp_ for sp_, _ in products if sp_['elements']][0] if mode != 'ts_only' else ts[0][0]
    e0 = sorted(tgt['elements'])[0]
    if mode == 'off_by_one':
        tgt['elements'][e0] += 1
    elif mode == 'off_by_quarter':
        tgt['elements'][e0] += 0.25
    elif mode == 'ts_only':
        tgt['elements'][e0] += rng.choice([1, 0.25])
    elif mode == 'missing_element':
        tgt['elements']['Ar'] = rng.choice([1, 2])
    return {'kind': 'balance', 'mode': mode, 'reactants': reactants, 'products': products, 'ts': ts}


SYMS = ['H', 'C', 'O', 'N', 'S', 'P', 'F', 'K', 'Pt', 'Ni', 'Cu', 'Fe', 'Al', 'Cl', 'He', 'Uut', 'Uup', 'Na', 'Ne', 'No',
        'In', 'Y', 'U', 'Li']


def _gen_formula(rng):
    toks = []
    for _ in range(rng.randint(1, 7)):
        s = rng.choice(SYMS)
        n = rng.choice([None, None, 1, 2, 3, 10, 26, 100, 999, rng.randint(1, 999)])
        toks.append([s, n])
    return {'kind': 'formula', 'tokens': toks}


def generate(rng, tier):
    k = rng.choices(['print', 'parse', 'ring', 'unknown', 'balance', 'formula'], [30, 25, 5, 8, 20, 12])[0]
    return {'print': _gen_print, 'parse': _gen_parse, 'ring': _gen_ring, 'unknown': _gen_unknown,
            'balance': _gen_balance, 'formula': _gen_formula}[k](rng)


def directed(tier):
    D = []
    D.append({'kind': 'parse', 'sd': '+', 'rd': '=', 'text': 'H2 + 0.5O2 = H2O_TS = H2O', 'pool': ['H2', 'O2', 'H2O_TS', 'H2O'],
              'states': [[['', 'H2'], ['0.5', 'O2']], [['', 'H2O_TS']], [['', 'H2O']]], 'as_list': False})
    D.append({'kind': 'parse', 'sd': '+', 'rd': '=', 'text': '2H2+O2+H2=  2 H2O', 'pool': ['H2', 'O2', 'H2O'],
              'states': [[['2', 'H2'], ['', 'O2'], ['', 'H2']], [['2', 'H2O']]], 'as_list': True})
    D.append({'kind': 'print', 'sd': '+', 'rd': '=', 'fmt': '.2f', 'space': False,
              'reactants': [['H2', 1.0], ['O2', 0.5]], 'products': [['H2O', 1.0]], 'ts': [['H2O_TS', 1.0]]})
    D.append({'kind': 'print', 'sd': '+', 'rd': '<=>', 'fmt': '.2f', 'space': True,
              'reactants': [['CH3(S)', 7.999999999999999], ['*', 2.0]], 'products': [['CH2(S)', 8.0], ['H(S)', 8.0]],
              'ts': None, 'near_integer': True})
    D.append({'kind': 'print', 'sd': '+', 'rd': '=', 'fmt': '.2f', 'space': False,
              'reactants': [['A', 1.9999999]], 'products': [['B', 2.0000001]], 'ts': None, 'near_integer': True})
    D.append({'kind': 'formula', 'tokens': [['C', None], ['H', 3], ['C', None], ['H', 2], ['O', None], ['H', None]]})
    D.append({'kind': 'formula', 'tokens': [['Al', 2], ['O', 3]]})
    # formulas that spell words a reader might treat as "empty" / special
    for toks in ([['Na', None], ['N', None]], [['N', None], ['O', None], ['Ne', None]], [['No', None], ['Ne', None]],
                 [['In', None], ['F', None]], [['N', None], ['U', None], ['Li', None], ['Li', None]],
                 [['Na', None], ['N', 3]], [['N', None], ['Na', None]], [['Y', None]], [['No', None]]):
        D.append({'kind': 'formula', 'tokens': toks})
    D.append({'kind': 'formula', 'tokens': [['Pt', 100]]})
    return D


def install_probes(pr, ctx):
    def rx():
        import pmutt.reaction
        return pmutt.reaction
    pr.watch(lambda: rx()._parse_reaction_state, '_parse_reaction_state')
    pr.watch(lambda: rx()._parse_reaction, '_parse_reaction')
    pr.watch(lambda: rx()._write_reaction_state, '_write_reaction_state')
    pr.watch(lambda: rx()._count_elements, '_count_elements')
    pr.watch(lambda: rx().Reaction.from_string, 'Reaction.from_string')
    pr.watch(lambda: rx().Reaction.to_string, 'Reaction.to_string')
    pr.watch(lambda: rx().Reaction.check_element_balance, 'Reaction.check_element_balance')
    pr.watch(lambda: __import__('pmutt').parse_formula, 'parse_formula')
    pr.watch(lambda: __import__('pmutt.io.ring', fromlist=['x']).read_reactions, 'ring.read_reactions')


# ------------------------------------------------------------------ reference grammar
def ref_parse_state(text, sd):
    names, coefs = [], []
    for part in text.split(sd):
        part = part.strip()
        i = 0
        while i < len(part) and part[i].isdigit():
            i += 1
        if i > 0 and i < len(part) and part[i] == '.':
            i += 1
            while i < len(part) and part[i].isdigit():
                i += 1
        v = float(part[:i]) if i else 1.0
        nm = part[i:].strip()
        if nm in names:
            coefs[names.index(nm)] += v
        else:
            names.append(nm)
            coefs.append(v)
    return names, coefs


def ref_parse(text, sd, rd):
    states = text.split(rd)
    out = [ref_parse_state(states[0], sd)]
    ts = ref_parse_state(states[1], sd) if len(states) > 2 else None
    out.append(ref_parse_state(states[-1], sd))
    return out[0], out[1], ts


def _cmp_state(ctx, oracle, mech, objs, stoich, want_names, want_coefs, pool, tol=1e-12):
    got_names = [getattr(o, 'name', None) for o in (objs or [])]
    ok = ctx.check(oracle, got_names == want_names, dict(mech, what='names'), got=got_names, want=want_names)
    if not ok:
        return False
    ok = ctx.check(oracle, all(o is pool[n] for o, n in zip(objs, want_names)), dict(mech, what='identity'))
    return ctx.close(oracle, list(stoich), list(want_coefs), tol, dict(mech, what='coefficients'),
                     names=want_names) and ok


# ------------------------------------------------------------------ drivers
def _print_case(spec, ctx):
    from pmutt.reaction import Reaction
    sd, rd, fmt = spec['sd'], spec['rd'], spec['fmt']
    pool = {}
    def mk(side):
        if side is None:
            return None, None
        objs = []
        for n, v in side:
            pool.setdefault(n, _Sp(n))
            objs.append(pool[n])
        return objs, [v for _, v in side]
    r, rs = mk(spec['reactants'])
    p, ps = mk(spec['products'])
    t, ts = mk(spec['ts'])
    if t:
        ctx.cls('print:ts')
    if any(v != int(v) for _, v in spec['reactants'] + spec['products']):
        ctx.cls('print:decimal')
    if spec.get('near_integer'):
        ctx.cls('print:near_integer')
    if sd != '+' or rd != '=':
        ctx.cls('print:custom_delim')
    if spec['space']:
        ctx.cls('print:space')
    ctx.nontrivial(bool(t) or sd != '+' or rd != '=' or any(v != int(v) for _, v in spec['reactants'] + spec['products']))
    mech = {'fmt': fmt if not spec.get('near_integer') else 'near_integer', 'space': spec['space']}
    rxn = Reaction(reactants=r, reactants_stoich=rs, products=p, products_stoich=ps, transition_state=t,
                   transition_state_stoich=ts)
    text = ctx.call('S1', dict(mech, step='to_string'), rxn.to_string, species_delimiter=sd, reaction_delimiter=rd,
                    stoich_format=fmt, stoich_space=spec['space'])
    if text is core.NOVALUE:
        return
    body = text.replace(sd, '\x00').replace(rd, '\x00')
    if any(d != d.strip() and d.strip() and d.strip() in body for d in (sd, rd)):
        ctx.cls('print:padded_delimiter_core_inside_token')
    back = ctx.call('S1', dict(mech, step='from_string'), Reaction.from_string, text, dict(pool),
                    species_delimiter=sd, reaction_delimiter=rd)
    if back is core.NOVALUE:
        return

    def tol_for(v):
        return abs(float(format(v, fmt)) - v) + 1.1e-5 * max(1.0, abs(v)) + 1e-12

    for part, objs, st, side in (('reactants', back.reactants, back.reactants_stoich, spec['reactants']),
                                 ('products', back.products, back.products_stoich, spec['products']),
                                 ('ts', back.transition_state, back.transition_state_stoich, spec['ts'])):
        m = dict(mech, part=part)
        if side is None:
            ctx.check('S1', objs is None, dict(m, what='ts_appeared'), text=text)
            continue
        names = [n for n, _ in side]
        got_names = [getattr(o, 'name', None) for o in (objs or [])]
        if not ctx.check('S1', got_names == names, dict(m, what='names'), got=got_names, want=names, text=text):
            continue
        ctx.check('S1', all(o is pool[n] for o, n in zip(objs, names)), dict(m, what='identity'))
        for (n, v), g in zip(side, st):
            ctx.check('S1', abs(g - v) <= tol_for(v), dict(m, what='coefficient'), name=n, original=v, parsed=g,
                      text=text, tol=tol_for(v))
    # include_TS=False drops the TS only
    if t:
        t2 = ctx.call('S1', dict(mech, step='to_string', include_TS=False), rxn.to_string, species_delimiter=sd,
                      reaction_delimiter=rd, stoich_format=fmt, include_TS=False)
        if t2 is not core.NOVALUE:
            b2 = ctx.call('S1', dict(mech, step='from_string', include_TS=False), Reaction.from_string, t2, dict(pool),
                          species_delimiter=sd, reaction_delimiter=rd)
            if b2 is not core.NOVALUE:
                ctx.check('S1', b2.transition_state is None and
                          [o.name for o in b2.products] == [n for n, _ in spec['products']],
                          dict(mech, what='include_TS_False'), text=t2)


def _classify_parse(spec, ctx):
    flat = [t for st in spec['states'] for t in st]
    names_by_state = [[t[1] for t in st] for st in spec['states']]
    nt = False
    if any(len(set(ns)) < len(ns) for ns in names_by_state):
        ctx.cls('parse:repeat'); nt = True
    if any('.' in t[0] and t[0].rstrip('0').rstrip('.') != t[0].split('.')[0] for t in flat):
        ctx.cls('parse:decimal'); nt = True
    if any(t[0] == '' for t in flat):
        ctx.cls('parse:omitted')
    if len(spec['states']) == 3:
        ctx.cls('parse:ts'); nt = True
    if '  ' in spec['text'] or spec['text'] != spec['text'].strip():
        ctx.cls('parse:blanks')
    if spec['sd'] != '+' or spec['rd'] != '=':
        nt = True
    ctx.nontrivial(nt)


def _real_species(name, k):
    """a real pMuTT species object (the parser only needs .name, but containers of real objects are what users
    pass; Nasa9 is itself iterable)"""
    import numpy as np
    from pmutt.empirical.nasa import Nasa, Nasa9, SingleNasa9
    from pmutt.empirical.shomate import Shomate
    from pmutt.statmech import StatMech
    kind = k % 4
    if kind == 0:
        return Nasa9(name=name, nasas=[SingleNasa9(T_low=200., T_high=1000., a=np.arange(1., 10.)),
                                       SingleNasa9(T_low=1000., T_high=6000., a=np.arange(2., 11.))])
    if kind == 1:
        return Nasa(name=name, T_low=200., T_mid=1000., T_high=3000., a_low=np.ones(7), a_high=np.ones(7))
    if kind == 2:
        return Shomate(name=name, T_low=200., T_high=3000., a=np.ones(8))
    return StatMech(name=name)


def _padded_core_in_tokens(spec):
    """a blank-padded delimiter whose core also occurs inside a numeral or a name of the string"""
    toks = [t for st in spec.get('states', []) for t in st]
    body = ''.join(t[0] + t[-1] for t in toks)
    return any(d != d.strip() and d.strip() and d.strip() in body for d in (spec['sd'], spec['rd']))


def _parse_case(spec, ctx, mech_extra=None):
    from pmutt.reaction import Reaction
    _classify_parse(spec, ctx)
    sd, rd = spec['sd'], spec['rd']
    if _padded_core_in_tokens(spec):
        ctx.cls('parse:padded_delimiter_core_inside_token')
    if spec.get('as_list') and (ctx.case_index or 0) % 2 == 0:
        pool = {n: _real_species(n, k) for k, n in enumerate(spec['pool'])}
        ctx.cls('parse:list_of_real_species')
        if any(type(v).__name__ == 'Nasa9' for v in pool.values()):
            ctx.cls('parse:list_with_Nasa9')
    else:
        pool = {n: _Sp(n) for n in spec['pool']}
    species = list(pool.values()) if spec.get('as_list') else dict(pool)
    mech = dict(mech_extra or {}, sd='default' if sd == '+' else 'custom', rd='default' if rd == '=' else 'custom')
    rxn = ctx.call('S2', dict(mech, step='from_string'), Reaction.from_string, spec['text'], species,
                   species_delimiter=sd, reaction_delimiter=rd)
    if rxn is core.NOVALUE:
        return
    (rn, rc), (pn, pc), ts = ref_parse(spec['text'], sd, rd)
    _cmp_state(ctx, 'S2', dict(mech, part='reactants'), rxn.reactants, rxn.reactants_stoich, rn, rc, pool)
    _cmp_state(ctx, 'S2', dict(mech, part='products'), rxn.products, rxn.products_stoich, pn, pc, pool)
    if ts is None:
        ctx.check('S2', rxn.transition_state is None, dict(mech, part='ts', what='appeared'))
    else:
        _cmp_state(ctx, 'S2', dict(mech, part='ts'), rxn.transition_state, rxn.transition_state_stoich, ts[0], ts[1], pool)
    # the generator's own intent must agree with the reference grammar (guards the harness)
    want = []
    for st in (spec['states'][0], spec['states'][-1]):
        names, coefs = [], []
        for txt, nm in st:
            v = float(txt) if txt else 1.0
            if nm in names:
                coefs[names.index(nm)] += v
            else:
                names.append(nm); coefs.append(v)
        want.append((names, coefs))
    if want[0] != (rn, rc) or want[1] != (pn, pc):
        raise core.HarnessError('generator and reference grammar disagree on %r' % spec['text'])


def _ring_case(spec, ctx):
    from pmutt.io.ring import read_reactions
    ctx.cls('parse:ring_file')
    ctx.nontrivial()
    path = os.path.join(ctx.tmpdir, 'ring_%d.txt' % (ctx.case_index or 0))
    with open(path, 'w') as f:
        for l in spec['lines']:
            f.write(l['text'] + '\n')
    pool = {n: _Sp(n) for n in spec['pool']}
    rxns = ctx.call('S2', {'step': 'ring.read_reactions'}, read_reactions, path, dict(pool))
    os.remove(path)
    if rxns is core.NOVALUE:
        return
    want = [l['rxn'] for l in spec['lines'] if l['rxn'] is not None]
    got = list(rxns.reactions)
    if not ctx.check('S2', len(got) == len(want), {'step': 'ring', 'what': 'count'}, got=len(got), want=len(want)):
        return
    for g, w in zip(got, want):
        (rn, rc), (pn, pc), ts = ref_parse(w['text'], '.', '>>')
        m = {'step': 'ring'}
        _cmp_state(ctx, 'S2', dict(m, part='reactants'), g.reactants, g.reactants_stoich, rn, rc, pool)
        _cmp_state(ctx, 'S2', dict(m, part='products'), g.products, g.products_stoich, pn, pc, pool)
        if ts is not None:
            _cmp_state(ctx, 'S2', dict(m, part='ts'), g.transition_state, g.transition_state_stoich, ts[0], ts[1], pool)


def _unknown_case(spec, ctx):
    from pmutt.reaction import Reaction
    r = spec['parse']
    ctx.cls('unknown:' + spec['which'])
    ctx.nontrivial()
    pool = {n: _Sp(n) for n in r['pool'] if n != spec['missing']}
    mech = {'which': spec['which']}
    try:
        got = Reaction.from_string(r['text'], dict(pool), species_delimiter=r['sd'], reaction_delimiter=r['rd'])
    except KeyError as e:
        ctx.check('S3', spec['missing'] in str(e), dict(mech, what='not_named'), message=str(e)[:200],
                  missing=spec['missing'])
    except Exception as e:
        ctx.fail('S3', dict(mech, exc=type(e).__name__), message=str(e)[:200])
    else:
        ctx.fail('S3', dict(mech, exc='none'), text=r['text'], missing=spec['missing'])


def _balance_case(spec, ctx):
    from pmutt.reaction import Reaction
    ctx.cls('balance:' + spec['mode'])
    if spec.get('non_dyadic'):
        ctx.cls('balance:non_dyadic_same_terms')
    if any(not s_['elements'] for s_, _ in spec['reactants'] + spec['products']):
        ctx.cls('balance:empty_composition')
    if any(v == 0 for s_, _ in spec['reactants'] + spec['products'] for v in s_['elements'].values()):
        ctx.cls('balance:zero_count_entry')
    ctx.nontrivial(spec['mode'] != 'balanced' or spec['ts'] is not None)
    def mk(side):
        if side is None:
            return None, None
        return [_Sp(s['name'], dict(s['elements'])) for s, _ in side], [v for _, v in side]
    def total(side):
        t = {}
        for s, v in side:
            for e, c in s['elements'].items():
                t[e] = t.get(e, 0) + Fraction(c) * Fraction(v)
        return {e: c for e, c in t.items() if c != 0}
    r, rs = mk(spec['reactants']); p, ps = mk(spec['products']); t, ts = mk(spec['ts'])
    rxn = Reaction(reactants=r, reactants_stoich=rs, products=p, products_stoich=ps, transition_state=t,
                   transition_state_stoich=ts)
    balanced = total(spec['reactants']) == total(spec['products']) and \
        (spec['ts'] is None or total(spec['ts']) == total(spec['reactants']))
    mech = {'mode': spec['mode'], 'has_ts': spec['ts'] is not None}
    if spec.get('non_dyadic'):
        mech['amounts'] = 'non_dyadic'
    if (spec['mode'] == 'balanced') != balanced:
        raise core.HarnessError('balance generator inconsistent')
    try:
        rxn.check_element_balance()
    except ValueError:
        ctx.check('S4', not balanced, dict(mech, what='rejected_balanced'))
    except Exception as e:
        ctx.fail('S4', dict(mech, exc=type(e).__name__), message=str(e)[:200])
    else:
        ctx.check('S4', balanced, dict(mech, what='accepted_unbalanced'),
                  reactants=str(total(spec['reactants'])), products=str(total(spec['products'])))


def _formula_case(spec, ctx):
    import pmutt
    toks = spec['tokens']
    formula = ''.join(s + ('' if n is None else str(n)) for s, n in toks)
    want = {}
    for s, n in toks:
        want[s] = want.get(s, 0) + (1 if n is None else n)
    syms = [s for s, _ in toks]
    if len(set(syms)) < len(syms):
        ctx.cls('formula:repeat')
    if any(n is None for _, n in toks):
        ctx.cls('formula:omitted_count')
    if any(len(s) == 3 for s in syms):
        ctx.cls('formula:three_letter')
    ctx.nontrivial(len(set(syms)) < len(syms) or any(n is None for _, n in toks))
    got = ctx.call('S5', {'what': 'parse_formula'}, pmutt.parse_formula, formula)
    if got is not core.NOVALUE:
        ctx.check('S5', dict(got) == want, {'what': 'parse_formula'}, formula=formula, got=got, want=want)
        # history: the caller edits the returned composition; parsing the same formula again must give
        # the formula's counts (no state shared between calls)
        if isinstance(got, dict) and got:
            k0 = sorted(got)[0]
            got[k0] = got[k0] + 3
            got['Xx'] = 7
            again = ctx.call('S5', {'what': 'parse_formula', 'history': 'after_edit'}, pmutt.parse_formula, formula)
            if again is not core.NOVALUE:
                ctx.check('S5', dict(again) == want, {'what': 'parse_formula', 'history': 'after_edit'},
                          formula=formula, got=again, want=want)


def run_case(spec, ctx):
    {'print': _print_case, 'parse': _parse_case, 'ring': _ring_case, 'unknown': _unknown_case,
     'balance': _balance_case, 'formula': _formula_case}[spec['kind']](spec, ctx)

"""C05  Thermdat files written by pMuTT read back to the same species.

Workload: generated collections of NASA-7 species (hostile names, compositions, counts typed
int / numpy int / integral float, boundary temperatures and coefficients, notes, comment
blocks, supplementary entries) are written with the real `write_thermdat` (file or string)
and read back with the real `read_thermdat` (list / tuple / dict).

Oracles
  L1  layout + content of the written text, decided by an independent fixed-column Chemkin
      parser (vf/ref/thermdat.py): 80-column records numbered 1-4 in column 80, five / four
      15-character numeric fields, composition in columns 25-44 as (symbol, right-justified
      count) pairs, phase in column 45, temperature fields, header, END; every token is
      compared with the value re-derived from the objects that were written.
  L2  read-back identity: container type, order, names, phases, element counts (zero counts
      dropped), T within 0.05 K, fourteen coefficients within 5e-9 relative.
  L3  thermodynamic values of the species read back (Cp/R, H/RT, S/R at three temperatures)
      against the reference NASA-7 basis evaluated with the original coefficients and against
      the original objects, 1e-8 relative to the sum of the absolute terms.
  L4  conservation: #entries in the file = #species written (+ supplementary entries);
      #species returned = #entries; no species dropped, none duplicated.
  PRB probe accounting (when the private helpers still exist): _write_line1..4 ran once per
      species, _read_line1..4 once per entry, _read_line_num once per record line written,
      exactly one line classified as the temperature header.

File-level failures (exception in write / read, dropped or duplicated species) are attributed
by isolation: the species are round-tripped alone, then the first failing one is reduced to a
single feature (its name on an otherwise benign species, each element alone, its notes), so
the mech carries exactly the features that matter (`cause`, `name_class`, `count_type`,
`sym_len`, `digits`, `notes_class`).
"""
import collections
import decimal
import math
import os
import random

from vf import core
from vf.gen import species as gs
from vf.ref import poly
from vf.ref import thermdat as rt

ID = 'C05'
N = {'quick': 25000, 'thorough': 400000}
NT_RULE = ('one case = one thermdat file: 1-200 generated NASA-7 species (list or dict input; file or '
           'string output; read format list/tuple/dict; date or notes; optional comment block and '
           'supplementary entries) drawn per case index from a seeded PRNG after a list of directed '
           'files; non-trivial = the file contains a species whose name contains END or THERMO, or a '
           'count of >=2 digits, or 4 elements, or a 15-character name; distinct = distinct canonical '
           'JSON of the file spec')
REQUIRED_ORACLES = ['L1', 'L2', 'L3', 'L4', 'H']
REQUIRED_CLASSES = [
    'twins', 'input:list', 'input:dict', 'read:list', 'read:tuple', 'read:dict', 'output:file', 'output:string',
    'date:on', 'date:off', 'notes:none', 'notes:short', 'notes:long', 'notes:blank_inside', 'notes:keyword',
    'supp_data', 'supp_txt', 'supp_txt:keyword', 'supp_txt:numeric',
    # comment lines of >= 80 columns with a record number look-alike in column 80
    'supp_txt:w80:d1', 'supp_txt:w80:d2', 'supp_txt:w80:d3', 'supp_txt:w80:d4',
    'supp_txt:w81:d1', 'supp_txt:w81:d2', 'supp_txt:w81:d3', 'supp_txt:w81:d4',
    'supp_txt:w100:d1', 'supp_txt:w100:d2', 'supp_txt:w100:d3', 'supp_txt:w100:d4',
    'supp_data:w80:d1', 'supp_data:w80:d2', 'supp_data:w80:d3', 'supp_data:w80:d4',
    'supp_data:w81:d1', 'supp_data:w81:d2', 'supp_data:w81:d3', 'supp_data:w81:d4',
    'supp_data:w100:d1', 'supp_data:w100:d2', 'supp_data:w100:d3', 'supp_data:w100:d4',
    'supp_data:comment_before', 'supp_data:comment_between', 'supp_data:comment_inside_entry',
    'supp_txt:commented_out_entry',
    # supp_data that is itself a thermdat text (own THERMO header, temperature line, END) and
    # supp_data entries whose names start with END / THERMO in any letter case
    'supp_data:full_thermdat', 'supp_data:handmade_sections', 'supp_data:interior_END',
    'supp_data:interior_THERMO', 'supp_data:interior_temperature_line', 'supp_data:entries_after_interior_END',
    'supp_data:full_thermdat:date:on', 'supp_data:full_thermdat:date:off',
    'supp_name:starts_END:upper:nonfirst', 'supp_name:starts_END:othercase:nonfirst',
    'supp_name:starts_THERMO:upper:nonfirst', 'supp_name:starts_THERMO:othercase:nonfirst',
    'supp_name:starts_END:upper:first', 'supp_name:starts_END:othercase:first',
    'supp_name:starts_THERMO:upper:first', 'supp_name:starts_THERMO:othercase:first',
    'supp_name:plain:nonfirst',
    'name:starts_keyword', 'name:contains_keyword', 'name:equals_keyword', 'name:lowercase_keyword',
    'name:starts_REAC',
    'name:plain', 'name:contains_END', 'name:starts_END', 'name:contains_THERMO', 'name:starts_THERMO',
    'name:numeric', 'name:starts_digit', 'name:special', 'name:len15', 'name:len1',
    'elements:1', 'elements:2', 'elements:3', 'elements:4', 'zero_count',
    'count:int', 'count:npint', 'count:float',
    'sym1xdig1', 'sym1xdig2', 'sym1xdig3', 'sym2xdig1', 'sym2xdig2', 'sym2xdig3',
    'species:1', 'species:2-20', 'species:21-199', 'species:200',
    'T:1.0', 'T:9999.9', 'T:int', 'T:decimals>1',
    'coef:zero', 'coef:negative', 'coef:1e-30', 'coef:1e30', 'coef:all_zero_record',
    # ninth-digit rounding carries into the next decade (9.999999995e k <= |x| < 1e k+1)
    'coef:carry', 'coef:carry:record2', 'coef:carry:record3', 'coef:carry:record4', 'coef:carry:last_field',
    'coef:carry:negative', 'coef:carry:1ulp', 'coef:carry:exp<-9', 'coef:carry:exp>9', 'coef:below_carry',
    # histories on files and on the objects that were returned (oracle H)
    'hist:reread', 'hist:reread:same_format', 'hist:reread:other_format',
    'hist:format2:list', 'hist:format2:tuple', 'hist:format2:dict',
    'hist:edit:coefficients', 'hist:edit:name', 'hist:edit:elements', 'hist:edit:T', 'hist:edit:notes',
    'hist:edit:phase', 'hist:rewrite_same_size_same_mtime', 'hist:paths', 'hist:derive',
]
REQUIRED_PROBES = ['write_thermdat', 'read_thermdat', '_write_line1', '_write_line2', '_write_line3',
                   '_write_line4', '_insert_space', '_read_line1', '_read_line2', '_read_line3',
                   '_read_line4', '_read_line_num', '_is_temperature_header']
ASSUMPTIONS = [
    'character set: names, notes, comments and supplementary text are ASCII (33-126 for names).  Non-ASCII '
    'printable characters (Latin-1 supplement, Greek, sub/superscripts, CJK) are outside the quantifier as this '
    'monitor reads it, because the statement cannot hold for them on the unchanged tree in ANY locale: '
    'write_thermdat / read_thermdat call open() without encoding=, so (i) under a UTF-8 locale such a name '
    'round-trips through pMuTT but every multi-byte character pushes the rest of record 1 to the right on disk '
    '(record 1 is 81-82 BYTES, the record number is not in byte column 80, the layout clause fails for any '
    'byte-counting Chemkin reader), (ii) under an ASCII locale (LC_ALL=C, PYTHONUTF8=0, PYTHONCOERCECLOCALE=0) '
    'writing raises UnicodeEncodeError and leaves an empty file for every non-ASCII name, (iii) under a Latin-1 '
    'locale the same happens for characters above U+00FF.  No assertion about such names holds for every locale, '
    'so none is made; the directed telemetry case records what this platform does (extra: non_ascii_*)',
    'names: 1-15 ASCII printable non-blank characters, not starting with "!" (Chemkin comment marker), '
    'unique inside one file, never exactly END or THERMO (upper case); other Chemkin keywords (REACTIONS, ELEMENTS, '
    'SPECIES, SITE, BULK, TRANSPORT, ALL, NASA ... and their 4-letter forms) may start, occur in or be the whole '
    'name, in any letter case',
    'comment lines (first character "!") may appear in the comment block and anywhere inside the supplementary '
    'data (before, between and inside entries) and may be 80 or more columns wide with any character in column 80',
    'each species has 1-4 elements with counts 1-999 plus 0-2 zero-count entries (which must not be written); '
    'symbols are one or two letters',
    'phase is one non-blank character; 1 <= T_low < T_mid < T_high <= 9999.9 with gaps >= 1 K; coefficients '
    'are 0 or have magnitude in [1e-30, 1e30]',
    'temperatures are written with one decimal, so equality is |dT| <= 0.05 K (+1e-6 for binary rounding); '
    'coefficients are written with nine significant digits, so equality is a relative error <= 5e-9 (the '
    'exact rounding bound of the format; observed maxima are reported)',
    'supplementary entries are produced by an independent formatter in the same fixed-column layout and must '
    'be read back in front of the written species',
    'supplementary data may itself be a complete thermdat text - what write_thermdat(filename=None) returns for '
    'other species, or entries from the independent formatter between a THERMO [ALL] line (+ temperature line) and '
    'an END line - so THERMO / temperature / END lines sit in front of later entries; such section lines are not '
    'entries: every entry of the supplementary data and every species is read back exactly once, in file order.  '
    'For the layout oracle the interior section lines are removed before the independent parser sees the text '
    '(a writer may keep or drop them; the entries are what is asserted)',
    'names of supplementary entries: SUPPn... or END / THERMO in any letter case followed by 0-12 further '
    'characters (ENDO, endo-C10H12, Thermo1, end ...), never exactly END or THERMO in upper case, unique in the file, '
    'in first and in later positions of the block',
    'notes / date text is not part of the identity that is asserted (telemetry only)',
    'histories (oracle H): a file that was not changed reads back identically (field by field, bit for bit) no '
    'matter what the program did to the objects returned by an earlier read, which format= is used, or how the '
    'same path is spelled (relative after chdir, symlink, "./", "//"); two reads never share Nasa objects, '
    'coefficient arrays or element dictionaries; a path whose content was replaced (same byte size, '
    'modification time pinned with os.utime, as on a coarse-mtime file system) reads back as the new content',
]

T_TOL = 0.05 + 1e-6
A_TOL = 5e-9 * (1 + 1e-6)
V_TOL = 1e-8

ONE = ['H', 'C', 'O', 'N', 'S', 'F', 'B', 'P', 'I', 'K', 'U', 'V', 'W', 'Y']
TWO = ['Pt', 'Ni', 'Cl', 'Ar', 'He', 'Cu', 'Fe', 'Si', 'Al', 'Na', 'Mg', 'Zn', 'Ag', 'Au', 'Pd', 'Rh',
       'Ru', 'Co', 'Ti', 'Br', 'AR', 'HE']
LET = 'ABCDEFGHIJKLMNOPQRSTUVWXYZabcdefghijklmnopqrstuvwxyz'
DIG = '0123456789'
SPECIAL = "()*+-,/#=.:;<>[]{}|~^%&$@'\"\\?_`!"
PHASES = ['G', 'S', 'L', 'g', 's', 'B', 'b', 'C', 'A', '*', '1']

A_LOW0 = [5.14987613, -0.0136709788, 4.91800599e-05, -4.84743026e-08, 1.66693956e-11, -10246.6476,
          -4.64130376]
A_HIGH0 = [0.074851495, 0.0133909467, -5.73285809e-06, 1.22292535e-09, -1.0181523e-13, -9468.34459,
           18.437318]


# ---------------------------------------------------------------- classification of inputs
def _is_numeric(s):
    try:
        float(s)
    except ValueError:
        return False
    return True


CHEMKIN_KEYWORDS = ['REACTIONS', 'REAC', 'ELEMENTS', 'ELEM', 'SPECIES', 'SPEC', 'SITE', 'BULK', 'TRANSPORT',
                    'TRAN', 'ALL', 'NASA', 'END', 'THERMO', 'THER', 'SURF', 'GAS', 'DUP', 'REV', 'MWON', 'MWOFF',
                    'SDEN', 'UNITS', 'MATERIAL']


def keyword_classes(name):
    """Chemkin keywords other than the exact upper-case END / THERMO (own classes), matched
    without regard to letter case."""
    out = []
    up = name.upper()
    for kw in CHEMKIN_KEYWORDS:
        i = up.find(kw)
        while i >= 0:
            text = name[i:i + len(kw)]
            if not (kw in ('END', 'THERMO') and text == kw):
                out.append('equals_keyword' if up == kw else 'starts_keyword' if i == 0 else 'contains_keyword')
                if text != kw:
                    out.append('lowercase_keyword')
            i = up.find(kw, i + 1)
    if up.startswith('REAC'):
        out.append('starts_REAC')
    order = ['equals_keyword', 'starts_keyword', 'contains_keyword', 'lowercase_keyword', 'starts_REAC']
    return [c for c in order if c in out]


def name_classes(name):
    out = []
    if 'END' in name:
        out.append('starts_END' if name.startswith('END') else 'contains_END')
    if 'THERMO' in name:
        out.append('starts_THERMO' if name.startswith('THERMO') else 'contains_THERMO')
    out.extend(keyword_classes(name))
    if _is_numeric(name):
        out.append('numeric')
    elif name[0].isdigit():
        out.append('starts_digit')
    if any(ch in SPECIAL for ch in name):
        out.append('special')
    if len(name) == 15:
        out.append('len15')
    if len(name) == 1:
        out.append('len1')
    if not out:
        out.append('plain')
    return out


def notes_class(notes):
    if notes is None:
        return 'none'
    if notes == '':
        return 'empty'
    if 'END' in notes[:8] or 'THERMO' in notes[:8]:
        return 'keyword'
    if ' ' in notes[:8].strip():
        return 'blank_inside'
    if len(notes) > 8:
        return 'long'
    return 'short'


def elem_features(el):
    sym, cnt, ctype = el
    return {'count_type': ctype, 'sym_len': len(sym), 'digits': len(str(int(cnt)))}


def nonzero(sp):
    return [el for el in sp['elements'] if el[1] != 0]


# ---------------------------------------------------------------- generator
def _plain(rng, lo, hi):
    while True:
        n = rng.randint(lo, hi)
        s = rng.choice(LET) + ''.join(rng.choice(LET + DIG) for _ in range(n - 1))
        if 'END' not in s and 'THERMO' not in s and not _is_numeric(s):
            return s


def _tail(rng, lo, hi):
    n = rng.randint(lo, hi)
    return ''.join(rng.choice(LET + DIG + '()*-+,') for _ in range(n))


def gen_name(rng, cls):
    if cls == 'plain':
        return _plain(rng, 2, 14)
    if cls == 'contains_END':
        return (rng.choice(['P', 'BL', 'C2H5', 'x', '(', '1', 'TR']) if rng.random() < 0.6
                else _plain(rng, 1, 5)) + 'END' + _tail(rng, 0, 5)
    if cls == 'starts_END':
        return 'END' + _tail(rng, 1, 8)
    if cls == 'contains_THERMO':
        return (rng.choice(['ISO', 'x', 'EXO', '2', '(']) if rng.random() < 0.6
                else _plain(rng, 1, 4)) + 'THERMO' + _tail(rng, 0, 4)
    if cls == 'starts_THERMO':
        return 'THERMO' + _tail(rng, 1, 6)
    if cls in ('starts_keyword', 'contains_keyword', 'equals_keyword'):
        kw = rng.choice(CHEMKIN_KEYWORDS)
        kw = rng.choice([kw, kw, kw.lower(), kw.capitalize(), kw[0].lower() + kw[1:]])
        if cls == 'equals_keyword':
            return kw if kw not in ('END', 'THERMO') else kw.lower()
        if cls == 'starts_keyword':
            return kw + rng.choice(['1', 'ANT', 'ant_A', '(S)', '*', '-2', 'S', 'x']) if rng.random() < 0.6 \
                else kw + _tail(rng, 1, 5)
        return (rng.choice(['x', 'C2', '(', '1', 'pre', 'N']) if rng.random() < 0.6 else _plain(rng, 1, 3)) + kw + \
            _tail(rng, 0, 3)
    if cls == 'numeric':
        k = rng.random()
        if k < 0.7:
            return ''.join(rng.choice(DIG) for _ in range(rng.choice([1, 2, 3, 4, 8, 14])))
        if k < 0.85:
            return '%d.%d' % (rng.randint(0, 999), rng.randint(0, 99))
        return '%dE%d' % (rng.randint(1, 9), rng.randint(0, 20))
    if cls == 'starts_digit':
        return rng.choice(DIG) + rng.choice(['-', 'C', 'x', '(', 'H']) + _tail(rng, 0, 8)
    if cls == 'special':
        s = list(_plain(rng, 2, 11))
        for _ in range(rng.randint(1, 3)):
            s.insert(rng.randint(1, len(s)), rng.choice(SPECIAL))
        return ''.join(s)
    if cls == 'len15':
        base = gen_name(rng, rng.choice(['plain', 'plain', 'contains_END', 'numeric', 'special', 'starts_digit',
                                         'contains_THERMO']))[:15]
        pad = DIG if _is_numeric(base) and base.isdigit() else LET + DIG
        while len(base) < 15:
            base += rng.choice(pad)
        return base
    if cls == 'len1':
        return rng.choice(LET + DIG + SPECIAL.replace('!', ''))
    raise ValueError(cls)


NAME_CLASSES = ['plain', 'contains_END', 'starts_END', 'contains_THERMO', 'starts_THERMO', 'numeric',
                'starts_digit', 'special', 'len15', 'len1']
KEYWORD_CLASSES = ['contains_END', 'starts_END', 'contains_THERMO', 'starts_THERMO', 'starts_keyword',
                   'starts_keyword', 'contains_keyword', 'equals_keyword']
BENIGN_CLASSES = ['plain', 'plain', 'numeric', 'starts_digit', 'special', 'len15', 'len1']


def keyword_name_grid():
    """Every keyword x {starts, contains, equals} x {upper, lower, capitalised}: unique valid names."""
    out = []
    for kw in CHEMKIN_KEYWORDS:
        for form in (kw, kw.lower(), kw.capitalize()):
            for nm in (form + '1', 'x' + form + '(S)', form, form + 'ant_A'):
                nm = nm[:15]
                if _valid_name(nm) and nm not in out:
                    out.append(nm)
    return out


def _valid_name(s):
    return (1 <= len(s) <= 15 and s[0] != '!' and s not in ('END', 'THERMO')
            and all(33 <= ord(ch) <= 126 for ch in s))


def gen_count(rng, digits):
    lo, hi = {1: (1, 9), 2: (10, 99), 3: (100, 999)}[digits]
    return rng.choice([lo, hi, rng.randint(lo, hi), rng.randint(lo, hi)])


def gen_elements(rng, allow_s2d3, allow_float):
    n = rng.choice([1, 2, 2, 3, 3, 4, 4])
    syms = set()
    out = []
    for _ in range(n):
        while True:
            sl = rng.choice([1, 2])
            sym = rng.choice(ONE if sl == 1 else TWO)
            if sym not in syms:
                syms.add(sym)
                break
        dg = rng.choice([1, 1, 2, 2, 3])
        if not allow_s2d3 and sl == 2 and dg == 3:
            dg = 2
        ctype = rng.choice(['int', 'int', 'npint', 'float'] if allow_float else ['int', 'int', 'int', 'npint'])
        out.append([sym, gen_count(rng, dg), ctype])
    if rng.random() < 0.25:
        for _ in range(rng.randint(1, 2)):
            sym = rng.choice([s for s in ONE + TWO if s not in syms])
            syms.add(sym)
            out.insert(rng.randint(0, len(out)), [sym, 0, rng.choice(['int', 'int', 'npint', 'float'])])
    return out


CARRY_D = ['1e-9', '4e-9', '5e-9', '6e-9', '1e-10', '1e-12', 'ulp']


def carry_value(d, k, sign=1):
    """(10 - d) * 10**k as the nearest double of that decimal literal; d = 'ulp' gives the
    largest double below 10**(k+1).  With nine significant digits the values with
    d <= 5e-9 must be printed as 1.00000000E(k+1), d = 6e-9 as 9.99999999E(k)."""
    if d == 'ulp':
        v = math.nextafter(float('1e%d' % (k + 1)), 0.0)
    else:
        v = float('%se%d' % (decimal.Decimal(10) - decimal.Decimal(d), k))
    return sign * v


_CTX9 = decimal.Context(prec=9, rounding=decimal.ROUND_HALF_EVEN)


def carry_class(v):
    """'carry' when rounding to nine significant digits moves |v| into the next decade,
    'below' when it is within 1e-8 relative under a decade but stays there, else None."""
    if v == 0.0:
        return None
    if not ('%.10e' % abs(v)).startswith(('9.99999999', '1.0000000000e')):
        return None
    d = decimal.Decimal(abs(v))
    if d.adjusted() < _CTX9.plus(d).adjusted():
        return 'carry'
    if ('%.10e' % abs(v)).startswith('9.99999999'):
        return 'below'
    return None


def gen_carry(rng):
    # k in -30..29 keeps 1e-30 <= |v| < 1e30 (the carried value is at most 1.00000000E+30)
    return carry_value(rng.choice(CARRY_D), rng.randint(-30, 29) if rng.random() < 0.8 else rng.choice([-30, -1, 0, 29]),
                       rng.choice([1, -1]))


def gen_coef(rng):
    k = rng.random()
    if k < 0.12:
        return 0.0
    if k < 0.15:
        return gen_carry(rng)
    if k < 0.18:
        return rng.choice([1e-30, -1e-30, 1e30, -1e30])
    e = rng.randint(-30, 29)
    m = rng.uniform(1.0, 9.999999)
    return float('%.12g' % (rng.choice([1, -1]) * m * 10.0 ** e))


def gen_coefs(rng, style):
    if style == 'realistic':
        a = gs.gen_nasa7_coeffs(rng, style='realistic')
        if rng.random() < 0.1:
            a[rng.randrange(7)] = gen_carry(rng)
        return a
    if style == 'zeros':
        return [0.0] * 7
    return [gen_coef(rng) for _ in range(7)]


def gen_T(rng):
    k = rng.random()
    if k < 0.5:
        T = gs.gen_breaks(rng, 2, 50.0, 6000.0, 20.0)
    else:
        nd = rng.choice([1, 2, 3])
        while True:
            T = sorted(round(rng.uniform(1.0, 9999.9), nd) for _ in range(3))
            if T[1] - T[0] >= 1.0 and T[2] - T[1] >= 1.0:
                break
    if rng.random() < 0.08:
        T[0] = 1.0
        if T[1] < 2.0:
            T[1] = 2.0
            T[2] = max(T[2], 3.0)
    if rng.random() < 0.08:
        T[2] = 9999.9
        if T[1] > 9998.9:
            T[1] = 9998.9
            T[0] = min(T[0], 9997.9)
    if rng.random() < 0.06:
        T = [int(round(t)) for t in T]
        if not (T[0] >= 1 and T[1] - T[0] >= 1 and T[2] - T[1] >= 1 and T[2] <= 9999):
            T = [300, 1000, 5000]
    return T


def gen_notes(rng):
    k = rng.random()
    if k < 0.3:
        return None
    if k < 0.35:
        return ''
    if k < 0.55:
        return _plain(rng, 1, 8)
    if k < 0.7:
        return _plain(rng, 9, 20)
    if k < 0.85:
        return _plain(rng, 1, 3) + ' ' + _plain(rng, 1, 3)
    if k < 0.93:
        return rng.choice(['TRENDS', 'ENDO', 'xEND', 'THERMO', 'THERMO1', 'aTHERMO', 'END'])
    return str(rng.randint(1, 99999999))


def gen_species(rng, name, allow_s2d3=False, allow_float=False):
    T = gen_T(rng)
    style = rng.choice(['realistic', 'realistic', 'wide', 'wide', 'wide', 'zeros'])
    style2 = style if style != 'zeros' else rng.choice(['wide', 'zeros'])
    return {'name': name, 'phase': rng.choice(PHASES[:4]) if rng.random() < 0.7 else rng.choice(PHASES),
            'elements': gen_elements(rng, allow_s2d3, allow_float), 'T_low': T[0], 'T_mid': T[1], 'T_high': T[2],
            'a_low': gen_coefs(rng, style), 'a_high': gen_coefs(rng, style2), 'notes': gen_notes(rng)}


SUPP_PREFIX = ['END', 'END', 'end', 'End', 'eND', 'endo-', 'THERMO', 'THERMO', 'thermo', 'Thermo', 'THERMo']
SUPP_TAILS = ['O', '1', '2', 'o-C10H12', '(S)', '*', '-2', 'S', 'X2', '', 'C10H12', '_a']


def gen_supp_name(rng, k, used, keyword):
    for attempt in range(50):
        if keyword:
            nm = rng.choice(SUPP_PREFIX) + (rng.choice(SUPP_TAILS) if rng.random() < 0.6 else _tail(rng, 1, 6))
        else:
            nm = 'SUPP%d%s' % (k, rng.choice(['', '(S)', '*', '-X']))
        nm = nm[:15]
        if _valid_name(nm) and nm not in used:
            break
    else:
        nm = 'SUPQ%d' % k
        while nm in used:
            nm += 'q'
    used.add(nm)
    return nm


def supp_name_class(name):
    up = name.upper()
    for kw in ('END', 'THERMO'):
        if up.startswith(kw):
            return 'starts_%s:%s' % (kw, 'upper' if name.startswith(kw) else 'othercase')
    return 'plain'


def gen_supp(rng, k, name=None):
    T = [round(t, 2) for t in gs.gen_breaks(rng, 2, 50.0, 6000.0, 20.0)]
    els = []
    for sym in rng.sample(['H', 'C', 'O', 'N', 'AR', 'Pt', 'Ni'], rng.randint(1, 4)):
        els.append([sym, rng.choice([1, 2, 9, 10, 12, 99])])
    rnd9 = lambda v: float('%.8E' % v)
    default = 'SUPP%d%s' % (k, rng.choice(['', '(S)', '*', '-X']))
    return {'name': name if name is not None else default, 'elements': els,
            'phase': rng.choice(['G', 'S', 'L']), 'T_low': T[0], 'T_mid': T[1], 'T_high': T[2],
            'a_low': [rnd9(v) for v in gs.gen_nasa7_coeffs(rng, style='realistic')],
            'a_high': [rnd9(v) for v in gs.gen_nasa7_coeffs(rng, style='realistic')],
            'date': rng.choice(['', '121286', 'L 8/88', 'J 3/77', '2018']),
            'style': rng.choice(['right', 'left'])}


SUPP_TXT = [
    '! comment',
    '! ---------------------------------------------------------------\n!  Gas species\n! ------',
    '! this block ENDs here\n! THERMO data fitted by pMuTT\n',
    '! END',
    '!THERMO ALL',
    '! 300 1000 5000',
    '!       100       500      1500\n',
    '!',
    '! trailing digit 1\n! trailing digit 4',
    '!' + ' ' * 78 + '1',
    ('! END of THERMO block').ljust(79) + '4',
    ('!END').ljust(79) + '1' + '\n' + ('! THERMO').ljust(79) + '2',
    '! TRENDS\n! 1 2 3\n',
]


def wide_comment(width, digit, text='! superseded fit, kept for reference'):
    """A comment line of `width` >= 80 columns whose 80th character is `digit`."""
    ln = text.ljust(79)[:79] + digit
    if width == 81:
        ln += digit
    elif width > 81:
        ln += (' see the note above; refit 2019-03-07 ' * 3)[:width - 80]
    return ln


WIDE_COMMENTS = [wide_comment(w, d, t) for w in (80, 81, 100) for d, t in zip(
    '1234', ['! superseded fit, kept for reference', '!', '! 5.14987613E+00-1.36709788E-02 4.91800599E-05',
             '!END of the THERMO block 300 1000 5000'])]


def commented_out_entry():
    """An old entry disabled in place: column 1 of each of its four records overwritten with
    '!' (the record numbers stay in column 80)."""
    txt = rt.format_entry('OLDCH4', [('C', 1), ('H', 4)], 'G', 200.0, 3500.0, 1000.0, A_LOW0, A_HIGH0,
                          date='121286', style='right')
    return ['!' + ln[1:] for ln in txt.split('\n') if ln]


def gen_wide_lines(rng):
    k = rng.random()
    if k < 0.3:
        return commented_out_entry()
    return [wide_comment(rng.choice([80, 81, 100, rng.randint(80, 120)]), rng.choice('1234'),
                         rng.choice(['! note', '!', '! 1 2 3', '! END', '!THERMO', '! 3.65264072E+00 1.06108515E-03']))
            for _ in range(rng.randint(1, 4))]


def generate(rng, tier):
    k = rng.random()
    if k < 0.15:
        n = 1
    elif k < 0.60:
        n = rng.randint(2, 5)
    elif k < 0.88:
        n = rng.randint(6, 20)
    elif k < 0.96:
        n = rng.randint(21, 99)
    else:
        n = rng.choice([100, 150, 199, 200, 200, rng.randint(100, 200)])
    p_kw = rng.choice([0.0, 0.0, 0.1, 0.3, 1.0])
    # two-letter symbol x three-digit count and float-typed counts are switched per file, so
    # that an open finding on one of them cannot mask the other (or everything else)
    allow_s2d3 = rng.random() < 0.4
    allow_float = rng.random() < 0.45
    names, used = [], set()
    for _ in range(n):
        for attempt in range(50):
            if rng.random() < p_kw:
                cls = rng.choice(KEYWORD_CLASSES)
            else:
                cls = rng.choice(BENIGN_CLASSES)
            s = gen_name(rng, cls)[:15]
            if _valid_name(s) and s not in used and (p_kw > 0 or not ({'END', 'THERMO'} & _kw(s))):
                break
        else:
            s = ('Z%d' % len(names))
        used.add(s)
        names.append(s)
    spec = {'input': rng.choice(['list', 'list', 'dict']),
            'read_format': rng.choice(['list', 'list', 'tuple', 'dict']),
            'output': rng.choice(['file', 'string']),
            'write_date': rng.random() < 0.4,
            'supp_txt': (rng.choice(SUPP_TXT) if rng.random() < 0.3 else None),
            'supp': None,
            'species': [gen_species(rng, nm, allow_s2d3, allow_float) for nm in names]}
    if rng.random() < 0.2:
        p_skw = rng.choice([0.0, 0.0, 0.5, 1.0])
        spec['supp'] = [gen_supp(rng, i, gen_supp_name(rng, i, used, rng.random() < p_skw))
                        for i in range(rng.randint(1, 4))]
        if rng.random() < 0.3:
            hd = rng.choice(['THERMO ALL', 'THERMO ALL', 'THERMO', None])
            spec['supp_wrap'] = {'header': hd, 'temps': ([300.0, 1000.0, 5000.0] if hd == 'THERMO ALL' else None),
                                 'end': hd is None or rng.random() < 0.8}
    if rng.random() < (0.35 if spec['supp'] else 0.06):
        # supplementary data that is what pMuTT returns for other species (header, temperatures, END)
        p_skw = rng.choice([0.0, 0.5, 1.0])
        fnames = [gen_supp_name(rng, 10 + i, used, rng.random() < p_skw) for i in range(rng.randint(1, 4))]
        spec['supp_full'] = {'species': [gen_species(rng, nm, False, False) for nm in fnames],
                             'write_date': rng.random() < 0.4, 'position': rng.choice(['before', 'before', 'after'])}
    if spec['supp'] and rng.random() < 0.4:
        spec['supp_newline'] = False         # the writer has to terminate the block itself
    if spec['supp_txt'] is not None and rng.random() < 0.4:
        lines = gen_wide_lines(rng)
        body = spec['supp_txt']
        spec['supp_txt'] = ('\n'.join(lines) + '\n' + body) if rng.random() < 0.5 else \
            (body.rstrip('\n') + '\n' + '\n'.join(lines))
    if spec['supp'] and rng.random() < 0.5:
        spec['supp_comments'] = {'before': gen_wide_lines(rng) if rng.random() < 0.6 else [],
                                 'between': gen_wide_lines(rng) if rng.random() < 0.6 else [],
                                 'inside': gen_wide_lines(rng) if rng.random() < 0.6 else []}
    if n < 200 and rng.random() < 0.25:
        # twins: adjacent species that differ only in their names (isomers, the same
        # adsorbate on two sites) must stay two species
        i = rng.randrange(n)
        for attempt in range(50):
            nm = gen_name(rng, rng.choice(['plain', 'special', 'starts_digit']))[:15]
            if _valid_name(nm) and nm not in used and not _kw(nm):
                twin = dict(spec['species'][i], name=nm)
                if rng.random() < 0.5:
                    twin['phase'] = rng.choice(PHASES[:4])
                spec['species'].insert(i + 1, twin)
                break
    if len(spec['species']) <= 30 and rng.random() < 0.5:
        spec['history'] = gen_history(rng)
    return spec


HIST_KINDS = ['reread', 'reread', 'rewrite', 'paths', 'derive']
EDIT_KINDS = ['coefficients', 'name', 'elements', 'T', 'notes', 'phase']


def gen_history(rng):
    return {'kind': rng.choice(HIST_KINDS), 'format2': rng.choice(['list', 'tuple', 'dict']),
            'edits': sorted(rng.sample(EDIT_KINDS, rng.randint(1, len(EDIT_KINDS)))),
            'targets': rng.choice(['first', 'last', 'all'])}


def _kw(s):
    return {k for k in ('END', 'THERMO') if k in s}


def S(name, elements, phase='G', T=(200.0, 1000.0, 3500.0), a_low=None, a_high=None, notes=None):
    els = [list(e) if len(e) == 3 else [e[0], e[1], 'int'] for e in elements]
    return {'name': name, 'phase': phase, 'elements': els, 'T_low': T[0], 'T_mid': T[1], 'T_high': T[2],
            'a_low': list(a_low if a_low is not None else A_LOW0),
            'a_high': list(a_high if a_high is not None else A_HIGH0), 'notes': notes}


def F(species, input='list', read_format='list', output='file', write_date=False, supp_txt=None, supp=None):
    return {'input': input, 'read_format': read_format, 'output': output, 'write_date': write_date,
            'supp_txt': supp_txt, 'supp': supp, 'species': species}


def directed(tier):
    D = []
    CH4 = S('CH4', [('C', 1), ('H', 4)])
    H2O = S('H2O', [('H', 2), ('O', 1)], T=(200.0, 493.9, 1100.0))
    OK = S('OK', [('O', 1)], phase='S')
    # 0 plain file, date on
    D.append(F([CH4, H2O, OK], write_date=True))
    # 1-6 keyword-bearing names: pinned witnesses of the END / THERMO line-skipping defect
    D.append(F([CH4, S('PENDANT', [('C', 10), ('H', 22)]), OK]))
    D.append(F([S('THERMOX', [('C', 1), ('H', 4)])]))
    D.append(F([CH4, S('ENDO', [('C', 5), ('H', 8)]), S('ISOTHERMO', [('N', 2)]), OK], output='string',
               read_format='dict', input='dict', write_date=True))
    D.append(F([S('C2H5END', [('C', 2), ('H', 5)]), CH4]))
    D.append(F([CH4, S('BLEND(S)', [('Pt', 1)], phase='S'), S('THERMO2', [('H', 2)]), S('xTHERMOEND', [('H', 1)])],
               read_format='tuple'))
    D.append(F([CH4, S('LAST_ENDS', [('H', 3)])], output='string'))
    # 7 keyword in the notes (written when write_date is False)
    D.append(F([CH4, S('NOTED', [('H', 1)], notes='TRENDS and more'), S('NOTED2', [('H', 1)], notes='THERMO')]))
    # 8-9 two-letter symbol with three-digit count
    D.append(F([S('Pt100', [('Pt', 100)], phase='S')]))
    D.append(F([CH4, S('Ni999Cu100', [('Ni', 999), ('Cu', 100), ('H', 1)], phase='S'), OK], read_format='tuple'))
    # 10-13 integral float counts
    D.append(F([S('f12', [('C', 12, 'float'), ('H', 26, 'float')])]))
    D.append(F([S('f2', [('C', 2, 'float'), ('H', 6, 'float'), ('O', 0, 'float')])]))
    D.append(F([S('f100', [('C', 100, 'float'), ('Pt', 10, 'float')])]))
    D.append(F([S('f999', [('Pt', 999, 'float')]), CH4]))
    # 14 numpy integer counts, every symbol length x digit class except sym2xdig3
    D.append(F([S('np1', [('C', 1, 'npint'), ('Pt', 9, 'npint')]), S('np2', [('C', 10, 'npint'), ('Pt', 99, 'npint')]),
                S('np3', [('H', 100, 'npint'), ('O', 999, 'npint')])]))
    D.append(F([S('i1', [('C', 1), ('Pt', 9)]), S('i2', [('C', 10), ('Pt', 99)]), S('i3', [('H', 100), ('O', 999)]),
                S('H100He99', [('H', 100), ('He', 99)])], input='dict', read_format='dict'))
    # 16 four elements at the width limit, zero-count entries (4 non-zero + 2 zero)
    D.append(F([S('FOUR', [('C', 999), ('H', 100), ('O', 999), ('N', 100)]),
                S('FOUR2', [('Pt', 99), ('Ni', 10), ('Cl', 99), ('Ar', 10)], phase='S'),
                S('ZEROS', [('Ar', 0), ('C', 2), ('He', 0, 'float'), ('H', 6), ('O', 1), ('N', 1), ('S', 0, 'npint')])]))
    # 17 names at the width limit, with 8-character notes / date
    D.append(F([S('123456789012345', [('C', 2), ('H', 6), ('O', 99), ('Ni', 14)], notes='12345678'),
                S('ABCDEFGHIJKLMNO', [('C', 1)], notes='a b  c d e'), S('X', [('H', 1)], notes='')]))
    D.append(F([S('abcdefghijklmn(', [('C', 2)]), S('Q', [('H', 1)]), S('#', [('H', 1)])], write_date=True,
               output='string'))
    # 19 numeric names and names starting with digits
    D.append(F([S('123', [('H', 1)]), S('1', [('H', 1)], notes='500'), S('2E5', [('H', 2)]), S('1.5', [('O', 1)]),
                S('4', [('C', 1)]), S('2-C4H8', [('C', 4), ('H', 8)]), S('1C3H7', [('C', 3), ('H', 7)]),
                S('100', [('He', 1)], notes='500 1500')]))
    # 20 special characters, odd phases
    D.append(F([S("CH3(S)", [('C', 1), ('H', 3)], phase='S'), S('O*', [('O', 1)], phase='*'),
                S('a+b-c,d/e#f', [('C', 1)], phase='1'), S('A!B', [('H', 1)], phase='g'),
                S('"q\'\\`', [('H', 1)], phase='b'), S('end', [('H', 1)], phase='L'),
                S('thermo', [('H', 1)], phase='B')]))
    # 21 temperature bounds and rounding
    D.append(F([S('Tmin', [('H', 1)], T=(1.0, 2.0, 3.0)), S('Tmax', [('H', 1)], T=(9997.9, 9998.9, 9999.9)),
                S('Tfull', [('H', 1)], T=(1.0, 5000.0, 9999.9)), S('Tint', [('H', 1)], T=(300, 1000, 5000)),
                S('Tdec', [('H', 1)], T=(298.15, 1000.25, 3500.55)), S('Tdec3', [('H', 1)], T=(100.049, 200.951, 300.999))]))
    # 22 coefficient extremes
    z = [0.0] * 7
    big = [1e30, -1e30, 9.99999999e29, -1.23456789012e25, 1e30, -1e30, 5.5e29]
    tiny = [1e-30, -1e-30, 1.00000000049e-30, -9.87654321098e-25, 1e-30, -1e-30, 2.5e-30]
    mixed = [0.0, 1e30, -1e-30, 0.0, -3.14159265358979e-10, 2.718281828459e10, 0.0]
    D.append(F([S('zeros', [('H', 1)], a_low=z, a_high=z), S('big', [('H', 1)], a_low=big, a_high=tiny),
                S('tiny', [('H', 1)], a_low=tiny, a_high=big), S('mixed', [('H', 1)], a_low=mixed, a_high=mixed[::-1]),
                S('halfzero', [('H', 1)], a_low=z)], read_format='tuple'))
    # 23 comment block + supplementary entries
    rng = random.Random('C05:directed:supp')
    D.append(F([CH4, OK], supp_txt=SUPP_TXT[2], supp=[gen_supp(rng, 0), gen_supp(rng, 1)], write_date=True))
    D.append(F([CH4, H2O], supp_txt=SUPP_TXT[5], output='string'))
    D.append(F([CH4], supp_txt=SUPP_TXT[6], supp=[gen_supp(rng, 2)], read_format='dict'))
    D.append(F([CH4, OK], supp_txt=SUPP_TXT[9] + '\n' + SUPP_TXT[3] + '\n' + SUPP_TXT[4]))
    D.append(F([CH4, S('PENDANT', [('C', 10), ('H', 22)]), OK], supp_txt=SUPP_TXT[10] + '\n' + SUPP_TXT[11],
               write_date=True))
    # wide comment lines (80 / 81 / 100 columns, '1'..'4' in column 80, a commented-out entry) in the
    # comment block and before / between / inside the supplementary entries
    allwide = WIDE_COMMENTS + commented_out_entry()
    D.append(F([CH4, S('PENDANT', [('C', 10), ('H', 22)]), OK], supp_txt='\n'.join(allwide),
               supp=[gen_supp(rng, 0), gen_supp(rng, 1), gen_supp(rng, 2)]))
    D[-1]['supp_comments'] = {'before': list(allwide), 'between': list(allwide), 'inside': list(allwide)}
    D.append(F([CH4, OK], supp_txt='\n'.join(commented_out_entry()) + '\n', supp=[gen_supp(rng, 0)],
               read_format='dict', output='string', write_date=True))
    D[-1]['supp_comments'] = {'before': [], 'between': list(WIDE_COMMENTS), 'inside': commented_out_entry()}
    D[-1]['supp_newline'] = False
    D.append(F([CH4, H2O, OK], supp_txt='\n'.join(WIDE_COMMENTS[::-1]), read_format='tuple'))
    # ninth-digit carry: every d x decade x sign, in each of the 14 positions
    carry = [carry_value(d, k, sg) for k in range(-30, 30) for d in CARRY_D for sg in (1, -1)]
    sp_c = []
    for i in range(0, len(carry), 14):
        vals = (carry[i:i + 14] + carry[:14])[:14]
        sp_c.append(S('CARRY%d' % (i // 14), [('H', 1)], a_high=vals[0:7], a_low=vals[7:14]))
    D.append(F(sp_c, read_format='tuple'))
    one = []
    for pos in range(14):
        for j, d in enumerate(('1e-10', 'ulp')):
            vals = list(A_HIGH0) + list(A_LOW0)
            vals[pos] = carry_value(d, (pos * 4 + j * 7) % 60 - 30, -1 if (pos + j) % 2 else 1)
            one.append(S('ONE%d%s' % (pos, 'ab'[j]), [('H', 1)], a_high=vals[0:7], a_low=vals[7:14]))
    D.append(F(one, output='string', input='dict', read_format='dict'))
    # other Chemkin keywords at the start of / inside / as the whole name, three letter cases
    grid = keyword_name_grid()
    half = (len(grid) + 1) // 2
    D.append(F([S(nm, [('H', 1)]) for nm in grid[:half]]))
    D.append(F([S(nm, [('C', 1), ('H', 4)], phase='S') for nm in grid[half:]], input='dict', read_format='dict',
               write_date=True))
    D.append(F([CH4, S('reactant_A', [('C', 2)]), OK, S('REAC1', [('H', 1)]), S('Reactions', [('H', 2)]),
                S('elements', [('O', 1)]), S('SPECIES', [('N', 1)]), S('all', [('H', 3)]), S('site(S)', [('Pt', 1)]),
                H2O], read_format='tuple'))
    # 200 species
    rng = random.Random('C05:directed:200')
    names = ['SP%d%s' % (i, rng.choice(['', '(S)', '*', '-a'])) for i in range(200)]
    D.append(F([gen_species(rng, nm) for nm in names], write_date=True))
    D.append(F([gen_species(rng, nm) for nm in names], input='dict', read_format='dict', output='string'))
    # isomers / same adsorbate on two sites: identical except for the name
    C4 = S('n-C4H10', [('C', 4), ('H', 10)])
    D.append(F([C4, dict(C4, name='i-C4H10'), dict(C4, name='C4H10(S)', phase='S'), dict(C4, name='C4H10(T)', phase='S'),
                CH4, dict(CH4, name='CH4')][:5]))
    # 30 mid-sized file, every benign name class
    rng = random.Random('C05:directed:40')
    names = []
    while len(names) < 40:
        nm = gen_name(rng, BENIGN_CLASSES[len(names) % len(BENIGN_CLASSES)])[:15]
        if _valid_name(nm) and nm not in names and not _kw(nm):
            names.append(nm)
    D.append(F([gen_species(rng, nm) for nm in names], read_format='tuple',
               supp=[dict(gen_supp(rng, 0))], supp_txt='! forty species'))
    D[-1]['supp_newline'] = False
    # supplementary data that is itself a thermdat text (pMuTT's own output for other species: header,
    # temperature line, END) and hand-made blocks between THERMO ... END; keyword-prefixed entry names
    rng = random.Random('C05:directed:supp_full')
    NH3 = S('NH3', [('N', 1), ('H', 3)])
    fsp = lambda names: [dict(gen_species(rng, nm), notes=None) for nm in names]
    D.append(F([CH4, NH3, S('ENDO', [('C', 5), ('H', 8)])]))
    D[-1]['supp_full'] = {'species': [H2O, S('CO2', [('C', 1), ('O', 2)])], 'write_date': False, 'position': 'before'}
    kwn = ['C5H6', 'endo-C10H12', 'ENDO2', 'Thermo1', 'THERMOX', 'end', 'thermo', 'C2H4', 'End(S)', 'THERMo*']
    D.append(F([CH4, NH3], supp=[gen_supp(rng, i, nm) for i, nm in enumerate(kwn)]))
    for i, first in enumerate(['END1', 'endo', 'THERMO-a', 'Thermo2']):
        D.append(F([CH4, OK], supp=[gen_supp(rng, 0, first), gen_supp(rng, 1, 'SUPP1'), gen_supp(rng, 2, kwn[i + 1])],
                   read_format=('list', 'tuple', 'dict', 'list')[i], output=('file', 'string')[i % 2],
                   write_date=bool(i % 2)))
    for i, (hd, end, pos) in enumerate([('THERMO ALL', True, 'before'), ('THERMO', True, 'after'),
                                        (None, True, 'before'), ('THERMO ALL', False, 'after')]):
        D.append(F([CH4, S('END3', [('H', 3)]), OK], supp=[gen_supp(rng, 0, 'SUPP0'), gen_supp(rng, 1, kwn[1 + i])],
                   read_format=('list', 'tuple', 'dict', 'list')[i], output=('file', 'string')[i % 2],
                   input=('list', 'dict')[i % 2], write_date=bool(i % 2), supp_txt=(None, SUPP_TXT[3])[i % 2]))
        D[-1]['supp_wrap'] = {'header': hd, 'temps': [300.0, 1000.0, 5000.0] if hd == 'THERMO ALL' else None,
                              'end': end}
        D[-1]['supp_full'] = {'species': fsp(['F%d' % i, ('ENDO-F', 'thermoF', 'Endf', 'THERMOF')[i], 'G%d' % i]),
                              'write_date': bool(i // 2), 'position': pos}
        if i == 2:
            D[-1]['supp_newline'] = False
    D.append(F([CH4], supp_txt='! after the supplementary file', read_format='dict'))
    D[-1]['supp_full'] = {'species': fsp(['ONLY']), 'write_date': True, 'position': 'after'}
    D[-1]['supp_newline'] = False
    # telemetry only (no oracle): non-ASCII names on disk; the ordinary checks run on the ASCII species
    D.append(F([CH4, OK]))
    D[-1]['telemetry'] = 'non_ascii_names'
    # histories: every kind, every (format, format2) pair for the re-read, single edits and all edits
    k = 0
    for kind in ('reread', 'rewrite', 'paths', 'derive'):
        for f1 in ('list', 'tuple', 'dict'):
            for f2 in ('list', 'tuple', 'dict'):
                if kind != 'reread' and f1 != 'list' and f2 != f1:
                    continue
                edits = list(EDIT_KINDS) if k % 3 == 0 else [EDIT_KINDS[k % 6]] if k % 3 == 1 else \
                    [EDIT_KINDS[k % 6], EDIT_KINDS[(k + 2) % 6]]
                D.append(F([CH4, H2O, S('Pt(S)', [('Pt', 1)], phase='S', notes='site'), OK], read_format=f1,
                           output='file' if k % 2 else 'string', input='dict' if k % 4 == 2 else 'list',
                           supp=[gen_supp(rng, 0)] if k % 5 == 0 else None))
                D[-1]['history'] = {'kind': kind, 'format2': f2, 'edits': sorted(edits),
                                    'targets': ('first', 'last', 'all')[k % 3]}
                k += 1
    return D


# ---------------------------------------------------------------- probes
_PC = collections.Counter()
_ST = {'pr': None, 'ctx': None, 'names_read': []}
_WATCHED = ['write_thermdat', 'read_thermdat', '_write_line1', '_write_line2', '_write_line3', '_write_line4',
            '_insert_space', '_read_line1', '_read_line2', '_read_line3', '_read_line4', '_read_line_num',
            '_is_temperature_header', '_get_fields']


def _on_call(label, loc):
    _PC[label] += 1
    return None


def _on_ret(label, ret, snap):
    ctx = _ST['ctx']
    if label == '_is_temperature_header':
        _PC['temp_header:%s' % bool(ret)] += 1
        if ctx is not None:
            ctx.branch('temp_header:%s' % bool(ret))
    elif label == '_read_line_num':
        _PC['line_num:%s' % ret] += 1
        if ctx is not None:
            ctx.branch('line_num:%s' % ret)
    elif label == '_read_line1':
        if isinstance(ret, dict):
            _ST['names_read'].append(ret.get('name'))
    elif label.startswith('_write_line'):
        ok = isinstance(ret, str) and len(ret) == 81 and ret[79:] == label[-1] + '\n'
        if ctx is not None:
            ctx.branch('%s:%s' % (label, '80col+number' if ok else 'malformed'))


def install_probes(pr, ctx):
    _ST['pr'] = pr
    _ST['ctx'] = ctx

    def mod():
        import pmutt.io.thermdat as m
        return m
    for label in _WATCHED:
        needs_ret = label in ('_is_temperature_header', '_read_line_num', '_read_line1') or \
            label.startswith('_write_line')
        pr.watch(lambda label=label: getattr(mod(), label), label, on_call=_on_call,
                 on_ret=_on_ret if needs_ret else None)


def _present(label):
    pr = _ST['pr']
    return pr is not None and pr.active and label not in pr.absent and label in pr.calls


# ---------------------------------------------------------------- factory
def typed(cnt, ctype):
    import numpy as np
    if ctype == 'int':
        return int(cnt)
    if ctype == 'npint':
        return np.int64(cnt)
    if ctype == 'float':
        return float(cnt)
    raise core.HarnessError('count type %r' % ctype)


def build_sp(sp):
    import numpy as np
    from pmutt.empirical.nasa import Nasa
    try:
        return Nasa(name=sp['name'], T_low=sp['T_low'], T_mid=sp['T_mid'], T_high=sp['T_high'],
                    a_low=np.array(sp['a_low'], dtype=float), a_high=np.array(sp['a_high'], dtype=float),
                    phase=sp['phase'], elements={e[0]: typed(e[1], e[2]) for e in sp['elements']},
                    notes=sp.get('notes'))
    except Exception as e:                                   # not the mechanism under test
        raise core.HarnessError('could not build Nasa: %r' % e)


def supp_text(supp, newline=True, comments=None):
    """The supplementary block: entries from the independent formatter, optionally with comment
    lines before the first entry, after entries ('between') and between the records of an
    entry ('inside')."""
    if not supp:
        return None
    comments = comments or {}
    n = len(supp)
    blocks = []
    for s in supp:
        txt = rt.format_entry(s['name'], [tuple(e) for e in s['elements']], s['phase'], s['T_low'],
                              s['T_high'], s['T_mid'], s['a_low'], s['a_high'], date=s['date'],
                              style=s['style'])
        blocks.append([[ln] for ln in txt.split('\n') if ln])       # four records, each a list of lines
    for j, ln in enumerate(comments.get('inside') or []):
        blocks[j % n][(j // n) % 3].append(ln)                        # after record 1, 2 or 3
    for j, ln in enumerate(comments.get('between') or []):
        blocks[j % max(1, n - 1)][3].append(ln)                       # after record 4 of an entry
    lines = list(comments.get('before') or [])
    for b in blocks:
        for rec in b:
            lines.extend(rec)
    txt = '\n'.join(lines) + '\n'
    return txt if newline else txt.rstrip('\n')


SUPP_KEYS = ('supp', 'supp_comments', 'supp_full', 'supp_wrap', 'supp_newline')


def supp_block(spec):
    """The supp_data string of a file spec and what it holds, in file order:
    (text or None, expected values per entry, part label per entry, species spec per entry or None).
      supp       entries from the independent formatter (optionally with comment lines)
      supp_wrap  ... placed between a THERMO [ALL] line (+ temperature line) and an END line
      supp_full  the text the real write_thermdat(filename=None) returns for other species, with its
                 own header, temperature line and END, before or after the formatter entries"""
    supp = spec.get('supp') or []
    full = spec.get('supp_full')
    wrap = spec.get('supp_wrap')
    if not supp and not full:
        return None, [], [], []
    txt, exp, parts, sps = '', [], [], []
    if supp:
        txt = supp_text(supp, True, spec.get('supp_comments'))
        if wrap:
            head = ''
            if wrap.get('header'):
                head = wrap['header'] + '\n'
                if wrap.get('temps'):
                    head += ''.join('%10.3f' % t for t in wrap['temps']) + '\n'
            txt = head + txt + ('END\n' if wrap.get('end') else '')
        exp = [expected_of_supp(s) for s in supp]
        parts = ['supp'] * len(supp)
        sps = [None] * len(supp)
    if full:
        from pmutt.io.thermdat import write_thermdat
        try:
            ftxt = write_thermdat([build_sp(s) for s in full['species']], filename=None,
                                  write_date=full['write_date'])
        except core.HarnessError:
            raise
        except Exception as e:
            raise core.HarnessError('could not produce the supplementary thermdat text: %r' % e)
        if not isinstance(ftxt, str):
            raise core.HarnessError('write_thermdat(filename=None) did not return text')
        if not ftxt.endswith('\n'):
            ftxt += '\n'
        fexp = [expected_of(s) for s in full['species']]
        fparts = ['supp_full'] * len(fexp)
        if full.get('position', 'before') == 'before':
            txt, exp, parts, sps = ftxt + txt, fexp + exp, fparts + parts, list(full['species']) + sps
        else:
            txt, exp, parts, sps = txt + ftxt, exp + fexp, parts + fparts, sps + list(full['species'])
    if not spec.get('supp_newline', True):
        txt = txt.rstrip('\n')
    return txt, exp, parts, sps


def _is_record_line(ln):
    return len(ln) >= 80 and ln[79] in '1234'


def _three_numbers(ln):
    f = ln.split()
    return len(f) == 3 and all(_is_numeric(x) for x in f)


def strip_sections(text):
    """Remove the section lines (THERMO ..., three-number temperature line, END) that lie between
    the file's own header and its last END line, i.e. those brought in by supplementary data that
    is itself a thermdat text.  Record lines (80+ columns, 1-4 in column 80) and comment lines are
    never touched.  Returns (text, {'END': n, 'THERMO': n, 'temps': n})."""
    lines = text.split('\n')
    cnt = {'END': 0, 'THERMO': 0, 'temps': 0}
    last_end = max([i for i, ln in enumerate(lines) if ln.strip() == 'END' and not _is_record_line(ln)] or [-1])
    first = next((i for i, ln in enumerate(lines) if ln.split()[:1] == ['THERMO'] and not _is_record_line(ln)), None)
    if last_end < 0 or first is None:
        return text, cnt
    start = first + 1 + (1 if lines[first].split()[1:2] == ['ALL'] else 0)
    out = []
    for i, ln in enumerate(lines):
        if start <= i < last_end and not _is_record_line(ln) and not ln.startswith('!'):
            kind = ('END' if ln.strip() == 'END' else 'THERMO' if ln.split()[:1] == ['THERMO']
                    else 'temps' if _three_numbers(ln) else None)
            if kind:
                cnt[kind] += 1
                continue
        out.append(ln)
    return '\n'.join(out), cnt


def expected_of(sp):
    return {'name': sp['name'], 'phase': sp['phase'],
            'elements': {e[0]: int(e[1]) for e in sp['elements'] if e[1] != 0},
            'T_low': float(sp['T_low']), 'T_mid': float(sp['T_mid']), 'T_high': float(sp['T_high']),
            'a_low': [float(v) for v in sp['a_low']], 'a_high': [float(v) for v in sp['a_high']]}


# ---------------------------------------------------------------- attribution by isolation
def _roundtrip(sps, write_date, tmp, supp=None, supp_txt=None, supp_comments=None, sspec=None):
    """Outcome of the real writer + reader on exactly these species: 'ok', 'write:<Exc>',
    'read:<Exc>' or 'mismatch' (number of species, names, phases, element counts)."""
    from pmutt.io.thermdat import write_thermdat, read_thermdat
    kw = {}
    if sspec is None:
        sspec = {'supp': supp, 'supp_comments': supp_comments}
    st, sexp = supp_block(sspec)[:2]
    if st:
        kw['supp_data'] = st
    if supp_txt is not None:
        kw['supp_txt'] = supp_txt
    objs = [build_sp(s) for s in sps]
    try:
        txt = write_thermdat(objs, filename=None, write_date=write_date, **kw)
    except Exception as e:
        return 'write:' + type(e).__name__
    n_supp = len(sexp)
    with open(tmp, 'w', newline='') as f:
        f.write(txt)
    try:
        back = read_thermdat(tmp)
    except Exception as e:
        return 'read:' + type(e).__name__
    try:
        if len(back) != len(sps) + n_supp:
            return 'mismatch'
        for b, s in zip(back[n_supp:], sps):
            e = expected_of(s)
            if b.name != e['name'] or b.phase != e['phase'] or dict(b.elements) != e['elements']:
                return 'mismatch'
        for b, e in zip(back[:n_supp], sexp):
            if b.name != e['name'] or b.phase != e['phase'] or dict(b.elements) != e['elements'] or \
                    _rel_err([float(v) for v in b.a_high], e['a_high']) > A_TOL:
                return 'mismatch'
    except Exception:
        return 'mismatch'
    return 'ok'


def _anchor(sp):
    return dict(sp, name='A0', elements=[['Xe', 7, 'int']], phase='G', notes=None)


def _bad(sp, wd, tmp, symptom):
    """Does this species reproduce the file-level symptom?
    symptom: 'write:<Exc>' | 'read:<Exc>' | 'silent' (species dropped / duplicated without
    an exception) | None (any failure).  A silent symptom is looked for behind a benign
    first species, because a reader that skips a record of the *first* species has nothing
    to merge it into."""
    solo = _roundtrip([sp], wd, tmp)
    if symptom is None:
        return solo != 'ok'
    if symptom == 'silent':
        return solo == 'mismatch' or _roundtrip([_anchor(sp), sp], wd, tmp) == 'mismatch'
    if solo == symptom:
        return True
    if symptom.startswith('read:') and not solo.startswith('write:'):
        return _roundtrip([_anchor(sp), sp], wd, tmp) == symptom
    return False


def diagnose_species(sp, wd, tmp, symptom=None):
    """Reduce a failing species to the single feature that reproduces the symptom on an
    otherwise benign species.  Returns the discriminating part of a mech."""
    bad = lambda v: _bad(v, wd, tmp, symptom)
    benign = dict(sp, name='X', elements=[['H', 1, 'int']], notes=None)
    if not bad(sp):
        if symptom is not None:
            return diagnose_species(sp, wd, tmp, None)
        return {'cause': 'context', 'name_class': name_classes(sp['name'])[0]}
    if bad(benign):
        # fails with a benign name / composition / notes: temperatures, coefficients or phase
        carry = any(carry_class(v) == 'carry' for v in list(sp['a_low']) + list(sp['a_high']))
        return {'cause': 'numbers_or_phase', 'coef_carry': carry}
    if bad(dict(benign, name=sp['name'])):
        return {'cause': 'name', 'name_class': name_classes(sp['name'])[0]}
    for el in nonzero(sp):
        if bad(dict(benign, elements=[el])):
            return dict(elem_features(el), cause='composition')
    if bad(dict(benign, notes=sp.get('notes'))):
        return {'cause': 'notes', 'notes_class': notes_class(sp.get('notes'))}
    if bad(dict(benign, elements=sp['elements'])):
        zero = any(e[1] == 0 for e in sp['elements'])
        return {'cause': 'composition', 'combo': 'zero_count' if zero else 'n_elements=%d' % len(nonzero(sp))}
    return {'cause': 'combination'}


def diagnose_file(spec, tmp, symptom=None):
    """The first species that reproduces the symptom of the whole file, reduced to one
    feature; otherwise the first species that fails in any way; otherwise the optional
    blocks; otherwise 'context'."""
    wd = spec['write_date']
    for sym in ((symptom, None) if symptom is not None else (None,)):
        for sp in spec['species']:
            if _bad(sp, wd, tmp, sym):
                return diagnose_species(sp, wd, tmp, sym)
    one = [_anchor(spec['species'][0])]
    if spec.get('supp') and _roundtrip(one, wd, tmp, supp=spec['supp']) != 'ok':
        # one entry alone, then behind a benign entry
        for s in spec['supp']:
            if _roundtrip(one, wd, tmp, supp=[s]) != 'ok':
                return {'cause': 'supp_data', 'supp_name': supp_name_class(s['name']), 'position': 'first'}
        for s in spec['supp']:
            if _roundtrip(one, wd, tmp, supp=[dict(s, name='SUPPA'), s]) != 'ok':
                return {'cause': 'supp_data', 'supp_name': supp_name_class(s['name']), 'position': 'nonfirst'}
        return {'cause': 'supp_data'}
    if spec.get('supp') and spec.get('supp_wrap') and _roundtrip(
            one, wd, tmp, sspec={'supp': spec['supp'], 'supp_wrap': spec['supp_wrap']}) != 'ok':
        return {'cause': 'supp_data_section_lines', 'kind': 'handmade'}
    if spec.get('supp_full'):
        full = spec['supp_full']
        if _roundtrip(one, wd, tmp, sspec={'supp_full': full}) != 'ok':
            plain = dict(full, species=[dict(s, name='SF%d' % i) for i, s in enumerate(full['species'])])
            if _roundtrip(one, wd, tmp, sspec={'supp_full': plain}) != 'ok':
                return {'cause': 'supp_data_section_lines', 'kind': 'full_thermdat'}
            return {'cause': 'supp_data', 'kind': 'full_thermdat', 'supp_name': next(
                (c for c in (supp_name_class(s['name']) for s in full['species']) if c != 'plain'), 'plain')}
        if _roundtrip(one, wd, tmp, sspec={k: spec.get(k) for k in SUPP_KEYS if k != 'supp_comments'}) != 'ok':
            return {'cause': 'supp_data_section_lines', 'kind': 'full_thermdat+entries'}
    if spec.get('supp') and spec.get('supp_comments') and _roundtrip(
            one, wd, tmp, supp=spec['supp'], supp_comments=spec['supp_comments']) != 'ok':
        return {'cause': 'supp_data_comments'}
    if spec.get('supp_txt') is not None and _roundtrip(one, wd, tmp, supp_txt=spec['supp_txt']) != 'ok':
        return {'cause': 'supp_txt'}
    return {'cause': 'context'}


class _Diag:
    """Lazy, cached attribution for the current case."""

    def __init__(self, spec, tmp):
        self.spec, self.tmp = spec, tmp
        self._file = {}
        self._sp = {}

    def file(self, symptom=None):
        if symptom not in self._file:
            self._file[symptom] = diagnose_file(self.spec, self.tmp, symptom)
        return self._file[symptom]

    def n_species_diagnosed(self):
        return len(self._sp)

    def species(self, i, symptom='silent'):
        if (i, symptom) not in self._sp:
            self._sp[(i, symptom)] = diagnose_species(self.spec['species'][i], self.spec['write_date'],
                                                      self.tmp, symptom)
        return self._sp[(i, symptom)]


# ---------------------------------------------------------------- classes / non-triviality
def _classes(spec, ctx):
    sps = spec['species']
    n = len(sps)
    ctx.cls('input:' + spec['input'], 'read:' + spec['read_format'], 'output:' + spec['output'],
            'date:on' if spec['write_date'] else 'date:off')
    ctx.cls('species:1' if n == 1 else 'species:2-20' if n <= 20 else 'species:21-199' if n < 200
            else 'species:200')
    if spec.get('supp') or spec.get('supp_full'):
        ctx.cls('supp_data')
    full, wrap = spec.get('supp_full'), spec.get('supp_wrap') if spec.get('supp') else None
    order = [s['name'] for s in (spec.get('supp') or [])]
    if full:
        fn = [s['name'] for s in full['species']]
        order = fn + order if full.get('position', 'before') == 'before' else order + fn
        ctx.cls('supp_data:full_thermdat', 'supp_data:interior_END', 'supp_data:interior_THERMO',
                'supp_data:interior_temperature_line',
                'supp_data:full_thermdat:date:' + ('on' if full['write_date'] else 'off'))
        if spec.get('supp') and full.get('position', 'before') == 'before':
            ctx.cls('supp_data:entries_after_interior_END')
    if wrap:
        ctx.cls('supp_data:handmade_sections')
        if wrap.get('end'):
            ctx.cls('supp_data:interior_END')
            if full and full.get('position') == 'after':
                ctx.cls('supp_data:entries_after_interior_END')
        if wrap.get('header'):
            ctx.cls('supp_data:interior_THERMO')
        if wrap.get('header') and wrap.get('temps'):
            ctx.cls('supp_data:interior_temperature_line')
    for k, nm in enumerate(order):
        ctx.cls('supp_name:%s:%s' % (supp_name_class(nm), 'first' if k == 0 else 'nonfirst'))
    st = spec.get('supp_txt')
    if st is not None:
        ctx.cls('supp_txt')
        if 'END' in st or 'THERMO' in st:
            ctx.cls('supp_txt:keyword')
        for ln in st.split('\n'):
            body = ln[1:].split()
            if len(body) == 3 and all(_is_numeric(b) for b in body):
                ctx.cls('supp_txt:numeric')
    def wide(lines, where):
        run = ''
        for ln in lines:
            if ln.startswith('!') and len(ln) >= 80 and ln[79] in '1234':
                if len(ln) in (80, 81, 100):
                    ctx.cls('%s:w%d:d%s' % (where, len(ln), ln[79]))
                run = run + ln[79] if len(ln) == 80 else ''
                if run.endswith('1234'):
                    ctx.cls(where + ':commented_out_entry')
            else:
                run = ''
    if st is not None:
        wide(st.split('\n'), 'supp_txt')
    sc = spec.get('supp_comments') if spec.get('supp') else None
    if sc:
        for key, label in (('before', 'comment_before'), ('between', 'comment_between'),
                           ('inside', 'comment_inside_entry')):
            if sc.get(key):
                ctx.cls('supp_data:' + label)
                wide(sc[key], 'supp_data')
    nt = False
    for a, b in zip(sps, sps[1:]):
        if all(a[k] == b[k] for k in ('elements', 'T_low', 'T_mid', 'T_high', 'a_low', 'a_high')):
            ctx.cls('twins')
    for sp in sps:
        ncs = name_classes(sp['name'])
        for c in ncs:
            ctx.cls('name:' + c)
        nz = nonzero(sp)
        ctx.cls('elements:%d' % len(nz))
        if len(nz) != len(sp['elements']):
            ctx.cls('zero_count')
        for el in nz:
            ctx.cls('count:' + el[2], 'sym%dxdig%d' % (len(el[0]), len(str(int(el[1])))))
        if not spec['write_date']:
            ctx.cls('notes:' + notes_class(sp.get('notes')))
        Ts = (sp['T_low'], sp['T_mid'], sp['T_high'])
        if sp['T_low'] == 1.0:
            ctx.cls('T:1.0')
        if sp['T_high'] == 9999.9:
            ctx.cls('T:9999.9')
        if any(isinstance(t, int) for t in Ts):
            ctx.cls('T:int')
        if any(round(t, 1) != t for t in Ts):
            ctx.cls('T:decimals>1')
        allc = list(sp['a_low']) + list(sp['a_high'])
        if any(v == 0 for v in allc):
            ctx.cls('coef:zero')
        if any(v < 0 for v in allc):
            ctx.cls('coef:negative')
        if any(v != 0 and abs(v) <= 1.0000001e-30 for v in allc):
            ctx.cls('coef:1e-30')
        if any(abs(v) >= 9.999999e29 for v in allc):
            ctx.cls('coef:1e30')
        if all(v == 0 for v in sp['a_low'][3:7]) or all(v == 0 for v in sp['a_high'][0:5]):
            ctx.cls('coef:all_zero_record')
        # position in the file: a_high[0:5] | a_high[5:7] a_low[0:3] | a_low[3:7]
        for pos, v in enumerate(list(sp['a_high']) + list(sp['a_low'])):
            cc = carry_class(v)
            if cc == 'below':
                ctx.cls('coef:below_carry')
            elif cc == 'carry':
                rec = 2 if pos < 5 else 3 if pos < 10 else 4
                ctx.cls('coef:carry', 'coef:carry:record%d' % rec)
                if pos in (4, 9, 13):
                    ctx.cls('coef:carry:last_field')
                if v < 0:
                    ctx.cls('coef:carry:negative')
                if math.nextafter(abs(v), math.inf) == float('1e%d' % (decimal.Decimal(abs(v)).adjusted() + 1)):
                    ctx.cls('coef:carry:1ulp')
                e = decimal.Decimal(abs(v)).adjusted()
                if e < -9:
                    ctx.cls('coef:carry:exp<-9')
                if e > 9:
                    ctx.cls('coef:carry:exp>9')
        if (any(c in KEYWORD_CLASSES for c in ncs) or 'len15' in ncs or len(nz) == 4
                or any(el[1] >= 10 for el in nz)):
            nt = True
    ctx.nontrivial(nt)
    h = spec.get('history')
    if h:
        if h['kind'] == 'reread':
            ctx.cls('hist:reread', 'hist:reread:same_format' if h['format2'] == spec['read_format']
                    else 'hist:reread:other_format')
        elif h['kind'] == 'rewrite':
            ctx.cls('hist:rewrite_same_size_same_mtime')
        else:
            ctx.cls('hist:' + h['kind'])
        ctx.cls('hist:format2:' + h['format2'])
        for e in h['edits']:
            ctx.cls('hist:edit:' + e)


# ---------------------------------------------------------------- oracles
_R1_ORDER = {'line_width': 0, 'name_col1': 1, 'composition_symbol': 2, 'composition_count': 2,
             'phase_col45': 3, 'T_fields': 4, 'pad_blank': 5, 'record_number': 6}


def _first_problems(entry):
    """Earliest problem per record (later ones on the same line are its consequences)."""
    per = {}
    for rule, info in entry.problems:
        rec = info.get('record', 1)
        key = (_R1_ORDER.get(rule, 9), info.get('group', 0), info.get('field', 0) if isinstance(
            info.get('field', 0), int) else 0)
        if rec not in per or key < per[rec][0]:
            per[rec] = (key, rule, info)
    return [(rec, r, i) for rec, (_, r, i) in sorted(per.items())]


def _rel_err(got, want):
    """max relative error of coefficients; exact zeros must stay exact zeros."""
    worst = 0.0
    for g, w in zip(got, want):
        if g is None:
            return float('inf')
        if w == 0.0:
            e = 0.0 if g == 0.0 else float('inf')
        else:
            e = abs(g - w) / abs(w)
        if not e <= worst:
            worst = e if e == e else float('inf')
    return worst


def _note_err(ctx, oracle, e):
    if e > ctx.max_err.get(oracle, 0.0):
        ctx.max_err[oracle] = e


def check_layout_entry(ctx, entry, exp, sp, part):
    """L1 for one entry of the written text: layout rules, then content."""
    base = {'part': part}
    probs = _first_problems(entry)
    bad_records = set()
    for rec, rule, info in probs:
        bad_records.add(rec)
        mech = dict(base, rule=rule, record=rec)
        if rule in ('composition_symbol', 'composition_count') and sp is not None:
            nz = nonzero(sp)
            k = info.get('group', 0)
            if k < len(nz):
                mech.update(elem_features(nz[k]), cause='composition')
        elif rule == 'name_col1' and sp is not None:
            mech.update(cause='name', name_class=name_classes(sp['name'])[0])
        ctx.fail('L1', mech, info=info, line=entry.raw[rec - 1] if rec - 1 < len(entry.raw) else None,
                 species=exp['name'])
    if not probs:
        ctx.held('L1')
    # content, record by record (only where the columns are trustworthy)
    if 1 not in bad_records:
        r1 = entry.raw[0]
        ctx.check('L1', entry.name == exp['name'], dict(base, rule='value', field='name',
                  name_class=name_classes(exp['name'])[0]), got=entry.name, want=exp['name'], line=r1)
        got_el = entry.elements
        if got_el != exp['elements'] or len(entry.groups) != len(exp['elements']):
            mech = dict(base, rule='value', field='composition')
            if sp is not None:
                for el in nonzero(sp):
                    if got_el.get(el[0]) != int(el[1]):
                        mech.update(elem_features(el))
                        break
            ctx.fail('L1', mech, got=entry.groups, want=exp['elements'], line=r1)
        else:
            ctx.held('L1')
        ctx.check('L1', entry.phase == exp['phase'], dict(base, rule='value', field='phase'),
                  got=entry.phase, want=exp['phase'], line=r1)
        for f in ('T_low', 'T_high', 'T_mid'):
            got = getattr(entry, f)
            if got is None:
                continue
            d = abs(got - exp[f])
            if d <= T_TOL:
                _note_err(ctx, 'L1:T', d)
                ctx.held('L1')
            else:
                ctx.fail('L1', dict(base, rule='value', field=f), got=got, want=exp[f], line=r1)
    pieces = ((2, 'a_high[0:5]', entry.a_high[0:5], exp['a_high'][0:5]),
              (3, 'a_high[5:7]', entry.a_high[5:7], exp['a_high'][5:7]),
              (3, 'a_low[0:3]', entry.a_low[0:3], exp['a_low'][0:3]),
              (4, 'a_low[3:7]', entry.a_low[3:7], exp['a_low'][3:7]))
    for rec, fname, got, want in pieces:
        if rec in bad_records:
            continue
        e = _rel_err(got, want)
        if e <= A_TOL:
            _note_err(ctx, 'L1:coef', e)
            ctx.held('L1')
        else:
            ctx.fail('L1', dict(base, rule='value', field=fname), got=got, want=want, err=e,
                     line=entry.raw[rec - 1])


def check_readback_species(ctx, r, exp, sp, part, diag, idx):
    """L2 for one species; returns True when its identity (name) is right."""
    base = {'part': part}
    if r.name != exp['name']:
        mech = dict(base, what='name')
        if sp is not None:
            if diag.n_species_diagnosed() >= 3:      # this file is already reported three times
                ctx.extra['name_mismatches_not_diagnosed'] = ctx.extra.get('name_mismatches_not_diagnosed', 0) + 1
                return False
            mech.update(diag.species(idx))
        ctx.fail('L2', mech, got=r.name, want=exp['name'], index=idx)
        return False
    ctx.held('L2')
    ctx.check('L2', r.phase == exp['phase'], dict(base, what='phase'), got=r.phase, want=exp['phase'],
              species=exp['name'])
    try:
        got_el = {k: v for k, v in dict(r.elements).items()}
    except Exception:
        got_el = r.elements
    same = isinstance(got_el, dict) and got_el == exp['elements'] and not any(
        isinstance(v, bool) for v in got_el.values())
    if not same:
        mech = dict(base, what='elements')
        if sp is not None and isinstance(got_el, dict):
            for el in sp['elements']:
                if el[1] == 0 and el[0] in got_el:
                    mech.update(zero_count=True)
                    break
                if el[1] != 0 and got_el.get(el[0]) != int(el[1]):
                    mech.update(elem_features(el))
                    break
        ctx.fail('L2', mech, got=got_el, want=exp['elements'], species=exp['name'])
    else:
        ctx.held('L2')
    for f in ('T_low', 'T_mid', 'T_high'):
        try:
            d = abs(float(getattr(r, f)) - exp[f])
        except Exception:
            d = float('inf')
        if d <= T_TOL:
            _note_err(ctx, 'L2:T', d)
            ctx.held('L2')
        else:
            ctx.fail('L2', dict(base, what=f), got=getattr(r, f), want=exp[f], species=exp['name'])
    for f in ('a_low', 'a_high'):
        try:
            got = [float(v) for v in getattr(r, f)]
        except Exception:
            got = []
        if len(got) != 7:
            ctx.fail('L2', dict(base, what=f, why='shape'), got=got, species=exp['name'])
            continue
        e = _rel_err(got, exp[f])
        if e <= A_TOL:
            _note_err(ctx, 'L2:coef', e)
            ctx.held('L2')
        else:
            k = max(range(7), key=lambda j: _rel_err([got[j]], [exp[f][j]]))
            ctx.fail('L2', dict(base, what=f, index=k), got=got, want=exp[f], err=e, species=exp['name'])
    return True


def _terms(a, T, q):
    import math
    if q == 'CpoR':
        t = [a[0], a[1] * T, a[2] * T ** 2, a[3] * T ** 3, a[4] * T ** 4]
    elif q == 'HoRT':
        t = [a[0], a[1] * T / 2., a[2] * T ** 2 / 3., a[3] * T ** 3 / 4., a[4] * T ** 4 / 5., a[5] / T]
    else:
        t = [a[0] * math.log(T), a[1] * T, a[2] * T ** 2 / 2., a[3] * T ** 3 / 3., a[4] * T ** 4 / 4., a[6]]
    return sum(abs(v) for v in t)


_REF = {'CpoR': poly.nasa7_CpoR, 'HoRT': poly.nasa7_HoRT, 'SoR': poly.nasa7_SoR}


def check_values(ctx, r, o, exp, part):
    """L3: thermodynamic values of the species read back."""
    Tl, Tm, Th = exp['T_low'], exp['T_mid'], exp['T_high']
    Ts = [round(Tl + 0.25 * (Tm - Tl), 3), round(0.5 * (Tm + Th), 3), Th]
    gas = str(exp['phase']).lower() in ('g', 'gas')
    for T in Ts:
        a = exp['a_low'] if T < Tm else exp['a_high']
        seg = 'low' if T < Tm else 'high'
        for q in ('CpoR', 'HoRT', 'SoR'):
            mech = {'part': part, 'q': q, 'segment': seg}
            got = ctx.call('L3', mech, getattr(r, 'get_' + q), T=T)
            if got is core.NOVALUE:
                continue
            scale = max(_terms(a, T, q), 1e-300)
            if o is not None:
                own = ctx.call('L3', dict(mech, ref='original_object'), getattr(o, 'get_' + q), T=T)
                if own is not core.NOVALUE:
                    ctx.close('L3', float(got), float(own), V_TOL, dict(mech, ref='original_object'),
                              scale=scale, T=T, species=exp['name'])
            if not (gas and q == 'SoR'):       # gas species carry a pressure term in S/R
                ctx.close('L3', float(got), _REF[q](a, T), V_TOL, dict(mech, ref='nasa7_basis'),
                          scale=scale, T=T, species=exp['name'])


def _l3_indices(n):
    if n <= 10:
        return list(range(n))
    step = max(1, n // 8)
    return sorted(set(list(range(0, n, step)) + [n - 1]))


# ---------------------------------------------------------------- driver
NON_ASCII_NAMES = ['\u00c5-phase', '\u00e9\u00b0', '\u03b1-SiO2', '\u03b3-Al2O3', 'SiO\u2082(l)', 'H\u00b2',
                   '\u6c34', 'a\u0301']


def telemetry_non_ascii(ctx):
    """Not an oracle: what this tree, on this platform's locale encoding, does with names
    outside ASCII when the file goes to disk (see ASSUMPTIONS)."""
    import locale
    from pmutt.io.thermdat import write_thermdat, read_thermdat
    out = collections.Counter()
    for k, nm in enumerate(NON_ASCII_NAMES):
        p = os.path.join(ctx.tmpdir, 'c05_nonascii_%d.dat' % k)
        try:
            write_thermdat([build_sp(S(nm, [('Si', 1), ('O', 2)], phase='S'))], filename=p, write_date=False)
            with open(p, 'rb') as f:
                rec1 = f.read().split(b'\n')[2]
            out['non_ascii_record1_not_80_bytes' if len(rec1) != 80 else 'non_ascii_record1_80_bytes'] += 1
            back = read_thermdat(p)
            out['non_ascii_read_back_same_name' if [b.name for b in back] == [nm] else
                'non_ascii_read_back_differs'] += 1
        except core.HarnessError:
            raise
        except Exception as e:
            out['non_ascii_' + type(e).__name__] += 1
        _cleanup(p)
    for k, v in out.items():
        ctx.extra[k] = ctx.extra.get(k, 0) + v
    ctx.extra['locale_encoding_of_open()'] = locale.getpreferredencoding(False)


def run_case(spec, ctx):
    from pmutt.io.thermdat import write_thermdat, read_thermdat
    if spec.get('telemetry') == 'non_ascii_names':
        telemetry_non_ascii(ctx)
    sps = spec['species']
    n = len(sps)
    _classes(spec, ctx)
    st, exp_supp, part_supp, sps_supp = supp_block(spec)
    n_supp = len(exp_supp)
    sectioned = bool(spec.get('supp_full') or (spec.get('supp') and spec.get('supp_wrap')))
    tmp = os.path.join(ctx.tmpdir, 'c05_diag_%s.dat' % (ctx.case_index,))
    diag = _Diag(spec, tmp)
    objs = [build_sp(s) for s in sps]
    coll = {s['name']: o for s, o in zip(sps, objs)} if spec['input'] == 'dict' else list(objs)
    kw = {'write_date': spec['write_date']}
    if st:
        kw['supp_data'] = st
    if spec.get('supp_txt') is not None:
        kw['supp_txt'] = spec['supp_txt']
    path = os.path.join(ctx.tmpdir, 'c05_%s.dat' % (ctx.case_index,))
    expected = [dict(e) for e in exp_supp] + [expected_of(s) for s in sps]
    sp_of = [None] * n_supp + list(sps)
    sp_layout = list(sps_supp) + list(sps)
    part_of = list(part_supp) + ['species'] * n

    # ---- write -------------------------------------------------------------------------
    _PC.clear()
    try:
        if spec['output'] == 'file':
            ret = write_thermdat(coll, filename=path, **kw)
        else:
            ret = write_thermdat(coll, filename=None, **kw)
    except core.HarnessError:
        raise
    except Exception as e:
        ctx.fail('L1', dict({'step': 'write', 'exc': type(e).__name__}, **diag.file('write:' + type(e).__name__)),
                 message=str(e)[:300], where=core._tb_where(e))
        return
    wrote = dict(_PC)
    if spec['output'] == 'file':
        if not ctx.check('L1', ret is None and os.path.exists(path), {'rule': 'file_output'}, returned=ret):
            return
        with open(path, 'r', newline='') as f:
            text = f.read()
    else:
        if not ctx.check('L1', isinstance(ret, str), {'rule': 'string_output'}, returned=type(ret).__name__):
            return
        text = ret
    if not spec['write_date']:
        # the other output mode must give the same text (no clock involved)
        other = os.path.join(ctx.tmpdir, 'c05_other_%s.dat' % (ctx.case_index,))
        try:
            if spec['output'] == 'file':
                t2 = write_thermdat(coll, filename=None, **kw)
            else:
                write_thermdat(coll, filename=other, **kw)
                with open(other, 'r', newline='') as f:
                    t2 = f.read()
            ctx.check('L1', t2 == text, {'rule': 'file_vs_string'}, file_len=len(text), other_len=len(t2 or ''))
        except core.HarnessError:
            raise
        except Exception as e:
            ctx.fail('L1', dict({'step': 'write_other_mode', 'exc': type(e).__name__},
                                **diag.file('write:' + type(e).__name__)), message=str(e)[:300])
        finally:
            if os.path.exists(other):
                os.remove(other)

    # ---- L1 layout / L4 written count ----------------------------------------------------
    ptext, sect = strip_sections(text) if sectioned else (text, {'END': 0, 'THERMO': 0, 'temps': 0})
    for k, v in sect.items():
        ctx.extra['interior_%s_lines_written' % k] = ctx.extra.get('interior_%s_lines_written' % k, 0) + v
    P = rt.parse(ptext)
    for rule, info in P.problems:
        ctx.fail('L1', {'rule': rule, 'part': 'file'}, info=info)
    ctx.check('L1', P.header_temps is not None, {'rule': 'header_temps', 'part': 'file'}, head=text[:80])
    ctx.check('L1', '\r' not in text, {'rule': 'newline', 'part': 'file'})
    aligned = ctx.check('L4', len(P.entries) == n + n_supp,
                        dict({'what': 'entries_written'},
                             **({} if len(P.entries) == n + n_supp or not n_supp else diag.file('silent'))),
                        entries=len(P.entries), species=n, supp=n_supp, record_lines=P.n_record_lines)
    if aligned:
        for i, entry in enumerate(P.entries):
            check_layout_entry(ctx, entry, expected[i], sp_layout[i], part_of[i])
    ctx.extra['record_lines_written'] = ctx.extra.get('record_lines_written', 0) + P.n_record_lines
    ctx.extra['comment_lines_written'] = ctx.extra.get('comment_lines_written', 0) + P.n_comment
    if aligned and not spec['write_date']:
        bad = sum(1 for e, s in zip(P.entries[n_supp:], sps) if (e.date or '') != (s.get('notes') or '')[:8].strip())
        ctx.extra['notes_field_differs(telemetry)'] = ctx.extra.get('notes_field_differs(telemetry)', 0) + bad
    for k in (1, 2, 3, 4):
        lab = '_write_line%d' % k
        if _present(lab):
            ctx.check('PRB', wrote.get(lab, 0) == n, {'probe': lab, 'what': 'calls_vs_species'},
                      calls=wrote.get(lab, 0), species=n)

    # ---- read ----------------------------------------------------------------------------
    if spec['output'] == 'string':
        with open(path, 'w', newline='') as f:
            f.write(text)
    fmt = spec['read_format']
    _PC.clear()
    _ST['names_read'] = []
    try:
        back = read_thermdat(path, format=fmt)
    except core.HarnessError:
        raise
    except Exception as e:
        names_read = list(_ST['names_read'])[-5:]
        ctx.fail('L2', dict({'step': 'read', 'exc': type(e).__name__}, **diag.file('read:' + type(e).__name__)),
                 message=str(e)[:300], where=core._tb_where(e), names_read=names_read)
        _cleanup(path, tmp)
        return
    seen = dict(_PC)
    names_read = list(_ST['names_read'])
    # container
    want_type = {'list': list, 'tuple': tuple, 'dict': dict}[fmt]
    if not ctx.check('L2', type(back) is want_type, {'what': 'container', 'read_format': fmt},
                     got=type(back).__name__):
        _cleanup(path, tmp)
        return
    if fmt == 'dict':
        keys = list(back.keys())
        vals = list(back.values())
        ctx.check('L2', keys == [getattr(v, 'name', None) for v in vals], {'what': 'dict_keys'},
                  keys=keys[:10])
    else:
        vals = list(back)
    got_names = [getattr(v, 'name', None) for v in vals]
    want_names = [e['name'] for e in expected]

    # ---- L4 conservation -------------------------------------------------------------------
    cnt_got = collections.Counter(got_names)
    cnt_want = collections.Counter(want_names)
    dropped = [nm for nm in want_names if cnt_got.get(nm, 0) < cnt_want[nm]]
    dupl = [nm for nm in cnt_got if cnt_got[nm] > cnt_want.get(nm, 0)]
    conserved = (len(vals) == len(expected)) and not dropped and not dupl
    cons_feat = {}
    if conserved:
        ctx.held('L4')
    else:
        culprit = None
        if dropped and dropped[0] in [s['name'] for s in sps]:
            culprit = [s['name'] for s in sps].index(dropped[0])
        feat = diag.species(culprit) if culprit is not None else diag.file('silent')
        if n_supp and feat.get('cause') == 'context':
            feat = diag.file('silent')
        cons_feat = feat
        what = 'dropped' if dropped else 'duplicated' if dupl else 'count'
        ctx.fail('L4', dict({'what': what}, **feat), returned=len(vals), entries_in_file=len(P.entries),
                 dropped=dropped[:5], duplicated=dupl[:5], got_names=got_names[:8], want_names=want_names[:8])
    # ---- PRB: line classification of the reader versus lines written ------------------------
    if aligned:
        def feat():
            return cons_feat
        for k in (1, 2, 3, 4):
            lab = '_read_line%d' % k
            if _present(lab):
                ok = seen.get(lab, 0) == len(P.entries)
                ctx.check('PRB', ok, dict({'probe': lab, 'what': 'calls_vs_entries'}, **({} if ok else feat())),
                          calls=seen.get(lab, 0), entries=len(P.entries))
        if _present('_read_line_num'):
            ok = seen.get('_read_line_num', 0) == P.n_record_lines
            ctx.check('PRB', ok, dict({'probe': '_read_line_num', 'what': 'data_lines_classified'},
                                      **({} if ok else feat())),
                      classified=seen.get('_read_line_num', 0), written=P.n_record_lines)
        if _present('_is_temperature_header'):
            ok = seen.get('temp_header:True', 0) == 1 + sect['temps']
            ctx.check('PRB', ok, dict({'probe': '_is_temperature_header', 'what': 'header_lines'},
                                      **({} if ok else feat())), true_returns=seen.get('temp_header:True', 0))

    # ---- L2 / L3 per species -----------------------------------------------------------------
    if len(vals) != len(expected):          # reported by L4; positions cannot be aligned
        _cleanup(path, tmp)
        return
    ctx.check('L2', got_names == want_names or not conserved, {'what': 'order'},
              got=got_names[:10], want=want_names[:10])
    l3 = set(_l3_indices(n))
    for i, (r, exp) in enumerate(zip(vals, expected)):
        j = i - n_supp
        ok = check_readback_species(ctx, r, exp, sp_of[i], part_of[i], diag, j)
        if ok and (j < 0 or j in l3):
            check_values(ctx, r, objs[j] if j >= 0 else None, exp, part_of[i])
    if spec.get('history') and conserved:
        cwd = os.getcwd()
        try:
            run_history(ctx, spec, spec['history'], path, back, vals, expected, kw, coll)
        finally:
            os.chdir(cwd)
    _cleanup(path, tmp)


# ---------------------------------------------------------------- histories (oracle H)
def _snap(r):
    """Deep copy of everything a read reports about one species."""
    return {'name': r.name, 'phase': r.phase, 'elements': dict(r.elements), 'T_low': float(r.T_low),
            'T_mid': float(r.T_mid), 'T_high': float(r.T_high), 'a_low': [float(v) for v in r.a_low],
            'a_high': [float(v) for v in r.a_high], 'notes': r.notes}


_FIELDS = ('name', 'phase', 'elements', 'T_low', 'T_mid', 'T_high', 'a_low', 'a_high', 'notes')


def _snap_diff(got, want):
    for f in _FIELDS:
        if got[f] != want[f]:
            return f
    return None


def _exp_diff(r, exp):
    """First field of a species read back that differs from the expected values (format
    tolerances), or None."""
    if r.name != exp['name']:
        return 'name'
    if r.phase != exp['phase']:
        return 'phase'
    if dict(r.elements) != exp['elements']:
        return 'elements'
    for f in ('T_low', 'T_mid', 'T_high'):
        if not abs(float(getattr(r, f)) - exp[f]) <= T_TOL:
            return f
    for f in ('a_low', 'a_high'):
        if not _rel_err([float(v) for v in getattr(r, f)], exp[f]) <= A_TOL:
            return f
    return None


def _values(back, fmt):
    return list(back.values()) if fmt == 'dict' else list(back)


def _edited(snap, i, kinds):
    """What species i is turned into by the program (explicit, in-range values)."""
    e = dict(snap, elements=dict(snap['elements']), a_low=list(snap['a_low']), a_high=list(snap['a_high']))
    if 'coefficients' in kinds:
        e['a_low'] = [-v for v in snap['a_low']]
        e['a_low'][0] = 1.25 + i
        e['a_high'] = list(snap['a_high'][::-1])
        e['a_high'][6] = -7.5 - i
    if 'name' in kinds:
        e['name'] = ('d%d_%s' % (i, snap['name']))[:15]
    if 'elements' in kinds:
        e['elements'] = {'He': i % 9 + 1, 'C': 2}
    if 'T' in kinds:
        e['T_low'] = snap['T_low'] + 0.3
        e['T_mid'] = snap['T_mid'] + 0.5
        e['T_high'] = snap['T_high'] - 0.3
    if 'notes' in kinds:
        e['notes'] = 'edited'
    if 'phase' in kinds:
        e['phase'] = 'L' if snap['phase'] != 'L' else 'S'
    return e


def _apply_edit(r, e, kinds):
    """Edit a returned species in place, the way a program deriving a new species would:
    array contents and the element dictionary are mutated, other attributes re-bound."""
    import numpy as np
    if 'coefficients' in kinds:
        r.a_low[:] = e['a_low']                       # in place: the array object stays
        r.a_high = np.array(e['a_high'])              # re-bound
    if 'name' in kinds:
        r.name = e['name']
    if 'elements' in kinds:
        r.elements.clear()
        r.elements.update(e['elements'])
    if 'T' in kinds:
        r.T_low, r.T_mid, r.T_high = e['T_low'], e['T_mid'], e['T_high']
    if 'notes' in kinds:
        r.notes = e['notes']
    if 'phase' in kinds:
        r.phase = e['phase']


def _targets(n, which):
    return [0] if which == 'first' else [n - 1] if which == 'last' else list(range(n))


def _read_equals_snapshot(ctx, step, h, path, fmt2, snaps, earlier=None):
    """Read `path` and demand exactly the snapshot taken from the unchanged file."""
    from pmutt.io.thermdat import read_thermdat
    import numpy as np
    mech = {'history': step, 'format2': fmt2}
    back = ctx.call('H', mech, read_thermdat, path, format=fmt2)
    if back is core.NOVALUE:
        return None
    want_type = {'list': list, 'tuple': tuple, 'dict': dict}[fmt2]
    if not ctx.check('H', type(back) is want_type, dict(mech, field='container'), got=type(back).__name__):
        return None
    vals = _values(back, fmt2)
    if not ctx.check('H', len(vals) == len(snaps), dict(mech, field='count'), got=len(vals), want=len(snaps)):
        return None
    if fmt2 == 'dict':
        ctx.check('H', list(back.keys()) == [s['name'] for s in snaps], dict(mech, field='dict_keys'),
                  got=list(back.keys())[:6], want=[s['name'] for s in snaps][:6], edits=h['edits'])
    for i, (r, s) in enumerate(zip(vals, snaps)):
        d = _snap_diff(_snap(r), s)
        ctx.check('H', d is None, dict(mech, field=d), index=i, got=_snap(r).get(d) if d else None,
                  want=s.get(d) if d else None, edits=h['edits'], targets=h['targets'])
    if earlier is not None:
        for i, (r, old) in enumerate(zip(vals, earlier)):
            shared = (r is old or r.elements is old.elements or np.shares_memory(r.a_low, old.a_low)
                      or np.shares_memory(r.a_high, old.a_high))
            ctx.check('H', not shared, dict(mech, field='shared_object'), index=i)
    return vals


def run_history(ctx, spec, h, path, back, vals, expected, kw, coll):
    from pmutt.io.thermdat import write_thermdat, read_thermdat
    fmt2, kinds = h['format2'], h['edits']
    n = len(vals)
    snaps = [_snap(r) for r in vals]                  # the unchanged file, as first read
    edited = [_edited(s, i, kinds) for i, s in enumerate(snaps)]
    tg = _targets(n, h['targets'])
    d = os.path.dirname(path)
    base = os.path.basename(path)

    def edit_first_result():
        for i in tg:
            _apply_edit(vals[i], edited[i], kinds)

    if h['kind'] == 'reread':
        edit_first_result()
        second = _read_equals_snapshot(ctx, 'reread_after_edit', h, path, fmt2, snaps, earlier=vals)
        if second:                                   # edit the second result too, read a third time
            for i in tg:
                _apply_edit(second[i], edited[i], kinds)
            _read_equals_snapshot(ctx, 'reread_after_second_edit', h, path, spec['read_format'], snaps,
                                  earlier=second)
    elif h['kind'] == 'paths':
        edit_first_result()
        os.chdir(d)
        _read_equals_snapshot(ctx, 'relative_path_after_chdir', h, base, fmt2, snaps, earlier=vals)
        os.chdir('/')
        link = os.path.join(d, 'link_' + base)
        os.symlink(path, link)
        try:
            _read_equals_snapshot(ctx, 'symlink', h, link, fmt2, snaps, earlier=vals)
        finally:
            os.remove(link)
        for spelled in (os.path.join(d, '.', base), d + '//' + base,
                        os.path.join(d, '..', os.path.basename(d), base)):
            _read_equals_snapshot(ctx, 'other_spelling', h, spelled, fmt2, snaps, earlier=vals)
        # the same relative name in two directories
        other = [dict(e) for e in edited]
        d1, d2 = os.path.join(d, 'h1_' + base), os.path.join(d, 'h2_' + base)
        for dd in (d1, d2):
            os.makedirs(dd, exist_ok=True)
        try:
            os.chdir(d1)
            ctx.call('H', {'history': 'write_relative'}, write_thermdat, coll, filename='thermdat.dat', **kw)
            _read_equals_snapshot(ctx, 'same_name_dir1', h, 'thermdat.dat', fmt2, snaps)
            os.chdir(d2)
            ctx.call('H', {'history': 'write_relative'}, write_thermdat, _rebuild(vals, fmt2), filename='thermdat.dat',
                     write_date=spec['write_date'])
            back2 = ctx.call('H', {'history': 'same_name_dir2'}, read_thermdat, 'thermdat.dat', format=fmt2)
            if back2 is not core.NOVALUE:
                _expect(ctx, 'same_name_dir2', fmt2, _values(back2, fmt2), [_exp_of_snap(edited[i] if i in tg else snaps[i])
                                                                            for i in range(n)], h)
            os.chdir(d1)
            _read_equals_snapshot(ctx, 'same_name_dir1_again', h, 'thermdat.dat', fmt2, snaps)
        finally:
            os.chdir('/')
            for dd in (d1, d2):
                _cleanup(os.path.join(dd, 'thermdat.dat'))
                try:
                    os.rmdir(dd)
                except OSError:
                    pass
    elif h['kind'] == 'derive':
        # write -> read -> edit -> write the edited objects elsewhere -> read both
        edit_first_result()
        path2 = os.path.join(d, 'derived_' + base)
        r = ctx.call('H', {'history': 'write_derived'}, write_thermdat, _rebuild(vals, fmt2), filename=path2,
                     write_date=spec['write_date'])
        try:
            if r is not core.NOVALUE:
                _read_equals_snapshot(ctx, 'original_after_derive', h, path, fmt2, snaps, earlier=vals)
                back2 = ctx.call('H', {'history': 'read_derived'}, read_thermdat, path2, format=fmt2)
                if back2 is not core.NOVALUE:
                    _expect(ctx, 'read_derived', fmt2, _values(back2, fmt2),
                            [_exp_of_snap(edited[i] if i in tg else snaps[i]) for i in range(n)], h)
                _read_equals_snapshot(ctx, 'original_after_derive_again', h, path, spec['read_format'], snaps)
        finally:
            _cleanup(path2)
    elif h['kind'] == 'rewrite':
        # replace the content of the path: same byte size, modification time pinned
        st = os.stat(path)
        # the new content is made of fresh objects (the first result stays as read), so a stale
        # answer is the old file, not something that happens to equal the new one
        newc = _rebuild([_nasa_from(edited[i] if i in tg else snaps[i]) for i in range(n)], fmt2)
        txt = ctx.call('H', {'history': 'write_new_content'}, write_thermdat, newc, filename=None,
                       write_date=spec['write_date'])
        if txt is core.NOVALUE:
            return
        missing = st.st_size - len(txt.encode())
        if missing >= 2:
            # the old file had comment lines / a comment block: pad with one comment line so that
            # the byte size is the same
            txt = ctx.call('H', {'history': 'write_new_content'}, write_thermdat, newc, filename=None,
                           write_date=spec['write_date'], supp_txt='!' + 'p' * (missing - 2))
            if txt is core.NOVALUE:
                return
        want = [_exp_of_snap(edited[i] if i in tg else snaps[i]) for i in range(n)]
        with open(path, 'w', newline='') as f:
            f.write(txt)
        same_size = os.stat(path).st_size == st.st_size
        ctx.extra['rewrite_same_size'] = ctx.extra.get('rewrite_same_size', 0) + int(same_size)
        ctx.extra['rewrite_other_size'] = ctx.extra.get('rewrite_other_size', 0) + int(not same_size)
        os.utime(path, ns=(st.st_atime_ns, st.st_mtime_ns))
        back2 = ctx.call('H', {'history': 'read_replaced_content'}, read_thermdat, path, format=fmt2)
        if back2 is not core.NOVALUE:
            _expect(ctx, 'read_replaced_content', fmt2, _values(back2, fmt2), want, h)
        # and back again through the writer itself
        r = ctx.call('H', {'history': 'write_original_again'}, write_thermdat, coll, filename=path, **kw)
        if r is not core.NOVALUE:
            os.utime(path, ns=(st.st_atime_ns, st.st_mtime_ns))
            third = _read_equals_snapshot(ctx, 'read_restored_content', h, path, fmt2, snaps)
            if third:                                 # edit that result, replace the content once more
                for i in tg:
                    _apply_edit(third[i], edited[i], kinds)
                with open(path, 'w', newline='') as f:
                    f.write(txt)
                os.utime(path, ns=(st.st_atime_ns, st.st_mtime_ns))
                back3 = ctx.call('H', {'history': 'read_replaced_content_again'}, read_thermdat, path,
                                 format=spec['read_format'])
                if back3 is not core.NOVALUE:
                    _expect(ctx, 'read_replaced_content_again', spec['read_format'],
                            _values(back3, spec['read_format']), want, h)


def _nasa_from(e):
    import numpy as np
    from pmutt.empirical.nasa import Nasa
    try:
        return Nasa(name=e['name'], T_low=e['T_low'], T_mid=e['T_mid'], T_high=e['T_high'],
                    a_low=np.array(e['a_low'], dtype=float), a_high=np.array(e['a_high'], dtype=float),
                    phase=e['phase'], elements=dict(e['elements']), notes=e.get('notes'))
    except Exception as exc:
        raise core.HarnessError('could not build Nasa: %r' % exc)


def _rebuild(vals, fmt):
    """The (edited) objects as the collection a program would hand to the writer."""
    return {('k%d' % i): r for i, r in enumerate(vals)} if fmt == 'dict' else list(vals)


def _exp_of_snap(s):
    return {'name': s['name'], 'phase': s['phase'], 'elements': {k: int(v) for k, v in s['elements'].items() if v != 0},
            'T_low': s['T_low'], 'T_mid': s['T_mid'], 'T_high': s['T_high'], 'a_low': list(s['a_low']),
            'a_high': list(s['a_high'])}


def _expect(ctx, step, fmt2, vals, want, h):
    mech = {'history': step, 'format2': fmt2}
    if not ctx.check('H', len(vals) == len(want), dict(mech, field='count'), got=len(vals), want=len(want)):
        return
    for i, (r, e) in enumerate(zip(vals, want)):
        d = _exp_diff(r, e)
        ctx.check('H', d is None, dict(mech, field=d), index=i, got=_snap(r).get(d) if d else None,
                  want=e.get(d) if d else None, edits=h['edits'], targets=h['targets'])


def _cleanup(*paths):
    for p in paths:
        try:
            os.remove(p)
        except OSError:
            pass


def expected_of_supp(s):
    return {'name': s['name'], 'phase': s['phase'], 'elements': {e[0]: int(e[1]) for e in s['elements']},
            'T_low': float(s['T_low']), 'T_mid': float(s['T_mid']), 'T_high': float(s['T_high']),
            'a_low': [float(v) for v in s['a_low']], 'a_high': [float(v) for v in s['a_high']]}

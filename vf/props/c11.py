"""C11  JSON serialisation round-trips every pMuTT object.

Workload: one generator per serialisable class of the quantifier (mode models, ConstantMode,
StatMech with references / misc models, Nasa, Nasa9, SingleNasa9, Shomate, Reference(s),
GasPressureAdj, PiecewiseCovEffect, CatSite, BEP (+ the OpenMKM BEP), LSR, Reaction,
ChemkinReaction, SurfaceReaction, Reactions, PhaseDiagram, IdealGasEOS, vanDerWaalsEOS) with
random valid attributes and nesting (modes inside species inside reactions inside reaction
sets).  The real objects are driven through

    json.dumps(obj, cls=pmuttEncoder)  /  json.loads(text, object_hook=json_to_pmutt)

one to three times and the *original* object is the reference model:

J1  encoding succeeds (every cycle)
J2  decoding succeeds and every object of the tree comes back as the same class
J3  every `get_*` method of every object of the tree returns the same value (2-3 conditions)
J4  every instance attribute of every object of the tree is equal (generic sweep over
    vars(obj): name, elements, phase, notes, smiles, ids, direction, options, norm factors,
    stoichiometry ... and anything added later)
J5  json_to_pmutt applied to a dictionary does not alter it, a second decode of the same
    dictionary gives an equal object, the direct decode equals the object-hook decode, and
    repeated encode->decode is a fixed point

mech = {'class': responsible class, 'step': encode|decode|same_class|getter|attr|mutates_input|
        redecode|direct_decode|restable, 'attr'|'getter': name, 'exc': exception type}
so that every dropped attribute / unregistered class / broken from_dict is its own kind.
"""
import copy
import inspect
import json
import os
import random
import sys

from vf import core
from vf.gen import species as S

ID = 'C11'
N = {'quick': 4000, 'thorough': 100000}
NT_RULE = ('one object tree per case: class drawn uniformly from the 33 classes of the quantifier, '
           'attributes and nested objects drawn from a PRNG seeded per case index (after directed '
           'witnesses of every pre-finding); 1-3 encode/decode cycles and 2-3 evaluation conditions; '
           'non-trivial = the tree holds >=1 nested pMuTT object or >=1 non-default attribute; '
           'distinct = distinct canonical JSON of the spec')
REQUIRED_ORACLES = ['J1', 'J2', 'J3', 'J4', 'J5']

MODE_CLASSES = ['EmptyMode', 'ConstantMode', 'FreeTrans', 'HarmonicVib', 'QRRHOVib', 'EinsteinVib',
                'DebyeVib', 'RigidRotor', 'GroundStateElec', 'EmptyNucl']
TOP_CLASSES = MODE_CLASSES + [
    'StatMech', 'Nasa', 'Nasa9', 'SingleNasa9', 'Shomate', 'Reference', 'References',
    'GasPressureAdj', 'PiecewiseCovEffect', 'CatSite', 'BEP', 'omkm.BEP', 'LSR', 'Reaction',
    'ChemkinReaction', 'SurfaceReaction', 'Reactions', 'PhaseDiagram', 'IdealGasEOS',
    'vanDerWaalsEOS']
REQUIRED_CLASSES = ['top:' + c for c in TOP_CLASSES] + [
    'StatMech:references', 'StatMech:misc_models', 'StatMech:plain', 'StatMech:elements',
    'GroundStateElec:D0', 'Nasa:cat_site', 'Nasa:model', 'empirical:misc_models',
    'Reaction:TS_species', 'Reaction:TS_BEP', 'Reaction:no_TS', 'Reaction:notes',
    'LSR:floats', 'LSR:objects', 'References:fitted', 'References:offset_only', 'References:refs_and_offset',
    'PhaseDiagram:norm_factors', 'PhaseDiagram:default_norm', 'SurfaceReaction:id',
    'SurfaceReaction:direction', 'Reactions:mixed_classes', 'children:plain', 'children:rich',
    'cycles:1', 'cycles:2', 'cycles:3', 'depth>=3',
    'References:cleared_offset', 'StatMech:references_cleared_offset', 'Nasa9:n_sites_None',
    'Nasa9:n_sites_int', 'Shomate:n_sites_int', 'Nasa:n_sites_without_cat_site', 'misc_models:empty_list',
    'BEP:backlinks_distinct', 'BEP:backlinks_shared', 'SurfaceReaction:use_motz_wise',
    'SurfaceReaction:beta_None', 'SurfaceReaction:sticking_None', 'FreeTrans:no_molecular_weight',
    # needle classes: order of a list attribute, context dependent defaults, pre-encoding histories
    'Nasa9:unsorted_intervals', 'Nasa9:descending_intervals', 'T:on_interior_bound', 'T:on_outer_bound',
    'x:on_breakpoint', 'x:above_last_breakpoint',
    'SurfaceReaction:adsorption_beta_1', 'SurfaceReaction:adsorption_beta_0', 'SurfaceReaction:adsorption_beta_None',
    'SurfaceReaction:plain_beta_0', 'SurfaceReaction:plain_beta_1', 'SurfaceReaction:plain_beta_None',
    'SurfaceReaction:adsorption_sticking_0.5', 'SurfaceReaction:plain_sticking_0.5',
    'SurfaceReaction:adsorption_sticking_None', 'ChemkinReaction:adsorption_beta_0',
    'ChemkinReaction:adsorption_beta_1', 'ChemkinReaction:plain_beta_0', 'ChemkinReaction:plain_sticking_given',
    'ChemkinReaction:adsorption_sticking_0.5', 'Nasa:n_sites_1_without_cat_site', 'Nasa:cat_site_n_sites_None',
    'gas:add_gas_P_adj_False', 'gas:explicit_GasPressureAdj', 'nongas:explicit_GasPressureAdj',
    'nongas:add_gas_P_adj_False', 'history:cov_insert_above_last', 'history:cov_pop_last',
    'history:cov_pop_inner', 'history:cov_insert_inner', 'history:refs_append', 'history:refs_pop',
    'history:refs_refit', 'history:refs_clear_offset']
# to_dict of every class must have been seen running; from_dict of every class that the
# unchanged registry knows (a class that silently stops being decoded makes the run inconclusive
# if it does not already make it a violation)
REQUIRED_BRANCHES = ['to_dict:' + c for c in TOP_CLASSES] + ['from_dict:' + c for c in [
    'EmptyMode', 'FreeTrans', 'HarmonicVib', 'QRRHOVib', 'EinsteinVib', 'DebyeVib', 'RigidRotor',
    'GroundStateElec', 'EmptyNucl', 'StatMech', 'Nasa', 'Nasa9', 'SingleNasa9', 'Shomate',
    'Reference', 'References', 'GasPressureAdj', 'PiecewiseCovEffect', 'CatSite', 'BEP',
    'Reaction', 'Reactions', 'IdealGasEOS', 'vanDerWaalsEOS']]
REQUIRED_PROBES = ['pmuttEncoder.default', 'json_to_pmutt', 'type_to_class', 'remove_class']
ASSUMPTIONS = [
    'attribute values are JSON-representable python values (str / float / int / bool / None / '
    'list / dict with str keys) or numpy arrays where the class documents an array; numpy integer '
    'scalars as attributes are not generated',
    'the back references OpenMKM keeps between a BEP and its reactions (BEP.synthesis_reactions, '
    'BEP.cleavage_reactions, SurfaceReaction.bep) are rebuilt by the constructors and are not '
    'compared; object identity sharing (one species object used by two reactions) is not required '
    'to survive',
    'phase attributes are strings (OpenMKM phase objects assigned to species.phase are outside the '
    'quantifier)',
    'J4 compares containers leniently (list == tuple == ndarray with equal items): a container type '
    'change is only a violation when a getter changes (J3) or repeated cycles drift (J5)',
    'a getter that raises on the ORIGINAL object for the chosen conditions is skipped (counted in '
    'extra.getter_skipped_original_raises); getters of an object whose attributes or children '
    'already differ are not evaluated (extra.getters_shadowed): the root cause is what is reported',
    'ExtendedLSR is not named by the quantifier: its to_dict is exercised as telemetry only '
    '(extra.ExtendedLSR)',
    'the OpenMKM back references are checked structurally instead: after a decode every BEP of the '
    'decoded tree lists exactly the decoded reactions that use it (per direction), the original '
    "tree's lists keep their lengths and a second decode gives lists of the same lengths",
    'attributes are re-assigned on the live object (and coefficient sets given to SingleNasa9) as list / '
    'tuple / ndarray, scalars as python float / int or numpy float; numpy INTEGER scalars are telemetry '
    'only (extra.outside_documented_type: the encoder refuses them; the spreadsheet route yields python ints)',
    'a user notes dictionary whose \'class\' entry is EXACTLY a string of the class registry is an object '
    'to the object hook by design and is telemetry only (extra.notes_with_registry_class_string); every '
    'other bookkeeping key / value combination in notes is a verdict stratum',
    'decoding in a fresh interpreter that imported only pmutt.io.json is part of "encode-decode applied '
    'once": a sample of the encoded texts (every class in every run) is decoded in a subprocess and must '
    'give the same structure and top-level getter values as the in-process decode',
    'a gas species built with add_gas_P_adj=False is exercised as telemetry only '
    '(extra.add_gas_P_adj_False): the flag is not an attribute of the object, see GEN_NO_P_ADJ',
]
# A gas-phase Nasa/Shomate/Nasa9 built with add_gas_P_adj=False comes back WITH a GasPressureAdj
# (the flag is not stored, the constructor re-attaches on reload).  Genuine defect found while
# strengthening; set to True to turn the telemetry into a generated stratum with verdicts once it
# is fixed or listed.
GEN_NO_P_ADJ = True
TOL = 1e-12


# =====================================================================================
# generators (spec nodes are plain JSON: {'type': <class>, ...attributes / nested nodes})
# =====================================================================================
NAMES = ['H2', 'O2', 'H2O', 'CO', 'CO2', 'CH4', 'NH3', 'N2', 'CH3OH', 'H(S)', 'O(S)', 'OH(S)',
         'CO(S)', 'PT(S)', 'PT(B)', 'A*', 'sp_1', 'TS1', 'TS2_END', 'C2H4', 'X"q\\', 'ΩH', 'M(S)']
NOTES = [None, None, 'ref: J. Phys. Chem. C 2014', {'source': 'NIST', 'year': 2011, 'ok': True},
         'multi\nline "quoted" \\ note', '', {'levels': [1, 2.5, 'x'], 'nested': {'a': None}},
         # user dictionaries whose keys collide with the serialisation's own bookkeeping keys
         {'class': 'alkane', 'type': 'gas', '_id': 7}, {'class': None}, {'class': ['a', 'b']},
         {'reaction_str': 'x', 'intercepts': [1]}]
SMILES = [None, None, 'C', 'O=C=O', '[H][H]', 'CO']
DESCRIPTORS = ['delta_H', 'rev_delta_H', 'reactants_H', 'products_H', 'delta_E', 'rev_delta_E',
               'reactants_E', 'products_E']


BOOKKEEPING_KEYS = ['class', 'type', '_id', 'reaction_str', 'intercepts', 'gas_phase']
# what the unchanged library writes under its bookkeeping keys (refreshed at run time from the
# to_dict() output of every class, see _bookkeeping_values)
_BK_STATIC = {'type': ['nasa', 'nasa9', 'singlenasa9', 'shomate', 'empiricalbase', 'zacros'],
              'class': ["<class 'pmutt.empirical.nasa.Nasa'>", "<class 'pmutt.eos.IdealGasEOS'>",
                        "<class 'pmutt.statmech.StatMech'>"],
              'reaction_str': ['H2+0.50O2=H2O'], '_id': [], 'intercepts': [], 'gas_phase': []}
_BK = {}
_BK_BUSY = [False]


def _bookkeeping_values():
    """key -> sorted strings the library under test itself writes for that key, collected from the
    dictionary form of one object of every class (falls back to the static table)"""
    if _BK:
        return _BK
    if _BK_BUSY[0]:
        return {k: sorted(v) for k, v in _BK_STATIC.items()}
    found = {k: set(v) for k, v in _BK_STATIC.items()}
    _BK_BUSY[0] = True

    def rec(d):
        if isinstance(d, dict):
            own = isinstance(d.get('class'), str) and d['class'].startswith("<class 'pmutt")
            for k, v in d.items():
                if own and k in found and isinstance(v, str):
                    found[k].add(v)
                rec(v)
        elif isinstance(d, (list, tuple)):
            for v in d:
                rec(v)
    try:
        r = random.Random('C11:bookkeeping')
        for cls in TOP_CLASSES:
            try:
                rec(build(g_top(r, cls)).to_dict())
            except Exception:                      # noqa: a class that cannot be built / written
                pass
    except Exception:                              # noqa
        pass
    finally:
        _BK_BUSY[0] = False
    for k, v in found.items():
        _BK[k] = sorted(v)
    return _BK


def g_notes(rng):
    """notes attribute: None / str / JSON dict, and now and then a dict whose KEYS are the
    serialisation's own bookkeeping keys with VALUES the library itself writes for such keys
    (exact, case variants, the other key's values) or arbitrary ones"""
    if _BK_BUSY[0]:
        return None
    if rng.random() > 0.3:
        return copy.deepcopy(rng.choice(NOTES))
    bk = _bookkeeping_values()
    out = {'source': 'Burcat'}
    for key in rng.sample(BOOKKEEPING_KEYS, rng.randint(1, 2)):
        how = rng.choice(['lib', 'lib', 'case', 'other_key', 'arbitrary'])
        if key == 'class' and how == 'lib':
            how = 'case'      # an exact registry string under 'class' IS an object by design (telemetry)
        pool = bk.get(key) or bk['type']
        if how == 'lib':
            v = rng.choice(pool)
        elif how == 'case':
            v = rng.choice(pool)
            v = rng.choice([v.upper(), v.title(), v + ' ', ' ' + v])
        elif how == 'other_key':
            v = rng.choice(bk['type'] if key != 'type' else bk['reaction_str'] + ['nasa '])
        else:
            v = rng.choice(['alkane', 'gas', 7, None, ['a', 'b'], 1.5, True, {'type': 'nasa'}, ''])
        out[key] = v
    return out


def _r(rng, lo, hi, nd=4):
    return round(rng.uniform(lo, hi), nd)


def _rz(rng, lo, hi, nd=4):
    """like _r but exactly 0.0 now and then (falsy values are where `if value:` slips hide)"""
    return 0.0 if rng.random() < 0.1 else _r(rng, lo, hi, nd)


def g_elements(rng, allow_none=False):
    if allow_none and rng.random() < 0.3:
        return None
    return S.gen_elements(rng, 1, 3, 6)


def g_constant(rng):
    n = {'type': 'ConstantMode'}
    for k, lo, hi in (('q', 0.5, 50), ('Cv', 0, 1e-3), ('Cp', 0, 1e-3), ('U', -5, 5), ('H', -5, 5),
                      ('S', 0, 1e-2), ('F', -5, 5), ('G', -5, 5)):
        if rng.random() < 0.7:
            n[k] = _r(rng, lo, hi, 6)
    n['notes'] = g_notes(rng)
    return n


def g_mode(rng, kind):
    if kind == 'EmptyMode':
        return {'type': 'EmptyMode'}
    if kind == 'EmptyNucl':
        return {'type': 'EmptyNucl'}
    if kind == 'ConstantMode':
        return g_constant(rng)
    if kind == 'FreeTrans':
        m = S.gen_trans(rng, allow_none=False)
        if rng.random() < 0.15:
            m['molecular_weight'] = None        # the documented default; getters then refuse on both sides
        return m
    if kind in ('HarmonicVib', 'QRRHOVib', 'EinsteinVib', 'DebyeVib'):
        return S.gen_vib(rng, allow_none=False, kinds=(kind,))
    if kind == 'RigidRotor':
        return S.gen_rot(rng, allow_none=False)
    if kind == 'GroundStateElec':
        m = S.gen_elec(rng, allow_none=False)
        if rng.random() < 0.4:
            m['D0'] = _r(rng, 0.5, 8.0)
        return m
    raise ValueError(kind)


def g_cov(rng):
    n = rng.randint(1, 4)
    iv = sorted(set([0.0] + [_r(rng, 0.05, 1.0, 3) for _ in range(n - 1)]))
    node = {'type': 'PiecewiseCovEffect', 'name_i': rng.choice(NAMES), 'name_j': rng.choice(NAMES),
            'intervals': iv, 'slopes': [_rz(rng, -60, 60, 2) for _ in iv],
            'name': rng.choice([None, 'cov_1', 'lat_A_B'])}
    if rng.random() < 0.5:
        node['history'] = g_cov_history(rng, iv)
    return node


def g_cov_history(rng, iv):
    """edits applied to the live object before it is encoded (insert anywhere incl. above the last
    breakpoint and on an existing one, pop of the last / an inner breakpoint, never pop(0))"""
    cur = list(iv)
    ops = []
    for _ in range(rng.randint(1, 4)):
        kind = rng.choice(['insert_above', 'insert_inner', 'insert_equal', 'pop_last', 'pop_inner'])
        if kind == 'insert_above':
            x = round(min(1.0, cur[-1] + rng.uniform(0.0, 0.3)), 3)
            if x < cur[-1]:
                x = cur[-1]
            ops.append(['insert', x, _rz(rng, -60, 60, 2)])
            cur = sorted(cur + [x])
        elif kind == 'insert_inner':
            x = round(rng.uniform(0.001, max(0.002, cur[-1])), 3)
            ops.append(['insert', x, _rz(rng, -60, 60, 2)])
            cur = sorted(cur + [x])
        elif kind == 'insert_equal':
            x = rng.choice(cur)
            ops.append(['insert', x, _rz(rng, -60, 60, 2)])
            cur = sorted(cur + [x])
        elif kind == 'pop_last' and len(cur) > 1:
            ops.append(['pop', len(cur) - 1])
            cur.pop()
        elif kind == 'pop_inner' and len(cur) > 2:
            i = rng.randint(1, len(cur) - 2)
            ops.append(['pop', i])
            cur.pop(i)
    return ops


def g_catsite(rng):
    return {'type': 'CatSite', 'name': rng.choice(['PT(S)', 'RU_terrace', 'site 1']),
            'site_density': S.logu(rng, 1e-10, 1e-8), 'density': _r(rng, 1, 25, 3),
            'bulk_specie': rng.choice(['PT(B)', 'RU(B)', 'bulk'])}


def g_statmech(rng, name, rich=True, depth=0):
    sm = S.gen_statmech(rng, name=name, with_elements=False)
    if not rich:
        sm['plain'] = True
        return sm
    if sm.get('elec') and rng.random() < 0.3:
        sm['elec']['D0'] = _r(rng, 0.5, 8.0)
    if rng.random() < 0.15:
        sm['elec'] = g_constant(rng)          # presets['constant'] puts it in the elec slot
    sm['elements'] = g_elements(rng, allow_none=True)
    sm['smiles'] = rng.choice(SMILES)
    sm['notes'] = g_notes(rng)
    if rng.random() < 0.3:
        sm['misc_models'] = [g_cov(rng) for _ in range(rng.randint(1, 2))]
        if rng.random() < 0.3:
            sm['misc_models'].append(g_constant(rng))
    elif rng.random() < 0.1:
        sm['misc_models'] = []
    if rng.random() < (0.45 if depth < 1 else 0.08):
        sm['references'] = g_references(rng, fitted=rng.random() < 0.7)
        if sm['elements'] is None:
            sm['elements'] = g_elements(rng)
    return sm


def g_reference(rng, name, elements):
    model = S.gen_statmech(rng, name=name, gas=rng.random() < 0.5, with_elements=False)
    return {'type': 'Reference', 'name': name, 'phase': rng.choice(['G', 'S', None]),
            'elements': elements, 'T_ref': rng.choice([298.15, 298.15, _r(rng, 200, 600, 2)]),
            'HoRT_ref': _rz(rng, -150, 50, 5), 'model': model, 'notes': g_notes(rng),
            'smiles': rng.choice(SMILES)}


def g_references(rng, fitted=True):
    if not fitted:
        return {'type': 'References', 'references': None,
                'offset': {e: _r(rng, -30, 30, 6) for e in rng.sample(S.ELEMENT_POOL, rng.randint(1, 3))},
                'descriptor': 'elements', 'T_ref': rng.choice([298.15, _r(rng, 200, 600, 2)])}
    T_ref = rng.choice([298.15, _r(rng, 200, 600, 2)])
    els = rng.sample(S.ELEMENT_POOL, rng.randint(1, 3))
    refs = []
    for i in range(rng.randint(len(els), len(els) + 2)):
        comp = {e: rng.randint(1, 4) for e in rng.sample(els, rng.randint(1, len(els)))}
        r = g_reference(rng, 'ref_%d' % i, comp)
        r['T_ref'] = T_ref
        refs.append(r)
    if rng.random() < 0.2:
        refs[-1]['T_ref'] = _r(rng, 200, 600, 2)      # unequal reference temperatures (mean is used)
    offset = None
    cleared = False
    u = rng.random()
    if u < 0.25:
        # reference species kept together with a hand-set offset (no fit at construction)
        offset = {e: _r(rng, -30, 30, 6) for e in els}
    elif u < 0.5:
        # fitted, then clear_offset(): offset == {} while the reference species are still there
        cleared = True
    node = {'type': 'References', 'references': refs, 'offset': offset, 'descriptor': 'elements',
            'T_ref': T_ref, 'cleared': cleared}
    if rng.random() < 0.4:
        # history on the live container before encoding
        ops = []
        n = len(refs)
        for _ in range(rng.randint(1, 3)):
            k = rng.choice(['append', 'pop', 'refit', 'clear_offset'])
            if k == 'append':
                comp = {e: rng.randint(1, 4) for e in rng.sample(els, rng.randint(1, len(els)))}
                r = g_reference(rng, 'ref_new_%d' % n, comp)
                r['T_ref'] = T_ref
                ops.append(['append', r])
                n += 1
            elif k == 'pop' and n > 1:
                ops.append(['pop', rng.choice([-1, 0, rng.randint(0, n - 1)])])
                n -= 1
            elif k == 'refit':
                ops.append(['refit'])
            elif k == 'clear_offset':
                ops.append(['clear_offset'])
        node['history'] = ops
    return node


def _fix_range(sp, rng):
    """all empirical species cover 100-3000 K so that one condition list serves a whole tree"""
    t = sp['type']
    if t == 'Nasa':
        sp['T_low'], sp['T_mid'], sp['T_high'] = 100.0, _r(rng, 300, 2000, 2), 3000.0
    elif t == 'Shomate':
        sp['T_low'], sp['T_high'] = 100.0, 3000.0
    elif t == 'Nasa9':
        n = len(sp['nasas'])
        pts = [100.0] + sorted(_r(rng, 300, 2500, 2) for _ in range(n - 1)) + [3000.0]
        for i, seg in enumerate(sp['nasas']):
            seg['T_low'], seg['T_high'] = pts[i], pts[i + 1]
    return sp


def g_empirical(rng, kind, name, rich=True, phase=None):
    if kind == 'Nasa':
        sp = S.gen_nasa(rng, name=name, phase=phase)
    elif kind == 'Nasa9':
        sp = S.gen_nasa9(rng, name=name, phase=phase, n_seg=rng.randint(1, 4))
    else:
        sp = S.gen_shomate(rng, name=name, phase=phase, units=rng.choice(['J/mol/K', 'J/mol/K', 'cal/mol/K', 'eV/K']))
    _fix_range(sp, rng)
    if kind == 'Nasa9' and rng.random() < 0.35:
        sp['a_as'] = rng.choice(['list', 'tuple'])       # container the intervals' constructors get
    if kind == 'Nasa9' and len(sp['nasas']) > 1:
        # the order of the interval list is the object's own (a temperature on a shared bound is
        # resolved by list order): ascending, descending or shuffled
        u = rng.random()
        if u < 0.3:
            sp['nasas'].reverse()
        elif u < 0.6:
            rng.shuffle(sp['nasas'])
    if not rich:
        sp['plain'] = True
        return sp
    sp['notes'] = g_notes(rng)
    sp['smiles'] = rng.choice(SMILES)
    # explicit option values, None included: Nasa9 defaults to n_sites=1, Nasa / Shomate to None,
    # so "key absent" and "value None" are different objects for some of the classes
    sp['n_sites'] = rng.choice([None, None, 1, 2, 3])
    if kind == 'Nasa' and rng.random() < 0.4:
        sp['cat_site'] = g_catsite(rng)
    if rng.random() < 0.3:
        sp['model'] = g_statmech(rng, name, rich=rng.random() < 0.5, depth=1)
    if rng.random() < 0.3:
        sp['misc_models'] = [g_cov(rng) for _ in range(rng.randint(1, 2))]
    elif rng.random() < 0.15:
        sp['misc_models'] = []
    _p_adj_options(rng, sp)
    return sp


def _p_adj_options(rng, sp):
    """phase x add_gas_P_adj x an explicitly attached GasPressureAdj (each combination is legal)"""
    if not GEN_NO_P_ADJ:
        return sp
    u = rng.random()
    if u < 0.12:
        sp['add_gas_P_adj'] = False
    if rng.random() < 0.12:
        mm = list(sp.get('misc_models') or [])
        mm.insert(rng.randint(0, len(mm)), {'type': 'GasPressureAdj'})
        sp['misc_models'] = mm
    if ('add_gas_P_adj' in sp or sp.get('misc_models')) and rng.random() < 0.5:
        sp['phase'] = rng.choice(['G', 'g', 'gas', 'S', None])
    return sp


def g_species(rng, name, kinds, rich):
    k = rng.choice(kinds)
    if k == 'StatMech':
        return g_statmech(rng, name, rich=rich, depth=1)
    return g_empirical(rng, k, name, rich=rich)


def g_bep(rng, omkm=False, named=False):
    n = {'type': 'omkm.BEP' if omkm else 'BEP', 'slope': _rz(rng, 0, 1), 'intercept': _rz(rng, 0, 60, 3),
         'name': rng.choice(['BEP_CH', 'bep 2'] + ([] if named else [None])),
         'descriptor': rng.choice(DESCRIPTORS), 'elements': g_elements(rng, allow_none=True),
         'notes': g_notes(rng)}
    if omkm:
        n['direction'] = rng.choice([None, 'cleavage', 'synthesis'])
    return n


def _stoich(rng, n):
    return [rng.choice([1, 1, 1, 2, 0.5, 3, 1.5]) for _ in range(n)]


def g_reaction(rng, cls='Reaction', pool=None, rich=None, kinds=None, names=None):
    """pool: name -> species node shared by the reactions of a set (None: own pool)."""
    own = pool is None
    rich = rng.random() < 0.6 if rich is None else rich
    if cls == 'ChemkinReaction':
        kinds = ['Nasa']
    kinds = kinds or rng.choice([['StatMech'], ['Nasa'], ['StatMech', 'Nasa', 'Shomate', 'Nasa9'],
                                 ['StatMech', 'Nasa', 'Shomate']])
    if own:
        pool = {}
        for nm in rng.sample(names or NAMES, rng.randint(3, 5)):
            pool[nm] = g_species(rng, nm, kinds, rich)
            if cls == 'ChemkinReaction':
                _chemkinise(rng, pool[nm])
    keys = list(pool)
    nr, npd = rng.randint(1, 2), rng.randint(1, 2)
    pick = [rng.choice(keys) for _ in range(nr + npd)]
    node = {'type': cls, 'reactants': pick[:nr], 'reactants_stoich': _stoich(rng, nr),
            'products': pick[nr:], 'products_stoich': _stoich(rng, npd),
            'transition_state': None, 'transition_state_stoich': None,
            'notes': g_notes(rng), 'rich': rich}
    ts = rng.choice(['none', 'species', 'bep'])
    if ts == 'species':
        node['transition_state'] = [rng.choice(keys)]
        node['transition_state_stoich'] = [1]
    elif ts == 'bep':
        node['bep'] = g_bep(rng, omkm=(cls == 'SurfaceReaction'), named=True)
        node['transition_state'] = ['@bep']
        node['transition_state_stoich'] = [1]
    if cls == 'ChemkinReaction':
        # defaults: beta=1, sticking_coeff=0.5 (forced to None unless is_adsorption)
        node['beta'] = rng.choice([1.0, 0.0, _r(rng, -1, 2, 2)])
        node['is_adsorption'] = rng.random() < 0.5
        node['sticking_coeff'] = rng.choice([0.5, 0.5, 1.0, _r(rng, 0.01, 1, 3)])
    if cls == 'SurfaceReaction':
        node['id'] = rng.choice([None, None, 7, 'r_0012', 'BEP_CH_cle_0001'])
        # context dependent defaults: beta None -> 0 for an adsorption, 1 otherwise; sticking_coeff
        # None -> 0.5 for an adsorption.  Every explicit value that equals the OTHER context's
        # default is drawn in both contexts.
        node['is_adsorption'] = rng.random() < 0.5
        node['A'] = rng.choice([None, None, S.logu(rng, 1e8, 1e15)])
        node['beta'] = rng.choice([None, 0.0, 1.0, _r(rng, -1, 2, 2)])
        node['Ea'] = rng.choice([None, None, 0.0, _r(rng, 0, 50, 3)])
        node['sticking_coeff'] = rng.choice([None, 0.5, 1.0, _r(rng, 0.01, 1, 3)])
        node['direction'] = rng.choice([None, 'cleavage', 'synthesis'])
        node['use_motz_wise'] = rng.random() < 0.4
    if own:
        node['species'] = pool
    return node


def _chemkinise(rng, sp):
    """Chemkin reactions look at species.phase / species.cat_site"""
    sp['phase'] = rng.choice(['G', 'S'])
    if sp['phase'] == 'S' and 'cat_site' not in sp:
        sp['cat_site'] = g_catsite(rng)
        sp.pop('plain', None)
    return sp


def g_reactions(rng, cls='Reactions'):
    rich = rng.random() < 0.6
    mixed = cls == 'Reactions' and rng.random() < 0.35
    kinds = ['Nasa'] if mixed else rng.choice([['StatMech'], ['Nasa'], ['StatMech', 'Nasa', 'Shomate']])
    pool = {}
    for nm in rng.sample(NAMES, rng.randint(3, 6)):
        pool[nm] = g_species(rng, nm, kinds, rich)
        if mixed:
            _chemkinise(rng, pool[nm])
    rxns = []
    for _ in range(rng.randint(1, 4)):
        rc = rng.choice(['Reaction', 'ChemkinReaction', 'SurfaceReaction']) if mixed else 'Reaction'
        rxns.append(g_reaction(rng, rc, pool=pool, rich=rich))
    node = {'type': cls, 'species': pool, 'reactions': rxns, 'mixed': mixed, 'rich': rich}
    if cls == 'Reactions' and rng.random() < 0.4:
        _add_bep_reactions(rng, node, pool, rich, shared=rng.random() < 0.5)
    if cls == 'PhaseDiagram':
        mode = rng.choice(['none', 'list', 'array'])
        node['norm_factors'] = None if mode == 'none' else [_r(rng, 0.5, 20, 3) for _ in rxns]
        node['norm_as_array'] = mode == 'array'
    return node


def _add_bep_reactions(rng, node, pool, rich, shared):
    """Two (or three) SurfaceReactions whose transition state is an OpenMKM BEP with a direction:
    either every reaction with its own BEP (built with the default lists) or all sharing one."""
    n = rng.randint(2, 3)
    if shared:
        node['shared_bep'] = g_bep(rng, omkm=True, named=True)
    for _ in range(n):
        r = g_reaction(rng, 'SurfaceReaction', pool=pool, rich=rich)
        r['direction'] = rng.choice(['synthesis', 'cleavage'])
        r['transition_state_stoich'] = [1]
        if shared:
            r.pop('bep', None)
            r['transition_state'] = ['@shared_bep']
        else:
            r['bep'] = g_bep(rng, omkm=True, named=True)
            r['transition_state'] = ['@bep']
        node['reactions'].append(r)
    node['bep_links'] = 'shared' if shared else 'distinct'
    node['mixed'] = True
    return node


def g_lsr(rng):
    floats = rng.random() < 0.4
    n = {'type': 'LSR', 'slope': _rz(rng, 0, 1), 'intercept': _rz(rng, -30, 30, 3), 'notes': g_notes(rng)}
    if floats:
        n['reaction'] = _r(rng, -80, 0, 3)
        n['surf_species'] = rng.choice([0.0, _r(rng, -500, 0, 3)])
        n['gas_species'] = rng.choice([0.0, _r(rng, -500, 0, 3)])
    else:
        n['reaction'] = g_reaction(rng, 'Reaction', kinds=['StatMech'], rich=rng.random() < 0.5,
                                   names=[x for x in NAMES])
        n['reaction']['transition_state'] = None
        n['reaction']['transition_state_stoich'] = None
        n['reaction'].pop('bep', None)
        n['surf_species'] = rng.choice([_r(rng, -500, 0, 3), g_statmech(rng, 'M(S)', rich=rng.random() < 0.5, depth=1)])
        n['gas_species'] = rng.choice([_r(rng, -500, 0, 3), g_statmech(rng, 'CH4', rich=rng.random() < 0.5, depth=1)])
    return n


# ---- attribute re-assignment on the live object before it is encoded ---------------------------
# class -> [(attribute, kind of value, container types a user would assign it with)]
SEQ = ['list', 'tuple', 'ndarray']
SCAL = ['float', 'int', 'npfloat']
_RX = [('reactants_stoich', 'stoich_r', SEQ), ('products_stoich', 'stoich_p', SEQ), ('notes', 'notes', ['json'])]
_BEP = [('slope', 'slope', SCAL), ('intercept', 'intercept', SCAL), ('notes', 'notes', ['json']),
        ('descriptor', 'descriptor', ['json'])]
REASSIGN = {
    'HarmonicVib': [('vib_wavenumbers', 'wavenumbers', SEQ), ('imaginary_substitute', 'sub', SCAL + ['none'])],
    'QRRHOVib': [('vib_wavenumbers', 'wavenumbers', SEQ), ('Bav', 'Bav', ['float', 'npfloat']), ('v0', 'v0', SCAL),
                 ('alpha', 'alpha', SCAL), ('imaginary_substitute', 'sub', SCAL + ['none'])],
    'EinsteinVib': [('einstein_temperature', 'theta', SCAL), ('interaction_energy', 'energy', SCAL)],
    'DebyeVib': [('debye_temperature', 'theta', SCAL), ('interaction_energy', 'energy', SCAL)],
    'RigidRotor': [('rot_temperatures', 'rotT', SEQ), ('symmetrynumber', 'sym', ['int', 'float'])],
    'GroundStateElec': [('spin', 'spin', SCAL), ('potentialenergy', 'energy', SCAL), ('D0', 'D0', SCAL + ['none'])],
    'FreeTrans': [('n_degrees', 'ndeg', ['int', 'float']), ('molecular_weight', 'mw', SCAL)],
    'ConstantMode': [('q', 'q', SCAL), ('U', 'energy', SCAL), ('S', 'small', SCAL), ('notes', 'notes', ['json'])],
    'StatMech': [('notes', 'notes', ['json']), ('name', 'name', ['json']), ('elements', 'elements', ['json']),
                 ('smiles', 'smiles', ['json'])],
    'Nasa': [('a_low', 'c7', SEQ), ('a_high', 'c7', SEQ), ('T_mid', 'Tmid', SCAL),
             ('T_low', 'Tlow', SCAL), ('T_high', 'Thigh', SCAL), ('notes', 'notes', ['json']),
             ('elements', 'elements', ['json'])],
    'Nasa9': [('nasas', 'perm', ['list', 'tuple']), ('notes', 'notes', ['json']), ('n_sites', 'nsites', ['int', 'none'])],
    'SingleNasa9': [('a', 'c9', SEQ), ('T_low', 'Tlow', SCAL), ('T_high', 'Thigh', SCAL)],
    'Shomate': [('a', 'c8', SEQ), ('T_low', 'Tlow', SCAL), ('T_high', 'Thigh', SCAL),
                ('units', 'units', ['json']), ('notes', 'notes', ['json']), ('n_sites', 'nsites', ['int', 'none'])],
    'Reaction': _RX, 'ChemkinReaction': _RX + [('beta', 'beta', SCAL)],
    'SurfaceReaction': _RX + [('beta', 'beta', SCAL), ('Ea', 'intercept', SCAL + ['none']), ('id', 'rid', ['json', 'int'])],
    'BEP': _BEP, 'omkm.BEP': _BEP + [('direction', 'direction', ['json'])],
    'LSR': [('slope', 'slope', SCAL), ('intercept', 'intercept', SCAL), ('notes', 'notes', ['json'])],
    'vanDerWaalsEOS': [('a', 'vdwa', SCAL), ('b', 'vdwb', ['float', 'npfloat'])],
    'CatSite': [('site_density', 'sden', ['float', 'npfloat']), ('density', 'dens', SCAL), ('name', 'name', ['json'])],
    'PiecewiseCovEffect': [('name', 'name', ['json']), ('name_i', 'name', ['json'])],
    'References': [('T_ref', 'Tref', SCAL), ('offset', 'offset', ['json'])],
    'Reference': [('T_ref', 'Tref', SCAL), ('HoRT_ref', 'energy', SCAL), ('notes', 'notes', ['json'])],
    'PhaseDiagram': [('norm_factors', 'norm', SEQ)],
}
REASSIGN_CLASSES = ['reassign:%s.%s:%s' % (c, a, k) for c, lst in REASSIGN.items() for a, _, ks in lst for k in ks]
REQUIRED_CLASSES = REQUIRED_CLASSES + REASSIGN_CLASSES + [
    'reassign:nested_in_StatMech', 'reassign:nested_in_reaction',
    # coefficient sets handed to the CONSTRUCTOR as list / tuple (SingleNasa9 stores what it is given)
    'SingleNasa9:ctor_a_list', 'SingleNasa9:ctor_a_tuple', 'Nasa9:ctor_a_list', 'Nasa9:ctor_a_tuple',
    # user notes whose keys are the serialisation's bookkeeping keys and whose values are what the
    # library itself writes there (exact / case variant)
    'notes:type=lib', 'notes:type=case', 'notes:class=case', 'notes:reaction_str=lib', 'notes:_id=any',
    ] + ['fresh_process:' + c for c in TOP_CLASSES]     # decoded in an interpreter that imported only the hook


def _reval(rng, kind, cont, node):
    """JSON form of a new value of `kind` to be assigned in container `cont`"""
    i = cont == 'int'
    if cont == 'none':
        return None
    if kind == 'wavenumbers':
        return S.gen_wavenumbers(rng)
    if kind == 'sub':
        return rng.randint(10, 200) if i else _r(rng, 10, 200, 2)
    if kind == 'Bav':
        return S.logu(rng, 1e-46, 1e-43)
    if kind == 'v0':
        return rng.randint(50, 200) if i else _r(rng, 50, 200, 2)
    if kind == 'alpha':
        return rng.choice([2, 3, 4, 5, 6]) if i else rng.choice([2.0, 3.5, 4.0, 5.25])
    if kind == 'theta':
        return rng.randint(50, 2000) if i else S.logu(rng, 50, 2000)
    if kind == 'energy':
        return rng.randint(-5, 5) if i else _rz(rng, -5, 5, 5)
    if kind == 'rotT':
        return [S.logu(rng, 0.01, 100.0) for _ in node.get('rot_temperatures') or []]
    if kind == 'sym':
        return rng.choice([1, 2, 3, 4, 6, 12])
    if kind == 'spin':
        return rng.choice([0, 1, 2, 3]) if i else rng.choice([0.0, 0.5, 1.0, 1.5, 2.5])
    if kind == 'D0':
        return rng.randint(1, 8) if i else _r(rng, 0.5, 8.0)
    if kind == 'ndeg':
        return rng.choice([1, 2, 3])
    if kind == 'mw':
        return rng.randint(1, 300) if i else S.logu(rng, 1.0, 500.0)
    if kind == 'q':
        return rng.randint(1, 50) if i else _r(rng, 0.5, 50, 4)
    if kind == 'small':
        return 0 if i else _rz(rng, 0, 1e-2, 6)
    if kind == 'c7':
        return S.gen_nasa7_coeffs(rng)
    if kind == 'c9':
        return S.gen_nasa9_coeffs(rng)
    if kind == 'c8':
        return S.gen_shomate(rng)['a']
    if kind == 'Tmid':
        return rng.randint(300, 2000) if i else _r(rng, 300, 2000, 2)
    if kind == 'Tlow':
        return 100 if i else 100.0
    if kind == 'Thigh':
        return 3000 if i else 3000.0
    if kind == 'Tref':
        return rng.randint(200, 600) if i else rng.choice([298.15, _r(rng, 200, 600, 2)])
    if kind == 'nsites':
        return rng.choice([1, 2, 3])
    if kind == 'perm':
        idx = list(range(len(node['nasas'])))
        rng.shuffle(idx)
        return idx
    if kind in ('stoich_r', 'stoich_p'):
        n = len(node['reactants_stoich' if kind == 'stoich_r' else 'products_stoich'])
        return [float(x) for x in _stoich(rng, n)] if cont == 'ndarray' else _stoich(rng, n)
    if kind == 'slope':
        return rng.choice([0, 1]) if i else _rz(rng, 0, 1)
    if kind == 'intercept':
        return rng.randint(0, 60) if i else _rz(rng, 0, 60, 3)
    if kind == 'beta':
        return rng.choice([0, 1, 2]) if i else rng.choice([0.0, 1.0, _r(rng, -1, 2, 2)])
    if kind == 'rid':
        return rng.randint(1, 999) if i else rng.choice(['r_0012', 'BEP_CH_cle_0001', None])
    if kind == 'vdwa':
        return rng.randint(1, 2) if i else S.logu(rng, 1e-2, 2.0)
    if kind == 'vdwb':
        return S.logu(rng, 1e-5, 1e-4)
    if kind == 'sden':
        return S.logu(rng, 1e-10, 1e-8)
    if kind == 'dens':
        return rng.randint(1, 25) if i else _r(rng, 1, 25, 3)
    if kind == 'norm':
        return [_r(rng, 0.5, 20, 3) for _ in node['reactions']]
    if kind == 'notes':
        return g_notes(rng)
    if kind == 'name':
        return rng.choice(NAMES)
    if kind == 'smiles':
        return rng.choice(SMILES)
    if kind == 'elements':
        return g_elements(rng, allow_none=True)
    if kind == 'units':
        return rng.choice(['J/mol/K', 'cal/mol/K', 'eV/K', 'kJ/mol/K'])
    if kind == 'descriptor':
        return rng.choice(DESCRIPTORS)
    if kind == 'direction':
        return rng.choice([None, 'cleavage', 'synthesis'])
    if kind == 'offset':
        return {e: _rz(rng, -30, 30, 6) for e in rng.sample(S.ELEMENT_POOL, rng.randint(1, 3))}
    raise ValueError(kind)


def g_reassign(rng, node, entry=None, cont=None):
    """append one re-assignment (attribute set on the live object after construction) to a node"""
    table = REASSIGN.get(node.get('type'))
    if not table:
        return node
    attr, kind, conts = entry or rng.choice(table)
    cont = cont or rng.choice(conts)
    if kind == 'perm' and len(node.get('nasas') or []) < 1:
        return node
    node.setdefault('reassign', []).append([attr, cont, _reval(rng, kind, cont, node)])
    return node


def sprinkle_reassign(rng, top):
    for node, depth in list(_walk_nodes(top)):
        if node.get('type') in REASSIGN and rng.random() < (0.3 if depth == 0 else 0.06):
            for _ in range(rng.randint(1, 2)):
                g_reassign(rng, node)
    return top


def _conv(cont, val):
    import numpy as np
    if cont == 'list':
        return list(val)
    if cont == 'tuple':
        return tuple(val)
    if cont == 'ndarray':
        return np.array(val, dtype=float)
    if cont == 'int':
        return int(val)
    if cont == 'float':
        return float(val)
    if cont == 'npfloat':
        return np.float64(val)
    if cont == 'none':
        return None
    return copy.deepcopy(val)


def _apply_reassign(obj, node):
    if isinstance(node, dict):
        for attr, cont, val in node.get('reassign') or []:
            if attr == 'nasas':
                seq = [obj.nasas[i] for i in val]
                setattr(obj, attr, tuple(seq) if cont == 'tuple' else seq)
            else:
                setattr(obj, attr, _conv(cont, val))
    return obj


def g_conds(rng):
    out = []
    for _ in range(rng.randint(2, 3)):
        out.append({'T': rng.choice([298.15, _r(rng, 150, 2500, 2), _r(rng, 150, 2500, 2)]),
                    'P': rng.choice([1.0, 0.1, 10.0, _r(rng, 0.01, 50, 3)]),
                    'V': S.logu(rng, 1e-3, 1.0), 'n': _r(rng, 0.1, 5, 3), 'x': _r(rng, 0, 1.2, 3),
                    'rev': rng.random() < 0.5, 'act': rng.random() < 0.5,
                    'state': rng.choice(['reactants', 'products', 'ts']),
                    'include_ZPE': rng.random() < 0.5,
                    'method_name': rng.choice(['get_HoRT', 'get_SoR', 'get_CpoR', 'get_GoRT']),
                    'descriptors': S.gen_elements(rng, 1, 3, 5)})
    if rng.random() < 0.5:
        # one condition with a temperature vector (the empirical getters document array input)
        out[-1]['T_arr'] = sorted(_r(rng, 150, 2500, 2) for _ in range(3))
    return out


def g_top(rng, cls):
    if cls in MODE_CLASSES:
        return g_mode(rng, cls)
    if cls == 'StatMech':
        return g_statmech(rng, rng.choice(NAMES), rich=rng.random() < 0.85)
    if cls in ('Nasa', 'Nasa9', 'Shomate'):
        return g_empirical(rng, cls, rng.choice(NAMES), rich=rng.random() < 0.85)
    if cls == 'SingleNasa9':
        return {'type': 'SingleNasa9', 'T_low': 100.0, 'T_high': 3000.0, 'a': S.gen_nasa9_coeffs(rng),
                'a_as': rng.choice(SEQ)}
    if cls == 'Reference':
        return g_reference(rng, rng.choice(NAMES), g_elements(rng))
    if cls == 'References':
        return g_references(rng, fitted=rng.random() < 0.7)
    if cls == 'GasPressureAdj':
        return {'type': 'GasPressureAdj'}
    if cls == 'PiecewiseCovEffect':
        return g_cov(rng)
    if cls == 'CatSite':
        return g_catsite(rng)
    if cls in ('BEP', 'omkm.BEP'):
        n = g_bep(rng, omkm=(cls == 'omkm.BEP'))
        # a reaction handed to the BEP getters (argument only, never serialised)
        n['probe_reaction'] = g_reaction(rng, 'Reaction', kinds=['StatMech'], rich=False)
        n['probe_reaction']['transition_state'] = None
        n['probe_reaction']['transition_state_stoich'] = None
        n['probe_reaction'].pop('bep', None)
        return n
    if cls == 'LSR':
        return g_lsr(rng)
    if cls in ('Reaction', 'ChemkinReaction', 'SurfaceReaction'):
        return g_reaction(rng, cls)
    if cls in ('Reactions', 'PhaseDiagram'):
        return g_reactions(rng, cls)
    if cls == 'IdealGasEOS':
        return {'type': 'IdealGasEOS'}
    if cls == 'vanDerWaalsEOS':
        return {'type': 'vanDerWaalsEOS', 'a': S.logu(rng, 1e-2, 2.0), 'b': S.logu(rng, 1e-5, 1e-4)}
    raise ValueError(cls)


def generate(rng, tier):
    cls = rng.choice(TOP_CLASSES)
    spec = {'cls': cls, 'obj': g_top(rng, cls), 'cycles': rng.choice([1, 1, 2, 3]), 'conds': g_conds(rng)}
    sprinkle_reassign(rng, spec['obj'])
    return spec


def _d(cls, k, **over):
    rng = random.Random('C11:directed:%s:%s' % (cls, k))
    sp = {'cls': cls, 'obj': g_top(rng, cls), 'cycles': over.pop('cycles', 1), 'conds': g_conds(rng)}
    sp['obj'].update(over)
    return sp


def directed(tier):
    D = []
    rng = random.Random('C11:directed')
    # one plain object of every class, single cycle
    for cls in TOP_CLASSES:
        D.append(_d(cls, 0))
    # pinned witnesses of the design-phase findings -----------------------------------------
    D.append(_d('Nasa9', 1, cycles=2))
    D.append(_d('SingleNasa9', 1))
    D.append({'cls': 'References', 'obj': g_references(rng, fitted=True), 'cycles': 2, 'conds': g_conds(rng)})
    D.append({'cls': 'References', 'obj': g_references(rng, fitted=False), 'cycles': 1, 'conds': g_conds(rng)})
    sm = g_statmech(rng, 'CH3OH', rich=False)
    sm.pop('plain')
    sm.update(elements={'C': 1, 'H': 4, 'O': 1}, smiles='CO', notes='witness')
    D.append({'cls': 'StatMech', 'obj': dict(sm), 'cycles': 1, 'conds': g_conds(rng)})
    D.append({'cls': 'StatMech', 'obj': dict(sm, misc_models=[g_cov(rng)], elements=None, smiles=None),
              'cycles': 1, 'conds': g_conds(rng)})
    D.append({'cls': 'StatMech', 'obj': dict(sm, references=g_references(rng, fitted=True)), 'cycles': 3,
              'conds': g_conds(rng)})
    D.append({'cls': 'StatMech', 'obj': dict(sm, elements=None, smiles=None, elec=g_constant(rng)), 'cycles': 1,
              'conds': g_conds(rng)})
    D.append({'cls': 'GroundStateElec', 'obj': {'type': 'GroundStateElec', 'potentialenergy': -1.5, 'spin': 0.5,
                                               'D0': 4.0}, 'cycles': 1, 'conds': g_conds(rng)})
    D.append({'cls': 'BEP', 'obj': dict(_d('BEP', 2)['obj'], elements={'C': 1, 'H': 1}, name='BEP_CH'),
              'cycles': 1, 'conds': g_conds(rng)})
    D.append({'cls': 'PiecewiseCovEffect', 'obj': {'type': 'PiecewiseCovEffect', 'name_i': 'CO(S)',
                                                  'name_j': 'O(S)', 'intervals': [0.0, 0.3], 'slopes': [5.0, -20.0],
                                                  'name': 'lat_CO_O'}, 'cycles': 2, 'conds': g_conds(rng)})
    D.append(_d('SurfaceReaction', 3, id='r_0012', direction='cleavage', use_motz_wise=True))
    D.append(_d('SurfaceReaction', 4, id=7, direction=None, use_motz_wise=False, A=1.0e13, Ea=12.5))
    D.append(_d('ChemkinReaction', 5, is_adsorption=True, sticking_coeff=0.25, beta=0.0))
    lsr_f = {'type': 'LSR', 'slope': 0.5, 'intercept': 1.0, 'reaction': -20.0, 'surf_species': -100.0,
             'gas_species': -30.0, 'notes': None}
    D.append({'cls': 'LSR', 'obj': lsr_f, 'cycles': 1, 'conds': g_conds(rng)})
    for k in range(6, 40):
        sp = _d('LSR', k)
        if isinstance(sp['obj']['reaction'], dict):
            D.append(sp)
            break
    pd = _d('PhaseDiagram', 7)
    pd['obj']['norm_factors'] = [2.0 + i for i in range(len(pd['obj']['reactions']))]
    pd['obj']['norm_as_array'] = False
    D.append(pd)
    pd2 = copy.deepcopy(pd)
    pd2['obj']['norm_as_array'] = True
    D.append(pd2)
    sh = _d('Shomate', 8, n_sites=2)
    sh['obj'].pop('plain', None)
    D.append(sh)
    na = _d('Nasa', 9, n_sites=2, cat_site=g_catsite(rng), phase='S')
    na['obj'].pop('plain', None)
    D.append(na)
    D.append(_d('Reaction', 10, notes='source: DFT set B', cycles=2))
    # nameless species inside a plain Reaction (what LSR builds from floats)
    nameless = g_reaction(rng, 'Reaction', kinds=['StatMech'], rich=False)
    nameless['nameless'] = True
    nameless['transition_state'] = None
    nameless['transition_state_stoich'] = None
    nameless.pop('bep', None)
    D.append({'cls': 'Reaction', 'obj': nameless, 'cycles': 1, 'conds': g_conds(rng)})
    D.append({'cls': 'LSR', 'obj': {'type': 'ExtendedLSR'}, 'cycles': 1, 'conds': g_conds(rng), 'telemetry': True})
    # ---- strata added after seeded bugs were missed (own PRNG: the cases above stay as they were) ----
    r2 = random.Random('C11:directed:round2')
    # OpenMKM BEP back references: two reactions with their own BEP (default lists), two sharing one
    for shared in (False, True, False, True):
        node = g_reactions(r2, 'Reactions')
        node.pop('shared_bep', None)
        node['reactions'] = [r for r in node['reactions'] if r['type'] != 'SurfaceReaction' or not r.get('bep')][:1]
        _add_bep_reactions(r2, node, node['species'], node['rich'], shared=shared)
        D.append({'cls': 'Reactions', 'obj': node, 'cycles': 1, 'conds': g_conds(r2)})
    for d in ('synthesis', 'cleavage'):
        sp = {'cls': 'SurfaceReaction', 'obj': g_reaction(r2, 'SurfaceReaction'), 'cycles': 2, 'conds': g_conds(r2)}
        sp['obj'].update(bep=g_bep(r2, omkm=True, named=True), transition_state=['@bep'],
                         transition_state_stoich=[1], direction=d, use_motz_wise=True, beta=None,
                         sticking_coeff=None)
        D.append(sp)
    # References fitted and then cleared: offset == {} while the reference species are still there
    for k in range(2):
        refs = g_references(r2, fitted=True)
        refs.update(offset=None, cleared=True)
        D.append({'cls': 'References', 'obj': refs, 'cycles': 1 + k, 'conds': g_conds(r2)})
        sm2 = g_statmech(r2, 'CH4', rich=False)
        sm2.pop('plain')
        sm2.update(elements={e: 1 for r in refs['references'] for e in r['elements']},
                   references=copy.deepcopy(refs))
        D.append({'cls': 'StatMech', 'obj': sm2, 'cycles': 1 + k, 'conds': g_conds(r2)})
    # explicit option values that differ from the constructor default / from "key absent"
    for kind, ns in (('Nasa9', None), ('Nasa9', 2), ('Nasa9', 1), ('Shomate', None), ('Shomate', 3),
                     ('Nasa', None), ('Nasa', 2)):
        sp = g_empirical(r2, kind, 'CO(S)', rich=True)
        sp['n_sites'] = ns
        sp.pop('cat_site', None)
        D.append({'cls': kind, 'obj': sp, 'cycles': 1, 'conds': g_conds(r2)})
    sp = g_empirical(r2, 'Nasa', 'CO(S)', rich=True)
    sp.update(n_sites=None, cat_site=g_catsite(r2), misc_models=[], phase='G')
    D.append({'cls': 'Nasa', 'obj': sp, 'cycles': 2, 'conds': g_conds(r2)})
    sm3 = g_statmech(r2, 'H2O', rich=True)
    sm3['misc_models'] = []
    D.append({'cls': 'StatMech', 'obj': sm3, 'cycles': 1, 'conds': g_conds(r2)})
    D.append({'cls': 'FreeTrans', 'obj': {'type': 'FreeTrans', 'n_degrees': 2, 'molecular_weight': None},
              'cycles': 1, 'conds': g_conds(r2)})
    # ---- round 3: needle classes, crossed systematically (own PRNG again) -------------------------
    r3 = random.Random('C11:directed:round3')
    # Nasa9 interval lists in every order of 2 and 3 intervals
    import itertools
    for n_seg in (2, 3):
        base = _fix_range(S.gen_nasa9(r3, name='CO2', phase='G', n_seg=n_seg), r3)
        for perm in itertools.permutations(range(n_seg)):
            sp = copy.deepcopy(base)
            sp['nasas'] = [sp['nasas'][i] for i in perm]
            D.append({'cls': 'Nasa9', 'obj': sp, 'cycles': 1 + (perm[0] % 2), 'conds': g_conds(r3)})
    # context dependent defaults x the explicit value that equals the other context's default
    base = g_reaction(r3, 'SurfaceReaction', kinds=['Nasa'], rich=False)
    base.pop('bep', None)
    base.update(transition_state=None, transition_state_stoich=None)
    for ads in (True, False):
        for beta in (None, 0.0, 1.0, 0.37):
            for sc in (None, 0.5, 0.25):
                sp = copy.deepcopy(base)
                sp.update(is_adsorption=ads, beta=beta, sticking_coeff=sc, A=None, Ea=None)
                D.append({'cls': 'SurfaceReaction', 'obj': sp, 'cycles': 1, 'conds': g_conds(r3)[:2]})
    base = g_reaction(r3, 'ChemkinReaction', rich=False)
    base.pop('bep', None)
    base.update(transition_state=None, transition_state_stoich=None)
    for ads in (True, False):
        for beta in (0.0, 1.0, 0.37):
            for sc in (0.5, 0.25, 1.0):
                sp = copy.deepcopy(base)
                sp.update(is_adsorption=ads, beta=beta, sticking_coeff=sc)
                D.append({'cls': 'ChemkinReaction', 'obj': sp, 'cycles': 1, 'conds': g_conds(r3)[:2]})
    for ns in (None, 1, 2):
        for cs in (None, g_catsite(r3)):
            sp = g_empirical(r3, 'Nasa', 'CO(S)', rich=False)
            sp.pop('plain')
            sp.update(n_sites=ns, phase='S')
            if cs:
                sp['cat_site'] = cs
            D.append({'cls': 'Nasa', 'obj': sp, 'cycles': 1, 'conds': g_conds(r3)})
    if GEN_NO_P_ADJ:
        for kind in ('Nasa', 'Nasa9', 'Shomate'):
            for phase in ('G', 'gas', 'S', None):
                for flag in (True, False):
                    for mm in (None, [], [{'type': 'GasPressureAdj'}], [g_cov(r3), {'type': 'GasPressureAdj'}]):
                        sp = g_empirical(r3, kind, 'H2O', rich=False, phase=phase if phase else None)
                        sp.pop('plain')
                        sp['phase'] = phase
                        if not flag:
                            sp['add_gas_P_adj'] = False
                        if mm is not None:
                            sp['misc_models'] = copy.deepcopy(mm)
                        D.append({'cls': kind, 'obj': sp, 'cycles': 1, 'conds': g_conds(r3)[:2]})
    # histories on the live object before it is encoded
    covb = {'type': 'PiecewiseCovEffect', 'name_i': 'CO(S)', 'name_j': 'O(S)', 'intervals': [0.0, 0.3, 0.6],
            'slopes': [10.0, -20.0, 35.0], 'name': 'lat'}
    for hist in ([['pop', 2]], [['pop', 1]], [['insert', 0.8, 5.0]], [['insert', 0.45, 5.0]], [['insert', 0.3, 5.0]],
                 [['pop', 2], ['pop', 1]], [['insert', 0.9, -3.0], ['pop', 3]], [['pop', 2], ['insert', 0.5, 2.0]],
                 [['insert', 1.0, 1.0], ['insert', 1.0, 2.0], ['pop', 4]]):
        D.append({'cls': 'PiecewiseCovEffect', 'obj': dict(copy.deepcopy(covb), history=hist), 'cycles': 2,
                  'conds': g_conds(r3)})
    sm4 = g_statmech(r3, 'CO(S)', rich=False)
    sm4.pop('plain')
    sm4['misc_models'] = [dict(copy.deepcopy(covb), history=[['pop', 2]]),
                          dict(copy.deepcopy(covb), history=[['insert', 0.8, 5.0], ['pop', 1]])]
    D.append({'cls': 'StatMech', 'obj': sm4, 'cycles': 1, 'conds': g_conds(r3)})
    for hist_kinds in (['append'], ['pop'], ['refit'], ['clear_offset'], ['append', 'refit'], ['pop', 'refit'],
                       ['clear_offset', 'append'], ['append', 'pop', 'clear_offset', 'refit']):
        refs = g_references(r3, fitted=True)
        refs.update(offset=None, cleared=False)
        els = sorted({e for r in refs['references'] for e in r['elements']})
        ops = []
        for k in hist_kinds:
            if k == 'append':
                r = g_reference(r3, 'ref_new', {e: r3.randint(1, 3) for e in els})
                r['T_ref'] = refs['T_ref']
                ops.append(['append', r])
            elif k == 'pop':
                ops.append(['pop', -1] if len(refs['references']) > 1 else ['refit'])
            else:
                ops.append([k])
        refs['history'] = ops
        D.append({'cls': 'References', 'obj': refs, 'cycles': 1, 'conds': g_conds(r3)})
    # ---- round 4: every (class, attribute, container type) re-assigned on the live object ---------
    r4 = random.Random('C11:directed:round4')
    for cls, table in REASSIGN.items():
        for entry in table:
            for cont in entry[2]:
                for _try in range(20):
                    node = g_top(r4, cls)
                    if cls != 'Nasa9' or len(node['nasas']) > 1:
                        break
                if cls == 'RigidRotor' and entry[0] == 'rot_temperatures' and not node['rot_temperatures']:
                    node.update(geometry='nonlinear', rot_temperatures=[1.0, 2.0, 3.0])
                g_reassign(r4, node, entry, cont)
                D.append({'cls': cls, 'obj': node, 'cycles': r4.choice([1, 2]), 'conds': g_conds(r4)})
    for cont in ('list', 'tuple'):
        for cyc in (1, 3):
            n1 = g_top(r4, 'SingleNasa9')
            n1['a_as'] = cont
            D.append({'cls': 'SingleNasa9', 'obj': n1, 'cycles': cyc, 'conds': g_conds(r4)})
            n9 = g_empirical(r4, 'Nasa9', 'CO2', rich=cyc == 3)
            n9['a_as'] = cont
            D.append({'cls': 'Nasa9', 'obj': n9, 'cycles': cyc, 'conds': g_conds(r4)})
        rx = g_reaction(r4, 'Reaction', kinds=['Nasa9'], rich=False)
        for sp in rx['species'].values():
            sp['a_as'] = cont
        D.append({'cls': 'Reaction', 'obj': rx, 'cycles': 1, 'conds': g_conds(r4)[:2]})
    # round 5: notes with bookkeeping keys x the values the library writes under them
    bkv = _bookkeeping_values()
    k5 = 0
    for cls in ('ConstantMode', 'StatMech', 'Nasa', 'Nasa9', 'Shomate', 'Reference', 'BEP', 'omkm.BEP', 'LSR',
                'Reaction', 'ChemkinReaction', 'SurfaceReaction'):
        for j in range(3):
            tv = bkv['type'][(k5 + j) % len(bkv['type'])]
            cv = bkv['class'][(k5 + j) % len(bkv['class'])]
            note = [{'source': 'Burcat', 'type': tv},
                    {'source': 'Burcat', 'type': tv.upper(), 'class': cv.upper(), '_id': tv},
                    {'source': 'Burcat', 'reaction_str': bkv['reaction_str'][0], 'type': tv, 'class': ' ' + cv}][j]
            node = g_top(r4, cls)
            node['notes'] = note
            D.append({'cls': cls, 'obj': node, 'cycles': 1 + j % 2, 'conds': g_conds(r4)[:2]})
        k5 += 1
    # the same inside containers: mode inside a species, species inside a reaction (set)
    for cont in SEQ:
        for vk in ('HarmonicVib', 'QRRHOVib'):
            sm = g_statmech(r4, 'CO2', rich=False)
            sm.pop('plain')
            sm['vib'] = g_reassign(r4, g_mode(r4, vk), REASSIGN[vk][0], cont)
            sm['rot'] = g_reassign(r4, {'type': 'RigidRotor', 'symmetrynumber': 2, 'geometry': 'linear',
                                        'rot_temperatures': [0.56]}, REASSIGN['RigidRotor'][0], cont)
            D.append({'cls': 'StatMech', 'obj': copy.deepcopy(sm), 'cycles': 1, 'conds': g_conds(r4)})
            rx = g_reaction(r4, 'Reaction', kinds=['StatMech'], rich=False)
            rx['species'][rx['reactants'][0]] = dict(copy.deepcopy(sm), name=rx['reactants'][0])
            D.append({'cls': 'Reaction', 'obj': rx, 'cycles': 1, 'conds': g_conds(r4)[:2]})
            rs = g_reactions(r4, 'Reactions')
            while rs['mixed']:
                rs = g_reactions(r4, 'Reactions')
            nm = rs['reactions'][0]['reactants'][0]
            rs['species'][nm] = dict(copy.deepcopy(sm), name=nm)
            D.append({'cls': 'Reactions', 'obj': rs, 'cycles': 1, 'conds': g_conds(r4)[:2]})
    return D


# =====================================================================================
# factory
# =====================================================================================
def _build_species(node):
    t = node['type']
    if t == 'StatMech':
        refs = build(node['references']) if node.get('references') else None
        misc = [build(m) for m in node['misc_models']] if node.get('misc_models') is not None else None
        clean = dict(node)
        slots = ('trans', 'vib', 'rot', 'elec', 'nucl')
        for k in slots:
            if isinstance(clean.get(k), dict):
                clean[k] = {a: v for a, v in clean[k].items() if a != 'reassign'}
        sm = S.build_statmech(clean, references=refs, misc_models=misc)
        for k in slots:
            if isinstance(node.get(k), dict):
                _apply_reassign(getattr(sm, k + '_model'), node[k])
        return sm
    extra = {}
    if node.get('model'):
        extra['model'] = build(node['model'])
    if node.get('misc_models') is not None:
        extra['misc_models'] = [build(m) for m in node['misc_models']]
    if node.get('cat_site'):
        extra['cat_site'] = build(node['cat_site'])
    if 'n_sites' in node:
        extra['n_sites'] = node['n_sites']          # passed even when None (S.build drops None)
    if node.get('add_gas_P_adj') is False:
        extra['add_gas_P_adj'] = False
    if t == 'Nasa9' and node.get('a_as'):
        # intervals whose constructor receives the coefficients as list / tuple (S.build uses ndarray)
        from pmutt.empirical.nasa import Nasa9, SingleNasa9
        common = {}
        for k in ('phase', 'elements', 'notes', 'smiles'):
            if node.get(k) is not None:
                common[k] = copy.deepcopy(node[k])
        common.update(extra)
        nasas = [SingleNasa9(T_low=n['T_low'], T_high=n['T_high'], a=_conv(node['a_as'], n['a']))
                 for n in node['nasas']]
        return Nasa9(name=node['name'], nasas=nasas, **common)
    return S.build(node, **extra)


def _build_reaction(node, pool_objs=None):
    from pmutt.reaction import Reaction, ChemkinReaction
    from pmutt.omkm.reaction import SurfaceReaction
    if pool_objs is None:
        pool_objs = {nm: build(sp) for nm, sp in node['species'].items()}
        if node.get('nameless'):
            for o in pool_objs.values():
                o.name = None
    if node.get('bep'):
        pool_objs = dict(pool_objs)
        pool_objs['@bep'] = build(node['bep'])
    kw = dict(reactants=[pool_objs[n] for n in node['reactants']],
              reactants_stoich=list(node['reactants_stoich']),
              products=[pool_objs[n] for n in node['products']],
              products_stoich=list(node['products_stoich']),
              transition_state=([pool_objs[n] for n in node['transition_state']]
                                if node['transition_state'] else None),
              transition_state_stoich=(list(node['transition_state_stoich'])
                                       if node['transition_state_stoich'] else None),
              notes=copy.deepcopy(node.get('notes')))
    t = node['type']
    if t == 'Reaction':
        return _apply_reassign(Reaction(**kw), node)
    if t == 'ChemkinReaction':
        return _apply_reassign(ChemkinReaction(beta=node['beta'], is_adsorption=node['is_adsorption'],
                                               sticking_coeff=node['sticking_coeff'], **kw), node)
    return _apply_reassign(SurfaceReaction(id=node['id'], is_adsorption=node['is_adsorption'], A=node['A'], beta=node['beta'],
                           Ea=node['Ea'], sticking_coeff=node['sticking_coeff'], direction=node['direction'],
                           use_motz_wise=node['use_motz_wise'], **kw), node)


def build(node):
    """real object of a spec node, with the node's re-assignments applied to the live object"""
    return _apply_reassign(_build0(node), node)


def _build0(node):
    import numpy as np
    if node is None or isinstance(node, (int, float)):
        return node
    t = node['type']
    if t in MODE_CLASSES:
        m = {k: copy.deepcopy(v) for k, v in node.items() if k != 'reassign'}
        return S.build_mode(m)
    if t in ('StatMech', 'Nasa', 'Nasa9', 'Shomate'):
        return _build_species(node)
    if t == 'SingleNasa9':
        from pmutt.empirical.nasa import SingleNasa9
        return SingleNasa9(T_low=node['T_low'], T_high=node['T_high'], a=_conv(node.get('a_as') or 'ndarray', node['a']))
    if t == 'Reference':
        from pmutt.empirical.references import Reference
        return Reference(name=node['name'], phase=node['phase'], elements=dict(node['elements']),
                         T_ref=node['T_ref'], HoRT_ref=node['HoRT_ref'], model=build(node['model']),
                         notes=copy.deepcopy(node.get('notes')), smiles=node.get('smiles'))
    if t == 'References':
        from pmutt.empirical.references import References
        if node['references'] is None:
            return References(offset=dict(node['offset']), descriptor=node['descriptor'], T_ref=node['T_ref'])
        refs = References(offset=dict(node['offset']) if node.get('offset') else None,
                          references=[build(r) for r in node['references']], descriptor=node['descriptor'],
                          T_ref=node['T_ref'])
        if node.get('cleared'):
            refs.clear_offset()
        for op in node.get('history') or []:
            if op[0] == 'append':
                refs.append(build(op[1]))
            elif op[0] == 'pop':
                refs.pop(op[1])
            elif op[0] == 'refit':
                refs.fit_HoRT_offset()
            else:
                refs.clear_offset()
        return refs
    if t == 'GasPressureAdj':
        from pmutt.empirical import GasPressureAdj
        return GasPressureAdj()
    if t == 'PiecewiseCovEffect':
        from pmutt.mixture.cov import PiecewiseCovEffect
        cov = PiecewiseCovEffect(name_i=node['name_i'], name_j=node['name_j'], intervals=list(node['intervals']),
                                 slopes=list(node['slopes']), name=node['name'])
        for op in node.get('history') or []:
            if op[0] == 'insert':
                cov.insert(op[1], op[2])
            else:
                cov.pop(op[1])
        return cov
    if t == 'CatSite':
        from pmutt.chemkin import CatSite
        return CatSite(name=node['name'], site_density=node['site_density'], density=node['density'],
                       bulk_specie=node['bulk_specie'])
    if t in ('BEP', 'omkm.BEP'):
        kw = dict(slope=node['slope'], intercept=node['intercept'], name=node['name'],
                  descriptor=node['descriptor'],
                  elements=dict(node['elements']) if node.get('elements') else None,
                  notes=copy.deepcopy(node.get('notes')))
        if t == 'BEP':
            from pmutt.reaction.bep import BEP
            return BEP(**kw)
        from pmutt.omkm.reaction import BEP as OBEP
        return OBEP(direction=node.get('direction'), **kw)
    if t == 'LSR':
        from pmutt.statmech.lsr import LSR
        return LSR(slope=node['slope'], intercept=node['intercept'], reaction=build(node['reaction']),
                   surf_species=build(node['surf_species']), gas_species=build(node['gas_species']),
                   notes=copy.deepcopy(node.get('notes')))
    if t in ('Reaction', 'ChemkinReaction', 'SurfaceReaction'):
        return _build_reaction(node)
    if t in ('Reactions', 'PhaseDiagram'):
        pool_objs = {nm: build(sp) for nm, sp in node['species'].items()}
        if node.get('shared_bep'):
            pool_objs['@shared_bep'] = build(node['shared_bep'])
        rxns = [_build_reaction(r, pool_objs) for r in node['reactions']]
        if t == 'Reactions':
            from pmutt.reaction import Reactions
            return Reactions(reactions=rxns)
        from pmutt.reaction.phasediagram import PhaseDiagram
        nf = node.get('norm_factors')
        if nf is not None:
            nf = np.array(nf, dtype=float) if node.get('norm_as_array') else list(nf)
        return PhaseDiagram(reactions=rxns, norm_factors=nf)
    if t == 'IdealGasEOS':
        from pmutt.eos import IdealGasEOS
        return IdealGasEOS()
    if t == 'vanDerWaalsEOS':
        from pmutt.eos import vanDerWaalsEOS
        return vanDerWaalsEOS(a=node['a'], b=node['b'])
    raise core.HarnessError('unknown node type %r' % t)


# =====================================================================================
# probes
# =====================================================================================
_P = {'ctx': None}


def _class_table():
    from pmutt.statmech import StatMech, EmptyMode, ConstantMode, trans, vib, rot, elec, nucl, lsr
    from pmutt.empirical import GasPressureAdj
    from pmutt.empirical.nasa import Nasa, Nasa9, SingleNasa9
    from pmutt.empirical.shomate import Shomate
    from pmutt.empirical.references import Reference, References
    from pmutt.mixture.cov import PiecewiseCovEffect
    from pmutt.chemkin import CatSite
    from pmutt.reaction import Reaction, ChemkinReaction, Reactions
    from pmutt.reaction.bep import BEP
    from pmutt.reaction.phasediagram import PhaseDiagram
    from pmutt.omkm.reaction import SurfaceReaction, BEP as OBEP
    from pmutt.eos import IdealGasEOS, vanDerWaalsEOS
    return {'EmptyMode': EmptyMode, 'ConstantMode': ConstantMode, 'FreeTrans': trans.FreeTrans,
            'HarmonicVib': vib.HarmonicVib, 'QRRHOVib': vib.QRRHOVib, 'EinsteinVib': vib.EinsteinVib,
            'DebyeVib': vib.DebyeVib, 'RigidRotor': rot.RigidRotor, 'GroundStateElec': elec.GroundStateElec,
            'EmptyNucl': nucl.EmptyNucl, 'StatMech': StatMech, 'LSR': lsr.LSR, 'GasPressureAdj': GasPressureAdj,
            'Nasa': Nasa, 'Nasa9': Nasa9, 'SingleNasa9': SingleNasa9, 'Shomate': Shomate,
            'Reference': Reference, 'References': References, 'PiecewiseCovEffect': PiecewiseCovEffect,
            'CatSite': CatSite, 'BEP': BEP, 'omkm.BEP': OBEP, 'Reaction': Reaction,
            'ChemkinReaction': ChemkinReaction, 'SurfaceReaction': SurfaceReaction, 'Reactions': Reactions,
            'PhaseDiagram': PhaseDiagram, 'IdealGasEOS': IdealGasEOS, 'vanDerWaalsEOS': vanDerWaalsEOS}


def _on_to_dict(label, loc):
    ctx = _P['ctx']
    o = loc.get('self')
    if ctx is not None and o is not None:
        ctx.branch('to_dict:' + cname(o))


def _on_from_dict(label, loc):
    ctx = _P['ctx']
    c = loc.get('cls')
    if ctx is not None and c is not None:
        ctx.branch('from_dict:' + cname(c))


def install_probes(pr, ctx):
    _P['ctx'] = ctx

    def js():
        from pmutt.io import json as j
        return j
    pr.watch(lambda: js().pmuttEncoder.default, 'pmuttEncoder.default')
    pr.watch(lambda: js().json_to_pmutt, 'json_to_pmutt')
    pr.watch(lambda: js().type_to_class, 'type_to_class')
    pr.watch(lambda: js().remove_class, 'remove_class')
    try:
        table = _class_table()
    except Exception:
        table = {}
    seen = set()
    for name, cls in table.items():
        for meth, cb in (('to_dict', _on_to_dict), ('from_dict', _on_from_dict)):
            definer = None
            for k in cls.__mro__:
                if meth in vars(k):
                    definer = k
                    break
            if definer is None or (definer, meth) in seen:
                continue
            seen.add((definer, meth))
            pr.watch(lambda d=definer, m=meth: vars(d)[m], '%s.%s' % (cname(definer), meth), on_call=cb)


# =====================================================================================
# comparison machinery
# =====================================================================================
IGNORE = {('omkm.BEP', 'synthesis_reactions'), ('omkm.BEP', 'cleavage_reactions'), ('SurfaceReaction', 'bep')}
MISSING = '<missing>'


def is_pm(o):
    return hasattr(o, 'to_dict') and type(o).__module__.startswith('pmutt') and not inspect.isclass(o)


def cname(o):
    cls = o if inspect.isclass(o) else type(o)
    if cls.__name__ == 'BEP' and cls.__module__.startswith('pmutt.omkm'):
        return 'omkm.BEP'
    return cls.__name__


def attrs_of(o):
    out = {}
    cls = type(o)
    for k, v in vars(o).items():
        name = k
        if k.startswith('_') and not k.startswith('__') and isinstance(getattr(cls, k[1:], None), property):
            name = k[1:]
        out[name] = v
    return out


def _plain(v):
    import numpy as np
    if isinstance(v, np.generic):
        return v.item()
    return v


def _num(v):
    return isinstance(v, (int, float)) and not isinstance(v, bool)


def leaf_equal(a, b, tol=TOL):
    a, b = _plain(a), _plain(b)
    if isinstance(a, bool) or isinstance(b, bool):
        return isinstance(a, bool) and isinstance(b, bool) and a == b
    if _num(a) and _num(b):
        if a != a and b != b:
            return True
        if a == b:
            return True
        try:
            return abs(a - b) <= tol * max(1.0, abs(a), abs(b))
        except OverflowError:
            return False
    if a is None or b is None:
        return a is b
    if type(a) is not type(b) and not (isinstance(a, str) and isinstance(b, str)):
        return False
    try:
        return bool(a == b)
    except Exception:
        return False


class Cmp:
    """One comparison of an original tree with a decoded tree."""

    def __init__(self, ctx, conds, probe_reaction=None, extra_mech=None):
        self.ctx = ctx
        self.conds = conds
        self.probe_reaction = probe_reaction
        self.extra_mech = extra_mech or {}
        self.active = set()
        self.depth_max = 0
        self.class_mismatch = False
        self.dirty = False
        self.rxn_stack = []

    def mech(self, **kw):
        m = dict(kw)
        m.update(self.extra_mech)
        return m

    # ---- values ------------------------------------------------------------------------
    def value(self, a, b, st, depth):
        """True when equal; nested pMuTT objects are compared (and reported) on their own and
        only mark the parent dirty."""
        import numpy as np
        if is_pm(a):
            st['child_dirty'] |= self.obj(a, b, depth + 1)
            return True
        if is_pm(b):
            return False
        if isinstance(a, np.ndarray) or isinstance(b, np.ndarray):
            # 0-d (object) arrays are not a list-like spelling of anything
            if getattr(a, 'ndim', 1) == 0 or getattr(b, 'ndim', 1) == 0:
                return isinstance(a, np.ndarray) and isinstance(b, np.ndarray) and a.ndim == b.ndim \
                    and self.value(a.tolist(), b.tolist(), st, depth)
            if type(a) is not type(b) and st.get('ctx') is not None:
                ex = st['ctx'].extra.setdefault('container_type_changed', {})
                k = '%s:%s->%s' % (st.get('where'), type(a).__name__, type(b).__name__)
                ex[k] = ex.get(k, 0) + 1
            if isinstance(a, np.ndarray):
                a = a.tolist()
            if isinstance(b, np.ndarray):
                b = b.tolist()
        if isinstance(a, tuple):
            a = list(a)
        if isinstance(b, tuple):
            b = list(b)
        if isinstance(a, list):
            if not isinstance(b, list) or len(a) != len(b):
                return False
            ok = True
            for x, y in zip(a, b):
                ok &= self.value(x, y, st, depth)
            return ok
        if isinstance(a, dict):
            if not isinstance(b, dict) or set(map(str, a)) != set(map(str, b)):
                return False
            bs = {str(k): v for k, v in b.items()}
            ok = True
            for k, x in a.items():
                ok &= self.value(x, bs[str(k)], st, depth)
            return ok
        if isinstance(b, (list, dict)):
            return False
        return leaf_equal(a, b)

    # ---- objects -----------------------------------------------------------------------
    def obj(self, a, b, depth=0):
        """Compare original a with decoded b; returns True when anything below differs."""
        ctx = self.ctx
        cn = cname(a)
        self.depth_max = max(self.depth_max, depth)
        if id(a) in self.active:
            return False
        if type(b) is not type(a):
            got = cname(b) if is_pm(b) else type(b).__name__
            self.class_mismatch = True
            ctx.fail('J2', self.mech(**{'class': cn, 'step': 'same_class', 'got': got}),
                     decoded=_short(b))
            if isinstance(b, dict):
                # The registry does not know the class.  The input already violates the property;
                # to keep every further loss of this class visible (and individually listable) go
                # on with what the class's own from_dict makes of the dictionary, marked via=from_dict
                try:
                    b2 = type(a).from_dict(dict(b))
                except Exception as e:          # noqa
                    ctx.fail('J2', self.mech(**{'class': cn, 'step': 'decode', 'via': 'from_dict',
                                                'exc': type(e).__name__, 'at': _at(e, 'from_dict')}),
                             message=str(e)[:300])
                    return True
                if type(b2) is type(a):
                    # only this object's own attributes / getters carry the mark; its children were
                    # decoded by the object hook in the ordinary way
                    self._same(a, b2, cn, depth, {'via': 'from_dict'})
            return True
        ctx.held('J2')
        return self._same(a, b, cn, depth, {})

    def _same(self, a, b, cn, depth, tag):
        ctx = self.ctx
        self.active.add(id(a))
        is_rxn = hasattr(a, 'reactants_stoich')
        if is_rxn:
            self.rxn_stack.append(a)
        try:
            own_dirty = child_dirty = False
            A, B = attrs_of(a), attrs_of(b)
            for name in sorted(set(A) | set(B)):
                if (cn, name) in IGNORE:
                    continue
                st = {'child_dirty': False, 'where': cn + '.' + name, 'ctx': ctx}
                if name not in B:
                    ok, got, want = False, MISSING, A[name]
                elif name not in A:
                    ok, got, want = False, B[name], MISSING
                else:
                    ok = self.value(A[name], B[name], st, depth)
                    got, want = B[name], A[name]
                child_dirty |= st['child_dirty']
                if ok:
                    ctx.held('J4')
                else:
                    own_dirty = True
                    ctx.fail('J4', self.mech(**dict({'class': cn, 'step': 'attr', 'attr': name}, **tag)),
                             got=_short(got), want=_short(want))
            if isinstance(getattr(a, 'nasas', None), list) and isinstance(getattr(b, 'nasas', None), list):
                # the ORDER of the interval list is part of the object (list order decides which
                # interval answers on a shared bound)
                oa = [[float(n.T_low), float(n.T_high)] for n in a.nasas]
                try:
                    ob = [[float(n.T_low), float(n.T_high)] for n in b.nasas]
                except Exception:                  # noqa: members are not intervals (reported above)
                    ob = None
                if ob is not None and sorted(oa) == sorted(ob):
                    if not ctx.check('J4', oa == ob, self.mech(**dict({'class': cn, 'step': 'attr', 'attr': 'nasas',
                                                                    'what': 'order'}, **tag)), got=ob, want=oa):
                        own_dirty = True
            if own_dirty or child_dirty:
                ex = ctx.extra.setdefault('getters_shadowed', {})
                ex[cn] = ex.get(cn, 0) + 1
                if own_dirty and not child_dirty:
                    self.getters(a, b, cn, tag, telemetry=True)
            else:
                own_dirty |= self.getters(a, b, cn, tag)
            return own_dirty or child_dirty
        finally:
            self.active.discard(id(a))
            if is_rxn:
                self.rxn_stack.pop()

    # ---- getters -----------------------------------------------------------------------
    def getters(self, a, b, cn, tag, telemetry=False):
        ctx = self.ctx
        dirty = False
        has_ts = getattr(a, 'transition_state', None) is not None
        conds = list(self.conds) + _boundary_conds(a, self.conds[0], ctx if not telemetry else None)
        for name, plan in _getter_plans(type(a)):
            for cond in conds:
                # BEP getters take the reaction they belong to as an argument: the enclosing
                # ORIGINAL reaction (or the probe reaction of a stand-alone BEP) for both sides
                rxn_arg = self.rxn_stack[-1] if (self.rxn_stack and self.rxn_stack[-1] is not a) \
                    else self.probe_reaction
                kw = _plan_kwargs(name, plan, cond, has_ts, rxn_arg)
                if kw is None:
                    ex = ctx.extra.setdefault('getter_unplanned', {})
                    ex[cn + '.' + name] = ex.get(cn + '.' + name, 0) + 1
                    break
                try:
                    va = getattr(a, name)(**kw)
                except Exception as e:      # noqa: not comparable
                    ex = ctx.extra.setdefault('getter_skipped_original_raises', {})
                    ex[cn + '.' + name] = ex.get(cn + '.' + name, 0) + 1
                    continue
                m = self.mech(**dict({'class': cn, 'step': 'getter', 'getter': name}, **tag))
                try:
                    vb = getattr(b, name)(**kw)
                except Exception as e:      # noqa
                    if telemetry:
                        _tele(ctx, cn, name)
                    else:
                        dirty = True
                        ctx.fail('J3', dict(m, exc=type(e).__name__), message=str(e)[:200], kwargs=_short(kw))
                    continue
                sa, fa = _flatten(va)
                sb, fb = _flatten(vb)
                fa, fb = _nan_pair(fa, fb)
                if telemetry:
                    if sa != sb or ctx.err(fb, fa) > TOL:
                        _tele(ctx, cn, name)
                    continue
                if sa != sb:
                    dirty = True
                    ctx.fail('J3', dict(m, what='shape'), got=_short(vb), want=_short(va), kwargs=_short(kw))
                    continue
                e = ctx.err(fb, fa)
                if e <= TOL:
                    if e > ctx.max_err.get('J3', 0.0):
                        ctx.max_err['J3'] = e
                    ctx.held('J3')
                else:
                    dirty = True
                    ctx.fail('J3', m, got=fb, want=fa, err=e, tol=TOL, kwargs=_short(kw))
        return dirty


def _boundary_conds(a, base, ctx):
    """Extra evaluation conditions that sit EXACTLY on the object's own break points: every
    temperature bound of an empirical species (T_low / T_mid / T_high, every interval bound of a
    Nasa9) and every coverage breakpoint of a piecewise model plus one coverage above the last."""
    out = []
    Ts = []
    try:
        nasas = getattr(a, 'nasas', None)
        if isinstance(nasas, list):
            bounds = [float(b) for n in nasas for b in (n.T_low, n.T_high)]
            lo, hi = min(bounds), max(bounds)
            Ts = [(t, 'outer' if t in (lo, hi) else 'interior') for t in bounds]
        else:
            v = vars(a)
            for k, tag in (('T_low', 'outer'), ('T_mid', 'interior'), ('T_high', 'outer')):
                if _num(_plain(v.get(k))):
                    Ts.append((float(v[k]), tag))
    except Exception:                              # noqa: odd object, no boundary conditions
        Ts = []
    seen = set()
    for t, tag in Ts:
        if t in seen or len(seen) >= 7:
            continue
        seen.add(t)
        c = dict(base)
        c.pop('T_arr', None)
        c['T'] = t
        out.append(c)
        if ctx is not None:
            ctx.cls('T:on_%s_bound' % tag)
    iv = vars(a).get('intervals') if hasattr(a, '__dict__') else None
    if isinstance(iv, list) and iv and all(_num(_plain(x)) for x in iv):
        xs = []
        for x in iv:
            if float(x) not in xs:
                xs.append(float(x))
        xs = xs[:6]
        for x in xs:
            out.append(dict(base, x=x))
            if ctx is not None:
                ctx.cls('x:on_breakpoint')
        out.append(dict(base, x=float(max(iv)) + 0.05))
        if ctx is not None:
            ctx.cls('x:above_last_breakpoint')
    return out


def _tele(ctx, cn, name):
    ex = ctx.extra.setdefault('getter_differs_when_attr_dropped', {})
    ex[cn + '.' + name] = ex.get(cn + '.' + name, 0) + 1


def _short(v, depth=0):
    """compact, JSON-safe description for details"""
    if type(v).__name__ == 'ndarray':
        return {'ndarray_shape': list(v.shape), 'dtype': str(v.dtype), 'value': _short(v.tolist(), depth + 1)}
    if is_pm(v):
        return '<%s>' % cname(v)
    if isinstance(v, dict):
        if depth > 2:
            return '{...}'
        return {str(k): _short(x, depth + 1) for k, x in list(v.items())[:12]}
    if isinstance(v, (list, tuple)):
        if depth > 2:
            return '[...]'
        return [_short(x, depth + 1) for x in list(v)[:12]]
    return core.jsonable(v)


_PLANS = {}
_ENTROPY_TOKENS = {'Cv', 'Cp', 'S'}


def _getter_plans(cls):
    if cls in _PLANS:
        return _PLANS[cls]
    out = []
    for name in sorted(dir(cls)):
        if not name.startswith('get_'):
            continue
        fn = getattr(cls, name, None)
        if not callable(fn):
            continue
        try:
            sig = inspect.signature(fn)
        except (TypeError, ValueError):
            continue
        params = []
        for p in list(sig.parameters.values())[1:]:
            kind = 'kw' if p.kind is p.VAR_KEYWORD else ('var' if p.kind is p.VAR_POSITIONAL else 'p')
            params.append((p.name, kind, p.default is not p.empty))
        out.append((name, params))
    _PLANS[cls] = out
    return out


def _plan_kwargs(name, params, cond, has_ts, probe_reaction):
    toks = set(name.split('_'))
    units = 'J/mol/K' if toks & _ENTROPY_TOKENS else 'kJ/mol'
    state = cond['state'] if (has_ts or cond['state'] != 'ts') else 'reactants'
    Ts = [cond['T'], round(cond['T'] * 1.1, 3), 298.15]
    pool = {'T': cond['T'], 'P': cond['P'], 'V': cond['V'], 'n': cond['n'], 'x': cond['x'],
            'rev': cond['rev'], 'act': bool(cond['act'] and has_ts), 'state': state,
            'initial_state': 'reactants', 'final_state': 'products', 'method_name': cond['method_name'],
            'include_ZPE': cond['include_ZPE'], 'descriptors': dict(cond['descriptors']),
            'x_name': 'T', 'x_values': Ts, 'x1_name': 'T', 'x1_values': Ts[:2], 'x2_name': 'P',
            'x2_values': [cond['P'], 1.0]}
    if probe_reaction is not None:
        pool['reaction'] = probe_reaction
    if cond.get('T_arr'):
        import numpy as np
        pool['T'] = np.array(cond['T_arr'], dtype=float)
    kw = {}
    names = {p[0] for p in params}
    for pname, kind, has_default in params:
        if kind == 'kw':
            for k in ('T', 'P', 'x'):
                if k not in names:
                    kw[k] = pool[k]
        elif kind == 'var':
            continue
        elif pname == 'units':
            if not has_default:
                kw['units'] = units
        elif pname in pool:
            kw[pname] = pool[pname]
        elif not has_default:
            return None
    return kw


def _flatten(v):
    """(structure signature, flat list of floats) of a getter's return value"""
    import numpy as np
    flat = []

    def rec(x):
        x = _plain(x)
        if is_pm(x):
            return 'obj:' + cname(x)
        if isinstance(x, np.ndarray):
            x = x.tolist()
        if isinstance(x, (list, tuple)):
            return [rec(y) for y in x]
        if isinstance(x, dict):
            return {str(k): rec(y) for k, y in sorted(x.items(), key=lambda t: str(t[0]))}
        if isinstance(x, bool) or x is None or isinstance(x, str):
            return repr(x)
        if _num(x):
            flat.append(float(x))
            return '#'
        if isinstance(x, complex):
            flat.extend([x.real, x.imag])
            return '#c'
        return 'other:' + type(x).__name__
    sig = json.dumps(rec(v), sort_keys=True, default=str)
    return sig, flat


def _nan_pair(fa, fb):
    """equal NaNs count as equal"""
    a, b = list(fa), list(fb)
    for i in range(min(len(a), len(b))):
        if a[i] != a[i] and b[i] != b[i]:
            a[i] = b[i] = 0.0
    return a, b


# ---- strict structural form (J5) --------------------------------------------------------
def canon_obj(v, seen=None):
    import numpy as np
    seen = set() if seen is None else seen
    v = _plain(v)
    if is_pm(v):
        if id(v) in seen:
            return {'__ref__': cname(v)}
        seen.add(id(v))
        d = {'__class__': cname(v)}
        for k, x in attrs_of(v).items():
            if (d['__class__'], k) in IGNORE:
                continue
            d[k] = canon_obj(x, seen)
        seen.discard(id(v))
        return d
    if isinstance(v, np.ndarray):
        return {'__nd__': canon_obj(v.tolist(), seen)}
    if isinstance(v, tuple):
        return {'__tuple__': [canon_obj(x, seen) for x in v]}
    if isinstance(v, list):
        return [canon_obj(x, seen) for x in v]
    if isinstance(v, dict):
        return {str(k): canon_obj(x, seen) for k, x in v.items()}
    if isinstance(v, float) and v != v:
        return 'nan'
    if isinstance(v, (int, float, str, bool)) or v is None:
        return v
    return 'other:%s' % type(v).__name__


def canon_diff(a, b, owner, attr, out):
    """collect (owner class, attribute) of every difference between two canonical forms"""
    if isinstance(a, dict) and isinstance(b, dict):
        if '__class__' in a or '__class__' in b:
            if a.get('__class__') != b.get('__class__'):
                out.add((owner, attr))
                return
            owner = a['__class__']
            for k in set(a) | set(b):
                if k == '__class__':
                    continue
                if k not in a or k not in b:
                    out.add((owner, k))
                else:
                    canon_diff(a[k], b[k], owner, k, out)
            return
        if set(a) != set(b):
            out.add((owner, attr))
            return
        for k in a:
            canon_diff(a[k], b[k], owner, attr, out)
        return
    if isinstance(a, list) and isinstance(b, list):
        if len(a) != len(b):
            out.add((owner, attr))
            return
        for x, y in zip(a, b):
            canon_diff(x, y, owner, attr, out)
        return
    if type(a) is not type(b) and not (_num(a) and _num(b)):
        out.add((owner, attr))
        return
    if a != b:
        out.add((owner, attr))


def _json_owner(d, default):
    c = d.get('class')
    if isinstance(c, str) and "'" in c:
        full = c.split("'")[1]
        short = full.rsplit('.', 1)[-1]
        if short == 'BEP' and full.startswith('pmutt.omkm'):
            return 'omkm.BEP'
        return short
    return default


def json_changes(before, after, out, owner):
    """Which dictionaries of a JSON document were altered in place: owner class -> {what}.
    `before` is the pristine deep copy, `after` the (same shaped) document after decoding."""
    own = _json_owner(before, owner)
    removed = sorted(k for k in before if k not in after)
    added = sorted(str(k) for k in after if k not in before)
    if removed:
        out.setdefault(own, set()).add('removed:' + ','.join(removed))
    if added:
        out.setdefault(own, set()).add('added:' + ','.join(added))
    for k in before:
        if k in after:
            _json_child(before[k], after[k], out, own, k)


def _json_child(bv, av, out, own, key):
    if isinstance(bv, dict):
        if not isinstance(av, dict):
            out.setdefault(own, set()).add('changed:' + key)
        else:
            json_changes(bv, av, out, own)
    elif isinstance(bv, list):
        if not isinstance(av, list) or len(av) != len(bv):
            out.setdefault(own, set()).add('changed:' + key)
        else:
            for x, y in zip(bv, av):
                _json_child(x, y, out, own, key)
    elif type(bv) is not type(av) or bv != av:
        out.setdefault(own, set()).add('changed:' + key)


# ---- who is responsible for an exception ---------------------------------------------------
def _responsible(e, method, fallback):
    """class of the innermost to_dict / from_dict frame on the exception's traceback (the encoder
    swallows AttributeError and raises TypeError instead: follow __context__)"""
    who = None
    seen = 0
    while e is not None and seen < 4:
        tb = e.__traceback__
        found = None
        while tb is not None:
            fr = tb.tb_frame
            if fr.f_code.co_name == method:
                o = fr.f_locals.get('self' if method == 'to_dict' else 'cls')
                if o is not None and (inspect.isclass(o) or is_pm(o)):
                    found = cname(o)
            tb = tb.tb_next
        if found:
            who = found
        e = e.__context__
        seen += 1
    return who or fallback


def _at(e, method):
    """Coarse, stable location of a failure: the pMuTT function that the innermost to_dict /
    from_dict called (or that method itself when it failed in its own body)."""
    import traceback
    seen = 0
    fallback = ''
    while e is not None and seen < 4:
        frames = [fr for fr in traceback.extract_tb(e.__traceback__) if '/pmutt/' in fr.filename]
        idx = [i for i, fr in enumerate(frames) if fr.name == method]
        if idx:
            i = idx[-1]
            return frames[i + 1].name if i + 1 < len(frames) else method
        if frames and not fallback:
            fallback = frames[-1].name
        e = e.__context__
        seen += 1
    return fallback


def _unserialisable(o, owner, key, depth=0):
    """first value of o's dictionary form that json cannot encode -> (owner class, key)"""
    if depth > 12:
        return None
    if is_pm(o):
        try:
            d = o.to_dict()
        except Exception:
            return None
        return _unserialisable(d, cname(o), key, depth + 1)
    if isinstance(o, dict):
        for k, v in o.items():
            r = _unserialisable(v, owner, k, depth + 1)
            if r:
                return r
        return None
    if isinstance(o, (list, tuple)):
        for v in o:
            r = _unserialisable(v, owner, key, depth + 1)
            if r:
                return r
        return None
    if o is None or isinstance(o, (str, int, float, bool)):
        return None
    return (owner, key)


# =====================================================================================
# driver
# =====================================================================================
def _walk_nodes(node, depth=0):
    """yield (node, depth) for every object node of a spec tree"""
    if not isinstance(node, dict) or not isinstance(node.get('type'), str):
        return
    yield node, depth
    for k, v in node.items():
        if k in ('probe_reaction', 'notes', 'reassign', 'elements'):
            continue                    # user data (may itself carry a 'type' key), not object nodes
        if isinstance(v, dict) and 'type' in v:
            yield from _walk_nodes(v, depth + 1)
        elif isinstance(v, dict) and k == 'species':
            for sp in v.values():
                yield from _walk_nodes(sp, depth + 1)
        elif isinstance(v, list):
            for x in v:
                if isinstance(x, dict) and 'type' in x:
                    yield from _walk_nodes(x, depth + 1)
        elif k in ('trans', 'vib', 'rot', 'elec', 'nucl') and isinstance(v, dict):
            yield from _walk_nodes(v, depth + 1)


def _classify(spec, ctx):
    top = spec['obj']
    ctx.cls('top:' + spec['cls'], 'cycles:%d' % spec['cycles'])
    nested = 0
    maxdepth = 0
    nondefault = False
    for node, depth in _walk_nodes(top):
        t = node['type']
        maxdepth = max(maxdepth, depth)
        if depth:
            nested += 1
        if t == 'StatMech':
            if node.get('references'):
                ctx.cls('StatMech:references')
            if node.get('misc_models'):
                ctx.cls('StatMech:misc_models')
            if node.get('elements'):
                ctx.cls('StatMech:elements')
            if node.get('plain'):
                ctx.cls('StatMech:plain')
        if t in ('SingleNasa9', 'Nasa9') and node.get('a_as') in ('list', 'tuple'):
            ctx.cls('%s:ctor_a_%s' % (t, node['a_as']))
        cand = [node.get('notes')] + [v for a, c, v in node.get('reassign') or [] if a == 'notes']
        for nt in cand:
            if isinstance(nt, dict) and nt.get('source') == 'Burcat':
                bk = _bookkeeping_values()
                for k in BOOKKEEPING_KEYS:
                    if k in nt:
                        v = nt[k]
                        pool = bk.get(k) or []
                        if k == '_id':
                            ctx.cls('notes:_id=any')
                        elif isinstance(v, str) and v in pool:
                            ctx.cls('notes:%s=lib' % k)
                        elif isinstance(v, str) and v.strip().lower() in [x.lower() for x in pool]:
                            ctx.cls('notes:%s=case' % k)
                        else:
                            ctx.cls('notes:%s=other' % k)
        for a_, c_, _v in node.get('reassign') or []:
            ctx.cls('reassign:%s.%s:%s' % (t, a_, c_))
            if depth and t in MODE_CLASSES:
                ctx.cls('reassign:nested_in_StatMech')
            if depth and spec['cls'] in ('Reaction', 'ChemkinReaction', 'SurfaceReaction', 'Reactions', 'PhaseDiagram'):
                ctx.cls('reassign:nested_in_reaction')
        if t == 'GroundStateElec' and node.get('D0') is not None:
            ctx.cls('GroundStateElec:D0')
        if t == 'StatMech' and node.get('references') and node['references'].get('cleared'):
            ctx.cls('StatMech:references_cleared_offset')
        if t == 'References' and node.get('cleared'):
            ctx.cls('References:cleared_offset')
        if t == 'Nasa9' and len(node['nasas']) > 1:
            lows = [n['T_low'] for n in node['nasas']]
            if lows == sorted(lows, reverse=True):
                ctx.cls('Nasa9:descending_intervals', 'Nasa9:unsorted_intervals')
            elif lows != sorted(lows):
                ctx.cls('Nasa9:unsorted_intervals')
        if t in ('SurfaceReaction', 'ChemkinReaction'):
            kind = 'adsorption' if node.get('is_adsorption') else 'plain'
            b = node.get('beta')
            if b is None or b in (0.0, 1.0):
                ctx.cls('%s:%s_beta_%s' % (t, kind, 'None' if b is None else int(b)))
            sc = node.get('sticking_coeff')
            if sc is None:
                ctx.cls('%s:%s_sticking_None' % (t, kind))
            elif sc == 0.5:
                ctx.cls('%s:%s_sticking_0.5' % (t, kind))
            if t == 'ChemkinReaction' and kind == 'plain' and sc is not None:
                ctx.cls('ChemkinReaction:plain_sticking_given')
        if t == 'Nasa':
            if node.get('n_sites') == 1 and not node.get('cat_site'):
                ctx.cls('Nasa:n_sites_1_without_cat_site')
            if node.get('cat_site') and 'n_sites' in node and node['n_sites'] is None:
                ctx.cls('Nasa:cat_site_n_sites_None')
        if t in ('Nasa', 'Nasa9', 'Shomate'):
            gas = str(node.get('phase')).lower() in ('g', 'gas')
            if node.get('add_gas_P_adj') is False:
                ctx.cls('gas:add_gas_P_adj_False' if gas else 'nongas:add_gas_P_adj_False')
            if any(isinstance(m, dict) and m.get('type') == 'GasPressureAdj' for m in node.get('misc_models') or []):
                ctx.cls('gas:explicit_GasPressureAdj' if gas else 'nongas:explicit_GasPressureAdj')
        if t == 'PiecewiseCovEffect' and node.get('history'):
            cur = list(node['intervals'])
            for op in node['history']:
                if op[0] == 'insert':
                    ctx.cls('history:cov_insert_above_last' if op[1] >= cur[-1] else 'history:cov_insert_inner')
                    cur = sorted(cur + [op[1]])
                else:
                    ctx.cls('history:cov_pop_last' if op[1] == len(cur) - 1 else 'history:cov_pop_inner')
                    cur.pop(op[1])
        if t == 'References' and node.get('history'):
            for op in node['history']:
                ctx.cls('history:refs_' + op[0])
        if t == 'Nasa9' and 'n_sites' in node:
            ctx.cls('Nasa9:n_sites_None' if node['n_sites'] is None else 'Nasa9:n_sites_int')
        if t == 'Shomate' and node.get('n_sites') is not None:
            ctx.cls('Shomate:n_sites_int')
        if t == 'Nasa' and node.get('n_sites') is not None and not node.get('cat_site'):
            ctx.cls('Nasa:n_sites_without_cat_site')
        if t in ('StatMech', 'Nasa', 'Nasa9', 'Shomate') and node.get('misc_models') == []:
            ctx.cls('misc_models:empty_list')
        if t == 'Reactions' and node.get('bep_links'):
            ctx.cls('BEP:backlinks_' + node['bep_links'])
        if t == 'FreeTrans' and node.get('molecular_weight') is None:
            ctx.cls('FreeTrans:no_molecular_weight')
        if t == 'SurfaceReaction':
            if node.get('use_motz_wise'):
                ctx.cls('SurfaceReaction:use_motz_wise')
            if node.get('beta') is None:
                ctx.cls('SurfaceReaction:beta_None')
            if node.get('sticking_coeff') is None:
                ctx.cls('SurfaceReaction:sticking_None')
        if t == 'Nasa' and node.get('cat_site'):
            ctx.cls('Nasa:cat_site')
        if t == 'Nasa' and node.get('model'):
            ctx.cls('Nasa:model')
        if t in ('Nasa', 'Nasa9', 'Shomate') and node.get('misc_models'):
            ctx.cls('empirical:misc_models')
        if t in ('Reaction', 'ChemkinReaction', 'SurfaceReaction'):
            if node.get('bep'):
                ctx.cls('Reaction:TS_BEP')
            elif node.get('transition_state'):
                ctx.cls('Reaction:TS_species')
            else:
                ctx.cls('Reaction:no_TS')
            if node.get('notes') is not None:
                ctx.cls('Reaction:notes')
            if 'rich' in node:
                ctx.cls('children:rich' if node['rich'] else 'children:plain')
        if t == 'SurfaceReaction':
            if node.get('id') is not None:
                ctx.cls('SurfaceReaction:id')
            if node.get('direction') is not None:
                ctx.cls('SurfaceReaction:direction')
        if t == 'LSR':
            ctx.cls('LSR:floats' if not isinstance(node['reaction'], dict) else 'LSR:objects')
        if t == 'References':
            if node['references'] and node.get('offset'):
                ctx.cls('References:refs_and_offset')
            else:
                ctx.cls('References:fitted' if node['references'] else 'References:offset_only')
        if t == 'PhaseDiagram':
            ctx.cls('PhaseDiagram:norm_factors' if node.get('norm_factors') else 'PhaseDiagram:default_norm')
        if t == 'Reactions' and node.get('mixed'):
            ctx.cls('Reactions:mixed_classes')
        for k in ('notes', 'smiles', 'elements', 'name', 'D0', 'n_sites', 'id', 'direction'):
            if node.get(k) is not None:
                nondefault = True
    if maxdepth >= 3:
        ctx.cls('depth>=3')
    ctx.nontrivial(nested >= 1 or nondefault)


def _surface_rxns(o):
    """SurfaceReactions of a tree that carry a BEP (top-level reaction or members of a set)"""
    try:
        from pmutt.omkm.reaction import SurfaceReaction
    except Exception:
        return []
    if isinstance(o, SurfaceReaction):
        cand = [o]
    else:
        rx = getattr(o, 'reactions', None)
        cand = [r for r in rx if isinstance(r, SurfaceReaction)] if isinstance(rx, list) else []
    return [r for r in cand if getattr(r, 'bep', None) is not None]


def _bep_lengths(o):
    return [(len(r.bep.synthesis_reactions), len(r.bep.cleavage_reactions)) for r in _surface_rxns(o)]


def _check_backlinks(ctx, obj, o1, txt1, lengths_before):
    """The lists an OpenMKM BEP keeps of the reactions that use it are rebuilt by the constructors
    on decode (they are not serialised).  They must describe the decoded tree and nothing else, the
    original tree must be left alone and decoding must be repeatable."""
    from pmutt.io.json import json_to_pmutt
    if not lengths_before and not _surface_rxns(o1):
        return
    rs = _surface_rxns(o1)
    beps = {}
    for r in rs:
        beps.setdefault(id(r.bep), r.bep)
    for B in beps.values():
        for d in ('synthesis', 'cleavage'):
            attr = d + '_reactions'
            want = sorted(id(r) for r in rs if r.bep is B and r.direction == d)
            have = getattr(B, attr, None)
            got = sorted(id(x) for x in have) if isinstance(have, list) else None
            ctx.check('J4', got == want, {'class': 'omkm.BEP', 'step': 'attr', 'attr': attr, 'what': 'backlinks'},
                      listed=None if got is None else len(got), expected=len(want),
                      foreign=None if got is None else len([i for i in got if i not in want]))
    # the original objects are not touched by decoding
    after = _bep_lengths(obj)
    for k, attr in enumerate(('synthesis_reactions', 'cleavage_reactions')):
        ctx.check('J5', [x[k] for x in after] == [x[k] for x in lengths_before],
                  {'class': 'omkm.BEP', 'step': 'attr', 'attr': attr, 'what': 'original_mutated'},
                  before=[x[k] for x in lengths_before], after=[x[k] for x in after])
    # decoding again gives the same picture
    first = _bep_lengths(o1)
    try:
        o2 = json.loads(txt1, object_hook=json_to_pmutt)
    except Exception:                              # noqa: reported by J2 / J5 elsewhere
        return
    second = _bep_lengths(o2)
    for k, attr in enumerate(('synthesis_reactions', 'cleavage_reactions')):
        ctx.check('J5', [x[k] for x in second] == [x[k] for x in first],
                  {'class': 'omkm.BEP', 'step': 'attr', 'attr': attr, 'what': 'not_repeatable'},
                  first=[x[k] for x in first], second=[x[k] for x in second])


def _telemetry_no_p_adj(ctx):
    """gas species built with add_gas_P_adj=False: does the reload attach a GasPressureAdj?"""
    import numpy as np
    from pmutt.empirical.nasa import Nasa
    from pmutt.io.json import pmuttEncoder, json_to_pmutt
    ex = ctx.extra.setdefault('add_gas_P_adj_False', {})
    try:
        n = Nasa(name='x', T_low=100., T_mid=500., T_high=1000., a_low=np.ones(7), a_high=np.ones(7),
                 phase='G', add_gas_P_adj=False)
        m = json.loads(json.dumps(n, cls=pmuttEncoder), object_hook=json_to_pmutt)
        same = len(n.misc_models or []) == len(m.misc_models or [])
        k = 'misc_models_kept' if same else 'pressure_adjustment_attached_on_reload'
    except Exception as e:                         # noqa
        k = 'raises_' + type(e).__name__
    ex[k] = ex.get(k, 0) + 1


def _telemetry_notes_class(ctx):
    """notes = {'class': <an exact registry string>}: by the design of the object hook this nested
    dictionary IS a pMuTT object to the decoder; recorded, no verdict"""
    from pmutt.statmech import ConstantMode
    from pmutt.io.json import pmuttEncoder, json_to_pmutt
    ex = ctx.extra.setdefault('notes_with_registry_class_string', {})
    try:
        o = ConstantMode(U=1.0, notes={'source': 'x', 'class': "<class 'pmutt.eos.IdealGasEOS'>"})
        m = json.loads(json.dumps(o, cls=pmuttEncoder), object_hook=json_to_pmutt)
        k = 'notes_kept_a_dict' if isinstance(getattr(m, 'notes', None), dict) else \
            'notes_became_%s' % type(getattr(m, 'notes', None)).__name__
    except Exception as e:                         # noqa
        k = 'raises_' + type(e).__name__
    ex[k] = ex.get(k, 0) + 1


def _telemetry_reassign(ctx):
    """Assignments outside the documented attribute type (coefficient arrays documented as ndarray
    given as list / tuple, numpy integer scalars): recorded, no verdict (see ASSUMPTIONS)."""
    import numpy as np
    from pmutt.statmech import rot, StatMech
    from pmutt.reaction import Reaction
    from pmutt.io.json import pmuttEncoder, json_to_pmutt
    ex = ctx.extra.setdefault('outside_documented_type', {})

    def p4():
        return rot.RigidRotor(symmetrynumber=np.int64(2), rot_temperatures=[1., 2., 3.], geometry='nonlinear')

    def p5():
        return StatMech(name='a', elements={'H': np.int64(2)})

    def p6():
        return Reaction(reactants=[StatMech(name='a')], reactants_stoich=np.array([1]),
                        products=[StatMech(name='b')], products_stoich=np.array([2]))
    for label, mk in (('RigidRotor.symmetrynumber=np.int64', p4), ('StatMech.elements value np.int64', p5),
                      ('Reaction stoich int ndarray', p6)):
        try:
            o = mk()
            m = json.loads(json.dumps(o, cls=pmuttEncoder), object_hook=json_to_pmutt)
            k = label + ':ok' if type(m) is type(o) else label + ':wrong_class'
        except Exception as e:                     # noqa
            k = '%s:raises_%s' % (label, type(e).__name__)
        ex[k] = ex.get(k, 0) + 1


# ---- decode in a fresh interpreter that has imported nothing but the hook -----------------------
_FRESH = {'batch': [], 'seq': 0}
FRESH_BATCH = 250
_CHILD = r'''
import sys, json
repo, verif, src, dst = sys.argv[1:5]
sys.path.insert(0, verif)
sys.path.insert(0, repo)
import warnings
warnings.simplefilter('ignore')
from pmutt.io.json import json_to_pmutt          # the only pMuTT import a reader of a saved file makes
import pmutt, os
assert os.path.realpath(os.path.dirname(os.path.dirname(pmutt.__file__))) == os.path.realpath(repo), pmutt.__file__
loaded_before = sorted(m for m in sys.modules if m.startswith('pmutt'))
docs = json.load(open(src))
out = []
decoded = []
for d in docs:
    try:
        decoded.append((d, json.loads(d['text'], object_hook=json_to_pmutt), None))
    except Exception as e:
        decoded.append((d, None, e))
from vf.props import c11                          # helpers only (imports no pMuTT module by itself)
import numpy as np
np.seterr(all='ignore')
for d, o, e in decoded:
    if e is not None:
        out.append({'id': d['id'], 'exc': type(e).__name__, 'message': str(e)[:200]})
    else:
        out.append(dict(c11.fresh_eval(o, d['conds']), id=d['id']))
json.dump({'results': out, 'loaded_before_decode': loaded_before}, open(dst, 'w'))
'''


def fresh_eval(o, conds):
    """what is compared between the in-process decode and the fresh-process decode of one text:
    strict structural form + the values of the top object's getters"""
    res = {'canon': canon_obj(o), 'getters': {}}
    if is_pm(o):
        has_ts = getattr(o, 'transition_state', None) is not None
        for name, plan in _getter_plans(type(o)):
            for k, cond in enumerate(conds[:2]):
                kw = _plan_kwargs(name, plan, cond, has_ts, None)
                if kw is None:
                    break
                try:
                    v = getattr(o, name)(**kw)
                except Exception as e:             # noqa
                    res['getters']['%s|%d' % (name, k)] = ['raises:' + type(e).__name__, []]
                    continue
                sig, flat = _flatten(v)
                res['getters']['%s|%d' % (name, k)] = [sig, [repr(x) for x in flat]]
    return res


def _in_worker():
    a = sys.argv
    return len(a) >= 7 and os.path.basename(a[0]) == 'worker.py'


def _last_index_of_shard(tier):
    """index of the last case this shard will run (the runner gives shard / nshards on argv)"""
    try:
        shard, nshards = int(sys.argv[4]), int(sys.argv[5])
        total = len(directed(tier)) + core.n_random(sys.modules[__name__], tier)
        last = total - 1
        while last >= 0 and last % nshards != shard:
            last -= 1
        return last
    except Exception:                              # noqa
        return None


def _fresh_sampled(ctx):
    idx = ctx.case_index or 0
    return (not _in_worker()) or idx < len(TOP_CLASSES) or idx % 12 == 5


def _fresh_queue(ctx, spec, top, txt1, o1):
    _FRESH['seq'] += 1
    _FRESH['batch'].append({'id': _FRESH['seq'], 'text': txt1, 'conds': spec['conds'], 'top': top, 'o1': o1,
                            'spec': spec, 'index': ctx.case_index})


def _fresh_flush_if_due(ctx):
    if not _FRESH['batch']:
        return
    due = (not _in_worker()) or len(_FRESH['batch']) >= FRESH_BATCH
    if not due:
        if '_last' not in _FRESH:
            _FRESH['_last'] = _last_index_of_shard(ctx.tier)
        due = _FRESH['_last'] is None or (ctx.case_index is not None and ctx.case_index >= _FRESH['_last'])
    if due:
        batch, _FRESH['batch'] = _FRESH['batch'], []
        _fresh_run(ctx, batch)


def _fresh_run(ctx, batch):
    import subprocess
    src = os.path.join(ctx.tmpdir, 'fresh_%d.json' % batch[0]['id'])
    dst = src + '.out'
    with open(src, 'w') as f:
        json.dump([{'id': b['id'], 'text': b['text'], 'conds': b['conds']} for b in batch], f)
    env = {k: v for k, v in os.environ.items() if k != 'PYTHONPATH'}
    env.update(MPLBACKEND='Agg', OMP_NUM_THREADS='1', OPENBLAS_NUM_THREADS='1', MKL_NUM_THREADS='1')
    try:
        r = subprocess.run([sys.executable, '-c', _CHILD, core.repo_path(), core.VERIF, src, dst], env=env,
                           capture_output=True, text=True, timeout=900)
        if r.returncode != 0 or not os.path.exists(dst):
            raise RuntimeError('exit %s: %s' % (r.returncode, (r.stderr or '')[-600:]))
        got = {x['id']: x for x in json.load(open(dst))['results']}
    except Exception as e:                         # noqa: the harness failed, not pMuTT
        ctx.inconc('harness', 'fresh_process', error=str(e)[:800])
        return
    keep = (ctx.spec, ctx.case_index)
    try:
        for b in batch:
            ctx.spec, ctx.case_index = b['spec'], b['index']        # witnesses point at the document's case
            top = b['top']
            g = got.get(b['id'])
            if g is None:
                ctx.inconc('harness', 'fresh_process', error='no result for document')
                continue
            ctx.cls('fresh_process:' + top)
            if 'exc' in g:
                ctx.fail('J2', {'class': top, 'step': 'fresh_process', 'exc': g['exc']}, message=g.get('message'))
                continue
            want = json.loads(json.dumps(fresh_eval(b['o1'], b['conds'])))
            diffs = set()
            canon_diff(g['canon'], want['canon'], top, '<top>', diffs)
            if not diffs:
                ctx.held('J2')
            for owner, attr in sorted(diffs):
                ctx.fail('J2', {'class': owner, 'step': 'fresh_process', 'attr': attr},
                         top=top, fresh=_short(g['canon'] if attr == '<top>' else None))
            if diffs:
                continue
            for key, (sig, flat) in want['getters'].items():
                gs = g['getters'].get(key)
                name = key.split('|')[0]
                if gs is None or gs[0] != sig:
                    ctx.fail('J3', {'class': top, 'step': 'fresh_process', 'getter': name, 'what': 'shape'},
                             fresh=gs and gs[0], in_process=sig)
                    continue
                fa, fb = _nan_pair([float(x) for x in flat], [float(x) for x in gs[1]])
                e = ctx.err(fb, fa)
                if e <= TOL:
                    ctx.held('J3')
                else:
                    ctx.fail('J3', {'class': top, 'step': 'fresh_process', 'getter': name}, err=e)
    finally:
        ctx.spec, ctx.case_index = keep


def _encode(ctx, obj, top, repeat):
    from pmutt.io.json import pmuttEncoder
    try:
        txt = json.dumps(obj, cls=pmuttEncoder)
    except Exception as e:                         # noqa: J1 violated
        who = _responsible(e, 'to_dict', None)
        m = {'step': 'encode', 'exc': type(e).__name__, 'at': _at(e, 'to_dict')}
        if who is None:
            r = _unserialisable(obj, top, None)
            if r:
                who = r[0]
                if r[1] is not None:
                    m['attr'] = str(r[1])
        m['class'] = who or top
        if repeat:
            m['cycle'] = 'repeat'
        ctx.fail('J1', m, message=str(e)[:300], top=top, where=core._tb_where(e))
        return None
    ctx.held('J1')
    return txt


def _decode(ctx, txt, top, repeat):
    from pmutt.io.json import json_to_pmutt
    try:
        new = json.loads(txt, object_hook=json_to_pmutt)
    except Exception as e:                         # noqa: J2 violated
        m = {'class': _responsible(e, 'from_dict', top), 'step': 'decode', 'exc': type(e).__name__,
             'at': _at(e, 'from_dict')}
        if repeat:
            m['cycle'] = 'repeat'
        ctx.fail('J2', m, message=str(e)[:300], top=top, where=core._tb_where(e))
        return core.NOVALUE
    return new


def _telemetry_extended_lsr(ctx):
    from pmutt.statmech.lsr import ExtendedLSR
    from pmutt.io.json import pmuttEncoder
    ex = ctx.extra.setdefault('ExtendedLSR', {})
    try:
        o = ExtendedLSR(slopes=[0.5, 0.2], intercept=1.0, reactions=[-20.0, -10.0])
        json.dumps(o, cls=pmuttEncoder)
        ex['encode_ok'] = ex.get('encode_ok', 0) + 1
    except Exception as e:                         # noqa
        k = 'encode_raises_' + type(e).__name__
        ex[k] = ex.get(k, 0) + 1


def run_case(spec, ctx):
    try:
        _run_case(spec, ctx)
    finally:
        _fresh_flush_if_due(ctx)


def _run_case(spec, ctx):
    from pmutt.io.json import json_to_pmutt
    if spec.get('telemetry'):
        _telemetry_extended_lsr(ctx)
        _telemetry_no_p_adj(ctx)
        _telemetry_reassign(ctx)
        _telemetry_notes_class(ctx)
        return
    top = spec['cls']
    _classify(spec, ctx)
    try:
        obj = build(spec['obj'])
        probe = build(spec['obj']['probe_reaction']) if isinstance(spec['obj'], dict) and \
            spec['obj'].get('probe_reaction') else None
    except core.HarnessError:
        raise
    except Exception as e:
        raise core.HarnessError('factory failed for %s: %r' % (top, e))
    if cname(obj) != top:
        raise core.HarnessError('factory built %s for %s' % (cname(obj), top))

    # ---- first cycle: J1, J2, then J3/J4 against the original ---------------------------------
    bep_lengths = _bep_lengths(obj)
    txt1 = _encode(ctx, obj, top, False)
    if txt1 is None:
        return
    o1 = _decode(ctx, txt1, top, False)
    if o1 is core.NOVALUE:
        return
    if _fresh_sampled(ctx):
        _fresh_queue(ctx, spec, top, txt1, o1)
    cmp1 = Cmp(ctx, spec['conds'], probe)
    cmp1.dirty = cmp1.obj(obj, o1)
    if type(o1) is not type(obj):
        return
    _check_backlinks(ctx, obj, o1, txt1, bep_lengths)

    # ---- J5: direct use of the object hook on a dictionary ---------------------------------------
    d = json.loads(txt1)
    snap = copy.deepcopy(d)
    try:
        od1 = json_to_pmutt(d)
    except Exception as e:                         # noqa
        ctx.fail('J5', {'class': _responsible(e, 'from_dict', top), 'step': 'direct_decode',
                        'exc': type(e).__name__}, message=str(e)[:300], top=top)
        od1 = core.NOVALUE
    changes = {}
    json_changes(snap, d, changes, top)
    if not changes:
        ctx.held('J5')
    for owner, what in sorted(changes.items()):
        for w in sorted(what):
            kind, _, keys = w.partition(':')
            for key in keys.split(','):
                ctx.fail('J5', {'class': owner, 'step': 'mutates_input', 'what': kind, 'attr': key}, top=top)
    if od1 is not core.NOVALUE:
        # direct decode == object-hook decode (meaningless while some class of the tree is not
        # restored at all: that has been reported by J2)
        if not cmp1.class_mismatch:
            diffs = set()
            canon_diff(canon_obj(od1), canon_obj(o1), top, '<top>', diffs)
            if not diffs:
                ctx.held('J5')
            for owner, attr in sorted(diffs):
                ctx.fail('J5', {'class': owner, 'step': 'direct_decode', 'attr': attr}, top=top)
        # decoding the same dictionary again
        try:
            od2 = json_to_pmutt(d)
        except Exception as e:                     # noqa
            ctx.fail('J5', {'class': _responsible(e, 'from_dict', top), 'step': 'redecode',
                            'exc': type(e).__name__}, message=str(e)[:300], top=top)
            od2 = core.NOVALUE
        if od2 is not core.NOVALUE:
            if type(od2) is not type(od1):
                ctx.fail('J5', {'class': top, 'step': 'redecode',
                                'got': cname(od2) if is_pm(od2) else type(od2).__name__})
            else:
                diffs = set()
                canon_diff(canon_obj(od2), canon_obj(od1), top, '<top>', diffs)
                if not diffs:
                    ctx.held('J5')
                for owner, attr in sorted(diffs):
                    ctx.fail('J5', {'class': owner, 'step': 'redecode', 'attr': attr}, top=top)

    # ---- repeated cycles (drift is only defined when the first cycle was clean; otherwise the
    # root cause has been reported and everything after it is a consequence) ----------------------
    if cmp1.dirty:
        if spec['cycles'] > 1:
            ctx.extra['repeat_skipped_first_cycle_dirty'] = ctx.extra.get('repeat_skipped_first_cycle_dirty', 0) + 1
        return
    cur = o1
    texts = []
    for k in range(2, spec['cycles'] + 1):
        txt = _encode(ctx, cur, top, True)
        if txt is None:
            return
        nxt = _decode(ctx, txt, top, True)
        if nxt is core.NOVALUE:
            return
        texts.append(txt)
        cur = nxt
    if spec['cycles'] > 1:
        if type(cur) is not type(o1):
            ctx.fail('J5', {'class': top, 'step': 'restable',
                            'got': cname(cur) if is_pm(cur) else type(cur).__name__})
            return
        diffs = set()
        canon_diff(canon_obj(cur), canon_obj(o1), top, '<top>', diffs)
        if not diffs:
            ctx.held('J5')
        for owner, attr in sorted(diffs):
            ctx.fail('J5', {'class': owner, 'step': 'restable', 'attr': attr}, top=top)
        if len(texts) > 1:
            ctx.check('J5', json.loads(texts[0]) == json.loads(texts[-1]), {'class': top, 'step': 'restable_text'})
        # and the last object still behaves like the original
        Cmp(ctx, spec['conds'], probe, {'cycle': 'repeat'}).obj(obj, cur)

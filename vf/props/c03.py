"""C03  Fitted polynomials anchor to the reference, join continuously, track the source.

Workload: the real fitting constructors Nasa.from_data / from_model, Nasa9.from_data /
from_model, Shomate.from_data / from_model are driven with generated sources (ideal-gas and
adsorbate StatMech species, constant-Cp and zero-Cp species, single polynomials of the target
family), windows, grids, T_mid choices, units and reference temperatures.  The returned object
is judged at the public API boundary:

A1  H/RT(T_ref) and S/R(T_ref) equal the reference values handed to the fit
A2  at every interior break both adjacent coefficient sets give the same H and S
    (reference basis of vf/ref/poly.py on the *fitted coefficients*)
A3  T_low / T_high are the span of the data, breaks strictly inside and ascending,
    NASA-9 segments contiguous, segment count as requested
A4  same-family / constant / zero data: Cp, H, S reproduced at 50 interior points
A5  StatMech sources: (i) fit quality against an independent least-squares fit of the same
    family with the same breaks (vf/ref/fit.py); (ii) tracking identities in integral form
    T.dH(T) - T_ref.dH(T_ref) = int dCp dT,  dS(T) - dS(T_ref) = int dCp/T dT
    across the whole window, breaks included (dX = X_fit - X_source)

Probes (sys.monitoring) record which branch of the anchoring code ran and whether the zero-Cp
path ran; they also hand over the reference that from_model sampled (T_ref, H_ref, S_ref) so
that A1 can be evaluated for from_model without assuming which T_ref it picks.
"""
import math
import random

from vf import core
from vf.gen import species as sp
from vf.ref import poly, quad
from vf.ref import fit as reffit

ID = 'C03'
N = {'quick': 8000, 'thorough': 200000}
NT_RULE = ('one case = one fit: class x constructor x source (StatMech gas/adsorbate over the C01 '
           'generator, constant-Cp, zero-Cp, random polynomial of the target family) x window '
           '100<=T_low<T_high<=3000 (width>=100) x n_T 15..200 x grid (linear/geometric/jittered, '
           'ascending / shuffled / strictly descending) x explicit references (exact 0.0, -0.0, whole numbers) x T_mid (None/scalar/list) x NASA-9 interval count 1..3 x Shomate '
           'unit x T_ref; drawn per case index from a seeded PRNG after a list of directed cases. '
           'non-trivial = non-degenerate source with T_ref != window midpoint, or a zero-Cp '
           '(degenerate path) case; distinct = distinct canonical JSON of the spec')
REQUIRED_ORACLES = ['A1', 'A2', 'A3', 'A4', 'A5', 'A6', 'A7']
EVAL_TYPES = ['int', 'np.int64', 'float_ndarray', 'int_ndarray', 'int_list', 'float_list', 'int_tuple',
              'range']
HIST_DATA = ['repeat', 'new_ref', 'T_ref_sweep']
HIST_MODEL = ['repeat', 'other_window']
CLASSES3 = ['Nasa', 'Nasa9', 'Shomate']
SRC_KINDS = ['statmech_gas', 'statmech_ads', 'const', 'zero', 'poly']
# every unit string pMuTT's gas constant accepts (documented table of pmutt.constants.R)
UNITS = ['J/mol/K', 'kJ/mol/K', 'L kPa/mol/K', 'cm3 kPa/mol/K', 'm3 Pa/mol/K', 'cm3 MPa/mol/K',
         'm3 bar/mol/K', 'L bar/mol/K', 'L torr/mol/K', 'cal/mol/K', 'kcal/mol/K', 'L atm/mol/K',
         'cm3 atm/mol/K', 'eV/K', 'Eh/K', 'Ha/K']
REQUIRED_CLASSES = (['%s.%s' % (c, k) for c in CLASSES3 for k in ('from_data', 'from_model')]
                    + ['%s:src:%s' % (c, s) for c in CLASSES3 for s in SRC_KINDS]
                    + ['Nasa:T_mid:None', 'Nasa:T_mid:scalar', 'Nasa:T_mid:list',
                       'Nasa9:T_mid:None', 'Nasa9:T_mid:scalar', 'Nasa9:T_mid:list',
                       'Nasa9:nseg:1', 'Nasa9:nseg:2', 'Nasa9:nseg:3',
                       'Nasa9:fit_T_mid:True', 'Nasa9:fit_T_mid:False',
                       'Nasa:tref:first', 'Nasa:tref:first_break', 'Nasa:tref:later',
                       'Nasa9:tref:first', 'Nasa9:tref:first_break', 'Nasa9:tref:later',
                       'Nasa9:tref:single', 'Shomate:tref:single',
                       'tref:T_low', 'tref:T_high', 'tref:midpoint', 'tref:interior',
                       'grid:unsorted', 'grid:sorted', 'window:100-3000', 'window:width100',
                       'n_T:15', 'n_T:200']
                    + ['Shomate:units:%s' % u for u in UNITS]
                    # explicit references that are exactly zero / negative zero / whole numbers
                    + ['%s:ref:%s' % (c, m) for c in CLASSES3
                       for m in ('H=0', 'S=0', 'both=0', 'negzero', 'int0', 'int')]
                    # order of the temperature array handed to from_data
                    + ['%s:grid:%s' % (c, o) for c in CLASSES3
                       for o in ('ascending', 'shuffled', 'descending')]
                    # T_ref exactly on T_low, T_high and every interior break (smooth source)
                    + ['Nasa.from_data:nseg2:tref@%s' % a for a in ('T_low', 'T_high', 'break0')]
                    + ['Nasa.from_model:nseg2:tref@break0']
                    + ['Nasa9.from_data:nseg1:tref@%s' % a for a in ('T_low', 'T_high')]
                    + ['Nasa9.from_data:nseg2:tref@%s' % a for a in ('T_low', 'T_high', 'break0')]
                    + ['Nasa9.from_data:nseg3:tref@%s' % a for a in ('T_low', 'T_high', 'break0', 'break1')]
                    + ['Nasa9.from_model:nseg%d:tref@T_low' % n for n in (1, 2, 3)]
                    + ['Shomate.from_data:nseg1:tref@%s' % a for a in ('T_low', 'T_high')]
                    # typing of the temperatures: getters evaluated on int scalars / int and float
                    # containers; whole-kelvin integer grids handed to from_data (and the getters
                    # evaluated on that very array); integer T_low / T_high handed to from_model
                    + ['%s:eval:%s' % (c, t) for c in CLASSES3 for t in EVAL_TYPES]
                    + ['%s:fit_grid:int' % c for c in CLASSES3]
                    + ['%s:fit_grid:float' % c for c in CLASSES3]
                    + ['%s.from_model:int_bounds' % c for c in CLASSES3]
                    + ['%s.from_data:T_ref:int' % c for c in CLASSES3]
                    # histories: the same data / model fitted again in the same process
                    + ['%s.from_data:history:%s' % (c, h) for c in CLASSES3 for h in HIST_DATA]
                    + ['%s.from_model:history:%s' % (c, h) for c in CLASSES3 for h in HIST_MODEL]
                    # NASA-7 T_mid candidate sequences: container type x exact duplicates
                    + ['Nasa.%s:T_mid:%s:%s' % (k, t, d) for k in ('from_data', 'from_model')
                       for t in ('list', 'tuple', 'ndarray') for d in ('dups', 'nodups')]
                    # small but non-zero heat capacity (every sample 1e-12 <= |Cp/R| <= 1e-2)
                    + ['%s:small_Cp:src:%s' % (c, k) for c in CLASSES3 for k in ('statmech', 'poly')]
                    + ['%s.%s:small_Cp' % (c, k) for c in CLASSES3 for k in ('from_data', 'from_model')]
                    + ['Shomate:small_Cp:%s' % u for u in UNITS])
REQUIRED_BRANCHES = ['Nasa._fit_HoRT:T_ref<=T_mid', 'Nasa._fit_HoRT:T_ref>T_mid',
                     'Nasa._fit_SoR:T_ref<=T_mid', 'Nasa._fit_SoR:T_ref>T_mid',
                     'Nasa._fit_CpoR:zeroCp', 'Nasa._fit_CpoR:fit',
                     'Nasa9._fit_CpoR9:zeroCp', 'Nasa9._fit_CpoR9:fit',
                     'Shomate._fit_CpoR:zeroCp', 'Shomate._fit_CpoR:fit',
                     'Nasa9._fit_HoRT9:T_ref_in_first', 'Nasa9._fit_HoRT9:T_ref_beyond_first']
REQUIRED_PROBES = ['Nasa.from_data', 'Nasa.from_model', 'Nasa9.from_data', 'Nasa9.from_model',
                   'Shomate.from_data', 'Shomate.from_model',
                   'nasa._fit_CpoR', 'nasa._get_CpoR_MSE', 'nasa._fit_HoRT', 'nasa._fit_SoR',
                   'nasa._fit_CpoR9', 'nasa._fit_HoRT9', 'nasa._fit_SoR9',
                   'nasa._calc_T_mid_mse_nasa9',
                   'shomate._fit_CpoR', 'shomate._fit_HoRT', 'shomate._fit_SoR']
ASSUMPTIONS = [
    'T handed to from_data is a numpy array of distinct temperatures (ascending, strictly '
    'descending or shuffled); with a shuffled array T_mid is always given explicitly (the '
    'T_mid=None screen of Nasa indexes T by position) and zero-Cp data are never shuffled',
    'references given directly to from_data may be any numbers, in particular exactly 0.0, -0.0 '
    'and Python ints (spec key ref); expected H and S curves are the source curves moved onto '
    'the given reference',
    'the per-position classes Class.ctor:nsegN:tref@T_low|T_high|breakK are counted only for '
    'non-degenerate StatMech sources, where anchoring a neighbouring interval is visible',
    'every segment of a requested break layout holds enough data to determine the Cp polynomial: '
    '>=6 points on either side of every NASA-7 T_mid candidate, >=9 points per NASA-9 interval in '
    'from_data; NASA-9 intervals requested from from_model are at least min(max(40 K, 12 % of the '
    'window), 80 % of an equal share) wide',
    'Shomate units are the 16 strings of the documented pmutt.constants.R table (two strings of '
    'vf.gen.species.SHOMATE_UNITS are not accepted by pMuTT and are not fitting units)',
    'A1 for from_model uses the (T_ref, H_ref, S_ref) that from_model handed to from_data (probe '
    'snapshot) and additionally requires that they are the model values at a T_ref inside the '
    'window; without the probe the conventional T_ref (window midpoint, T_low for NASA-9) is used',
    'A5(i) compares RMS and maximum errors on the fitting grid with the more lenient of two '
    'yardsticks (unweighted and, for NASA-9, T^2-weighted independent least squares, because '
    'NASA-9 is fitted to Cp*T^2): rms <= 10*ref + floor, max <= max(0.5, 10*ref_max); data points '
    'lying exactly on a break are left out of both (fitted with the lower, evaluated with the '
    'upper interval); when the test fails it is repeated without the lowest data temperature to '
    'tell a fit that ignores that point (mech culprit=T_low_point) from a bad fit (culprit=grid); '
    'a degenerate (all |Cp/R|<=1e-8) StatMech source only gets A1-A3 and A5',
    'precision floors are relative to the size of the data: A5(i) floor = 1e-6*max|Cp/R| + 2e-8, A4 '
    'Cp error relative to max(|Cp/R| on the window, 2e-2); the absolute 2e-8 is the one deliberate '
    'allowance: data that are ALL below 1e-8 may be fitted as zero heat capacity (documented '
    'degenerate path); sources with 1e-12 <= |Cp/R| <= 1e-2 everywhere (stiff adsorbate on a cold '
    'window, shrunk polynomial) are a required stratum for every class and Shomate unit',
    'NASA-7 T_mid candidate sequences come as list, tuple or ndarray, in any order, with and '
    'without exact duplicates (coarse + fine ranges concatenated)',
    'A5(ii) is evaluated in difference form, T*dH(T) - T_ref*dH(T_ref) = int dCp dT (ditto S), so '
    'that a wrong anchor (A1) is not reported a second time; the integral is split at every '
    'break and at every check point (Gauss-Legendre 16/32, panels T ratio <= 1.25), tolerance '
    '1e-6*(max(1,|int|) + 1e-6*sum|end-point terms|)',
    'tolerances A1/A2 1e-8 (5e-15 observed on correct code), A4 1e-6 (2e-10 observed), A5(ii) '
    '1e-6 (1e-10 observed); for Shomate on windows with T_high/T_low < 1.2 A4, the A5 rms floor '
    'and A5(ii) are 1e-4 because its Levenberg-Marquardt Cp fit honestly loses precision there '
    '(2e-7 / 1e-7 observed for 1.05 <= ratio < 1.2); mech win=narrow|mid|wide records the class',
    'Nelder-Mead optimisation of NASA-9 breaks (fit_T_mid=True) is exercised rarely and with '
    'n_T<=30 in the quick tier (cost); its result is only required to satisfy A1-A5',
]

TOL_A1 = 1e-8
TOL_A2 = 1e-8
TOL_A3 = 1e-12
TOL_A4 = 1e-6
TOL_A5 = 1e-6
A5_RMS_FACTOR = 10.0
A5_RMS_FLOOR = 1e-6
A5_MAX_DCP = 0.5


def window_class(lo, hi):
    """conditioning class of the window (discriminating feature for Shomate, whose Cp fit is a
    Levenberg-Marquardt search started at 1.0 for every coefficient)"""
    r = hi / lo
    return 'narrow' if r < 1.05 else ('mid' if r < 1.2 else 'wide')


def precision(cls, lo, hi):
    """(A4 tolerance, A5 rms floor, A5 identity tolerance).  NASA fits are linear least squares
    and reach 1e-11; the Shomate fit reaches 3e-9 on wide windows and 2e-7 when
    T_high/T_low < 1.2, where its large cancelling coefficients also cost the identities three
    digits (1e-7 observed)."""
    if cls == 'Shomate' and window_class(lo, hi) != 'wide':
        return 1e-4, 1e-4, 1e-4
    return TOL_A4, A5_RMS_FLOOR, TOL_A5


# ================================================================= helpers
def _f(x):
    """normalise a pMuTT getter result (float, 0-d or 1-element array) to float"""
    import numpy as np
    return float(np.ravel(np.asarray(x, dtype=float))[0])


def _r2(x):
    return round(float(x), 2)


def grid(spec):
    """the temperature array of the case (deterministic in the spec)"""
    import numpy as np
    lo, hi, n = spec['T_low'], spec['T_high'], spec['n_T']
    g = spec.get('grid') or {'kind': 'lin'}
    if g['kind'] == 'geom':
        T = np.geomspace(lo, hi, n)
    elif g['kind'] == 'int':                  # whole-kelvin table, integer dtype (lo, hi whole)
        T = np.floor(np.linspace(lo, hi, n) + 0.5).astype(np.int64)
    else:
        T = np.linspace(lo, hi, n)
        if g['kind'] == 'jitter':
            r = random.Random(g.get('seed', 0))
            h = (hi - lo) / (n - 1)
            for i in range(1, n - 1):
                T[i] += r.uniform(-0.4, 0.4) * h
    T[0], T[-1] = lo, hi
    if g.get('shuffle'):
        r = random.Random(g.get('seed', 0) + 1)
        idx = list(range(n))
        r.shuffle(idx)
        if idx[0] == 0:                       # make sure T[0] is not the minimum
            idx[0], idx[1] = idx[1], idx[0]
        T = T[idx]
    elif g.get('order') == 'desc':            # strictly descending: T[0] = max, T[-1] = min
        T = T[::-1].copy()
    return T


class Source:
    """The thing the data come from.  cp/H/S take and return floats."""

    def __init__(self, spec):
        s = spec['source']
        self.kind = s['kind']
        self.spec = s
        self.window = (spec['T_low'], spec['T_high'])
        self._model = None
        if self.kind == 'poly':
            fam, a = s['family'], s['a']
            if fam == 'nasa7':
                self.cp = lambda T: poly.nasa7_CpoR(a, T)
                self.H = lambda T: poly.nasa7_HoRT(a, T)
                self.S = lambda T: poly.nasa7_SoR(a, T)
            elif fam == 'nasa9':
                self.cp = lambda T: poly.nasa9_CpoR(a, T)
                self.H = lambda T: poly.nasa9_HoRT(a, T)
                self.S = lambda T: poly.nasa9_SoR(a, T)
            else:                                      # dimensionless Shomate (R = 1)
                self.cp = lambda T: poly.shomate_CpoR(a, T, 1.0)
                self.H = lambda T: poly.shomate_HoRT(a, T, 1.0)
                self.S = lambda T: poly.shomate_SoR(a, T, 1.0)
        else:
            m = self.model()
            self.cp = lambda T: _f(m.get_CpoR(T=float(T)))
            self.H = lambda T: _f(m.get_HoRT(T=float(T)))
            self.S = lambda T: _f(m.get_SoR(T=float(T)))

    def model(self):
        """the pMuTT object handed to from_model"""
        if self._model is not None:
            return self._model
        import numpy as np
        s = self.spec
        lo, hi = self.window
        if self.kind != 'poly':
            self._model = sp.build(s['spec'])
        elif s['family'] == 'nasa7':
            from pmutt.empirical.nasa import Nasa
            self._model = Nasa(name='src', T_low=lo, T_mid=0.5 * (lo + hi), T_high=hi,
                               a_low=np.array(s['a'], dtype=float), a_high=np.array(s['a'], dtype=float),
                               elements={'H': 2})
        elif s['family'] == 'nasa9':
            from pmutt.empirical.nasa import Nasa9, SingleNasa9
            self._model = Nasa9(name='src', elements={'H': 2},
                                nasas=[SingleNasa9(T_low=lo, T_high=hi, a=np.array(s['a'], dtype=float))])
        else:
            from pmutt.empirical.shomate import Shomate
            from pmutt import constants as c
            u = s.get('units', 'J/mol/K')
            self._model = Shomate(name='src', T_low=lo, T_high=hi, units=u, elements={'H': 2},
                                  a=np.array(s['a'], dtype=float) * c.R(u))
        return self._model


FAMILY = {'Nasa': 'nasa7', 'Nasa9': 'nasa9', 'Shomate': 'shomate'}


def seg_coeffs(cls, obj):
    """(edges, [coefficient vectors]) of the fitted object"""
    if cls == 'Nasa':
        return [float(obj.T_low), float(obj.T_mid), float(obj.T_high)], \
               [[float(v) for v in obj.a_low], [float(v) for v in obj.a_high]]
    if cls == 'Nasa9':
        ns = list(obj.nasas)
        return [float(ns[0].T_low)] + [float(n.T_high) for n in ns], \
               [[float(v) for v in n.a] for n in ns]
    return [float(obj.T_low), float(obj.T_high)], [[float(v) for v in obj.a]]


def ref_H(cls, a, T):
    return poly.nasa7_HoRT(a, T) if cls == 'Nasa' else poly.nasa9_HoRT(a, T)


def ref_S(cls, a, T):
    return poly.nasa7_SoR(a, T) if cls == 'Nasa' else poly.nasa9_SoR(a, T)


def tref_position(breaks, T_ref):
    if not breaks:
        return 'single'
    if T_ref < breaks[0]:
        return 'first'
    if T_ref == breaks[0]:
        return 'first_break'
    return 'later'


# ================================================================= generator
def _window(rng, mode=None):
    mode = mode or rng.choices(['full', 'w100', 'any', 'low', 'high'], [1, 1, 6, 1, 1])[0]
    if mode == 'full':
        return 100.0, 3000.0
    if mode == 'w100':
        lo = _r2(rng.uniform(100, 2900))
        return lo, _r2(lo + 100.0)
    if mode == 'low':
        return 100.0, _r2(rng.uniform(200, 3000))
    if mode == 'high':
        return _r2(rng.uniform(100, 2900)), 3000.0
    if mode == 'cold':                        # stiff vibrations stay almost frozen
        lo = _r2(rng.uniform(100, 400))
        return lo, _r2(rng.uniform(lo + 100, min(3.4 * lo, 680.0)))
    lo = _r2(rng.uniform(100, 2900))
    return lo, _r2(rng.uniform(lo + 100, 3000))


def _small_statmech(rng, lo, hi):
    """adsorbate with stiff modes only: 1e-12 <= Cp/R <= 1e-2 over the whole (cold) window"""
    x_hi = rng.uniform(9.6, min(30.0, 33.0 * lo / hi))        # theta/T_high of the softest mode
    nu_min = x_hi * hi / 1.438777
    nus = [nu_min] + [rng.uniform(min(1.3 * nu_min, 4400.0), 4500.0) for _ in range(rng.randint(0, 4))]
    rng.shuffle(nus)
    return {'type': 'StatMech', 'name': 'src', 'trans': None, 'rot': None, 'nucl': None,
            'vib': {'type': 'HarmonicVib', 'vib_wavenumbers': [float('%.6g' % v) for v in nus],
                    'imaginary_substitute': None},
            'elec': sp.gen_elec(rng, allow_none=False), 'elements': sp.gen_elements(rng)}


def _shrink_poly(rng, fam, a, lo, hi):
    """rescale the Cp part of a polynomial so that 0.1*m <= Cp/R <= m on the window, m log-uniform
    in 1e-10 .. 1e-2 (the integration constants stay O(1..1e4))"""
    ncp = {'nasa7': 5, 'nasa9': 7, 'shomate': 5}[fam]
    cp = {'nasa7': lambda T: poly.nasa7_CpoR(a, T), 'nasa9': lambda T: poly.nasa9_CpoR(a, T),
          'shomate': lambda T: poly.shomate_CpoR(a, T, 1.0)}[fam]
    v = [cp(lo + (hi - lo) * i / 400.0) for i in range(401)]
    pmin, pmax = min(v), max(v)
    const = {'nasa7': 0, 'nasa9': 2, 'shomate': 0}[fam]
    a = list(a)
    a[const] += -pmin + 0.25 * (pmax - pmin) + 0.05           # strictly positive on the window
    m = 10.0 ** rng.uniform(-10, -2)
    f = m / (pmax - pmin + 0.25 * (pmax - pmin) + 0.05)
    return [float('%.12g' % (x * f)) for x in a[:ncp]] + a[ncp:]


def _gen_source(rng, kind, cls, lo, hi, small=False):
    if small and kind == 'statmech_ads':
        return {'kind': kind, 'spec': _small_statmech(rng, lo, hi)}
    if kind == 'statmech_gas':
        return {'kind': kind, 'spec': sp.gen_statmech(rng, name='src', gas=True)}
    if kind == 'statmech_ads':
        return {'kind': kind, 'spec': sp.gen_statmech(rng, name='src', gas=False)}
    if kind == 'const':
        s = sp.gen_statmech(rng, name='src', gas=True)
        s['vib'] = None
        if rng.random() < 0.3:
            s['rot'] = None
        return {'kind': kind, 'spec': s}
    if kind == 'zero':
        return {'kind': kind, 'spec': {'type': 'StatMech', 'name': 'src', 'trans': None, 'vib': None,
                                       'rot': None, 'elec': sp.gen_elec(rng, allow_none=False),
                                       'nucl': None, 'elements': sp.gen_elements(rng)}}
    fam = FAMILY[cls]
    if fam == 'nasa7':
        a = sp.gen_nasa7_coeffs(rng, T_scale=hi)
    elif fam == 'nasa9':
        a = sp.gen_nasa9_coeffs(rng, T_scale=math.sqrt(lo * hi))
    else:
        # dimensionless Shomate: every Cp term is O(1) somewhere in the window
        th, tl = hi / 1000.0, lo / 1000.0
        c = [rng.uniform(-3, 3) for _ in range(5)]
        if rng.random() < 0.5:
            c[0] = rng.uniform(2, 15)
        a = [c[0], c[1] / th, c[2] / th ** 2, c[3] / th ** 3, c[4] * tl ** 2,
             rng.uniform(-100, 100), rng.uniform(-30, 30), 0.0]
        a = [float('%.12g' % v) for v in a]
        if small:
            a = _shrink_poly(rng, fam, a, lo, hi)
        return {'kind': kind, 'family': fam, 'a': a, 'units': rng.choice(UNITS)}
    if small:
        a = _shrink_poly(rng, fam, a, lo, hi)
    return {'kind': kind, 'family': fam, 'a': a}


def _between(rng, Ts, i, on_grid=None):
    """a break temperature with Ts[i] <= b < Ts[i+1] (Ts ascending)"""
    if on_grid is None:
        on_grid = rng.random() < 0.3
    if on_grid:
        return float(Ts[i])
    f = rng.uniform(0.05, 0.95)
    b = Ts[i] + f * (Ts[i + 1] - Ts[i])
    b = round(float(b), 3)
    if not (Ts[i] <= b < Ts[i + 1]):
        b = float(Ts[i])
    return b


def make_case(rng, cls=None, ctor=None, src=None, window=None, n_T=None, T_mid_mode=None,
              nseg=None, fit_T_mid=None, tref_mode=None, units=None, shuffle=None, gridkind=None,
              tier='quick', order=None, ref_mode=None, T_mid_at_mid=False, tgrid=None, history=None,
              small=None, tmid_type=None, tmid_dups=None):
    """order: None (draw) | 'keep' | 'desc';  ref_mode: None (draw) | 'source' | one of REF_MODES;
    T_mid_at_mid: scalar NASA-7 T_mid exactly at the window midpoint (= T_ref of from_model);
    tgrid: None (draw) | 'float' | 'int' (whole-kelvin integer-typed grid / integer bounds);
    history: None (draw) | 'none' | list of kinds from HIST_DATA / HIST_MODEL;
    small: None (draw) | bool -- source with small but non-zero Cp/R (stiff adsorbate on a cold window
    or a shrunk polynomial); tmid_type / tmid_dups: container type of a NASA-7 candidate sequence
    ('list' | 'tuple' | 'ndarray') and whether it holds exact duplicates"""
    import numpy as np
    cls = cls or rng.choices(CLASSES3, [4, 5, 3])[0]
    ctor = ctor or rng.choice(['from_data', 'from_model'])
    src = src or rng.choices(SRC_KINDS, [30, 25, 10, 8, 27])[0]
    if small is None:                         # (directed cases pass small: their draws are unchanged)
        small = rng.random() < 0.07
    if small and src not in ('statmech_ads', 'poly'):
        src = rng.choice(['statmech_ads', 'poly'])
    if small and src == 'statmech_ads':
        window = 'cold'
    lo, hi = _window(rng, window)
    if tgrid is None:                         # (directed cases pass tgrid: their draws are unchanged)
        tgrid = 'int' if rng.random() < 0.15 else 'float'
    if tgrid == 'int':
        w = max(100.0, float(math.floor(hi - lo)))
        lo = float(math.ceil(lo))
        hi = lo + w
        if hi > 3000.0:
            lo, hi = 3000.0 - w, 3000.0
    spec = {'cls': cls, 'ctor': ctor, 'T_low': lo, 'T_high': hi}
    if tgrid == 'int' and ctor == 'from_model':
        spec['int_bounds'] = True
    # ---- T_mid mode and interval count
    if cls == 'Nasa':
        mode = T_mid_mode or rng.choices(['None', 'scalar', 'list'], [4, 4, 3])[0]
    elif cls == 'Nasa9':
        if fit_T_mid is None:
            fit_T_mid = (ctor == 'from_model' and rng.random() < 0.06)
        if T_mid_mode:
            mode = T_mid_mode
        elif ctor == 'from_model' and fit_T_mid:
            mode = rng.choices(['None', 'scalar', 'list'], [3, 1, 2])[0]
        else:
            mode = rng.choices(['None', 'scalar', 'list'], [1, 1, 30])[0]
        if nseg is None:
            nseg = 2 if mode == 'scalar' else rng.choice([1, 2, 2, 3, 3])
    else:
        mode = 'na'
    # ---- number of points
    nmin = 15
    if cls == 'Nasa9' and ctor == 'from_data':
        nmin = max(15, 9 * (nseg or 1))
    if n_T is None:
        n_T = rng.choices([15, 200, rng.randint(15, 200), rng.randint(15, 60)], [1, 1, 4, 4])[0]
    if cls == 'Nasa9' and ctor == 'from_model':
        if fit_T_mid:
            n_T = min(n_T, 30 if tier == 'quick' else 60)
        elif tier == 'quick':
            n_T = n_T if n_T in (15, 200) and rng.random() < 0.3 else min(n_T, 80)
    n_T = max(n_T, nmin)
    if tgrid == 'int' and ctor == 'from_data':
        n_T = max(nmin, min(n_T, int(hi - lo) // 2 + 1))     # distinct whole numbers
    spec['n_T'] = n_T
    # ---- grid (from_data only; from_model builds its own linspace)
    shuffled = False
    if ctor == 'from_data':
        gk = gridkind or rng.choices(['lin', 'geom', 'jitter'], [5, 2, 3])[0]
        if tgrid == 'int':
            gk = 'int'
        g = {'kind': gk, 'seed': rng.randint(0, 10 ** 6)}
        can_shuffle = not (cls == 'Nasa' and mode == 'None') and src != 'zero'
        if shuffle is None:
            shuffle = rng.random() < 0.35
        if shuffle and can_shuffle:
            g['shuffle'] = True
            shuffled = True
        spec['grid'] = g
    Ts = np.sort(grid(spec)) if ctor == 'from_data' else np.linspace(lo, hi, n_T)
    # ---- T_mid
    breaks_known = None
    if cls == 'Nasa':
        if mode == 'None':
            spec['T_mid'] = None
        else:
            k = 1 if mode == 'scalar' else rng.randint(2, 5)
            idx = sorted(rng.sample(range(6, n_T - 7), min(k, n_T - 13)))
            cands = [_between(rng, Ts, i) for i in idx]
            if mode == 'scalar':
                if T_mid_at_mid:
                    cands[0] = 0.5 * (lo + hi)
                spec['T_mid'] = cands[0]
                breaks_known = [cands[0]]
            else:
                if rng.random() < 0.25:
                    rng.shuffle(cands)
                if tmid_dups is None:
                    tmid_dups = rng.random() < 0.3
                if tmid_type is None:
                    tmid_type = rng.choice(['list', 'list', 'tuple', 'ndarray'])
                if tmid_dups:
                    # e.g. a coarse and a fine candidate range concatenated: exact duplicates
                    coarse = rng.sample(cands, rng.randint(1, len(cands)))
                    r = rng.random()
                    if r < 0.4:
                        cands = coarse + cands
                    elif r < 0.6:
                        cands = cands + coarse
                    else:
                        cands = cands + coarse
                        rng.shuffle(cands)
                spec['T_mid'] = cands
                if tmid_type != 'list':
                    spec['T_mid_type'] = tmid_type
    elif cls == 'Nasa9':
        spec['fit_T_mid'] = bool(fit_T_mid)
        spec['n_interval'] = nseg
        if ctor == 'from_data':
            sizes = [9] * nseg
            for _ in range(n_T - 9 * nseg):
                sizes[rng.randrange(nseg)] += 1
            if rng.random() < 0.3:                           # skewed partition
                extra = n_T - 9 * nseg
                sizes = [9] * nseg
                sizes[rng.randrange(nseg)] += extra
            cum, br = 0, []
            for s in sizes[:-1]:
                cum += s
                br.append(_between(rng, Ts, cum - 1))
        else:
            span = hi - lo
            wmin = min(max(40.0, 0.12 * span), 0.8 * span / nseg)
            while True:
                br = sorted(_r2(rng.uniform(lo, hi)) for _ in range(nseg - 1))
                e = [lo] + br + [hi]
                if all(e[i + 1] - e[i] >= wmin for i in range(nseg)):
                    break
        if mode == 'None':
            spec['T_mid'] = None
        elif mode == 'scalar':
            spec['T_mid'] = br[0]
        else:
            spec['T_mid'] = br
        if mode == 'list' and not fit_T_mid:
            breaks_known = br
        if mode == 'list' and ctor == 'from_data':
            breaks_known = br
        if mode == 'scalar' and ctor == 'from_data':
            breaks_known = [br[0]]
    else:
        spec['units'] = units or rng.choice(UNITS)
        breaks_known = []
    # ---- reference temperature
    if ctor == 'from_data':
        tm = tref_mode or rng.choices(['low', 'high', 'mid', 'break', 'first', 'last', 'any', 'grid'],
                                      [1, 1, 1, 2, 2, 3, 4, 1])[0]
        if tm in ('break', 'first', 'last', 'break0', 'break1') and not breaks_known:
            tm = 'any'
        if tm in ('break0', 'break1'):
            T_ref = breaks_known[min(int(tm[-1]), len(breaks_known) - 1)]
            tm = 'given'
        if tm == 'low':
            T_ref = lo
        elif tm == 'high':
            T_ref = hi
        elif tm == 'mid':
            T_ref = 0.5 * (lo + hi)
        elif tm == 'break':
            T_ref = rng.choice(breaks_known) if rng.random() < 0.5 else breaks_known[0]
        elif tm == 'first':
            T_ref = round(rng.uniform(lo, breaks_known[0]), 3)
        elif tm == 'last':
            T_ref = round(rng.uniform(breaks_known[-1], hi), 3)
        elif tm == 'grid':
            T_ref = float(Ts[rng.randrange(n_T)])
        elif tm == 'given':
            pass
        else:
            T_ref = round(rng.uniform(lo, hi), 3)
        spec['T_ref'] = min(max(float(T_ref), lo), hi)
        if tgrid == 'int' and spec['T_ref'] == math.floor(spec['T_ref']):
            spec['T_ref_int'] = True           # handed over as a Python int
    spec['source'] = _gen_source(rng, src, cls, lo, hi, small=bool(small))
    if ctor == 'from_data':
        # strictly descending temperature array
        if order is None:
            order = 'desc' if (not shuffled and rng.random() < 0.2) else 'keep'
        if order == 'desc' and not shuffled:
            spec['grid']['order'] = 'desc'
        # explicit reference values instead of the source's own H(T_ref), S(T_ref)
        if ref_mode is None:
            ref_mode = rng.choice(REF_MODES) if rng.random() < 0.15 else 'source'
        if ref_mode != 'source':
            spec['ref'] = make_ref(rng, ref_mode)
    # the same data / the same model fitted again in the same process
    if history is None:
        history = 'none'
        if rng.random() < 0.12 and not (cls == 'Nasa9' and spec.get('fit_T_mid')):
            pool = HIST_DATA if ctor == 'from_data' else HIST_MODEL
            history = [rng.choice(pool) for _ in range(rng.choice([1, 1, 2]))]
    if history != 'none':
        steps = [make_step(rng, spec, k) for k in history]
        steps = [st for st in steps if st is not None]
        if steps:
            spec['history'] = steps
    return spec


def make_step(rng, spec, kind):
    """one further fit of a history (see run_case)"""
    lo, hi = spec['T_low'], spec['T_high']
    if kind == 'repeat':
        return {'kind': 'repeat'}
    if kind == 'new_ref':                     # same T_ref, another reference state
        return {'kind': kind, 'ref': {'mode': 'given', 'HoRT': round(rng.uniform(-50, 50), 4),
                                      'SoR': round(rng.uniform(0, 60), 4)}}
    if kind == 'T_ref_sweep':                 # same data and references taken at another T_ref
        while True:
            t = rng.choice([lo, hi, round(rng.uniform(lo, hi), 3), round(rng.uniform(lo, hi), 3)])
            if t != spec['T_ref']:
                return {'kind': kind, 'T_ref': float(t)}
    # other_window: the same model fitted on a window inside the first one (T_ref moves)
    w = hi - lo
    if w < 200.0:
        return {'kind': 'repeat'}
    lo2, hi2 = _r2(lo + 0.2 * w), _r2(hi - 0.1 * w)
    st = {'kind': 'other_window', 'T_low': lo2, 'T_high': hi2}
    if spec['cls'] == 'Nasa':
        st['T_mid'] = None
    elif spec['cls'] == 'Nasa9':
        n = spec['n_interval']
        st['T_mid'] = [_r2(lo2 + (hi2 - lo2) * k / n) for k in range(1, n)]
        st['fit_T_mid'] = False
    return st


REF_MODES = ['H=0', 'S=0', 'both=0', 'negzero', 'int0', 'int']


def make_ref(rng, ref_mode):
    """explicit reference values (None = the source's own value).  An element in its reference
    state has H_f = 0 exactly; tabulated references are often whole numbers."""
    if ref_mode == 'H=0':
        return {'mode': ref_mode, 'HoRT': 0.0, 'SoR': None}
    if ref_mode == 'S=0':
        return {'mode': ref_mode, 'HoRT': None, 'SoR': 0.0}
    if ref_mode == 'both=0':
        return {'mode': ref_mode, 'HoRT': 0.0, 'SoR': 0.0}
    if ref_mode == 'negzero':
        return {'mode': ref_mode, 'HoRT': -0.0, 'SoR': -0.0}
    if ref_mode == 'int0':
        k = rng.randrange(3)
        return {'mode': ref_mode, 'HoRT': 0 if k != 1 else rng.randint(-40, 40),
                'SoR': 0 if k != 0 else rng.randint(1, 60)}
    h = rng.choice([-1, 1]) * rng.randint(1, 40)
    return {'mode': 'int', 'HoRT': h, 'SoR': rng.randint(1, 60)}


def directed(tier):
    D = []
    k = [0]

    def mk(**kw):
        k[0] += 1
        kw.setdefault('order', 'keep')
        kw.setdefault('ref_mode', 'source')
        kw.setdefault('tgrid', 'float')
        kw.setdefault('history', 'none')
        kw.setdefault('small', False)
        kw.setdefault('tmid_type', 'list')
        kw.setdefault('tmid_dups', False)
        D.append(make_case(random.Random('C03-directed-%d' % k[0]), tier=tier, **kw))
        return D[-1]

    # --- pinned witnesses of the pre-findings
    mk(cls='Shomate', ctor='from_model', src='zero', units='J/mol/K')            # (a) zeros(7)
    mk(cls='Shomate', ctor='from_data', src='zero', units='eV/K')
    mk(cls='Nasa9', ctor='from_model', src='zero', nseg=2, T_mid_mode='list', fit_T_mid=False)  # (b)
    mk(cls='Nasa9', ctor='from_data', src='zero', nseg=3, T_mid_mode='list', tref_mode='low')
    mk(cls='Nasa9', ctor='from_data', src='zero', nseg=1, T_mid_mode='list')
    mk(cls='Nasa9', ctor='from_data', src='statmech_gas', nseg=2, T_mid_mode='list',
       tref_mode='last', window='full')                                          # (c)
    mk(cls='Nasa9', ctor='from_data', src='statmech_ads', nseg=3, T_mid_mode='list', tref_mode='high')
    mk(cls='Nasa9', ctor='from_data', src='poly', nseg=3, T_mid_mode='list', tref_mode='last')
    # (d) lowest data temperature excluded from the first NASA-9 interval
    mk(cls='Nasa9', ctor='from_model', src='statmech_gas', nseg=1, T_mid_mode='list', fit_T_mid=False,
       window='full', n_T=15)
    mk(cls='Nasa9', ctor='from_data', src='statmech_ads', nseg=2, T_mid_mode='list', window='full',
       n_T=18, gridkind='lin', shuffle=False, tref_mode='first')
    # (e) Shomate Levenberg-Marquardt fit on a narrow high-temperature window: does not converge /
    # stops 1e-3 short of the least-squares optimum / same-family data not reproduced
    D.append({"cls": "Shomate", "ctor": "from_data", "T_low": 2564.75, "T_high": 2664.75, "n_T": 113,
              "grid": {"kind": "lin", "seed": 142791, "shuffle": True}, "units": "eV/K", "T_ref": 2654.315,
              "source": {"kind": "statmech_ads", "spec": {
                  "trans": None, "vib": {"type": "HarmonicVib", "vib_wavenumbers": [
                      14.797, -109.942, 1515.52, 19.9233, -807.098, 2858.67, 1601.56, 103.51, 239.665,
                      607.225, 795.122, 1712.95], "imaginary_substitute": None},
                  "rot": None, "elec": {"type": "GroundStateElec", "potentialenergy": -16.08726, "spin": 1.5},
                  "nucl": None, "type": "StatMech", "name": "src", "elements": {"Ni": 1, "Pt": 3, "He": 7}}}})
    D.append({"cls": "Shomate", "ctor": "from_data", "T_low": 2673.4, "T_high": 2773.4, "n_T": 50,
              "grid": {"kind": "geom", "seed": 812362}, "units": "Eh/K", "T_ref": 2736.652,
              "source": {"kind": "statmech_ads", "spec": {
                  "trans": None, "vib": {"type": "HarmonicVib", "vib_wavenumbers": [
                      20.7913, 203.148, 199.453, 2946.31, 56.8868, 734.685, -29.1487],
                      "imaginary_substitute": 41.68},
                  "rot": None, "elec": {"type": "GroundStateElec", "potentialenergy": -14.38452, "spin": 0},
                  "nucl": None, "type": "StatMech", "name": "src", "elements": {"Ni": 8, "S": 5, "O": 5}}}})
    D.append({"cls": "Shomate", "ctor": "from_model", "T_low": 2818.68, "T_high": 2918.68, "n_T": 15,
              "units": "m3 bar/mol/K",
              "source": {"kind": "poly", "family": "shomate", "units": "L atm/mol/K",
                         "a": [-1.02028186791, -1.01480335453, 0.222523885599, 0.00394835935928,
                               22.900685381, -36.4752249982, 10.4748599378, 0.0]}})
    # (f) Nelder-Mead search of NASA-9 breaks leaves the breaks unordered -> empty interval
    D.append({"cls": "Nasa9", "ctor": "from_model", "T_low": 2469.11, "T_high": 2743.55, "n_T": 30,
              "fit_T_mid": True, "n_interval": 3, "T_mid": None,
              "source": {"kind": "poly", "family": "nasa9",
                         "a": [-41756.8992547, 3963.11338981, 1.38860787306, -0.000758419394112,
                               4.25376165802e-07, -1.09855678075e-10, -4.78884998982e-14,
                               -27721.94049, -9.301434639]}})
    # --- T_mid None / scalar for NASA-9
    mk(cls='Nasa9', ctor='from_data', src='zero', T_mid_mode='None', nseg=1)
    mk(cls='Nasa9', ctor='from_data', src='statmech_gas', T_mid_mode='None', nseg=1)
    mk(cls='Nasa9', ctor='from_data', src='poly', T_mid_mode='scalar', nseg=2)
    mk(cls='Nasa9', ctor='from_model', src='statmech_ads', T_mid_mode='None', nseg=2, fit_T_mid=False)
    mk(cls='Nasa9', ctor='from_model', src='statmech_gas', T_mid_mode='scalar', nseg=2, fit_T_mid=False)
    mk(cls='Nasa9', ctor='from_model', src='statmech_gas', T_mid_mode='None', nseg=1, fit_T_mid=True)
    mk(cls='Nasa9', ctor='from_model', src='statmech_ads', T_mid_mode='None', nseg=2, fit_T_mid=True, n_T=15)
    mk(cls='Nasa9', ctor='from_model', src='statmech_gas', T_mid_mode='scalar', nseg=2, fit_T_mid=True, n_T=15)
    mk(cls='Nasa9', ctor='from_model', src='poly', T_mid_mode='list', nseg=3, fit_T_mid=True, n_T=15)
    # --- every class x constructor x source, both sides of T_mid, on T_mid, T_low, T_high
    for cls in CLASSES3:
        for ctor in ('from_data', 'from_model'):
            for src in SRC_KINDS:
                kw = dict(cls=cls, ctor=ctor, src=src)
                if cls == 'Nasa9':
                    kw.update(T_mid_mode='list', fit_T_mid=False)
                mk(**kw)
    for src in ('statmech_gas', 'statmech_ads', 'poly', 'const', 'zero'):
        for tm in ('first', 'break', 'last'):
            mk(cls='Nasa', ctor='from_data', src=src, T_mid_mode='scalar', tref_mode=tm)
    for tm in ('low', 'high', 'mid', 'grid'):
        mk(cls='Nasa', ctor='from_data', src='statmech_gas', T_mid_mode='None', tref_mode=tm)
        mk(cls='Nasa', ctor='from_data', src='statmech_ads', T_mid_mode='list', tref_mode=tm, shuffle=True)
        mk(cls='Shomate', ctor='from_data', src='statmech_gas', tref_mode=tm, shuffle=(tm == 'low'))
    for nseg in (1, 2, 3):
        for tm in ('first', 'break', 'low'):
            mk(cls='Nasa9', ctor='from_data', src='statmech_gas' if nseg != 2 else 'statmech_ads',
               nseg=nseg, T_mid_mode='list', tref_mode=tm if nseg > 1 else 'any', shuffle=(tm == 'break'))
        mk(cls='Nasa9', ctor='from_model', src='statmech_gas', nseg=nseg, T_mid_mode='list', fit_T_mid=False)
        mk(cls='Nasa9', ctor='from_data', src='poly', nseg=nseg, T_mid_mode='list', tref_mode='break'
           if nseg > 1 else 'any')
    # --- windows and point counts at the limits of the quantifier
    for cls in CLASSES3:
        kw = dict(T_mid_mode='list', fit_T_mid=False) if cls == 'Nasa9' else {}
        mk(cls=cls, ctor='from_model', src='statmech_gas', window='full', n_T=200, **kw)
        mk(cls=cls, ctor='from_data', src='statmech_ads', window='w100', n_T=15 if cls != 'Nasa9' else 27,
           nseg=1 if cls == 'Nasa9' else None, **kw)
        mk(cls=cls, ctor='from_data', src='poly', window='full', n_T=200, shuffle=True, **kw)
        mk(cls=cls, ctor='from_model', src='poly', window='w100', n_T=15, **kw)
    mk(cls='Nasa9', ctor='from_data', src='statmech_gas', window='any', n_T=15, nseg=1, T_mid_mode='list')
    # --- every Shomate unit, both constructors
    for i, u in enumerate(UNITS):
        mk(cls='Shomate', ctor='from_data', src='statmech_gas' if i % 2 else 'poly', units=u,
           tref_mode='any')
        mk(cls='Shomate', ctor='from_model', src='statmech_ads' if i % 2 else 'statmech_gas', units=u)
    # --- explicit references that are exactly 0.0 / -0.0 / whole numbers (non-zero Cp), every
    #     class that takes references, T_ref on either side of the break
    for cls in CLASSES3:
        kw = dict(T_mid_mode='list') if cls == 'Nasa9' else dict(T_mid_mode='scalar') if cls == 'Nasa' else {}
        for i, rm in enumerate(REF_MODES):
            mk(cls=cls, ctor='from_data', src='statmech_gas' if i % 2 else 'statmech_ads', ref_mode=rm,
               tref_mode='first' if i % 2 else 'last', nseg=2 if cls == 'Nasa9' else None, **kw)
            mk(cls=cls, ctor='from_data', src='poly' if i % 2 else 'const', ref_mode=rm,
               tref_mode='last' if i % 2 else 'any', nseg=3 if cls == 'Nasa9' else None, **kw)
    mk(cls='Nasa', ctor='from_data', src='statmech_gas', T_mid_mode='None', ref_mode='both=0')
    mk(cls='Nasa', ctor='from_data', src='statmech_ads', T_mid_mode='list', ref_mode='H=0', tref_mode='break')
    mk(cls='Nasa9', ctor='from_data', src='statmech_gas', T_mid_mode='list', nseg=1, ref_mode='both=0')
    # --- T_ref exactly on T_low, T_high and every interior break, smooth sources, wide windows
    for src in ('statmech_gas', 'statmech_ads'):
        for win in ('full', 'any'):
            for tm in ('low', 'high', 'break0'):
                mk(cls='Nasa', ctor='from_data', src=src, T_mid_mode='scalar', tref_mode=tm, window=win)
                mk(cls='Nasa9', ctor='from_data', src=src, T_mid_mode='list', nseg=2, tref_mode=tm, window=win)
            for tm in ('low', 'high', 'break0', 'break1'):
                mk(cls='Nasa9', ctor='from_data', src=src, T_mid_mode='list', nseg=3, tref_mode=tm, window=win)
            for tm in ('low', 'high'):
                mk(cls='Nasa9', ctor='from_data', src=src, T_mid_mode='list', nseg=1, tref_mode=tm, window=win)
                mk(cls='Shomate', ctor='from_data', src=src, tref_mode=tm, window=win)
            mk(cls='Nasa', ctor='from_model', src=src, T_mid_mode='scalar', T_mid_at_mid=True, window=win)
            for nseg in (1, 2, 3):
                mk(cls='Nasa9', ctor='from_model', src=src, T_mid_mode='list', nseg=nseg, fit_T_mid=False,
                   window=win)
    mk(cls='Nasa9', ctor='from_data', src='statmech_gas', T_mid_mode='scalar', nseg=2, tref_mode='high')
    mk(cls='Nasa9', ctor='from_data', src='statmech_ads', T_mid_mode='scalar', nseg=2, tref_mode='break0')
    # --- strictly descending and shuffled temperature arrays, every class
    for cls in CLASSES3:
        for src in ('statmech_gas', 'poly', 'const'):
            kw = dict(T_mid_mode='list') if cls == 'Nasa9' else {}
            mk(cls=cls, ctor='from_data', src=src, order='desc', shuffle=False, **kw)
        mk(cls=cls, ctor='from_data', src='statmech_ads', shuffle=True,
           **(dict(T_mid_mode='list') if cls != 'Shomate' else {}))
    mk(cls='Nasa', ctor='from_data', src='statmech_gas', T_mid_mode='None', order='desc', shuffle=False)
    mk(cls='Nasa', ctor='from_data', src='zero', T_mid_mode='scalar', order='desc', shuffle=False)
    mk(cls='Nasa9', ctor='from_data', src='zero', T_mid_mode='list', nseg=2, order='desc', shuffle=False)
    mk(cls='Shomate', ctor='from_data', src='zero', order='desc', shuffle=False)
    # --- whole-kelvin integer grids / integer bounds / integer T_ref, every class
    for cls in CLASSES3:
        kw = dict(T_mid_mode='list', fit_T_mid=False) if cls == 'Nasa9' else {}
        for src in ('statmech_gas', 'poly'):
            mk(cls=cls, ctor='from_data', src=src, tgrid='int', tref_mode='grid', window='full', **kw)
            mk(cls=cls, ctor='from_data', src=src, tgrid='int', tref_mode='low', **kw)
            mk(cls=cls, ctor='from_model', src=src, tgrid='int', **kw)
        mk(cls=cls, ctor='from_data', src='statmech_ads', tgrid='int', order='desc', shuffle=False,
           tref_mode='high', **kw)
        mk(cls=cls, ctor='from_data', src='const', tgrid='int', shuffle=True, tref_mode='grid',
           **(dict(kw, T_mid_mode='list') if cls != 'Shomate' else {}))
    mk(cls='Nasa', ctor='from_data', src='statmech_gas', tgrid='int', T_mid_mode='None', tref_mode='grid')
    mk(cls='Nasa', ctor='from_data', src='statmech_ads', tgrid='int', T_mid_mode='scalar', tref_mode='break0')
    # --- histories: same data / same model fitted again with the same or another reference
    for cls in CLASSES3:
        kw = dict(T_mid_mode='list', fit_T_mid=False) if cls == 'Nasa9' else {}
        for src in ('statmech_gas', 'poly'):
            for h in (['repeat'], ['new_ref'], ['T_ref_sweep'], ['T_ref_sweep', 'new_ref', 'repeat']):
                mk(cls=cls, ctor='from_data', src=src, history=h, **kw)
            for h in (['repeat'], ['other_window'], ['other_window', 'repeat']):
                mk(cls=cls, ctor='from_model', src=src, history=h, window='any' if h == ['repeat'] else 'full',
                   **kw)
    for tm in ('None', 'scalar', 'list'):
        mk(cls='Nasa', ctor='from_data', src='statmech_ads', T_mid_mode=tm, history=['T_ref_sweep', 'new_ref'],
           tref_mode='first' if tm == 'scalar' else 'any')
        mk(cls='Nasa', ctor='from_model', src='statmech_gas', T_mid_mode=tm, history=['repeat'])
    mk(cls='Nasa', ctor='from_data', src='zero', T_mid_mode='scalar', history=['new_ref'])
    mk(cls='Nasa', ctor='from_data', src='const', T_mid_mode='None', history=['new_ref', 'T_ref_sweep'],
       tgrid='int')
    # --- NASA-7 candidate sequences with exact duplicates, as list / tuple / ndarray, smooth sources
    for ctor in ('from_data', 'from_model'):
        for tt in ('list', 'tuple', 'ndarray'):
            for src in ('statmech_gas', 'statmech_ads'):
                for win in ('full', 'any'):
                    mk(cls='Nasa', ctor=ctor, src=src, T_mid_mode='list', tmid_type=tt, tmid_dups=True,
                       window=win, n_T=60 if win == 'full' else None)
            mk(cls='Nasa', ctor=ctor, src='statmech_gas', T_mid_mode='list', tmid_type=tt, tmid_dups=False)
            mk(cls='Nasa', ctor=ctor, src='poly', T_mid_mode='list', tmid_type=tt, tmid_dups=True)
    # --- small but non-zero Cp/R: every Shomate unit, both constructors, both kinds of source
    for i, u in enumerate(UNITS):
        mk(cls='Shomate', ctor='from_data' if i % 2 else 'from_model', src='statmech_ads', small=True, units=u)
        mk(cls='Shomate', ctor='from_model' if i % 2 else 'from_data', src='poly', small=True, units=u)
    for u in ('Eh/K', 'Ha/K', 'eV/K', 'm3 bar/mol/K'):
        for ctor in ('from_data', 'from_model'):
            mk(cls='Shomate', ctor=ctor, src='statmech_ads', small=True, units=u)
    for cls in ('Nasa', 'Nasa9'):
        kw = dict(T_mid_mode='list', fit_T_mid=False) if cls == 'Nasa9' else {}
        for ctor in ('from_data', 'from_model'):
            for src in ('statmech_ads', 'poly'):
                mk(cls=cls, ctor=ctor, src=src, small=True, **kw)
                mk(cls=cls, ctor=ctor, src=src, small=True, **kw)
    return D


def generate(rng, tier):
    return make_case(rng, tier=tier)


# ================================================================= probes
_ST = {'ctx': None, 'absent': set(), 'from_data': None, 'zero': None, 'n_from_data': 0}


def _reset_case():
    _ST['from_data'] = None
    _ST['zero'] = None
    _ST['n_from_data'] = 0


def _all_zero(x):
    import numpy as np
    try:
        if isinstance(x, (list, tuple)):
            return all(_all_zero(v) for v in x)
        return bool(np.all(np.asarray(x, dtype=float) == 0.0))
    except Exception:
        return False


def install_probes(pr, ctx):
    _ST['ctx'] = ctx
    _ST['absent'] = set()

    def nasa():
        import pmutt.empirical.nasa as m
        return m

    def shom():
        import pmutt.empirical.shomate as m
        return m

    def watch(getter, label, **kw):
        if not pr.watch(getter, label, **kw):
            _ST['absent'].add(label)

    def snap_from_data(label, loc):
        import numpy as np
        _ST['n_from_data'] += 1
        try:
            _ST['from_data'] = {'T_ref': float(loc['T_ref']), 'HoRT_ref': _f(loc['HoRT_ref']),
                                'SoR_ref': _f(loc['SoR_ref']),
                                'T': np.array(loc['T'], dtype=float).copy(),
                                'CpoR': np.array(loc['CpoR'], dtype=float).copy()}
        except Exception as e:
            _ST['from_data'] = {'error': repr(e)}
        return None

    def branch_T(prefix):
        def cb(label, loc):
            try:
                ctx.branch('%s:%s' % (prefix, 'T_ref<=T_mid' if loc['T_ref'] <= loc['T_mid'] else 'T_ref>T_mid'))
            except Exception:
                pass
            return None
        return cb

    def branch9(label, loc):
        try:
            tm = list(loc['T_mid'])
            if not tm:
                ctx.branch('Nasa9._fit_HoRT9:single')
            elif loc['T_ref'] <= tm[0]:
                ctx.branch('Nasa9._fit_HoRT9:T_ref_in_first')
            else:
                ctx.branch('Nasa9._fit_HoRT9:T_ref_beyond_first')
        except Exception:
            pass
        return None

    def zero_ret(prefix, pick):
        def cb(label, ret, snap):
            z = _all_zero(pick(ret))
            _ST['zero'] = z
            ctx.branch('%s:%s' % (prefix, 'zeroCp' if z else 'fit'))
        return cb

    for cname, mod in (('Nasa', nasa), ('Nasa9', nasa), ('Shomate', shom)):
        watch(lambda cname=cname, mod=mod: getattr(mod(), cname).from_data, '%s.from_data' % cname,
              on_call=snap_from_data)
        watch(lambda cname=cname, mod=mod: getattr(mod(), cname).from_model, '%s.from_model' % cname)
    watch(lambda: nasa()._fit_CpoR, 'nasa._fit_CpoR', on_ret=zero_ret('Nasa._fit_CpoR', lambda r: [r[0], r[1]]))
    watch(lambda: nasa()._get_CpoR_MSE, 'nasa._get_CpoR_MSE')
    watch(lambda: nasa()._fit_HoRT, 'nasa._fit_HoRT', on_call=branch_T('Nasa._fit_HoRT'))
    watch(lambda: nasa()._fit_SoR, 'nasa._fit_SoR', on_call=branch_T('Nasa._fit_SoR'))
    watch(lambda: nasa()._fit_CpoR9, 'nasa._fit_CpoR9', on_ret=zero_ret('Nasa9._fit_CpoR9', lambda r: list(r)))
    watch(lambda: nasa()._fit_HoRT9, 'nasa._fit_HoRT9', on_call=branch9)
    watch(lambda: nasa()._fit_SoR9, 'nasa._fit_SoR9')
    watch(lambda: nasa()._calc_T_mid_mse_nasa9, 'nasa._calc_T_mid_mse_nasa9')
    watch(lambda: shom()._fit_CpoR, 'shomate._fit_CpoR', on_ret=zero_ret('Shomate._fit_CpoR', lambda r: r))
    watch(lambda: shom()._fit_HoRT, 'shomate._fit_HoRT')
    watch(lambda: shom()._fit_SoR, 'shomate._fit_SoR')


# ================================================================= driver + oracles
def _construct(spec, src, T, Cp, ref):
    """returns a zero-argument callable that runs the real constructor"""
    import numpy as np
    cls, ctor = spec['cls'], spec['ctor']
    from pmutt.empirical.nasa import Nasa, Nasa9
    from pmutt.empirical.shomate import Shomate
    tm = spec.get('T_mid')
    if isinstance(tm, list):
        tm = list(tm)
        if spec.get('T_mid_type') == 'tuple':
            tm = tuple(tm)
        elif spec.get('T_mid_type') == 'ndarray':
            tm = np.array(tm, dtype=float)
    if ctor == 'from_data':
        kw = dict(name='fit', T=T, CpoR=Cp, T_ref=int(ref[0]) if spec.get('T_ref_int') else ref[0],
                  HoRT_ref=ref[1], SoR_ref=ref[2], elements={'H': 2})
        if cls == 'Nasa':
            return lambda: Nasa.from_data(T_mid=tm, **kw)
        if cls == 'Nasa9':
            return lambda: Nasa9.from_data(T_mid=tm, **kw)
        return lambda: Shomate.from_data(units=spec['units'], **kw)
    model = src.model()
    kw = dict(name='fit', model=model, T_low=spec['T_low'], T_high=spec['T_high'], n_T=spec['n_T'])
    if spec.get('int_bounds'):
        kw.update(T_low=int(spec['T_low']), T_high=int(spec['T_high']))
    if cls == 'Nasa':
        return lambda: Nasa.from_model(T_mid=tm, **kw)
    if cls == 'Nasa9':
        return lambda: Nasa9.from_model(T_mid=tm, n_interval=spec['n_interval'],
                                        fit_T_mid=spec['fit_T_mid'], **kw)
    return lambda: Shomate.from_model(units=spec['units'], **kw)


def run_case(spec, ctx):
    """first fit + (optionally) a history of further fits of the same data / model in the same
    process; every fit goes through A1-A6, A7 judges the history"""
    import numpy as np
    first = {k: v for k, v in spec.items() if k != 'history'}
    cls, ctor = spec['cls'], spec['ctor']
    src = Source(first)
    a = _one_fit(first, ctx, src)
    steps = spec.get('history') or []
    if not steps:
        return
    snap = _snapshot(cls, a) if a is not None else None
    for st in steps:
        kind = st['kind']
        ctx.cls('%s.%s:history:%s' % (cls, ctor, kind))
        s2 = dict(first)
        for k in ('T_ref', 'ref', 'T_low', 'T_high', 'T_mid', 'fit_T_mid'):
            if k in st:
                s2[k] = st[k]
        if 'T_ref' in st:
            s2.pop('T_ref_int', None)
        if 'T_low' in st:
            s2.pop('int_bounds', None)
        b = _one_fit(s2, ctx, src, hist=kind)
        if a is None or b is None:
            continue
        m = {'class': cls, 'ctor': ctor, 'hist': kind}
        # no coefficient array may be shared between two fitted objects ...
        shared = any(np.shares_memory(x, y) for x in _arrays(cls, a) for y in _arrays(cls, b))
        ctx.check('A7', not shared, dict(m, what='coefficient array shared between fits'))
        # ... so editing the later object in place leaves the first one alone
        saved = [np.array(y, copy=True) for y in _arrays(cls, b)]
        try:
            for y in _arrays(cls, b):
                y += 1.0
            ctx.check('A7', _snapshot(cls, a) == snap, dict(m, what='first fit changed by editing a later fit'))
        finally:
            for y, sv in zip(_arrays(cls, b), saved):
                y[...] = sv
    if a is not None:
        # the first object is exactly what it was before the later fits ran
        ctx.check('A7', _snapshot(cls, a) == snap,
                  {'class': cls, 'ctor': ctor, 'hist': '+'.join(st['kind'] for st in steps),
                   'what': 'first fit changed by later fits'})


def _arrays(cls, obj):
    if cls == 'Nasa':
        return [obj.a_low, obj.a_high]
    if cls == 'Nasa9':
        return [n.a for n in obj.nasas]
    return [obj.a]


def _snapshot(cls, obj):
    """everything observable about a fitted object, as plain numbers"""
    edges, coefs = seg_coeffs(cls, obj)
    vals = []
    for f in (0.0, 0.31, 0.5, 0.77, 1.0):
        Tq = edges[0] + f * (edges[-1] - edges[0])
        for name in ('CpoR', 'HoRT', 'SoR'):
            try:
                vals.append(_f(getattr(obj, 'get_' + name)(T=Tq)))
            except Exception as e:
                vals.append(type(e).__name__)
    return (edges, coefs, vals)


def _one_fit(spec, ctx, src, hist=None):
    """one call of the real constructor judged by A1-A6; returns the fitted object (None when
    it could not be built or its window is malformed)"""
    import numpy as np
    _reset_case()
    cls, ctor = spec['cls'], spec['ctor']
    lo, hi, n_T = spec['T_low'], spec['T_high'], spec['n_T']
    kind = src.kind
    # ---------------- input classes
    ctx.cls('%s.%s' % (cls, ctor), '%s:src:%s' % (cls, kind))
    tm_spec = spec.get('T_mid')
    mode = 'na' if cls == 'Shomate' else ('None' if tm_spec is None else
                                          'list' if isinstance(tm_spec, list) else 'scalar')
    if cls != 'Shomate':
        ctx.cls('%s:T_mid:%s' % (cls, mode))
    if cls == 'Nasa9':
        ctx.cls('Nasa9:fit_T_mid:%s' % bool(spec.get('fit_T_mid')))
    if cls == 'Shomate':
        ctx.cls('Shomate:units:%s' % spec['units'])
    if lo == 100.0 and hi == 3000.0:
        ctx.cls('window:100-3000')
    if abs((hi - lo) - 100.0) < 1e-6:
        ctx.cls('window:width100')
    if n_T in (15, 200):
        ctx.cls('n_T:%d' % n_T)
    # ---------------- data
    if ctor == 'from_data':
        T = grid(spec)
        Cp = np.array([src.cp(float(t)) for t in T])
        shuffled = bool(spec['grid'].get('shuffle'))
        if shuffled and bool(np.all(np.abs(Cp) <= 1e-8)):
            # zero-Cp data are only handed over in ascending order (ASSUMPTIONS): the degenerate
            # path of Nasa takes T_mid by position
            order = np.argsort(T)
            T, Cp, shuffled = T[order], Cp[order], False
            ctx.extra['degenerate_data_sorted_before_use'] = \
                ctx.extra.get('degenerate_data_sorted_before_use', 0) + 1
        descending = spec['grid'].get('order') == 'desc' and not spec['grid'].get('shuffle')
        ctx.cls('grid:unsorted' if (shuffled or descending) else 'grid:sorted')
        ctx.cls('%s:grid:%s' % (cls, 'shuffled' if shuffled else 'descending' if descending else 'ascending'))
        T_ref = float(spec['T_ref'])
        ref = (T_ref, src.H(T_ref), src.S(T_ref))
        if spec.get('ref'):
            # references given directly (exact zeros, negative zero, Python ints are passed as is)
            rs = spec['ref']
            ref = (T_ref, ref[1] if rs.get('HoRT') is None else rs['HoRT'],
                   ref[2] if rs.get('SoR') is None else rs['SoR'])
            if not bool(np.all(np.abs(Cp) <= 1e-8)):
                ctx.cls('%s:ref:%s' % (cls, rs.get('mode', 'given')))
    else:
        T = Cp = ref = None
    mech0 = {'class': cls, 'ctor': ctor, 'src': kind, 'T_mid': mode}
    if hist is not None:
        mech0['hist'] = hist                  # a later fit of a history
    if ctor == 'from_data':
        isint = np.issubdtype(np.asarray(T).dtype, np.integer)
        ctx.cls('%s:fit_grid:%s' % (cls, 'int' if isint else 'float'))
        if spec.get('T_ref_int'):
            ctx.cls('%s.from_data:T_ref:int' % cls)
    elif spec.get('int_bounds'):
        ctx.cls('%s.from_model:int_bounds' % cls)
    if spec.get('ref'):
        mech0['ref'] = spec['ref'].get('mode', 'given')
    if cls == 'Shomate':
        mech0['units'] = spec['units']
        mech0['win'] = window_class(lo, hi)
    if cls == 'Nasa9':
        mech0['fit_T_mid'] = bool(spec.get('fit_T_mid'))
    # ---------------- the fit (real API)
    build = _construct(spec, src, T, Cp, ref)
    try:
        obj = build()
    except Exception as e:                                   # no value reported: violates A1
        m = dict(mech0, step='construct', exc=type(e).__name__,
                 path='zeroCp' if _ST['zero'] else ('fit' if _ST['zero'] is False else 'unknown'))
        if cls == 'Nasa9':
            m['nseg'] = spec.get('n_interval')
        ctx.fail('A1', m, message=str(e)[:300], where=core._tb_where(e))
        if _ST['zero'] or kind == 'zero':
            ctx.nontrivial()
        return None
    # ---------------- what was fitted (grid, reference) -- for from_model from the probe
    snap = _ST['from_data']
    if ctor == 'from_model':
        if snap and 'error' not in snap:
            T, Cp = snap['T'], snap['CpoR']
            ref = (snap['T_ref'], snap['HoRT_ref'], snap['SoR_ref'])
            T_ref = ref[0]
            # the reference must really be the model's values at a temperature of the window
            ok = lo - 1e-9 <= T_ref <= hi + 1e-9
            ctx.check('A1', ok, dict(mech0, step='T_ref_in_window'), T_ref=T_ref, window=[lo, hi])
            if ok:
                ctx.close('A1', [ref[1], ref[2]], [src.H(T_ref), src.S(T_ref)], 1e-10,
                          dict(mech0, step='reference_sampled_from_model'), T_ref=T_ref)
        else:
            T_ref = lo if cls == 'Nasa9' else 0.5 * (lo + hi)
            ref = (T_ref, src.H(T_ref), src.S(T_ref))
            T = None
    edges, coefs = seg_coeffs(cls, obj)
    breaks = edges[1:-1]
    nseg = len(coefs)
    if T is None:                       # probe absent: rebuild from_model's grid
        if cls == 'Nasa9':
            T = np.concatenate([np.linspace(a, b, n_T) for a, b in zip(edges, edges[1:])])
        else:
            T = np.linspace(lo, hi, n_T)
        Cp = np.array([src.cp(float(t)) for t in T])
    degenerate = bool(np.all(np.abs(Cp) <= 1e-8))
    zero_path = _ST['zero'] if _ST['zero'] is not None else degenerate
    tpos = tref_position(breaks, T_ref)
    mech = dict(mech0, tref_pos=tpos, path='zeroCp' if zero_path else 'fit')
    acp = np.abs(np.asarray(Cp, dtype=float))
    if bool(np.all((acp >= 1e-12) & (acp <= 1e-2))):
        mech['mag'] = 'small'                # small but non-zero heat capacity everywhere
        ctx.cls('%s:small_Cp:src:%s' % (cls, 'poly' if kind == 'poly' else 'statmech'),
                '%s.%s:small_Cp' % (cls, ctor))
        if cls == 'Shomate':
            ctx.cls('Shomate:small_Cp:%s' % spec['units'])
    if cls == 'Nasa' and mode == 'list':
        ctx.cls('Nasa.%s:T_mid:%s:%s' % (ctor, spec.get('T_mid_type', 'list'),
                                         'dups' if len(set(tm_spec)) < len(tm_spec) else 'nodups'))
    if cls == 'Nasa9':
        mech['nseg'] = nseg
        ctx.cls('Nasa9:nseg:%d' % nseg)
    ctx.cls('%s:tref:%s' % (cls, tpos))
    if kind in ('statmech_gas', 'statmech_ads') and not zero_path:
        # exact coincidences of T_ref with an edge, recorded where anchoring the wrong interval
        # is visible (smooth non-polynomial source)
        for i, e in enumerate(edges):
            if T_ref == e:
                at = 'T_low' if i == 0 else 'T_high' if i == len(edges) - 1 else 'break%d' % (i - 1)
                ctx.cls('%s.%s:nseg%d:tref@%s' % (cls, ctor, nseg, at))
    mid = 0.5 * (lo + hi)
    ctx.cls('tref:T_low' if T_ref == lo else 'tref:T_high' if T_ref == hi else
            'tref:midpoint' if abs(T_ref - mid) < 1e-9 else 'tref:interior')
    ctx.nontrivial(zero_path or (abs(T_ref - mid) > 1e-9))
    # branch bookkeeping when the private functions no longer exist
    if cls == 'Nasa':
        for fn in ('_fit_HoRT', '_fit_SoR'):
            if 'nasa.' + fn in _ST['absent']:
                ctx.branch('Nasa.%s:%s' % (fn, 'T_ref<=T_mid' if T_ref <= breaks[0] else 'T_ref>T_mid'))
    if cls == 'Nasa9' and 'nasa._fit_HoRT9' in _ST['absent'] and breaks:
        ctx.branch('Nasa9._fit_HoRT9:' + ('T_ref_in_first' if T_ref <= breaks[0] else 'T_ref_beyond_first'))
    pname = {'Nasa': 'nasa._fit_CpoR', 'Nasa9': 'nasa._fit_CpoR9', 'Shomate': 'shomate._fit_CpoR'}[cls]
    if pname in _ST['absent']:
        ctx.branch('%s.%s:%s' % (cls, pname.split('.')[1], 'zeroCp' if degenerate else 'fit'))

    def g(name, Tq, oracle, m):
        v = ctx.call(oracle, dict(m, q=name), getattr(obj, 'get_' + name), T=float(Tq))
        return v if v is core.NOVALUE else _f(v)

    # ---------------- A3 bounds and breaks
    m3 = dict(mech)
    span_ok = ctx.close('A3', [float(obj.T_low), float(obj.T_high)], [float(np.min(T)), float(np.max(T))],
                        TOL_A3, dict(m3, what='T_low/T_high=span(T)'))
    if ctor == 'from_model':
        ctx.close('A3', [float(obj.T_low), float(obj.T_high)], [lo, hi], TOL_A3,
                  dict(m3, what='T_low/T_high=requested'))
    ctx.check('A3', all(edges[i] < edges[i + 1] for i in range(len(edges) - 1)),
              dict(m3, what='breaks strictly inside, ascending'), edges=edges)
    if cls == 'Nasa9':
        ns = list(obj.nasas)
        ctx.check('A3', all(float(ns[i].T_high) == float(ns[i + 1].T_low) for i in range(len(ns) - 1))
                  and all(float(n.T_low) < float(n.T_high) for n in ns),
                  dict(m3, what='segments contiguous'), segments=[[n.T_low, n.T_high] for n in ns])
        want_n = len(tm_spec) + 1 if mode == 'list' else 2 if mode == 'scalar' else \
            spec['n_interval'] if ctor == 'from_model' else None     # from_data has no n_interval
        if want_n is not None:
            ctx.check('A3', nseg == want_n, dict(m3, what='segment count'), got=nseg, want=want_n)
        if mode == 'list' and not (ctor == 'from_model' and spec.get('fit_T_mid')):
            ctx.close('A3', breaks, list(tm_spec), TOL_A3, dict(m3, what='breaks=T_mid given'))
    if cls == 'Shomate':
        ctx.check('A3', str(obj.units) == spec['units'], dict(m3, what='units'), got=str(obj.units))
    if cls == 'Nasa' and not zero_path:
        # telemetry only (the statement does not say which candidate wins)
        cands = [tm_spec] if mode == 'scalar' else (tm_spec if mode == 'list' else list(np.sort(T)[5:-5]))
        ctx.extra['nasa_T_mid_not_a_candidate'] = ctx.extra.get('nasa_T_mid_not_a_candidate', 0) + \
            (0 if any(abs(breaks[0] - c) < 1e-9 for c in cands) else 1)
    if not span_ok or not all(edges[i] < edges[i + 1] for i in range(len(edges) - 1)):
        return None                 # the remaining oracles presuppose a well-formed window
    # ---------------- A1 anchor
    h = g('HoRT', T_ref, 'A1', mech)
    s = g('SoR', T_ref, 'A1', mech)
    if h is not core.NOVALUE:
        ctx.close('A1', h, ref[1], TOL_A1, dict(mech, q='HoRT'), T_ref=T_ref, edges=edges)
    if s is not core.NOVALUE:
        ctx.close('A1', s, ref[2], TOL_A1, dict(mech, q='SoR'), T_ref=T_ref, edges=edges)
    # ---------------- A2 continuity at every interior break (reference basis on coefficients)
    if cls != 'Shomate':
        for i, Tb in enumerate(breaks):
            pos = 'break%d' % i if cls == 'Nasa9' else 'T_mid'
            ctx.close('A2', ref_H(cls, coefs[i], Tb), ref_H(cls, coefs[i + 1], Tb), TOL_A2,
                      dict(mech, q='HoRT'), at=pos, T_break=Tb)
            ctx.close('A2', ref_S(cls, coefs[i], Tb), ref_S(cls, coefs[i + 1], Tb), TOL_A2,
                      dict(mech, q='SoR'), at=pos, T_break=Tb)
    # ---------------- A4 same-family / constant / zero data reproduced
    if kind in ('poly', 'const', 'zero'):
        if kind == 'poly':
            # the source polynomial with its integration constants moved onto the reference
            dH = (ref[1] - src.H(T_ref)) * T_ref
            dS = ref[2] - src.S(T_ref)
            want = lambda Tq: (src.cp(Tq), src.H(Tq) + dH / Tq, src.S(Tq) + dS)
        else:
            c0 = float(Cp[0])
            if float(np.max(np.abs(Cp - c0))) > 1e-9:
                raise core.HarnessError('constant-Cp source is not constant')
            want = lambda Tq: (c0, (T_ref * ref[1] + c0 * (Tq - T_ref)) / Tq,
                               ref[2] + c0 * math.log(Tq / T_ref))
        r = random.Random(core.canon(spec))
        pts = [lo + (hi - lo) * (i + r.random()) / 50.0 for i in range(50)]
        got = {'CpoR': [], 'HoRT': [], 'SoR': []}
        exp = {'CpoR': [], 'HoRT': [], 'SoR': []}
        bad = False
        for Tq in pts:
            w = want(Tq)
            for name, wv in zip(('CpoR', 'HoRT', 'SoR'), w):
                v = g(name, Tq, 'A4', mech)
                if v is core.NOVALUE:
                    bad = True
                    break
                got[name].append(v)
                exp[name].append(wv)
            if bad:
                break
        if not bad:
            for name in ('CpoR', 'HoRT', 'SoR'):
                scale = None
                if name == 'CpoR':
                    # relative to the size of the heat capacity on the window; data that are all
                    # below 1e-8 may be treated as zero (absolute allowance 2e-8 = 1e-6 * 2e-2)
                    gq, wq = np.abs(np.array(got[name])), np.abs(np.array(exp[name]))
                    scale = np.maximum(np.maximum(gq, wq), max(float(np.max(wq)), 2e-2))
                ctx.close('A4', got[name], exp[name], precision(cls, lo, hi)[0], dict(mech, q=name),
                          scale=scale, edges=edges)
    # ---------------- A5 smooth sources
    if kind in ('statmech_gas', 'statmech_ads'):
        _a5(ctx, spec, obj, src, cls, mech, T, Cp, edges, T_ref, g)
    # ---------------- A6 typing of the temperatures
    _a6(ctx, obj, cls, mech, edges, T if ctor == 'from_data' else None)
    return obj


def _a6(ctx, obj, cls, mech, edges, T_fit):
    """the getters of the fitted object give, element by element, the float-scalar values when the
    temperatures come as Python / numpy ints or in float / int containers; for from_data also on the
    very array the fit was made from"""
    import numpy as np
    a, b = int(math.ceil(edges[0])), int(math.floor(edges[-1]))
    n = min(9, b - a + 1)
    if n < 2:
        return
    step = (b - a) // (n - 1)
    ints = [a + k * step for k in range(n)]
    ints += [int(e) for e in edges[1:-1] if e == math.floor(e) and int(e) not in ints]
    rng_ = range(a, a + step * (n - 1) + 1, step)
    conts = {'float_ndarray': lambda: np.array(ints, dtype=float),
             'int_ndarray': lambda: np.array(ints, dtype=np.int64),
             'int_list': lambda: [int(t) for t in ints], 'float_list': lambda: [float(t) for t in ints],
             'int_tuple': lambda: tuple(int(t) for t in ints), 'range': lambda: rng_}
    for name in ('CpoR', 'HoRT', 'SoR'):
        getter = getattr(obj, 'get_' + name)
        m = {'class': cls, 'ctor': mech.get('ctor'), 'q': name}     # typing does not depend on the rest
        try:
            ref = {t: _f(getter(T=float(t))) for t in set(ints) | set(rng_)}
        except Exception:
            return                           # float scalars are judged by A1-A5
        for ttype, conv in (('int', int), ('np.int64', np.int64)):
            ctx.cls('%s:eval:%s' % (cls, ttype))
            got = []
            for t in ints:
                v = ctx.call('A6', dict(m, ttype=ttype), getter, T=conv(t))
                if v is core.NOVALUE:
                    break
                got.append(_f(v))
            else:
                ctx.close('A6', got, [ref[t] for t in ints], 1e-12, dict(m, ttype=ttype), T=ints)
        for ttype, mk in conts.items():
            ctx.cls('%s:eval:%s' % (cls, ttype))
            c = mk()
            v = ctx.call('A6', dict(m, ttype=ttype), getter, T=c)
            if v is core.NOVALUE:
                continue
            want = [ref[t] for t in (rng_ if ttype == 'range' else ints)]
            try:
                arr = np.asarray(v, dtype=float)
            except Exception:
                arr = np.zeros(0)
            if not ctx.check('A6', arr.shape == (len(want),), dict(m, ttype=ttype, what='shape'),
                             shape=list(arr.shape), n=len(want)):
                continue
            ctx.close('A6', arr, want, 1e-12, dict(m, ttype=ttype), T=list(c))
        # telemetry only: 32-bit integer arrays overflow in T**3, T**4 (not asserted)
        try:
            v32 = np.asarray(getter(T=np.array(ints, dtype=np.int32)), dtype=float)
            bad = v32.shape != (len(ints),) or ctx.err(v32, [ref[t] for t in ints]) > 1e-9
        except Exception:
            bad = True
        if bad:
            k = 'int32_ndarray_mismatch:%s' % cls
            ctx.extra[k] = ctx.extra.get(k, 0) + 1
        # the array the fit was made from (any order, int or float dtype)
        if T_fit is not None and (np.issubdtype(T_fit.dtype, np.integer) or len(T_fit) <= 60):
            ttype = 'fit_grid_int' if np.issubdtype(T_fit.dtype, np.integer) else 'fit_grid_float'
            v = ctx.call('A6', dict(m, ttype=ttype), getter, T=T_fit)
            if v is not core.NOVALUE:
                try:
                    arr = np.asarray(v, dtype=float)
                except Exception:
                    arr = np.zeros(0)
                if ctx.check('A6', arr.shape == (len(T_fit),), dict(m, ttype=ttype, what='shape'),
                             shape=list(arr.shape), n=len(T_fit)):
                    try:
                        want = [_f(getter(T=float(t))) for t in T_fit]
                    except Exception:
                        want = None
                    if want is not None:
                        ctx.close('A6', arr, want, 1e-12, dict(m, ttype=ttype))


def _a5(ctx, spec, obj, src, cls, mech, T, Cp, edges, T_ref, g):
    import numpy as np
    lo, hi = edges[0], edges[-1]
    breaks = edges[1:-1]
    # (i) quality on the fitting grid
    fitcp = []
    for t in T:
        v = g('CpoR', t, 'A5', dict(mech, part='quality'))
        if v is core.NOVALUE:
            return
        fitcp.append(v)
    fitcp = np.array(fitcp)
    d = fitcp - Cp
    fam = FAMILY[cls]
    # precision floor relative to the size of the data; 2e-8 absolute because data that are all
    # below 1e-8 may be treated as zero heat capacity
    floor = precision(cls, edges[0], edges[-1])[1] * float(np.max(np.abs(Cp))) + 2e-8
    try:
        res = [reffit.fit(fam, T, Cp, breaks).resid]
        if fam == 'nasa9':
            # second yardstick: least squares on Cp*T^2 (the weighting NASA-9 fits use)
            res.append(_weighted_yardstick(T, Cp, breaks))
    except reffit.Underdetermined as e:
        ctx.inconc('A5', 'reference fit underdetermined', msg=str(e))
        res = None
    if res is not None:
        Tarr = np.asarray(T, dtype=float)

        def judge(sel):
            rms = float(np.sqrt(np.mean(d[sel] ** 2)))
            mx = float(np.max(np.abs(d[sel])))
            ref_rms = max(float(np.sqrt(np.mean(r[sel] ** 2))) for r in res)
            ref_max = max(float(np.max(np.abs(r[sel]))) for r in res)
            return (rms, ref_rms, rms <= A5_RMS_FACTOR * ref_rms + floor,
                    mx, ref_max, mx <= max(A5_MAX_DCP, A5_RMS_FACTOR * ref_max))

        # data points that sit exactly on a break are left out: the fit assigned them to the
        # lower interval while the getters of Nasa evaluate them with the upper one
        everything = ~np.isin(Tarr, np.asarray(breaks, dtype=float))
        rms, ref_rms, ok_rms, mx, ref_max, ok_max = judge(everything)
        culprit = 'grid'
        if not (ok_rms and ok_max):
            # is the excess error confined to the lowest data temperature?
            inner = everything & (Tarr > Tarr.min())
            j = judge(inner)
            if j[2] and j[5]:
                culprit = 'T_low_point'
        m = dict(mech, part='quality', culprit=culprit)
        ctx.check('A5', ok_rms, dict(m, what='rms'), rms=rms, ref_rms=ref_rms, edges=edges,
                  dCp_at_T_low=float(d[int(np.argmin(Tarr))]))
        ctx.check('A5', ok_max, dict(m, what='max'), max_dCp=mx, ref_max=ref_max, edges=edges,
                  dCp_at_T_low=float(d[int(np.argmin(Tarr))]))
        ratio = rms / (A5_RMS_FACTOR * ref_rms + floor)
        if ok_rms:
            ctx.max_err['A5_quality_rms/limit'] = max(ctx.max_err.get('A5_quality_rms/limit', 0.0), ratio)
        if ok_max:
            ctx.max_err['A5_quality_max_dCp'] = max(ctx.max_err.get('A5_quality_max_dCp', 0.0), mx)
    # (ii) tracking identities in integral form, across breaks
    r = random.Random(core.canon(spec) + 'a5')
    pts = {lo, hi, T_ref}
    for a, b in zip(edges, edges[1:]):
        pts.add(a + (b - a) * r.uniform(0.02, 0.98))
        pts.add(a + (b - a) * r.uniform(0.02, 0.98))
    for b in breaks:
        pts.add(b)
    pts = sorted(p for p in pts if lo <= p <= hi)
    m = dict(mech, part='identity')
    tol_id = precision(cls, lo, hi)[2]
    dcp = lambda t: _f(obj.get_CpoR(T=float(t))) - src.cp(float(t))
    dcpT = lambda t: dcp(t) / t
    # cumulative integrals between consecutive points (each inside one segment)
    IH, IS, EH, ES = [0.0], [0.0], [0.0], [0.0]
    try:
        for a, b in zip(pts, pts[1:]):
            v, e = quad.integrate(dcp, a, b)
            IH.append(IH[-1] + v)
            EH.append(EH[-1] + e)
            v, e = quad.integrate(dcpT, a, b)
            IS.append(IS[-1] + v)
            ES.append(ES[-1] + e)
    except Exception as e:
        ctx.fail('A5', dict(m, q='CpoR', exc=type(e).__name__), message=str(e)[:300])
        return
    i0 = pts.index(T_ref)
    hf0 = g('HoRT', T_ref, 'A5', m)
    sf0 = g('SoR', T_ref, 'A5', m)
    if hf0 is core.NOVALUE or sf0 is core.NOVALUE:
        return
    hs0, ss0 = src.H(T_ref), src.S(T_ref)
    for i, Tq in enumerate(pts):
        if i == i0:
            continue
        hf = g('HoRT', Tq, 'A5', m)
        sf = g('SoR', Tq, 'A5', m)
        if hf is core.NOVALUE or sf is core.NOVALUE:
            continue
        hs, ss = src.H(Tq), src.S(Tq)
        where = 'same_segment' if not any(min(Tq, T_ref) < b < max(Tq, T_ref) for b in breaks) \
            else 'across_break'
        intH, errH = IH[i] - IH[i0], abs(EH[i] - EH[i0])
        intS, errS = IS[i] - IS[i0], abs(ES[i] - ES[i0])
        lhsH = Tq * (hf - hs) - T_ref * (hf0 - hs0)
        lhsS = (sf - ss) - (sf0 - ss0)
        scH = max(1.0, abs(intH)) + 1e-6 * (abs(Tq * hf) + abs(Tq * hs) + abs(T_ref * hf0) + abs(T_ref * hs0))
        scS = max(1.0, abs(intS)) + 1e-6 * (abs(sf) + abs(ss) + abs(sf0) + abs(ss0))
        if errH > 0.01 * tol_id * scH or errS > 0.01 * tol_id * scS:
            ctx.inconc('A5', 'quadrature error too large', errH=errH, errS=errS, T=Tq)
            continue
        ctx.close('A5', lhsH, intH, tol_id, dict(m, q='HoRT', where=where), scale=scH,
                  T=Tq, T_ref=T_ref, edges=edges)
        ctx.close('A5', lhsS, intS, tol_id, dict(m, q='SoR', where=where), scale=scS,
                  T=Tq, T_ref=T_ref, edges=edges)


def _weighted_yardstick(T, Cp, breaks):
    """independent least squares on Cp*T^2 (polynomial of degree 6 in x=T/T_scale); returns the
    residual on Cp at every data point"""
    import numpy as np
    T = np.asarray(T, float)
    Cp = np.asarray(Cp, float)
    lo, hi = float(T.min()), float(T.max())
    e = [lo] + sorted(breaks) + [hi]
    res = np.zeros_like(Cp)
    for k in range(len(e) - 1):
        mask = ((T >= e[0]) if k == 0 else (T > e[k])) & (T <= e[k + 1])
        if mask.sum() < 7:
            raise reffit.Underdetermined('segment %d' % k)
        x = T[mask] / hi
        A = np.column_stack([x ** p for p in range(7)])
        nrm = np.linalg.norm(A, axis=0)
        sol = np.linalg.lstsq(A / nrm, Cp[mask] * x ** 2, rcond=None)[0] / nrm
        res[mask] = (A @ sol) / x ** 2 - Cp[mask]
    return res

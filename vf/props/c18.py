"""C18  Identifier ranges and CTI line wrapping preserve their contents.

I1  expanding the returned range notation gives exactly the input id set (string form)
I2  list form and string form denote the same set
I3  ids that cannot be encoded (non-integer suffix, non-string id) raise TypeError/ValueError
I4  obj_to_cti keeps every token in order and respects the widths
"""
import re

from vf import core

ID = 'C18'
N = {'quick': 1000000, 'thorough': 4000000}
NT_RULE = ('id collections of 0-60 ids from 1-3 prefixes (plain, containing the delimiter, empty with / '
           'without a leading delimiter), suffixes 0-99999 zero-padded to 4 digits (as pMuTT writes them) or '
           'with other paddings, duplicates, any order, given as str or as objects with .id / .name, '
           'delimiters _ - . : ; token lists of 0-80 tokens of length 1-30 and widths 30-100.  non-trivial = '
           'id collection with >=2 prefixes or a gap or a duplicate, or a token list that wraps onto >=2 '
           'lines; distinct = distinct canonical JSON')
REQUIRED_ORACLES = ['I1', 'I2', 'I3', 'I4']
REQUIRED_CLASSES = ['ids:empty', 'ids:multi_prefix', 'ids:gap', 'ids:duplicate', 'ids:prefix_has_delim',
                    'ids:empty_prefix', 'ids:leading_delim', 'ids:pad_other', 'ids:as_id_attr', 'ids:as_name_attr', 'ids:as_equal_objs', 'ids:as_reaction',
                    'ids:as_surface_reaction', 'ids:as_surface_reaction_late_id', 'ids:value_equal_objects_distinct_ids',
                    'ids:bad_suffix', 'ids:non_str', 'ids:numbering_shared_pool', 'ids:same_number_other_padding', 'ids:numbering_suffix_in_prefix', 'wrap:single_line', 'wrap:multi_line', 'wrap:long_token', 'wrap:whitespace_char_in_token:multi_line',
                    'wrap:dict', 'wrap:list', 'wrap:str', 'wrap:tuple']
REQUIRED_PROBES = ['_get_omkm_range', 'obj_to_cti']
ASSUMPTIONS = ['range notation "<p><a> to <p><b>" denotes every id <p><k>, a<=k<=b, written with the width of '
               'the printed end points (how OpenMKM expands it)',
               'single-character delimiters; suffixes are non-negative decimal integers; set inputs to '
               'obj_to_cti are not generated (unordered)',
               'for an empty collection the list form may be [] or the string "[]"']


class _WithId:
    def __init__(self, v):
        self.id = v


class _WithName:
    def __init__(self, v):
        self.name = v


class _EqualById:
    """objects with an id that all compare (and hash) equal: the id is not part of their identity, as for
    pmutt.reaction.Reaction whose to_dict-based __eq__ does not look at .id"""
    def __init__(self, v):
        self.id = v

    def __eq__(self, other):
        return isinstance(other, _EqualById)

    def __hash__(self):
        return 17


_RXN_PARTS = {}


def _real_reaction(v, kind):
    """a real pMuTT reaction object carrying the identifier: the same elementary step entered several times
    (content equal by value), each object with its own id"""
    import numpy as np
    if not _RXN_PARTS:
        from pmutt.empirical.nasa import Nasa
        a = np.array([1., 0., 0., 0., 0., 0., 0.])
        mk = lambda n, el: Nasa(name=n, T_low=200., T_mid=500., T_high=1000., a_low=a.copy(), a_high=a.copy(),
                                elements=el, phase='G')
        _RXN_PARTS['A'], _RXN_PARTS['B'] = mk('A', {'H': 2}), mk('B', {'H': 1})
    A, B = _RXN_PARTS['A'], _RXN_PARTS['B']
    kw = dict(reactants=[A], reactants_stoich=[1.], products=[B], products_stoich=[2.])
    if kind == 'reaction':
        from pmutt.reaction import Reaction
        r = Reaction(**kw)
        r.id = v
        return r
    from pmutt.omkm.reaction import SurfaceReaction
    if kind == 'surface_reaction_late_id':
        r = SurfaceReaction(**kw)
        r.id = v
        return r
    return SurfaceReaction(id=v, **kw)


# ------------------------------------------------------------------ generator
def directed(tier):
    D = []
    ids = ['r_0001', 'r_0002', 'r_0003', 'r_0005', 'r_0008', 'r_0009', 'r_0010']
    D.append({'kind': 'ids', 'ids': ids, 'delim': '_', 'as': 'str'})
    D.append({'kind': 'ids', 'ids': [], 'delim': '_', 'as': 'str'})
    D.append({'kind': 'ids', 'ids': ['0001', '0002', '0004'], 'delim': '_', 'as': 'id'})
    D.append({'kind': 'ids', 'ids': ['r_7', 'r_8', 'r_10'], 'delim': '_', 'as': 'str'})            # short padding
    D.append({'kind': 'ids', 'ids': ['r_00012', 'r_00013'], 'delim': '_', 'as': 'str'})          # long padding
    D.append({'kind': 'ids', 'ids': ['_0001', '_0002'], 'delim': '_', 'as': 'name'})              # leading delimiter
    D.append({'kind': 'ids', 'ids': ['a_b_0001', 'a_b_0002', 'a_0001', 'r_0001', 'r_0001'], 'delim': '_', 'as': 'str'})
    D.append({'kind': 'ids', 'ids': ['r_12345', 'r_12346', 'r_99999', 'r_0000'], 'delim': '_', 'as': 'str'})
    D.append({'kind': 'ids', 'ids': ['gas_0001', 'gas_0002', 'gas_0003', 'surf_0004', 'surf_0005', 'surf_0006'], 'delim': '_', 'as': 'str'})
    D.append({'kind': 'ids', 'ids': ['ch4_4', 'ch4_5', 'bep_12_12', 'bep_12_13', 's_2_2'], 'delim': '_', 'as': 'str'})
    D.append({'kind': 'bad', 'ids': ['r_0001', 'r_abc'], 'delim': '_', 'as': 'str', 'why': 'bad_suffix'})
    D.append({'kind': 'bad', 'ids': ['r_0001', 5], 'delim': '_', 'as': 'str', 'why': 'non_str'})
    D.append({'kind': 'bad', 'ids': [7], 'delim': '_', 'as': 'id', 'why': 'non_str'})
    toks = ['tok%d' % i for i in range(40)]
    D.append({'kind': 'wrap', 'form': 'list', 'tokens': toks, 'line_len': 60, 'max_line_len': 80})
    D.append({'kind': 'wrap', 'form': 'str', 'tokens': ['H2O(S)', 'CO2'], 'line_len': 80, 'max_line_len': 80})
    D.append({'kind': 'wrap', 'form': 'str', 'tokens': [], 'line_len': 30, 'max_line_len': 30})
    D.append({'kind': 'wrap', 'form': 'tuple', 'tokens': ['x' * 30] * 5, 'line_len': 30, 'max_line_len': 30})
    D.append({'kind': 'wrap', 'form': 'dict', 'tokens': [['C', 2], ['H', 6], ['O', 1]], 'line_len': 30,
              'max_line_len': 100})
    # exactly at the single-line boundary: len == line_len - 2 and line_len - 3
    D.append({'kind': 'wrap', 'form': 'str', 'tokens': ['a' * 13, 'b' * 14], 'line_len': 30, 'max_line_len': 30})
    D.append({'kind': 'wrap', 'form': 'str', 'tokens': ['a' * 13, 'b' * 13], 'line_len': 30, 'max_line_len': 30})
    return D


_PREFIX_CHARS = 'abcdefgrstxyzRIB'


def _prefix(rng, delim):
    k = rng.choice(['plain', 'plain', 'has_delim', 'empty', 'leading_delim'])
    if k == 'plain':
        return ''.join(rng.choice(_PREFIX_CHARS) for _ in range(rng.randint(1, 5))) + delim
    if k == 'has_delim':
        return (''.join(rng.choice(_PREFIX_CHARS) for _ in range(rng.randint(1, 3))) + delim +
                ''.join(rng.choice(_PREFIX_CHARS) for _ in range(rng.randint(1, 3))) + delim)
    if k == 'empty':
        return ''
    return delim


def generate(rng, tier):
    r = rng.random()
    if r < 0.55:
        delim = rng.choice(['_', '_', '_', '-', '.', ':'])
        prefixes = []
        for _ in range(rng.randint(1, 3)):
            p = _prefix(rng, delim)
            if p not in prefixes:
                prefixes.append(p)
        pad = rng.choice(['4', '4', '4', '4', 'other'])
        n = rng.choice([0, 1, 2, 3, 5, 10, 20, 40, 60])
        ids = []
        numbering = rng.choice(['per_prefix', 'per_prefix', 'shared_pool', 'suffix_in_prefix'])
        if numbering == 'suffix_in_prefix':
            # prefixes that contain digits, sometimes exactly the digits of the suffix (ch4_4, bep_12_12)
            k_ = rng.choice([2, 4, 7, 12, 30])
            prefixes = [q_ for q_ in ('ch%d%s' % (k_, delim), 'bep%s%d%s' % (delim, k_, delim), 's%s%d%s' % (delim, k_, delim))][:rng.randint(1, 3)]
            pad = 'natural'
        pool = rng.choice([0, 1, rng.randint(0, 99000)])
        for p in prefixes:
            start = rng.choice([0, 1, rng.randint(0, 99990)])
            if numbering == 'shared_pool':
                start = pool                 # one running counter over all prefixes (r_0001.., then s_0004..)
            if numbering == 'suffix_in_prefix':
                start = max(0, k_ - rng.randint(0, 2))
            cur = start
            for _ in range(max(0, n // len(prefixes)) + (1 if n else 0)):
                cur += rng.choice([1, 1, 1, 1, 2, 3, 17]) if ids else 0
                if cur > 99999:
                    break
                if pad == '4':
                    ids.append('%s%04d' % (p, cur))
                elif pad == 'natural':
                    ids.append('%s%d' % (p, cur))
                else:
                    w = rng.choice([1, 2, 3, 5, 6])
                    ids.append('%s%0*d' % (p, w, cur))
            pool = cur + 1
        ids = ids[:57]
        repad = False
        if ids and rng.random() < 0.25:
            # the same prefix and the same NUMBER written with another zero padding (ads_1 and ads_0001) are
            # two different identifiers
            for _ in range(rng.randint(1, 3)):
                src = rng.choice(ids)
                m_ = re.match(r'^(.*?)(\d+)$', src)
                if not m_:
                    continue
                num = int(m_.group(2))
                alt = '%s%0*d' % (m_.group(1), rng.choice([1, 2, 3, 4, 5, 6, 7]), num)
                if alt not in ids and (m_.group(1) == '' or not m_.group(1)[-1].isdigit()):
                    ids.append(alt)
                    repad = True
        for _ in range(rng.choice([0, 0, 1, 3])):
            if ids:
                ids.append(rng.choice(ids))
        ids = ids[:60]
        if rng.random() < 0.6:
            rng.shuffle(ids)
        shuffle_ = rng.random() < 0.6
        if not shuffle_:
            ids = sorted(ids, key=lambda x_: 0)      # keep generation order (groups adjacent, ascending)
        as_ = rng.choice(['str', 'str', 'str', 'id', 'id', 'name', 'name', 'equal_objs', 'reaction', 'surface_reaction',
                          'surface_reaction_late_id'])
        if as_ in ('reaction', 'surface_reaction', 'surface_reaction_late_id'):
            # real pMuTT objects: a change that compares them by value pays a to_dict() per comparison, so keep the
            # collection small enough for the run to end (the verdict must not depend on a watchdog)
            ids = ids[:10]
        return {'kind': 'ids', 'ids': ids, 'delim': delim, 'as': as_,
                'numbering': numbering, 'repad': repad}
    if r < 0.62:
        why = rng.choice(['bad_suffix', 'non_str'])
        ids = ['r_%04d' % i for i in range(1, rng.randint(2, 6))]
        if why == 'bad_suffix':
            ids.insert(rng.randrange(len(ids) + 1), rng.choice(['r_abc', 'r_1x', 'TS', 'r_', 'r_1.5']))
        else:
            ids.insert(rng.randrange(len(ids) + 1), rng.choice([5, 1.5, None]))
        return {'kind': 'bad', 'ids': ids, 'delim': '_', 'as': rng.choice(['str', 'id', 'name']), 'why': why}
    form = rng.choice(['str', 'list', 'tuple', 'dict'])
    nt = rng.choice([0, 1, 2, 3, 5, 8, 13, 20, 40, 80])
    line_len = rng.randint(30, 100)
    max_line_len = rng.choice([line_len, line_len, rng.randint(line_len, 100)])
    chars = 'abcXYZ019()*_+-'
    if form == 'dict':
        toks = []
        seen = set()
        for _ in range(nt):
            k = ''.join(rng.choice('ABCDEFGHabcdefgh') for _ in range(rng.randint(1, 12)))
            if k in seen:
                continue
            seen.add(k)
            toks.append([k, rng.choice([rng.randint(0, 999), round(rng.uniform(0, 5), 2), 'v%d' % rng.randint(0, 9)])])
    else:
        toks = [''.join(rng.choice(chars) for _ in range(rng.choice([1, 2, 5, 8, 12, 29, 30])))
                for _ in range(nt)]
        if nt and rng.random() < 0.25:
            # tokens are delimited by the ASCII blank only: a tab, a no-break / thin / ideographic space or a
            # form feed inside a token (a name pasted from a document) belongs to the token
            for j in rng.sample(range(nt), min(nt, rng.randint(1, 3))):
                t = toks[j]
                k = rng.randrange(len(t) + 1)
                toks[j] = (t[:k] + rng.choice(WS_IN_TOKEN) + t[k:])[:30]
    return {'kind': 'wrap', 'form': form, 'tokens': toks, 'line_len': line_len, 'max_line_len': max_line_len}


WS_IN_TOKEN = ['\t', '\xa0', '\u2009', '\u3000', '\x0c']


def _split(text):
    """tokens of a CTI string body: separated by ASCII blanks and line breaks only"""
    return [t for t in re.split('[ \n]+', text) if t]


def install_probes(pr, ctx):
    pr.watch(lambda: __import__('pmutt.cantera', fromlist=['x'])._get_omkm_range, '_get_omkm_range')
    pr.watch(lambda: __import__('pmutt.io.cantera', fromlist=['x']).obj_to_cti, 'obj_to_cti')


# ------------------------------------------------------------------ reference
_TAIL = re.compile(r'^(.*?)(\d+)$', re.S)


def expand_entry(entry):
    """'"p0001 to p0003"' (quotes already stripped) -> ['p0001','p0002','p0003'] or None."""
    if ' to ' in entry:
        a, b = entry.split(' to ', 1)
        ma, mb = _TAIL.match(a), _TAIL.match(b)
        if not ma or not mb or ma.group(1) != mb.group(1):
            return None
        lo, hi = int(ma.group(2)), int(mb.group(2))
        if hi < lo or hi - lo > 200000:
            return None
        w = len(ma.group(2))
        return ['%s%0*d' % (ma.group(1), w, k) for k in range(lo, hi + 1)]
    return [entry]


def parse_str_form(text):
    """'["a", "b to c"]' -> list of entries (quotes stripped) or None."""
    text = text.strip()
    if not (text.startswith('[') and text.endswith(']')):
        return None
    inner = text[1:-1].strip()
    if inner == '':
        return []
    parts = re.findall(r'"([^"]*)"', inner)
    rebuilt = ', '.join('"%s"' % p for p in parts)
    if rebuilt != inner:
        return None
    return parts


def classify_ids(spec, ctx):
    ids, d = spec['ids'], spec['delim']
    feats = {}
    if not ids:
        ctx.cls('ids:empty')
        return feats
    heads = set()
    nums = {}
    for s in ids:
        i = s.rfind(d)
        head = s[:i + 1] if i >= 0 else ''
        foot = s[i + 1:] if i >= 0 else s
        heads.add(head)
        nums.setdefault(head, []).append(int(foot))
        if len(foot) != 4 and not (len(foot) > 4 and not foot.startswith('0')):
            feats['pad'] = 'other'
        if head == d:
            feats['prefix'] = 'leading_delim'
        elif head == '':
            feats.setdefault('prefix', 'empty')
        elif d in head[:-1]:
            ctx.cls('ids:prefix_has_delim')
    if len(heads) >= 2:
        ctx.cls('ids:multi_prefix')
        ctx.nontrivial()
    if len(set(ids)) < len(ids):
        ctx.cls('ids:duplicate')
        ctx.nontrivial()
    for h, v in nums.items():
        sv = sorted(set(v))
        if any(b - a > 1 for a, b in zip(sv, sv[1:])):
            ctx.cls('ids:gap')
            ctx.nontrivial()
            break
    if feats.get('pad') == 'other':
        ctx.cls('ids:pad_other')
    if feats.get('prefix') == 'leading_delim':
        ctx.cls('ids:leading_delim')
    if feats.get('prefix') == 'empty':
        ctx.cls('ids:empty_prefix')
    return feats


def _wrap_objs(spec):
    how = spec['as']
    if how == 'id':
        return [_WithId(v) for v in spec['ids']]
    if how == 'name':
        return [_WithName(v) for v in spec['ids']]
    if how == 'equal_objs':
        return [_EqualById(v) for v in spec['ids']]
    if how in ('reaction', 'surface_reaction', 'surface_reaction_late_id'):
        return [_real_reaction(v, how) for v in spec['ids']]
    return list(spec['ids'])


def _ids(spec, ctx):
    from pmutt.cantera import _get_omkm_range
    feats = classify_ids(spec, ctx)
    if spec['as'] in ('str', 'id', 'name'):
        ctx.cls('ids:as_%s_attr' % spec['as'] if spec['as'] != 'str' else 'ids:as_str')
    else:
        ctx.cls('ids:as_' + spec['as'])
        if len(set(spec['ids'])) >= 2:
            ctx.cls('ids:value_equal_objects_distinct_ids')
    if spec.get('numbering'):
        ctx.cls('ids:numbering_' + spec['numbering'])
    if spec.get('repad'):
        ctx.cls('ids:same_number_other_padding')
    mech = {'pad': feats.get('pad', '4'), 'prefix': feats.get('prefix', 'plain')}
    want = set(spec['ids'])
    out = ctx.call('I1', dict(mech, form='str'), _get_omkm_range, objs=_wrap_objs(spec), delimiter=spec['delim'])
    got_str = None
    if out is not core.NOVALUE:
        entries = parse_str_form(out) if isinstance(out, str) else None
        if entries is None:
            ctx.fail('I1', dict(mech, form='str', what='malformed'), out=out)
        else:
            exp = [expand_entry(e) for e in entries]
            if any(e is None for e in exp):
                ctx.fail('I1', dict(mech, form='str', what='malformed_range'), out=out)
            else:
                got_str = set(x for e in exp for x in e)
                lost, added = sorted(want - got_str)[:5], sorted(got_str - want)[:5]
                ctx.check('I1', got_str == want, dict(mech, form='str', what='set'), lost=lost, added=added,
                          out=out[:300])
    outl = ctx.call('I2', dict(mech, form='list'), _get_omkm_range, objs=_wrap_objs(spec),
                    delimiter=spec['delim'], format='list')
    if outl is not core.NOVALUE:
        if not spec['ids']:
            ctx.check('I2', outl in ([], '[]'), dict(mech, form='list', what='empty'), out=outl)
            return
        if not isinstance(outl, list):
            ctx.fail('I2', dict(mech, form='list', what='not_a_list'), out=outl)
            return
        ents = []
        ok = True
        for e in outl:
            if not (isinstance(e, str) and len(e) >= 2 and e[0] == '"' and e[-1] == '"' and '"' not in e[1:-1]):
                ok = False
                break
            ents.append(e[1:-1])
        if not ok:
            ctx.fail('I2', dict(mech, form='list', what='malformed'), out=outl[:10])
            return
        exp = [expand_entry(e) for e in ents]
        if any(e is None for e in exp):
            ctx.fail('I2', dict(mech, form='list', what='malformed_range'), out=outl[:10])
            return
        got_l = set(x for e in exp for x in e)
        ctx.check('I2', got_l == want, dict(mech, form='list', what='set'), lost=sorted(want - got_l)[:5],
                  added=sorted(got_l - want)[:5])
        if got_str is not None:
            ctx.check('I2', got_l == got_str, dict(mech, form='list', what='differs_from_str'))


def _bad(spec, ctx):
    from pmutt.cantera import _get_omkm_range
    ctx.cls('ids:' + spec['why'])
    for fmt in ('str', 'list'):
        ctx.raises('I3', (TypeError, ValueError), {'why': spec['why'], 'form': fmt}, _get_omkm_range,
                   objs=_wrap_objs(spec), delimiter=spec['delim'], format=fmt)


def _wrap(spec, ctx):
    from pmutt.io.cantera import obj_to_cti
    form, L, M = spec['form'], spec['line_len'], spec['max_line_len']
    ctx.cls('wrap:' + form)
    if form == 'dict':
        obj = {k: v for k, v in spec['tokens']}
        toks = ['%s:%s' % (k, v) for k, v in spec['tokens']]
    else:
        toks = list(spec['tokens'])
        obj = {'str': ' '.join(toks), 'list': list(toks), 'tuple': tuple(toks)}[form]
    mech = {'form': form}
    out = ctx.call('I4', mech, obj_to_cti, obj, line_len=L, max_line_len=M)
    if out is core.NOVALUE:
        return
    if not isinstance(out, str):
        ctx.fail('I4', dict(mech, what='not_str'), out=out)
        return
    lines = out.split('\n')
    multi = out.startswith('"""')
    if multi:
        ctx.cls('wrap:multi_line')
        if not ctx.check('I4', out.endswith('"""') and out.count('"""') == 2, dict(mech, what='quotes'), out=out[:200]):
            return
        body = out[3:-3]
    else:
        ctx.cls('wrap:single_line')
        if not ctx.check('I4', len(out) >= 2 and out[0] == '"' and out[-1] == '"' and '\n' not in out,
                         dict(mech, what='quotes'), out=out[:200]):
            return
        body = out[1:-1]
    got = _split(body)
    if any(w in t for t in toks for w in WS_IN_TOKEN):
        ctx.cls('wrap:whitespace_char_in_token' + (':multi_line' if multi else ''))
    ctx.check('I4', got == toks, dict(mech, what='tokens', lines='multi' if multi else 'single'),
              got=got[:12], want=toks[:12], n_got=len(got), n_want=len(toks))
    if len(lines) >= 2:
        ctx.nontrivial()
    if any(len(t) >= 29 for t in toks):
        ctx.cls('wrap:long_token')
    for k, line in enumerate(lines):
        limit = L if k == 0 else M
        if len(line) > limit:
            # allowed only when the line holds a single token (opening quotes glued to the first token,
            # closing quotes count as a token of their own)
            content = line.strip()
            if k == 0 and content.startswith('"""'):
                content = content[3:]
            n_tok = len(_split(content))
            ctx.check('I4', n_tok <= 1, dict(mech, what='width', line='first' if k == 0 else 'continuation'),
                      line=line, limit=limit)
        else:
            ctx.held('I4')


def run_case(spec, ctx):
    {'ids': _ids, 'bad': _bad, 'wrap': _wrap}[spec['kind']](spec, ctx)

"""C13  Pressure and coverage corrections are added exactly once per attached model.

History monitor over the list of corrections attached to an empirical species.  Every case
builds a Nasa / Nasa9 / Shomate species of some phase spelling with 0-4 user supplied
correction models (GasPressureAdj already present or not, PiecewiseCovEffect on 1-3 other
species, a Cp-bearing ConstantMode) in random order, then copies and reloads it, and after
every step compares the real object with an executable model (list of attached corrections).

M1  value(T_i, conditions) = bare polynomial(T_i) + sum over attached models of the model's
    contribution at T_i and the same conditions, for Cp/R, H/RT, S/R, G/RT, scalar T and every
    element of array T (lists and ndarrays, 1-50 elements).  The bare polynomial comes from
    vf/ref/poly.py on the segment that contains T_i; the contributions are written here from
    the documented formulas (S = -ln P; piecewise-linear lateral interaction / RT; constants / R).
M2  count of GasPressureAdj in misc_models is 1 for gas phases (g, gas, G, Gas) and 0 otherwise,
    after construction, copy, deepcopy and every to_dict/from_dict or JSON cycle; 0 with
    a falsy add_gas_P_adj (False, numpy.bool_(False), 0) through construction and every reload route;
    exactly 1 when the adjustment is handed over in its raw JSON form
    {'class': "<class 'pmutt.empirical.GasPressureAdj'>"} (alone, first, last, between live models);
    the caller's misc_models list is left unmodified (clause caller_list);
    a list shared between a gas and a surface species gives the surface species no
    adjustment (clause shared_list).
NB  neighbourhood differentials, absolute tolerance max(1e-12, 8 eps scale): for P = 1 bar (1 +- {1 ulp, 1e-12, 1e-9,
    1e-6, 4e-6, 1e-5, 1e-4}) value(P) - value(exactly 1 bar) = -/+ math.log(P) (S, G; 0 for species without the
    adjustment); for coverages next to 0, 1 and every breakpoint value(x) - value(special x) = the reference
    piecewise-linear difference / RT (H, G).  Temperatures next to T_mid, NASA-9 segment bounds, T_low, T_high and
    the models' default T (298.15 K) are added to the M1 evaluations.
DIM the dimensional getters get_Cp / get_H / get_S / get_G (one unit: J/mol/K, kJ/mol) evaluated under the same
    conditions equal the dimensionless value x R (x T), for scalar T and list / tuple / ndarray T.
Every call spells its condition keywords in a fresh random order (shared P= / x= before, between and after the
'<name>_kwargs' blocks); a block addressed to species j overrides a shared x= for the models watching j, whatever
the order; a shared x= alone reaches every coverage model.
M3  S(P) = S(1 bar) - ln P, G(P) = G(1 bar) + ln P, default pressure = 1 bar for species that
    carry the adjustment; no pressure dependence otherwise.
DUP two or more attached coverage models with identical parameters (distinct objects equal by value, or the same
    object listed twice or more), also after copy / from_dict / JSON: M1 expects bare + the sum over EVERY attached
    model (each listed entry counts once); CNT expects n calls per listed entry.
BP  a '<name_j>_kwargs' block may carry its own P (P_j != shared P) next to x: the block is for the models watching
    j only; the pressure adjustment uses the shared P= (default 1 bar), wherever it sits in misc_models.
CNT probe monitor: during one evaluation of Cp/H/S at n temperatures every attached model's
    own getter of that quantity runs exactly n times (per model instance).
"""
import copy
import json
import math
import random

from vf import core
from vf.gen import species as SG
from vf.ref import poly

ID = 'C13'
N = {'quick': 6500, 'thorough': 300000}
NT_RULE = ('species class x phase spelling x 0-4 user supplied models in random order (GasPressureAdj present or '
           'not, PiecewiseCovEffect on 1-3 species j with coverages in <name_j>_kwargs, ConstantMode) x '
           'add_gas_P_adj x misc_models None/[]/list x copy/deepcopy x 0-3 from_dict / JSON cycles x list shared '
           'with a second species x scalar T and arrays of 1-50 x P 1e-3..1e2 bar, drawn per case index from a '
           'seeded PRNG after a list of directed cases; non-trivial = >=2 attached models, or an array of >=2 '
           'temperatures with a temperature/condition dependent model, or >=1 reload cycle; distinct = distinct '
           'canonical JSON of the case')
REQUIRED_ORACLES = ['M1', 'M2', 'M3', 'CNT', 'NB', 'DIM']
# neighbourhoods of special condition values: relative distances (None = one ulp), both sides
NEAR_DIST = [('1ulp', None), ('1e-12', 1e-12), ('1e-9', 1e-9), ('1e-6', 1e-6), ('4e-6', 4e-6), ('1e-5', 1e-5),
             ('1e-4', 1e-4)]
NEAR_X_DIST = [('1ulp', None), ('1e-12', 1e-12), ('1e-9', 1e-9), ('1e-6', 1e-6)]
T0_REF = 298.15
GAS_SPELLINGS = ('g', 'gas', 'G', 'Gas')
# add_gas_P_adj values: the spec stores the label (None = argument not passed)
FLAG_LABELS = ['True', 'False', 'np.bool_(True)', 'np.bool_(False)', '1', '0']
FLAG_TRUTHY = {'default': True, 'True': True, 'False': False, 'np.bool_(True)': True, 'np.bool_(False)': False,
               '1': True, '0': False}
RAW_GAS_ENTRY = {'class': "<class 'pmutt.empirical.GasPressureAdj'>"}
PHASES = ['g', 'gas', 'G', 'Gas', 's', 'S', None]
REQUIRED_CLASSES = (['class:Nasa', 'class:Nasa9', 'class:Shomate'] +
                    ['phase:%s' % p for p in PHASES] +
                    ['n_models:0', 'n_models:1', 'n_models:2', 'n_models:3+',
                     'T:scalar', 'T:array', 'array:len1', 'array:len2', 'array:len=n_models', 'array:len50',
                     'array:list', 'array:ndarray', 'nasa9:array_spans_segments', 'nasa9:last_segment',
                     'model:gas_preattached', 'model:gas_auto', 'model:cov', 'model:cov_multi', 'model:const',
                     'misc:None', 'misc:empty_list', 'misc:list',
                     'add_gas_P_adj:default'] + ['add_gas_P_adj:%s' % f for f in FLAG_LABELS] +
                    ['flag_route:%s:%s' % (f, op) for f in FLAG_LABELS for op in ('deepcopy', 'from_dict', 'json')] +
                    ['P_near:%s%s' % (sg, lab) for lab, _ in NEAR_DIST for sg in '+-'] +
                    ['x_near:0', 'x_near:1', 'x_near:break-', 'x_near:break+', 'T_near:T_mid-', 'T_near:T_mid+',
                     'T_near:seg_bound-', 'T_near:seg_bound+', 'T_near:T_low', 'T_near:T_high', 'T_near:T0',
                     'near:reloaded'] +
                    ['cond:shared_x', 'cond:shared_x+specific_block', 'cond:shared_x_only',
                     'kw_order:shared_x_before_block', 'kw_order:shared_x_after_block', 'kw_order:P_first',
                     'kw_order:P_last', 'kw_order:P_between', 'array:tuple'] +
                    ['dim:%s:%s' % (n, k) for n in ('Cp', 'H', 'S', 'G') for k in ('scalar', 'list', 'tuple', 'ndarray')] +
                    ['dim:len1_list', 'dim:len1_tuple', 'dim:len1_ndarray'] +
                    ['T:array_repeats', 'T:array_all_equal', 'T:array_descending', 'T:array_unsorted',
                     'model:gas_raw_entry', 'raw_entry:alone', 'raw_entry:first', 'raw_entry:last',
                     'raw_entry:middle',
                     'hist:copy', 'hist:deepcopy', 'hist:from_dict', 'hist:json', 'hist:cycles3',
                     'shared_list:gas_first', 'shared_list:other_first', 'P:default', 'P:given',
                     'x:default', 'x:on_break', 'x:beyond_last', 'cond:distractor_block', 'cov:self_interaction',
                     # value-equal / identical coverage models (recorded only when their contribution is non-zero)
                     'dup:equal_distinct', 'dup:same_object', 'dup:3+', 'dup:reloaded', 'dup:copied',
                     'dup:Nasa', 'dup:Nasa9', 'dup:Shomate',
                     # a species specific block carrying its own pressure, different from the shared one
                     'block_P:any', 'block_P:adj_after_cov', 'block_P:adj_before_cov', 'block_P:adj_between_cov',
                     'block_P:shared_P_default', 'block_P:no_adj', 'block_P:reloaded',
                     'block_P:Nasa', 'block_P:Nasa9', 'block_P:Shomate'])
REQUIRED_PROBES = ['EmpiricalBase.__init__', '_get_mix_quantity', 'GasPressureAdj.get_SoR',
                   'PiecewiseCovEffect.get_HoRT', 'PiecewiseCovEffect.get_UoRT', 'ConstantMode.get_CpoR']
ASSUMPTIONS = [
    'temperatures lie inside the validity range and never exactly on an interior break (segment selection is C02)',
    'gas constants and unit factors are taken from pmutt.constants (unit tables are C12)',
    'a user supplied GasPressureAdj (live object or raw JSON entry, never both) is only generated for gas species '
    'with a truthy add_gas_P_adj; add_gas_P_adj is decided by truthiness (True, numpy.bool_(True), 1 enable; False, '
    'numpy.bool_(False), 0 disable), as EmpiricalBase.__init__ documents a bool; '
    'ConstantMode is not combined with reload cycles (it is not in the JSON registry: C11) and G is not compared '
    'when a ConstantMode is attached (its own G attribute is independent of its H and S)',
    'return shapes are normalised (size-1 array vs scalar is shape, not value)',
    'DIM uses one unit per quantity (unit algebra is C04) and the species own dimensionless getter as the reference '
    '(the dimensionless value itself is decided by M1); one-element lists / tuples / ndarrays are decided as given',
    'a shared x= and a <name_j>_kwargs block in the same call: the block wins for the models watching j (what '
    '_get_specie_kwargs documents: species specific parameters are merged over the shared ones)',
    'the same coverage model listed k times in misc_models is k attached models (k contributions, k x n getter calls); '
    'a pressure adjustment listed more than once is not generated',
    'a P inside a <name_j>_kwargs block addresses the models watching j only (coverage models ignore it); the pressure '
    'adjustment has no name_j and takes the shared P= (1 bar when absent)',
    'CNT counts the model getters of Cp, H, S (G is H - S and may legitimately be assembled either way); it presumes '
    'that models are evaluated one temperature at a time, as _get_mix_quantity does (a vectorised rewrite would '
    'need CNT restated as one call per model per evaluation)']

Q = ['CpoR', 'HoRT', 'SoR', 'GoRT']
NAMES = ['O(S)', 'CO(S)', 'CO2(S)', 'H(S)', 'OH(S)', 'N(S)', 'CH3(S)']
TOL = 1e-10


# ---------------------------------------------------------------- reference model
def pw_value(intervals, slopes, x):
    """Continuous piecewise-linear function, zero at zero, slope s_k on [b_k, b_{k+1}), the last
    slope beyond the last breakpoint (kcal/mol)."""
    total = 0.0
    for k, (b, s) in enumerate(zip(intervals, slopes)):
        hi = intervals[k + 1] if k + 1 < len(intervals) else float('inf')
        if x <= b:
            break
        total += s * (min(x, hi) - b)
    return total


def _segment(sp, T):
    t = sp['type']
    if t == 'Nasa':
        return sp['a_low'] if T < sp['T_mid'] else sp['a_high']
    if t == 'Nasa9':
        for seg in sp['nasas']:
            if seg['T_low'] <= T <= seg['T_high']:
                return seg['a']
        raise core.HarnessError('T %r outside every NASA-9 segment' % T)
    return sp['a']


def bare(sp, q, T, R_sho):
    t = sp['type']
    a = _segment(sp, T)
    if t == 'Nasa':
        f = {'CpoR': poly.nasa7_CpoR, 'HoRT': poly.nasa7_HoRT, 'SoR': poly.nasa7_SoR}
        if q == 'GoRT':
            return poly.nasa7_HoRT(a, T) - poly.nasa7_SoR(a, T)
        return f[q](a, T)
    if t == 'Nasa9':
        f = {'CpoR': poly.nasa9_CpoR, 'HoRT': poly.nasa9_HoRT, 'SoR': poly.nasa9_SoR}
        if q == 'GoRT':
            return poly.nasa9_HoRT(a, T) - poly.nasa9_SoR(a, T)
        return f[q](a, T)
    f = {'CpoR': poly.shomate_CpoR, 'HoRT': poly.shomate_HoRT, 'SoR': poly.shomate_SoR}
    if q == 'GoRT':
        return poly.shomate_HoRT(a, T, R_sho) - poly.shomate_SoR(a, T, R_sho)
    return f[q](a, T, R_sho)


def contribution(m, q, T, P, xs, R_kcal, R_eV):
    """Documented contribution of one attached model to Cp/R, H/RT, S/R, G/RT."""
    k = m['kind']
    if k == 'gas':
        s = -math.log(1.0 if P is None else P)
        return {'CpoR': 0.0, 'HoRT': 0.0, 'SoR': s, 'GoRT': -s}[q]
    if k == 'cov':
        h = pw_value(m['intervals'], m['slopes'], xs.get(m['name_j'], 0.0)) / (R_kcal * T)
        return {'CpoR': 0.0, 'HoRT': h, 'SoR': 0.0, 'GoRT': h}[q]
    if k == 'const':
        cp, h, s = m['Cp'] / R_eV, m['H'] / (R_eV * T), m['S'] / R_eV
        return {'CpoR': cp, 'HoRT': h, 'SoR': s, 'GoRT': h - s}[q]
    raise core.HarnessError('unknown model kind %r' % k)


def is_gas(phase):
    return phase in GAS_SPELLINGS


def flag_label(v):
    """spec value -> label (older replay files store JSON booleans)."""
    if v is None:
        return 'default'
    if v is True:
        return 'True'
    if v is False:
        return 'False'
    if v in FLAG_TRUTHY:
        return v
    raise core.HarnessError('unknown add_gas_P_adj label %r' % (v,))


def flag_enabled(spec):
    return FLAG_TRUTHY[flag_label(spec.get('add_gas_P_adj'))]


def flag_value(label):
    import numpy as np
    return {'True': True, 'False': False, 'np.bool_(True)': np.bool_(True), 'np.bool_(False)': np.bool_(False),
            '1': 1, '0': 0}[label]


def expected_models(spec, phase=None, first=True):
    """The history model: the list of corrections the species must carry."""
    models = [dict(m) if m['kind'] != 'gas_raw' else {'kind': 'gas'} for m in (spec['models'] or [])]
    ph = spec['sp']['phase'] if first else phase
    if is_gas(ph) and flag_enabled(spec) \
            and not any(m['kind'] == 'gas' for m in models):
        models.append({'kind': 'gas'})
    if not is_gas(ph):
        models = [m for m in models if m['kind'] != 'gas']
    return models


def bucket(n):
    return str(n) if n < 3 else '3+'


# ---------------------------------------------------------------- generator
def _r(rng, lo, hi, nd=3):
    return round(rng.uniform(lo, hi), nd)


def _gen_species(rng, cls, name, phase, units=None):
    el = {'C': 1, 'O': 2}
    if cls == 'Nasa':
        sp = SG.gen_nasa(rng, name=name, phase='S', elements=el, lo=80.0, hi=4000.0)
    elif cls == 'Nasa9':
        sp = SG.gen_nasa9(rng, name=name, phase='S', elements=el, lo=80.0, hi=4000.0)
    else:
        sp = SG.gen_shomate(rng, name=name, phase='S', elements=el, lo=80.0, hi=4000.0,
                            units=units or rng.choice(['J/mol/K', 'J/mol/K', 'cal/mol/K']))
    sp['phase'] = phase
    return sp


def _breaks(sp):
    if sp['type'] == 'Nasa':
        return [sp['T_mid']]
    if sp['type'] == 'Nasa9':
        return [s['T_high'] for s in sp['nasas'][:-1]]
    return []


def _gen_T(rng, sp, where=None):
    lo, hi = SG.T_range(sp)
    if where == 'last' and sp['type'] == 'Nasa9':
        lo = sp['nasas'][-1]['T_low']
    if where == 'first' and sp['type'] == 'Nasa9':
        hi = sp['nasas'][0]['T_high']
    r = rng.random()
    if where is None and r < 0.04:
        T = lo
    elif where is None and r < 0.08:
        T = hi
    else:
        T = round(rng.uniform(lo, hi), 3)
    T = min(max(T, lo), hi)
    for b in _breaks(sp):
        if T == b:
            T = round(b + 0.5, 3)
    return T


def _gen_cov(rng, name_i, name_j):
    n = rng.choice([1, 2, 2, 3, 4])
    iv = sorted(set([0.0] + [_r(rng, 0.05, 0.95, 2) for _ in range(n - 1)]))
    return {'kind': 'cov', 'name_i': name_i, 'name_j': name_j, 'intervals': iv,
            'slopes': [_r(rng, -30, 30, 2) for _ in iv]}


def _gen_const(rng):
    return {'kind': 'const', 'Cp': float('%.6g' % rng.uniform(4e-5, 4e-4)), 'H': _r(rng, -0.5, 0.5, 4),
            'S': float('%.6g' % rng.uniform(-5e-4, 5e-4)), 'G': _r(rng, -0.5, 0.5, 4)}


def _gen_arrays(rng, sp, n_models, lengths=None):
    out = []
    if lengths is None:
        lengths = [rng.choice([1, 2, 3, max(1, n_models), max(1, n_models), 50, rng.randint(1, 50)]),
                   rng.choice([1, 2, max(1, n_models), rng.randint(2, 12)])]
    for n in lengths:
        Ts = [_gen_T(rng, sp) for _ in range(n)]
        if sp['type'] == 'Nasa9' and n >= 2:
            Ts[-1] = _gen_T(rng, sp, 'last')
            Ts[0] = _gen_T(rng, sp, 'first')
        r = rng.random()
        if r < 0.3:
            Ts = sorted(Ts)
        elif r < 0.45:
            Ts = sorted(Ts, reverse=True)
        elif r < 0.65 and n >= 2:
            # repeated temperatures: some positions copy an earlier / later element
            for _ in range(rng.randint(1, max(1, n // 2))):
                i, j = rng.randrange(n), rng.randrange(n)
                Ts[i] = Ts[j]
            if len(set(Ts)) == n:
                Ts[-1] = Ts[0]
        elif r < 0.72 and n >= 2:
            Ts = [Ts[rng.randrange(n)]] * n
        out.append({'kind': rng.choice(['list', 'ndarray', 'ndarray', 'tuple']), 'T': Ts})
    return out


def _special_arrays(rng, sp):
    """[a, b, a], all-equal, strictly descending, repeat next to itself, unsorted with a late repeat."""
    ts = sorted(set(_gen_T(rng, sp, w) for w in ('first', None, None, None, 'last', 'last')))
    while len(ts) < 3:
        ts = sorted(set(ts + [_gen_T(rng, sp)]))
    a, b, c = ts[0], ts[len(ts) // 2], ts[-1]
    arrs = [[a, c, a], [b, b, b], list(reversed(ts)), [c, c, a], [b, a, c, a, b, c, c], [c] * 2]
    return [{'kind': ('list', 'ndarray')[k % 2], 'T': t} for k, t in enumerate(arrs)]


def _gen_conditions(rng, spec):
    sp = spec['sp']
    cond = {'P': None if rng.random() < 0.15 else SG.logu(rng, 1e-3, 1e2, 4), 'x': {}, 'distractor': None}
    for m in spec['models'] or []:
        if m['kind'] != 'cov':
            continue
        r = rng.random()
        if r < 0.12:
            continue                                   # no block: coverage defaults to 0
        if r < 0.27 and len(m['intervals']) > 1:
            x = rng.choice(m['intervals'][1:])         # exactly on a breakpoint
        elif r < 0.33:
            x = 1.0
        elif r < 0.37:
            x = 0.0
        else:
            x = _r(rng, 0.0, 1.0)
        cond['x'][m['name_j']] = x
    cond['P_block'] = {}
    for j in sorted(cond['x']):
        if rng.random() < 0.4:
            cond['P_block'][j] = SG.logu(rng, 1e-3, 1e2, 4)       # the block's own pressure (!= shared P)
    cond['x_shared'] = None
    if any(m['kind'] == 'cov' for m in spec['models'] or []) and rng.random() < 0.35:
        cond['x_shared'] = _r(rng, 0.0, 1.0)        # shared coverage: used by every model without its own block
    cond['order_seed'] = rng.randrange(10 ** 6)
    if rng.random() < 0.4:
        used = set(m.get('name_j') for m in spec['models'] or []) | {sp['name']}
        free = [n for n in NAMES + ['Z(S)', '(S)'] if n not in used]
        cond['distractor'] = {'name': rng.choice(free), 'x': _r(rng, 0.1, 1.0), 'P': SG.logu(rng, 1e-3, 1e2, 4)}
    return cond


def _nb(v, d, side):
    """neighbour of v at relative distance d (None = one ulp) on the given side (+1 / -1)."""
    if d is None:
        return math.nextafter(v, math.inf if side > 0 else -math.inf)
    return v * (1.0 + side * d) if v != 0.0 else side * d


def near_P(which=None):
    out = []
    for lab, d in NEAR_DIST:
        for side, sg in ((1, '+'), (-1, '-')):
            if which is None or (sg + lab) in which:
                out.append([sg + lab, _nb(1.0, d, side)])
    return out


def _gen_near(rng, spec, full=False):
    """boundary neighbourhoods of the special values of every condition."""
    sp = spec['sp']
    allP = [sg + lab for lab, _ in NEAR_DIST for sg in '+-']
    nP = len(allP) if full else (3 if is_gas(sp['phase']) else 1)
    near = {'P': near_P(set(rng.sample(allP, nP))), 'x': {}, 'T': []}
    covs = [m for m in (spec['models'] or []) if m['kind'] == 'cov']
    for m in (covs if full else covs[:2]):
        cand = []
        for lab, d in NEAR_X_DIST:
            cand.append(['0', lab, 0.0, 5e-324 if d is None else d])
            cand.append(['1', lab, 1.0, _nb(1.0, d, -1)])
            for b in m['intervals'][1:]:
                cand.append(['break-', lab, b, _nb(b, d, -1)])
                cand.append(['break+', lab, b, _nb(b, d, +1)])
        near['x'][m['name_j']] = cand if full else rng.sample(cand, min(2, len(cand)))
    lo, hi = SG.T_range(sp)
    cand = []
    for lab, d in NEAR_X_DIST:
        cand.append(['T_low', lab, _nb(lo, d, +1)])
        cand.append(['T_high', lab, _nb(hi, d, -1)])
        if sp['type'] == 'Nasa':
            cand.append(['T_mid-', lab, _nb(sp['T_mid'], d, -1)])
            cand.append(['T_mid+', lab, _nb(sp['T_mid'], d, +1)])
        if sp['type'] == 'Nasa9':
            for b in _breaks(sp):
                cand.append(['seg_bound-', lab, _nb(b, d, -1)])
                cand.append(['seg_bound+', lab, _nb(b, d, +1)])
        if lo < T0_REF * (1 - 2e-6) and T0_REF * (1 + 2e-6) < hi and T0_REF not in _breaks(sp):
            cand.append(['T0', lab, _nb(T0_REF, d, rng.choice([-1, 1]))])
    if lo < T0_REF < hi and T0_REF not in _breaks(sp):
        cand.append(['T0', '0', T0_REF])
    near['T'] = cand if full else rng.sample(cand, min(3, len(cand)))
    return near


def _finish(rng, spec, lengths=None, n_scalar=2, full_near=False):
    """conditions + temperatures for a case whose species/models/history are fixed."""
    if any(op in ('from_dict', 'json') for op in spec['history']):
        spec['models'] = [m for m in (spec['models'] or []) if m['kind'] != 'const'] \
            if spec['models'] is not None else None
    spec['cond'] = _gen_conditions(rng, spec)
    n_models = len(expected_models(spec))
    spec['Ts'] = [_gen_T(rng, spec['sp']) for _ in range(n_scalar)]
    if spec['sp']['type'] == 'Nasa9':
        spec['Ts'][-1] = _gen_T(rng, spec['sp'], 'last')
    spec['arrays'] = _gen_arrays(rng, spec['sp'], n_models, lengths)
    spec['near'] = _gen_near(rng, spec, full_near)
    return spec


def _case(rng, cls, phase, models, add=None, history=(), share=None, misc_none=False, name='CO(S)',
          lengths=None, units=None, full_near=False):
    spec = {'sp': _gen_species(rng, cls, name, phase, units), 'models': None if misc_none else list(models),
            'add_gas_P_adj': add, 'history': list(history), 'share': share}
    return _finish(rng, spec, lengths, full_near=full_near)


def directed(tier):
    rng = random.Random(1313)
    D = []
    covB = {'kind': 'cov', 'name_i': 'CO(S)', 'name_j': 'O(S)', 'intervals': [0.0, 0.3, 0.6],
            'slopes': [10.0, -20.0, 35.0]}
    covC = {'kind': 'cov', 'name_i': 'CO(S)', 'name_j': 'H(S)', 'intervals': [0.0], 'slopes': [-7.5]}
    covSelf = {'kind': 'cov', 'name_i': 'CO(S)', 'name_j': 'CO(S)', 'intervals': [0.0, 0.5], 'slopes': [4.0, 12.0]}
    const = {'kind': 'const', 'Cp': 2.5e-4, 'H': 0.25, 'S': -3.0e-4, 'G': 0.1}
    gas = {'kind': 'gas'}
    raw = {'kind': 'gas_raw'}
    for n_cls, cls in enumerate(('Nasa', 'Nasa9', 'Shomate')):
        # every boundary neighbourhood of P = 1 bar, of coverages 0 / 1 / breakpoints and of the temperature bounds
        D.append(_case(rng, cls, GAS_SPELLINGS[n_cls], [covB, covC], lengths=[3], full_near=True))
        D.append(_case(rng, cls, GAS_SPELLINGS[n_cls + 1], [gas, covB], history=['from_dict', 'json'], lengths=[2],
                       full_near=True))
        D.append(_case(rng, cls, 'Gas', [], misc_none=True, history=['json'], lengths=[2], full_near=True))
        D.append(_case(rng, cls, 'S', [covB], history=['deepcopy'], lengths=[2], full_near=True))
        D.append(_case(rng, cls, 'g', [covC], add='0', history=['from_dict'], lengths=[2], full_near=True))
        # a shared x= together with a block for one of the watched species (the block wins, any keyword order),
        # a shared x= alone (reaches every coverage model), and a block for every species beside the shared x=
        for ph, xs_ in (('g', {'O(S)': 0.2}), ('S', {}), ('Gas', {'O(S)': 0.45, 'H(S)': 0.1}), ('s', {'H(S)': 1.0})):
            c = _case(rng, cls, ph, [covB, covC], lengths=[2, 3], units='J/mol/K',
                      history=['json'] if ph == 'S' else [])
            c['cond'] = {'P': 3.5, 'x': dict(xs_), 'x_shared': 0.9, 'distractor': {'name': 'Z(S)', 'x': 0.3, 'P': 0.2},
                         'order_seed': 7 + n_cls}
            D.append(c)
        # repeated / all-equal / descending temperatures with 1, 2 and 4 attached models
        for ph, mods in (('S', [covB]), ('g', [covB, const]), ('Gas', [covC, gas, covB, covSelf]), ('s', [])):
            c = _case(rng, cls, ph, mods, lengths=[2], units='J/mol/K')
            c['arrays'] = _special_arrays(rng, c['sp'])
            D.append(c)
        # the adjustment handed over in its raw JSON form: alone, first, last, between live models
        for k, mods in enumerate(([raw], [raw, covB], [covB, raw], [covB, raw, covC], [const, covSelf, raw],
                                  [raw, covC, covB])):
            D.append(_case(rng, cls, GAS_SPELLINGS[(k + n_cls) % 4], mods, lengths=[2, 3],
                           add=[None, 'True', 'np.bool_(True)', '1', None, None][k],
                           history=[[], ['from_dict'], ['json', 'deepcopy'], ['copy'], [], ['json', 'from_dict']][k]))
        # every add_gas_P_adj value through construction and every reload route
        for k, f in enumerate(FLAG_LABELS):
            D.append(_case(rng, cls, GAS_SPELLINGS[(k + n_cls) % 4], [], add=f, misc_none=True,
                           history=['from_dict', 'json', 'deepcopy', 'from_dict'], lengths=[2]))
            D.append(_case(rng, cls, GAS_SPELLINGS[(k + n_cls + 1) % 4], [covB], add=f,
                           history=['deepcopy', 'json', 'from_dict', 'json'], lengths=[2]))
            D.append(_case(rng, cls, ['s', 'S', None][(k + n_cls) % 3], [covC], add=f,
                           history=['json', 'from_dict'], lengths=[2]))
        # value-equal coverage models (distinct objects / the same object listed again), 2 and 3 of them, every
        # reload route, non-zero coverage
        covB1, covC1 = dict(covB, obj='A'), dict(covC, obj='B')
        for k, (ph, mods, hi) in enumerate((
                ('S', [covB, dict(covB)], []),
                ('s', [covB1, dict(covB1)], ['copy']),
                ('g', [covB, dict(covB)], ['from_dict']),
                ('Gas', [covB1, dict(covB1)], ['json']),
                (None, [covB, covC, dict(covB), dict(covB)], ['deepcopy', 'json', 'from_dict']),
                ('S', [covB1, covC1, dict(covB1), dict(covC1)], ['from_dict', 'json']),
                ('G', [covC1, gas, dict(covC1), dict(covC)], ['deepcopy']),
                ('gas', [dict(covSelf), raw, dict(covSelf)], ['json', 'json']))):
            c = _case(rng, cls, ph, mods, history=hi, lengths=[1, 3], units='J/mol/K')
            c['cond'] = {'P': [2.5, None, 0.04][k % 3], 'x': {'O(S)': [0.1, 0.45, 0.9][(k + n_cls) % 3], 'H(S)': 0.7,
                                                            'CO(S)': 0.8},
                         'x_shared': None, 'P_block': {}, 'distractor': None, 'order_seed': 31 + k}
            if k % 2:
                c['cond']['x_shared'] = c['cond']['x'].pop('O(S)')
            D.append(c)
        # a species specific block with its own pressure: the adjustment after / before / between the coverage
        # models, attached automatically, pre-attached, raw; shared P given or left at its default; no adjustment
        for k, (ph, mods, add, hi) in enumerate((
                ('g', [covB], None, []),
                ('G', [covB], None, ['from_dict']),
                ('gas', [covB, covC], None, ['json']),
                ('Gas', [gas, covB], None, []),
                ('g', [covB, gas, covC], None, ['deepcopy', 'from_dict']),
                ('gas', [covC, raw], None, ['json']),
                ('G', [covB, const], None, []),
                ('g', [covB], 'False', ['from_dict']),
                ('S', [covB, covC], None, ['json']))):
            c = _case(rng, cls, ph, mods, add=add, history=hi, lengths=[1, 3], units='J/mol/K')
            c['cond'] = {'P': [2.0, None, 0.05][(k + n_cls) % 3], 'x': {'O(S)': 0.5, 'H(S)': 0.25}, 'x_shared': None,
                         'P_block': {'O(S)': 0.1, 'H(S)': 30.0}, 'order_seed': 53 + k,
                         'distractor': {'name': 'Z(S)', 'x': 0.3, 'P': 7.0} if k % 2 else None}
            D.append(c)
        # pinned witnesses ------------------------------------------------------------
        # (a) two models + the automatic adjustment, array lengths 1, 2, 3 (= n_models), 4, 50
        D.append(_case(rng, cls, 'g', [covB, covC], lengths=[1, 2, 3, 4, 50], units='J/mol/K'))
        D.append(_case(rng, cls, 'S', [covB, covC], lengths=[1, 2, 3, 50], units='J/mol/K'))
        D.append(_case(rng, cls, 'S', [covB], lengths=[1, 2, 5], units='J/mol/K'))       # one T-dependent model
        D.append(_case(rng, cls, 'S', [], lengths=[1, 3], units='J/mol/K'))              # empty list
        D.append(_case(rng, cls, None, [], misc_none=True, lengths=[1, 3]))
        D.append(_case(rng, cls, 'gas', [const, covSelf, gas, covB], lengths=[2, 4, 7]))
        # (b) add_gas_P_adj=False / True
        D.append(_case(rng, cls, 'G', [], add='False', misc_none=True, history=['deepcopy'], lengths=[3]))
        D.append(_case(rng, cls, 'gas', [covB], add='False', lengths=[2]))
        D.append(_case(rng, cls, 'Gas', [covC], add='True', history=['copy'], lengths=[2]))
        # (c) caller's list / shared list, both orders, empty list
        D.append(_case(rng, cls, 'g', [covB], share={'phase': 'S', 'order': 'gas_first'}, lengths=[2]))
        D.append(_case(rng, cls, 'Gas', [covB, covC], share={'phase': 's', 'order': 'other_first'}, lengths=[3]))
        D.append(_case(rng, cls, 'G', [], share={'phase': None, 'order': 'gas_first'}, lengths=[2]))
        # (d) reloads: every flavour, 3 cycles, with and without coverage models, pre-attached adjustment
        D.append(_case(rng, cls, 'g', [], misc_none=True, history=['from_dict', 'from_dict', 'from_dict'], lengths=[3]))
        D.append(_case(rng, cls, 'gas', [gas], history=['json', 'from_dict', 'json'], lengths=[3]))
        D.append(_case(rng, cls, 'G', [covB], history=['json', 'json', 'json'], lengths=[3]))
        D.append(_case(rng, cls, 'Gas', [gas, covB], history=['from_dict'], lengths=[3]))
        D.append(_case(rng, cls, 'S', [covB, covC], history=['deepcopy', 'from_dict', 'json'], lengths=[3]))
        D.append(_case(rng, cls, 's', [], misc_none=True, history=['json', 'from_dict'], lengths=[2]))
        D.append(_case(rng, cls, None, [covC], history=['json'], lengths=[2]))
        # every phase spelling once more with a pre-attached adjustment first / last
        for ph in GAS_SPELLINGS:
            D.append(_case(rng, cls, ph, [gas, covB] if ph in ('g', 'G') else [covB, const, gas], lengths=[2, 6]))
    # boundary conditions: P exactly 1, coverages 0 / 1 / on a break / beyond the last break
    for cls in ('Nasa', 'Nasa9', 'Shomate'):
        c = _case(rng, cls, 'g', [covB, covC], lengths=[2, 50], units='J/mol/K')
        c['cond'] = {'P': 1.0, 'x': {'O(S)': 0.3, 'H(S)': 1.0}, 'distractor': {'name': '(S)', 'x': 0.9, 'P': 50.0}}
        D.append(c)
        c = _case(rng, cls, 'S', [covB, covSelf], lengths=[3, 50], units='J/mol/K')
        c['cond'] = {'P': 0.001, 'x': {'O(S)': 1.0, 'CO(S)': 0.0}, 'distractor': None}
        D.append(c)
        c = _case(rng, cls, 'gas', [covB], lengths=[2], units='J/mol/K')
        c['cond'] = {'P': 100.0, 'x': {}, 'distractor': {'name': 'Z(S)', 'x': 0.5, 'P': 0.01}}
        D.append(c)
    return D


def generate(rng, tier):
    cls = rng.choice(['Nasa', 'Nasa9', 'Shomate'])
    phase = rng.choice(['g', 'gas', 'G', 'Gas', 'g', 'gas', 'G', 'Gas', 's', 'S', None])
    name = rng.choice(NAMES)
    add = rng.choice([None, None, None, None, None, None] + FLAG_LABELS + ['False', 'np.bool_(False)', '0'])
    enabled = FLAG_TRUTHY[flag_label(add)]
    n_user = rng.choice([0, 0, 1, 1, 2, 2, 2, 3, 3, 4])
    kinds = []
    pool = ['cov', 'cov', 'cov', 'const']
    if is_gas(phase) and enabled:
        pool.append('gas')
        pool.append('gas')
        pool.append('gas_raw')
    while len(kinds) < n_user:
        k = rng.choice(pool)
        if k in ('const', 'gas', 'gas_raw') and k in kinds:
            continue
        if k in ('gas', 'gas_raw') and ('gas' in kinds or 'gas_raw' in kinds):
            continue
        if k == 'cov' and kinds.count('cov') >= 3:
            continue
        kinds.append(k)
    js = rng.sample(NAMES, 3)
    if rng.random() < 0.15:
        js[0] = name                                   # lateral interaction with itself
    models, nj = [], 0
    for k in kinds:
        if k == 'cov':
            models.append(_gen_cov(rng, name, js[nj]))
            nj += 1
        elif k == 'const':
            models.append(_gen_const(rng))
        else:
            models.append({'kind': k})
    covi = [i for i, m in enumerate(models) if m['kind'] == 'cov']
    if covi and len(models) < 4 and rng.random() < 0.22:
        # value-equal coverage models: distinct objects with identical parameters and / or one object listed again
        src = models[rng.choice(covi)]
        if rng.random() < 0.5:
            src['obj'] = 'A'
        for _ in range(min(rng.choice([1, 1, 2]), 4 - len(models))):
            dup = dict(src)
            if 'obj' in dup and rng.random() < 0.25:
                del dup['obj']                          # a distinct equal object beside the repeated one
            models.insert(rng.randrange(len(models) + 1), dup)
    history = []
    r = rng.random()
    if r < 0.45:
        if rng.random() < 0.35:
            history.append(rng.choice(['copy', 'deepcopy']))
        for _ in range(rng.choice([1, 1, 2, 3])):
            history.append(rng.choice(['from_dict', 'json']))
        if rng.random() < 0.2:
            history.append(rng.choice(['copy', 'deepcopy']))
    elif r < 0.6:
        history.append(rng.choice(['copy', 'deepcopy']))
    misc_none = (not models) and rng.random() < 0.5
    share = None
    if not misc_none and rng.random() < 0.2:
        other = rng.choice(['s', 'S', None]) if is_gas(phase) else rng.choice(list(GAS_SPELLINGS))
        first_is_gas = is_gas(phase)
        order = rng.choice(['first_first', 'second_first'])
        share = {'phase': other,
                 'order': 'gas_first' if (order == 'first_first') == first_is_gas else 'other_first'}
        if any(m['kind'] in ('gas', 'gas_raw') for m in models):
            share = None                               # a user supplied adjustment in a shared list is ambiguous
        elif not enabled:
            share = None
    spec = {'sp': _gen_species(rng, cls, name, phase), 'models': None if misc_none else models,
            'add_gas_P_adj': add, 'history': history, 'share': share}
    return _finish(rng, spec)


# ---------------------------------------------------------------- probes
_ST = {'ctx': None, 'counts': {}, 'init_mech': None}
_MODEL_GETTERS = ('get_CpoR', 'get_HoRT', 'get_SoR')


def _count_call(label, loc):
    k = (id(loc.get('self')), label.split('.', 1)[1])
    _ST['counts'][k] = _ST['counts'].get(k, 0) + 1
    return None


def _init_call(label, loc):
    mm = loc.get('misc_models')
    if isinstance(mm, list):
        return (mm, list(mm))
    return (mm, None)


def _init_ret(label, ret, snap):
    ctx = _ST['ctx']
    if ctx is None or not isinstance(snap, tuple) or len(snap) != 2 or snap[0] == 'probe-error':
        return
    mm, before = snap
    if before is None:
        ctx.branch('init:misc_models_not_a_list')
        return
    same = len(mm) == len(before) and all(a is b for a, b in zip(mm, before))
    ctx.branch('init:list_unchanged' if same else 'init:list_modified')
    mech = _ST['init_mech']
    if mech is not None:                       # only while the driver itself constructs a species
        if len(mm) == len(before):
            ctx.held('M2')
        else:
            ctx.fail('M2', mech, at='probe EmpiricalBase.__init__', before=len(before), after=len(mm))


def install_probes(pr, ctx):
    _ST['ctx'] = ctx

    def emp():
        import pmutt.empirical
        return pmutt.empirical

    def cov():
        from pmutt.mixture.cov import PiecewiseCovEffect
        return PiecewiseCovEffect

    def const():
        from pmutt.statmech import ConstantMode
        return ConstantMode
    pr.watch(lambda: emp().EmpiricalBase.__init__, 'EmpiricalBase.__init__', on_call=_init_call, on_ret=_init_ret)
    pr.watch(lambda: __import__('pmutt.mixture').mixture._get_mix_quantity, '_get_mix_quantity')
    for g in _MODEL_GETTERS:
        pr.watch(lambda g=g: getattr(emp().GasPressureAdj, g), 'GasPressureAdj.' + g, on_call=_count_call)
        pr.watch(lambda g=g: getattr(cov(), g), 'PiecewiseCovEffect.' + g, on_call=_count_call)
        pr.watch(lambda g=g: getattr(const(), g), 'ConstantMode.' + g, on_call=_count_call)
    pr.watch(lambda: cov().get_UoRT, 'PiecewiseCovEffect.get_UoRT')


# ---------------------------------------------------------------- driver
def _build_model(m):
    from pmutt.empirical import GasPressureAdj
    from pmutt.mixture.cov import PiecewiseCovEffect
    from pmutt.statmech import ConstantMode
    if m['kind'] == 'gas':
        return GasPressureAdj()
    if m['kind'] == 'gas_raw':
        return dict(RAW_GAS_ENTRY)
    if m['kind'] == 'cov':
        return PiecewiseCovEffect(name_i=m['name_i'], name_j=m['name_j'], intervals=list(m['intervals']),
                                  slopes=list(m['slopes']))
    return ConstantMode(Cp=m['Cp'], H=m['H'], S=m['S'], G=m['G'])


def _kwargs(cond, P='spec'):
    """condition keywords of one call, spelled in a fresh (replayable) random order."""
    items = []
    p = cond['P'] if P == 'spec' else P
    if p is not None:
        items.append(('P', p))
    if cond.get('x_shared') is not None:
        items.append(('x', cond['x_shared']))
    for j, x in cond['x'].items():
        blk = {'x': x}
        if j in (cond.get('P_block') or {}):
            blk['P'] = cond['P_block'][j]
        items.append(('%s_kwargs' % j, blk))
    d = cond.get('distractor')
    if d:
        items.append(('%s_kwargs' % d['name'], {'x': d['x'], 'P': d['P']}))
    if 'order_seed' in cond:
        _ST['kw_n'] = _ST.get('kw_n', 0) + 1
        random.Random('%s:%d' % (cond['order_seed'], _ST['kw_n'])).shuffle(items)
        ctx = _ST['ctx']
        keys = [k for k, _ in items]
        blocks = [i for i, k in enumerate(keys) if k.endswith('_kwargs') and k[:-7] in cond['x']]
        if ctx is not None and len(keys) >= 2:
            if 'x' in keys and blocks:
                ix = keys.index('x')
                if ix < min(blocks):
                    ctx.cls('kw_order:shared_x_before_block')
                if ix > max(blocks):
                    ctx.cls('kw_order:shared_x_after_block')
            if 'P' in keys:
                ip = keys.index('P')
                ctx.cls('kw_order:P_first' if ip == 0 else 'kw_order:P_last' if ip == len(keys) - 1
                        else 'kw_order:P_between')
    return dict(items)


def eff_x(cond, models):
    """coverage seen by each watched species j: its own block, else the shared x=, else the default 0."""
    out = {}
    for m in models:
        if m['kind'] == 'cov':
            j = m['name_j']
            if j in cond['x']:
                out[j] = cond['x'][j]
            elif cond.get('x_shared') is not None:
                out[j] = cond['x_shared']
            else:
                out[j] = 0.0
    return out


def _count_adj(obj):
    from pmutt.empirical import GasPressureAdj
    mm = obj.misc_models
    if mm is None:
        return 0
    return sum(1 for m in mm if isinstance(m, GasPressureAdj))


def _as_T(arr):
    if arr['kind'] == 'tuple':
        return tuple(arr['T'])
    import numpy as np
    return np.array(arr['T'], dtype=float) if arr['kind'] == 'ndarray' else list(arr['T'])


class _Eval:
    """Evaluates one object against the reference model."""

    def __init__(self, ctx, spec, sp, models, base_mech):
        from pmutt import constants as c
        self.ctx, self.spec, self.sp, self.models = ctx, spec, sp, models
        self.base = base_mech
        self.R_kcal, self.R_eV = c.R('kcal/mol/K'), c.R('eV/K')
        self.R_sho = c.R(sp['units']) if sp['type'] == 'Shomate' else None
        self.has_const = any(m['kind'] == 'const' for m in models)
        self.dependent = any(m['kind'] in ('cov', 'const') for m in models)

    def want(self, q, T, P, xs):
        return bare(self.sp, q, T, self.R_sho) + sum(
            contribution(m, q, T, P, xs, self.R_kcal, self.R_eV) for m in self.models)

    def m1(self, obj, hist, scalars, arrays):
        import numpy as np
        from pmutt.empirical import GasPressureAdj
        from pmutt.mixture.cov import PiecewiseCovEffect
        from pmutt.statmech import ConstantMode
        ctx, cond = self.ctx, self.spec['cond']
        xs = eff_x(cond, self.models)
        inputs = [('scalar', T, [T]) for T in scalars] + [('array', _as_T(a), list(a['T'])) for a in arrays]
        for q in Q:
            for kind, T_in, T_list in inputs:
                mech = dict(self.base, q=q, T_kind=kind, clause='M1', **hist)
                if len(set(T_list)) < len(T_list):
                    mech['T_repeats'] = True
                ctx.cls('T:' + kind)
                kw = _kwargs(cond)                       # fresh keyword order for every call
                _ST['counts'] = {}
                r = ctx.call('M1', mech, getattr(obj, 'get_' + q), T=T_in, **kw)
                counts, _ST['counts'] = _ST['counts'], {}
                if r is core.NOVALUE:
                    continue
                if kind == 'array' and len(T_list) >= 2 and self.dependent:
                    ctx.nontrivial()
                if not (q == 'GoRT' and self.has_const):
                    got = np.ravel(np.asarray(r, dtype=float))
                    want = np.array([self.want(q, T, cond['P'], xs) for T in T_list])
                    ctx.close('M1', got, want, TOL, mech, T=T_list, kwargs=kw, kw_order=list(kw),
                              models=[m['kind'] for m in self.models])
                if q != 'GoRT' and obj.misc_models is not None:
                    for m in obj.misc_models:
                        if not isinstance(m, (GasPressureAdj, PiecewiseCovEffect, ConstantMode)):
                            continue
                        n = counts.get((id(m), 'get_' + q), 0)
                        mult = sum(1 for o in obj.misc_models if o is m)     # one object listed mult times
                        ctx.check('CNT', n == mult * len(T_list), dict(mech, clause='CNT', model=type(m).__name__),
                                  calls=n, temperatures=len(T_list), listed=mult)

    def m3(self, obj, hist, scalars, arrays):
        import numpy as np
        ctx, cond = self.ctx, self.spec['cond']
        carries = any(m['kind'] == 'gas' for m in self.models)
        Ps = [cond['P'] if cond['P'] is not None else 0.37]
        Ps.append(round(1.0 / Ps[0], 6) if 0.02 < Ps[0] < 50 and Ps[0] != 1.0 else 7.5)
        inputs = [('scalar', T) for T in scalars[:1]] + [('array', _as_T(a)) for a in arrays[:1]]
        for kind, T_in in inputs:
            for q, sign in (('SoR', -1.0), ('GoRT', +1.0)):
                mech = dict(self.base, q=q, T_kind=kind, clause='M3', **hist)
                g = getattr(obj, 'get_' + q)
                ref = ctx.call('M3', dict(mech, P='1bar'), g, T=T_in, **_kwargs(cond, 1.0))
                if ref is core.NOVALUE:
                    continue
                ref = np.ravel(np.asarray(ref, dtype=float))
                dflt = ctx.call('M3', dict(mech, P='default'), g, T=T_in, **_kwargs(cond, None))
                if dflt is not core.NOVALUE:
                    ctx.close('M3', np.ravel(np.asarray(dflt, dtype=float)), ref, 1e-10, dict(mech, P='default'))
                for P in Ps:
                    v = ctx.call('M3', dict(mech, P='given'), g, T=T_in, **_kwargs(cond, P))
                    if v is core.NOVALUE:
                        continue
                    shift = sign * math.log(P) if carries else 0.0
                    ctx.close('M3', np.ravel(np.asarray(v, dtype=float)), ref + shift, 1e-10,
                              dict(mech, P='given'), P=P, carries_adj=carries)


def _near(ev, obj, hist):
    """NB: differentials between a special condition value and its neighbours (absolute tolerance), plus the
    neighbour temperatures through M1."""
    import numpy as np
    ctx, spec = ev.ctx, ev.spec
    near = spec.get('near')
    if not near:
        return
    cond = spec['cond']
    eps = 2.220446049250313e-16
    carries = any(m['kind'] == 'gas' for m in ev.models)
    if hist['history'] == 'reloaded':
        ctx.cls('near:reloaded')
    inputs = [('scalar', spec['Ts'][0], [spec['Ts'][0]])]
    if spec['arrays']:
        a = spec['arrays'][0]
        inputs.append(('array', _as_T(a), list(a['T'])))

    def diff(clause, q, kind, T_in, kw0, kw1, want, mech_extra, extra_scale=0.0, **detail):
        mech = dict(ev.base, q=q, T_kind=kind, clause=clause, **hist)
        mech.update(mech_extra)
        g = getattr(obj, 'get_' + q)
        v0 = ctx.call('NB', mech, g, T=T_in, **kw0)
        v1 = ctx.call('NB', mech, g, T=T_in, **kw1)
        if v0 is core.NOVALUE or v1 is core.NOVALUE:
            return
        v0 = np.ravel(np.asarray(v0, dtype=float))
        v1 = np.ravel(np.asarray(v1, dtype=float))
        # rounding of value = fl(bare + fl(sum of models)) (and G = fl(H - S)): bounded by a few ulp of the
        # largest intermediate, which is at most |value| + |bare H| + |bare S|
        scale = float(max(1.0, np.max(np.abs(v0)), np.max(np.abs(v1)))) + extra_scale
        T_all = np.ravel(np.asarray(T_in, dtype=float))
        scale += max(abs(bare(ev.sp, qq, float(T), ev.R_sho)) for T in T_all
                     for qq in (('HoRT', 'SoR') if q == 'GoRT' else (q,)))
        tol = max(1e-12, 8 * eps * scale)
        ctx.close('NB', v1 - v0, np.asarray(want, dtype=float), tol, mech, scale=1.0, tol_abs=tol,
                  value_scale=scale, **detail)

    # ---- pressure next to 1 bar: the monitor's own -ln P
    for label, P in near['P']:
        ctx.cls('P_near:' + label)
        for kind, T_in, T_list in inputs:
            for q, sign in (('SoR', -1.0), ('GoRT', +1.0)):
                want = [sign * math.log(P) if carries else 0.0] * len(T_list)
                diff('P_near', q, kind, T_in, _kwargs(cond, 1.0), _kwargs(cond, P), want, {'dist': label.lstrip('+-')},
                     P=P, side=label[0], carries_adj=carries)
    # ---- coverages next to 0, 1 and the breakpoints
    for j, pairs in near['x'].items():
        on_j = [m for m in ev.models if m['kind'] == 'cov' and m['name_j'] == j]   # several models may watch j
        if not on_j:
            continue
        for what, lab, x0, x1 in pairs:
            ctx.cls('x_near:' + what)
            d_pw = sum(pw_value(m['intervals'], m['slopes'], x1) - pw_value(m['intervals'], m['slopes'], x0)
                       for m in on_j)
            c0 = dict(cond, x=dict(cond['x'], **{j: x0}))
            c1 = dict(cond, x=dict(cond['x'], **{j: x1}))
            for kind, T_in, T_list in inputs:
                want = [d_pw / (ev.R_kcal * T) for T in T_list]
                # intermediates of the piecewise-linear functions themselves (slope x + intercept) / RT
                mag = sum(2 * sum(abs(v) for v in m['slopes']) for m in on_j) / (ev.R_kcal * min(T_list))
                for q in ('HoRT', 'GoRT'):
                    diff('x_near', q, kind, T_in, _kwargs(c0), _kwargs(c1), want, {'x_at': what, 'dist': lab},
                         extra_scale=mag, x0=x0, x1=x1, name_j=j)
    # ---- temperatures next to the segment bounds / the models' default temperature
    if near['T']:
        for what, lab, T in near['T']:
            ctx.cls('T_near:' + what)
        Ts = [t[2] for t in near['T']]
        ev.m1(obj, dict(hist, T_near=True), Ts if len(Ts) > 3 else Ts[:1], [{'kind': 'ndarray', 'T': Ts}])


DIM_Q = [('Cp', 'CpoR', 'J/mol/K', False), ('H', 'HoRT', 'kJ/mol', True), ('S', 'SoR', 'J/mol/K', False),
         ('G', 'GoRT', 'kJ/mol', True)]


def _dim(ev, obj, hist):
    """DIM: value in real units = dimensionless value x R (x T) under the same conditions."""
    import numpy as np
    from pmutt import constants as c
    ctx, spec = ev.ctx, ev.spec
    cond = spec['cond']
    k0 = (ctx.case_index or 0)
    inputs = [('scalar', spec['Ts'][k0 % len(spec['Ts'])], None)]
    for n, a in enumerate(spec['arrays'][:2]):
        kind = ('list', 'tuple', 'ndarray')[(k0 + n) % 3]
        inputs.append((kind, a['T'], a))
    for name, dl, unit, times_T in DIM_Q:
        R = c.R(unit + '/K' if times_T else unit)
        for kind, T, arr in inputs:
            if kind == 'scalar':
                T_in, T_arr = T, np.array([T], dtype=float)
            else:
                T_arr = np.array(T, dtype=float)
                T_in = list(T) if kind == 'list' else tuple(T) if kind == 'tuple' else T_arr
            mech = dict(ev.base, q=name, T_kind='scalar' if kind == 'scalar' else 'array', T_type=kind,
                        clause='DIM', **hist)
            if len(T_arr) == 1 and kind != 'scalar':
                ctx.cls('dim:len1_%s' % kind)                # one-element sequences are decided as given
                mech['T_len1'] = True
            ctx.cls('dim:%s:%s' % (name, kind))
            v = ctx.call('DIM', mech, getattr(obj, 'get_' + name), T=T_in, units=unit, **_kwargs(cond))
            d = ctx.call('DIM', dict(mech, step='dimensionless'), getattr(obj, 'get_' + dl), T=T_in, **_kwargs(cond))
            if v is core.NOVALUE or d is core.NOVALUE:
                continue
            want = np.ravel(np.asarray(d, dtype=float)) * R * (T_arr if times_T else 1.0)
            ctx.close('DIM', np.ravel(np.asarray(v, dtype=float)), want, 1e-12, mech, T=list(T_arr), units=unit)


def _reload(ctx, obj, op, mech):
    from pmutt.io.json import pmuttEncoder, json_to_pmutt
    if op == 'copy':
        return ctx.call('M2', mech, copy.copy, obj)
    if op == 'deepcopy':
        return ctx.call('M2', mech, copy.deepcopy, obj)
    if op == 'from_dict':
        d = ctx.call('M2', dict(mech, step='to_dict'), obj.to_dict)
        if d is core.NOVALUE:
            return d
        return ctx.call('M2', dict(mech, step='from_dict'), type(obj).from_dict, d)
    txt = ctx.call('M2', dict(mech, step='encode'), json.dumps, obj, cls=pmuttEncoder)
    if txt is core.NOVALUE:
        return txt
    return ctx.call('M2', dict(mech, step='decode'), json.loads, txt, object_hook=json_to_pmutt)


def run_case(spec, ctx):
    sp = spec['sp']
    cls, phase = sp['type'], sp['phase']
    models = expected_models(spec)
    user = spec['models']
    n_models = len(models)
    base = {'class': cls, 'phase_spelling': str(phase), 'n_models': bucket(n_models)}
    if spec.get('share') and user is not None:
        base['shared_list'] = True          # the same list object is also handed to a second species
    # ---- input classes
    ctx.cls('class:' + cls, 'phase:%s' % phase, 'n_models:' + bucket(n_models))
    ctx.cls('misc:None' if user is None else ('misc:list' if user else 'misc:empty_list'))
    flag = flag_label(spec.get('add_gas_P_adj'))
    ctx.cls('add_gas_P_adj:' + flag)
    base['flag'] = flag
    kinds = [m['kind'] for m in (user or [])]
    if 'gas_raw' in kinds:
        ctx.cls('model:gas_raw_entry')
        i_raw = kinds.index('gas_raw')
        ctx.cls('raw_entry:' + ('alone' if len(kinds) == 1 else 'first' if i_raw == 0 else
                                'last' if i_raw == len(kinds) - 1 else 'middle'))
        base['raw_entry'] = True
    elif 'gas' in kinds:
        ctx.cls('model:gas_preattached')
    elif any(m['kind'] == 'gas' for m in models):
        ctx.cls('model:gas_auto')
    ncov = kinds.count('cov')
    if ncov:
        ctx.cls('model:cov')
    if ncov >= 2:
        ctx.cls('model:cov_multi')
    if 'const' in kinds:
        ctx.cls('model:const')
    if any(m['kind'] == 'cov' and m['name_j'] == sp['name'] for m in (user or [])):
        ctx.cls('cov:self_interaction')
    cond = spec['cond']
    ctx.cls('P:default' if cond['P'] is None else 'P:given')
    if cond.get('distractor'):
        ctx.cls('cond:distractor_block')
    _ST['kw_n'] = 0
    if cond.get('x_shared') is not None:
        watched = set(m['name_j'] for m in (user or []) if m['kind'] == 'cov')
        ctx.cls('cond:shared_x')
        if watched & set(cond['x']):
            ctx.cls('cond:shared_x+specific_block')
            base['shared_x'] = 'with_block'
        else:
            base['shared_x'] = 'only'
        if watched - set(cond['x']):
            ctx.cls('cond:shared_x_only')
    for m in (user or []):
        if m['kind'] == 'cov':
            x = cond['x'].get(m['name_j'])
            if x is None and cond.get('x_shared') is not None:
                x = cond['x_shared']
                ctx.cls('x:shared')
            elif x is None:
                ctx.cls('x:default')
            elif x in m['intervals'][1:]:
                ctx.cls('x:on_break')
            if x is not None and x > m['intervals'][-1]:
                ctx.cls('x:beyond_last')
    hist_ops = set(spec['history'])
    # ---- value-equal coverage models
    groups = {}
    for m in (user or []):
        if m['kind'] == 'cov':
            groups.setdefault(json.dumps([m['name_i'], m['name_j'], m['intervals'], m['slopes']]), []).append(m)
    xs_eff = eff_x(cond, models)
    for g in groups.values():
        if len(g) < 2:
            continue
        labels = [m.get('obj') for m in g]
        same = any(lb is not None and labels.count(lb) >= 2 for lb in labels)
        distinct = len(set(lb if lb is not None else ('u', i) for i, lb in enumerate(labels))) >= 2
        base['dup_models'] = 'same_object' if same and not distinct else 'equal_distinct' if not same else 'both'
        if pw_value(g[0]['intervals'], g[0]['slopes'], xs_eff.get(g[0]['name_j'], 0.0)) == 0.0:
            continue                                     # no contribution: the stratum is not exercised
        if same:
            ctx.cls('dup:same_object')
        if distinct:
            ctx.cls('dup:equal_distinct')
        if len(g) >= 3:
            ctx.cls('dup:3+')
        if hist_ops & {'from_dict', 'json'}:
            ctx.cls('dup:reloaded')
        if hist_ops & {'copy', 'deepcopy'}:
            ctx.cls('dup:copied')
        ctx.cls('dup:' + cls)
    # ---- species specific blocks that carry their own pressure
    Pb = cond.get('P_block') or {}
    if Pb:
        base['block_P'] = True
    P_eff = 1.0 if cond['P'] is None else cond['P']
    rel = set(j for j in Pb if j in cond['x'] and Pb[j] != P_eff)
    pos_cov = [i for i, m in enumerate(models) if m['kind'] == 'cov' and m['name_j'] in rel]
    if pos_cov:
        ctx.cls('block_P:any', 'block_P:' + cls)
        if cond['P'] is None:
            ctx.cls('block_P:shared_P_default')
        pos_gas = [i for i, m in enumerate(models) if m['kind'] == 'gas']
        if not pos_gas:
            ctx.cls('block_P:no_adj')
        else:
            before, after = min(pos_cov) < pos_gas[0], max(pos_cov) > pos_gas[0]
            if before:
                ctx.cls('block_P:adj_after_cov')
            if after:
                ctx.cls('block_P:adj_before_cov')
            if before and after:
                ctx.cls('block_P:adj_between_cov')
            if hist_ops & {'from_dict', 'json'}:
                ctx.cls('block_P:reloaded')
    for a in spec['arrays']:
        n = len(a['T'])
        ctx.cls('array:' + a['kind'])
        if n >= 2:
            if len(set(a['T'])) == 1:
                ctx.cls('T:array_all_equal', 'T:array_repeats')
            else:
                if len(set(a['T'])) < n:
                    ctx.cls('T:array_repeats')
                if all(a['T'][k] >= a['T'][k + 1] for k in range(n - 1)):
                    ctx.cls('T:array_descending')
                elif not all(a['T'][k] <= a['T'][k + 1] for k in range(n - 1)):
                    ctx.cls('T:array_unsorted')
        if n in (1, 2, 50):
            ctx.cls('array:len%d' % n)
        if n == n_models and n >= 2:
            ctx.cls('array:len=n_models')
        if cls == 'Nasa9' and len(sp['nasas']) > 1 and n_models >= 1:
            segs = set(k for T in a['T'] for k, s in enumerate(sp['nasas']) if s['T_low'] <= T <= s['T_high'])
            if len(segs) > 1:
                ctx.cls('nasa9:array_spans_segments')
            if len(sp['nasas']) - 1 in segs:
                ctx.cls('nasa9:last_segment')
    reloads = [op for op in spec['history'] if op in ('from_dict', 'json')]
    for op in set(spec['history']):
        ctx.cls('hist:' + op)
    if len(reloads) >= 3:
        ctx.cls('hist:cycles3')
    ctx.nontrivial(n_models >= 2 or bool(reloads))

    # ---- construction
    extra = {}
    lst = None
    if user is not None:
        lst, same = [], {}
        for m in user:
            if m.get('obj') is not None:                 # entries with the same label are one object
                if m['obj'] not in same:
                    same[m['obj']] = _build_model(m)
                lst.append(same[m['obj']])
            else:
                lst.append(_build_model(m))
        extra['misc_models'] = lst
    if flag != 'default':
        extra['add_gas_P_adj'] = flag_value(flag)
    before = list(lst) if lst is not None else None
    hist = {'history': 'constructed'}
    share = spec.get('share')
    other = None
    m2 = dict(base, clause='M2', **hist)
    cl_mech = dict(base, clause='caller_list', **hist)

    def construct(spc):
        _ST['init_mech'] = cl_mech
        try:
            return ctx.call('M2', m2, SG.build, spc, **extra)
        finally:
            _ST['init_mech'] = None

    if share and lst is not None:
        sp2 = dict(sp, phase=share['phase'], name=sp['name'] + '_2')
        first_is_gas = is_gas(phase)
        main_first = (share['order'] == 'gas_first') == first_is_gas
        ctx.cls('shared_list:' + share['order'])
        if main_first:
            obj = construct(sp)
            other = construct(sp2)
        else:
            other = construct(sp2)
            obj = construct(sp)
    else:
        obj = construct(sp)
    if obj is core.NOVALUE:
        return
    if lst is not None:
        ctx.check('M2', len(lst) == len(before) and all(a is b for a, b in zip(lst, before)), cl_mech,
                  before=[type(m).__name__ for m in before], after=[type(m).__name__ for m in lst])
    want_adj = 1 if any(m['kind'] == 'gas' for m in models) else 0
    ctx.check('M2', _count_adj(obj) == want_adj, m2, got=_count_adj(obj), want=want_adj,
              add_gas_P_adj=flag)
    ev = _Eval(ctx, spec, sp, models, base)
    if other is not None and other is not core.NOVALUE:
        # the second species shares the caller's list: it carries an adjustment iff *it* is a gas
        ph2 = share['phase']
        models2 = expected_models(spec, ph2, first=False)
        want2 = 1 if is_gas(ph2) else 0
        sh_mech = dict(base, clause='shared_list', other_phase=str(ph2), order=share['order'], **hist)
        ctx.check('M2', _count_adj(other) == want2, sh_mech, got=_count_adj(other), want=want2)
        ctx.check('M2', _count_adj(obj) == want_adj, dict(sh_mech, which='first'), got=_count_adj(obj),
                  want=want_adj)
        ev2 = _Eval(ctx, spec, dict(sp, phase=ph2), models2,
                    dict(base, phase_spelling=str(ph2), n_models=bucket(len(models2))))
        ev2.m1(other, hist, spec['Ts'][:1], spec['arrays'][:1])
        ev2.m3(other, hist, spec['Ts'], spec['arrays'])
    # ---- constructed object: every temperature input
    ev.m1(obj, hist, spec['Ts'], spec['arrays'])
    ev.m3(obj, hist, spec['Ts'], spec['arrays'])
    _near(ev, obj, hist)
    _dim(ev, obj, hist)
    # ---- history
    disabled = not FLAG_TRUTHY[flag] and is_gas(phase)
    vias = []
    for k, op in enumerate(spec['history']):
        if op in ('from_dict', 'json') and op not in vias:
            vias.append(op)
        # label = the strongest thing that has happened to the object so far
        hist = {'history': 'reloaded', 'via': '+'.join(sorted(vias))} if vias else {'history': 'copied', 'via': op}
        m2 = dict(base, clause='M2', **hist)
        new = _reload(ctx, obj, op, m2)
        if new is core.NOVALUE:
            return
        if not ctx.check('M2', type(new) is type(obj), dict(m2, step='class'), got=type(new).__name__):
            return
        obj = new
        if flag != 'default':
            ctx.cls('flag_route:%s:%s' % (flag, op))
        if disabled and hist['history'] == 'reloaded':
            # the user disabled the adjustment: a reload must not bring it back (was telemetry until the
            # flag was made persistent in /repo; now decided by the M2 count below, want_adj == 0)
            ctx.cls('hist:disabled_then_reloaded')
        ctx.check('M2', _count_adj(obj) == want_adj, m2, got=_count_adj(obj), want=want_adj, step=k)
        last = k == len(spec['history']) - 1
        ev.m1(obj, hist, spec['Ts'][-1:], spec['arrays'][:1] if not last else spec['arrays'])
        if last or hist['history'] == 'reloaded':
            ev.m3(obj, hist, spec['Ts'], spec['arrays'])
        if last:
            _near(ev, obj, hist)
            _dim(ev, obj, hist)

"""C01  Statistical-mechanical species are thermodynamically self-consistent.

Generated species (one model per slot: translation / vibration / rotation / electronic /
nuclear, optional reference offsets, optional user-set ConstantMode misc models) are built
with the real pMuTT classes and driven through every dimensionless getter at random
(T, P).  Oracles (DESIGN.md section 4, C01):

R1  G = H - TS, F = U - TS                                   (each mode object and StatMech)
R2  int Cv dT = T2 U/RT(T2) - T1 U/RT(T1), same for Cp / H   (integral form, vf/ref/quad.py)
R3  S(T2) - S(T1) = int Cp/T dT at constant P
R4  S(P2) - S(P1) = -ln(P2/P1) with FreeTrans, 0 without
R5  H/RT - U/RT = 1 with FreeTrans, 0 without (references off)
R6  verbose vector: sum (product for q) equals the total, entries equal what the mode
    objects / references / ConstantModes report on their own; get_EoRT = elec U (+ ZPE)
R7  every closed-form mode equals the textbook expression (vf/ref/statmech.py), also after
    re-assigning ANY public parameter of any mode object (cache / memo refresh histories)
R8  geometry-derived parameters are invariant under rotation + translation + permutation
    (all 162 molecules of ase.collections.g2 in every run)
R9  every documented point-group label builds the rotor of the tabulated symmetry number
INV online invariant at the getters' entry hooks: cached _valid_vib_* arrays equal the filter
    of the current vib_wavenumbers with the current substitute; _degeneracy == 2*spin+1
"""
import math
import random

from vf import core
from vf.gen import species as G
from vf.ref import quad
from vf.ref import statmech as ref

ID = 'C01'
N = {'quick': 4500, 'thorough': 150000}
NT_RULE = ('case = species spec (one model per slot trans/vib/rot/elec/nucl + misc ConstantModes + '
           'reference offsets + options + <=2 re-assignment operations + 3 (T,P) points + one T '
           'interval + one P pair) or a geometry case (g2 molecule + rotation + translation + atom '
           'permutation), drawn per case index from a seeded PRNG after a directed list (boundary '
           'values, pinned witnesses, all 162 g2 molecules, all 13 point-group labels); non-trivial = '
           'species with >=2 non-empty modes of different kind, or geometry case with >=3 atoms; '
           'distinct = distinct canonical JSON of the spec')
REQUIRED_ORACLES = ['R1', 'R2', 'R3', 'R4', 'R5', 'R6', 'R7', 'R8', 'R9']   # INV is best-effort (private caches)
REQUIRED_CLASSES = ['trans:none', 'trans:1', 'trans:2', 'trans:3',
                    'vib:none', 'vib:HarmonicVib', 'vib:QRRHOVib', 'vib:EinsteinVib', 'vib:DebyeVib',
                    'vib:imag_dropped', 'vib:imag_substituted',
                    'rot:none', 'rot:monatomic', 'rot:linear', 'rot:nonlinear', 'sigma:label', 'sigma:number',
                    'elec:none', 'elec:GroundStateElec', 'elec:LSR', 'nucl:none', 'nucl:EmptyNucl',
                    'misc:1', 'misc:2', 'refs', 'hist:set_wavenumbers', 'hist:set_imaginary_substitute',
                    'hist:set_spin', 'opt:include_ZPE', 'opt:raise_error=False', 'opt:use_references=False',
                    'regime:theta>>T', 'regime:theta<<T', 'geom:monatomic', 'geom:linear', 'geom:nonlinear',
                    'pointgroups:exhaustive', 'pointgroups:runtime_table', 'pointgroups:docstring_table',
                    'sigma:label_from_runtime_table',
                    # assembly route: mode CLASSES + flat keyword arguments (documented, what presets do)
                    'route:class:FreeTrans', 'route:class:HarmonicVib', 'route:class:QRRHOVib',
                    'route:class:EinsteinVib', 'route:class:DebyeVib', 'route:class:RigidRotor',
                    'route:class:GroundStateElec', 'route:class:EmptyNucl', 'route:class:EmptyMode',
                    'route:class:all_slots', 'route:class:imaginary_substitute', 'route:class:sigma_label',
                    'route:class:typed',
                    # exact ties (symmetric / spherical tops, degenerate vibrations)
                    'rot:symmetric_top', 'rot:spherical_top', 'vib:degenerate',
                    # corners of the quantifier box (low T / characteristic-temperature ratios etc.)
                    'corner:case', 'corner:T=50', 'corner:T=5000', 'corner:P=1e-4', 'corner:P=1e3',
                    'corner:M=1', 'corner:M=500', 'corner:T<1.5*theta_rot:linear',
                    'corner:T<1.5*theta_rot:nonlinear', 'corner:T<=theta_rot', 'corner:theta_rot=0.01',
                    'corner:theta_vib/T>50', 'corner:crystal_theta/T>=20', 'corner:crystal_theta/T<=0.02',
                    # parameter typing: whole numbers given as int / numpy int, sequences as list / tuple / ndarray
                    'typing:int_list', 'typing:int_tuple', 'typing:int_ndarray', 'typing:np.int64_list',
                    'typing:np.int64_tuple', 'typing:np.int64_ndarray', 'typing:float_tuple',
                    'typing:np.float64_ndarray', 'typing:int_T', 'typing:np.int64_T',
                    'typing:int_wavenumbers', 'typing:int_rot_temperatures', 'typing:int_scalars',
                    'vib:int_wavenumbers+fractional_substitute',
                    'hist:set_imaginary_substitute:int_wavenumbers+fractional',
                    'hist:set_wavenumbers:int+fractional_substitute',
                    # re-assignment of every public parameter after a first evaluation
                    'hist:set_molecular_weight', 'hist:set_n_degrees', 'hist:set_rot_temperatures',
                    'hist:set_symmetrynumber', 'hist:set_geometry', 'hist:set_potentialenergy',
                    'hist:set_einstein_temperature', 'hist:set_debye_temperature',
                    'hist:set_interaction_energy:EinsteinVib', 'hist:set_interaction_energy:DebyeVib',
                    'hist:set_wavenumbers:HarmonicVib', 'hist:set_wavenumbers:QRRHOVib',
                    'hist:set_imaginary_substitute:HarmonicVib', 'hist:set_imaginary_substitute:QRRHOVib',
                    'hist:set_Bav', 'hist:set_v0', 'hist:set_alpha']
REQUIRED_BRANCHES = []
REQUIRED_PROBES = ['StatMech.get_quantity', '_get_mode_quantity', '_get_valid_vib_wavenumbers',
                   'HarmonicVib.vib_wavenumbers.setter', 'QRRHOVib.vib_wavenumbers.setter',
                   'GroundStateElec.spin.setter', 'get_rot_temperatures_from_atoms',
                   'get_geometry_from_atoms', 'FreeTrans.get_SoR', 'HarmonicVib.get_CvoR',
                   'QRRHOVib.get_SoR', 'EinsteinVib.get_UoRT', 'DebyeVib.get_CvoR',
                   'RigidRotor.get_SoR', 'GroundStateElec.get_UoRT', 'LSR.get_UoRT',
                   'StatMech.get_EoRT']
ASSUMPTIONS = [
    'reference constants are the CODATA-2014 recommended values pMuTT documents (h, kB in J/K and '
    'eV/K, NA, c); derived constants differ from pMuTT literals by <=1e-8, so closed forms (R7) are '
    'compared at 1e-6 (scale-aware), Debye included (reference Debye integrals by 40-point '
    'Gauss-Legendre)',
    'q is compared with a closed form only for HarmonicVib, linear/nonlinear RigidRotor and '
    'FreeTrans; for 1-/2-D translation S and q are compared with the n-dimensional form of the '
    'Sackur-Tetrode equation that follows from the q the FreeTrans docstring defines for every n '
    '(S/R = ln q + 1 + n/2) -- a deviation from DESIGN.md R7, which left them relational-only: a '
    'constant shift of S for n<3 is invisible to R1-R6; QRRHOVib.get_q is documented as not '
    'implemented and is not called',
    'LSR electronic model: relational clauses only; ConstantMode misc models: additivity (R6) only',
    'get_EoRT(include_ZPE=True) on a species whose vibrational slot has no ZPE is only evaluated '
    'with raise_error=False (raise_error=True documents an AttributeError)',
    'geometry clause: besides invariance, three sanity references that no correct implementation can '
    'miss on the G2 set: linear/nonlinear where every / some i-j-k angle deviates <1 / >10 degrees from '
    'collinear, rotational temperatures from the inertia tensor (3e-3; pMuTT amu literal has 4 digits; '
    'observed 2.3e-5), molar mass vs. the sum of ASE atomic masses (5e-2; observed 3.7e-4)',
    'assembly routes: besides ready-made mode objects, species are assembled the documented class + '
    'flat-kwargs way (StatMech(vib_model=vib.HarmonicVib, vib_wavenumbers=..., ...), what presets do) for '
    'every mode class and every constructor parameter; the modes such a species holds must satisfy the '
    'closed forms and its totals must equal the object-route species (1e-12)',
    '"any documented point-group label" is read from the tree under test at run time (point-group keys of '
    'constants.symmetry_dict, CAS-number keys skipped, plus the table in the RigidRotor docstring) and '
    'every label is compared with a rule-based reference (C1/Ci/Cs 1; Cn/Cnv/Cnh n; Dn/Dnd/Dnh 2n; S2n n; '
    'T/Td/Th 12; O/Oh 24; I/Ih 60; Cinfv 1; Dinfh 2); a label the rule does not understand is an '
    'inconclusive point for that label only',
    'parameter typing stratum: whole-number parameter values handed over as Python int or numpy int64 '
    '(or everything as numpy float64), sequences as list / tuple / ndarray, whole temperatures as int / '
    'numpy int64 must give the closed forms of the numeric values (R7) and exactly (1e-12) what the same '
    'numbers as floats in a list give; numpy float32 parameters are NOT generated: the unchanged tree is '
    'not exact for them (float32 arithmetic, overflow to inf / -inf in FreeTrans and EinsteinVib)',
    're-assigning any public parameter of a mode object after a first evaluation (molecular_weight, '
    'n_degrees, vib_wavenumbers, imaginary_substitute, Einstein/Debye temperature, interaction_energy, '
    'rot_temperatures, symmetrynumber (number), geometry together with its rot_temperatures, '
    'potentialenergy, spin) must give the object of a fresh construction with the new value; '
    'QRRHOVib.Bav / v0 / alpha included since the fix recorded as C01-qrrho-stale-scaling-cache',
    'integral-form tolerance 1e-7*max(1,|integral|) + 1e-12*(|T2 X2|+|T1 X1|); quadrature error '
    'estimate above 10% of that makes the point inconclusive',
]

TOL_REL = 1e-10       # R1, R4, R5
TOL_INT = 1e-7        # R2, R3
TOL_ADD = 1e-12       # R6
TOL_CF = 1e-6         # R7 (largest error on correct code 8.6e-9: R/NA vs kB literals)
TOL_GEO = 1e-8        # R8
QUANTS = ('CvoR', 'CpoR', 'UoRT', 'HoRT', 'SoR', 'FoRT', 'GoRT')
SLOTS = ('trans', 'vib', 'rot', 'elec', 'nucl')
LABELS = sorted(ref.POINT_GROUPS)


# ====================================================================== generator
def _gen_T(rng):
    r = rng.random()
    if r < 0.04:
        return 50.0
    if r < 0.08:
        return 5000.0
    if r < 0.12:
        return 298.15
    return G.logu(rng, 50.0, 5000.0)


def _gen_P(rng):
    r = rng.random()
    if r < 0.04:
        return 1e-4
    if r < 0.08:
        return 1e3
    if r < 0.15:
        return 1.0
    return G.logu(rng, 1e-4, 1e3)


def _gen_interval(rng):
    T1 = G.logu(rng, 50.0, 4900.0)
    r = rng.random()
    if r < 0.12:
        T2 = T1 + G.logu(rng, 1e-3, 1.0)
    elif r < 0.85:
        T2 = T1 * rng.uniform(1.05, 2.5)
    elif r < 0.95:
        T2 = T1 * rng.uniform(2.5, 100.0)
    else:
        T1, T2 = 50.0, 5000.0
    T2 = min(5000.0, float('%.7g' % T2))
    if T2 <= T1:
        T1, T2 = 2500.0, 5000.0
    return [T1, T2]


def _gen_misc(rng):
    m = {}
    for k in rng.sample(['q', 'Cv', 'Cp', 'U', 'H', 'S', 'F', 'G'], rng.randint(1, 5)):
        if k == 'q':
            m[k] = G.rnd(rng, 0.1, 10.0, 4)
        elif k in ('Cv', 'Cp', 'S'):
            m[k] = G.rnd(rng, -1e-3, 1e-3, 7)
        else:
            m[k] = G.rnd(rng, -2.0, 2.0, 4)
    return m


# re-assignment operations: name -> (slot, attribute, classes that have it)
HIST_OPS = {
    'set_molecular_weight': ('trans', 'molecular_weight', ('FreeTrans',)),
    'set_n_degrees': ('trans', 'n_degrees', ('FreeTrans',)),
    'set_wavenumbers': ('vib', 'vib_wavenumbers', ('HarmonicVib', 'QRRHOVib')),
    'set_imaginary_substitute': ('vib', 'imaginary_substitute', ('HarmonicVib', 'QRRHOVib')),
    'set_Bav': ('vib', 'Bav', ('QRRHOVib',)),
    'set_v0': ('vib', 'v0', ('QRRHOVib',)),
    'set_alpha': ('vib', 'alpha', ('QRRHOVib',)),
    'set_einstein_temperature': ('vib', 'einstein_temperature', ('EinsteinVib',)),
    'set_debye_temperature': ('vib', 'debye_temperature', ('DebyeVib',)),
    'set_interaction_energy': ('vib', 'interaction_energy', ('EinsteinVib', 'DebyeVib')),
    'set_rot_temperatures': ('rot', 'rot_temperatures', ('RigidRotor',)),
    'set_symmetrynumber': ('rot', 'symmetrynumber', ('RigidRotor',)),
    'set_geometry': ('rot', 'geometry', ('RigidRotor',)),       # value = {geometry, rot_temperatures}
    'set_potentialenergy': ('elec', 'potentialenergy', ('GroundStateElec',)),
    'set_spin': ('elec', 'spin', ('GroundStateElec',)),
}
# operations excluded from generation (none: the QRRHOVib Bav / v0 / alpha stale cache was fixed in /repo,
# known_findings.json C01-qrrho-stale-scaling-cache)
HIST_EXCLUDED = ()
_N_ROT = {'monatomic': 0, 'linear': 1, 'nonlinear': 3}


def _gen_rot_T(rng, n, tie=None):
    """n rotational temperatures; tie = 2 / 3 makes that many EXACTLY equal (symmetric / spherical top)"""
    r = rng.random()
    if r < 0.15:
        vals = [rng.choice([0.01, 100.0]) for _ in range(n)]
    elif r < 0.30:
        vals = [G.logu(rng, 40.0, 100.0) for _ in range(n)]
    else:
        vals = [G.logu(rng, 0.01, 100.0) for _ in range(n)]
    if tie and n == 3:
        vals[1] = vals[0]
        if tie == 3:
            vals[2] = vals[0]
        rng.shuffle(vals)
    return vals


def _hist_value(rng, op, spec_slot):
    corner = rng.random() < 0.25
    if op == 'set_molecular_weight':
        return rng.choice([1.0, 500.0]) if corner else G.logu(rng, 1.0, 500.0)
    if op == 'set_n_degrees':
        return rng.choice([n for n in (1, 2, 3) if n != spec_slot.get('n_degrees')])
    if op == 'set_wavenumbers':
        w = G.gen_wavenumbers(rng)
        if corner:
            w[0] = rng.choice([10.0, 4500.0])
        if rng.random() < 0.3 and len(w) > 1:
            w[-1] = w[0]
        return w
    if op == 'set_imaginary_substitute':
        return rng.choice([None, G.rnd(rng, 10, 200, 2), G.rnd(rng, 10, 200, 2), 10.0, 200.0])
    if op == 'set_Bav':
        return rng.choice([1e-46, 1e-43]) if corner else G.logu(rng, 1e-46, 1e-43)
    if op == 'set_v0':
        return rng.choice([50.0, 200.0]) if corner else G.rnd(rng, 50, 200, 2)
    if op == 'set_alpha':
        return rng.choice([a for a in (2, 3, 4, 5, 6) if a != spec_slot.get('alpha')])
    if op in ('set_einstein_temperature', 'set_debye_temperature'):
        return rng.choice([50.0, 2000.0]) if corner else G.logu(rng, 50, 2000)
    if op == 'set_interaction_energy':
        return rng.choice([-1.0, 1.0, 0.0]) if corner else G.rnd(rng, -1, 1, 4)
    if op == 'set_rot_temperatures':
        n = _N_ROT[spec_slot['geometry']]
        return _gen_rot_T(rng, n, tie=rng.choice([None, None, 2, 3]))
    if op == 'set_symmetrynumber':
        return rng.choice([x for x in (1, 2, 3, 4, 6, 10, 12, 24) if x != spec_slot.get('symmetrynumber')])
    if op == 'set_geometry':
        g = rng.choice([x for x in _N_ROT if x != spec_slot['geometry']])
        return {'geometry': g, 'rot_temperatures': _gen_rot_T(rng, _N_ROT[g], tie=rng.choice([None, 2, 3]))}
    if op == 'set_potentialenergy':
        return rng.choice([-50.0, 0.0]) if corner else G.rnd(rng, -50, 0, 5)
    if op == 'set_spin':
        return rng.choice([x for x in (0, 0.5, 1, 1.5, 2, 2.5, 3) if x != spec_slot.get('spin')])
    raise ValueError(op)


def _gen_hist(rng, spec):
    """1-3 re-assignments of public parameters of the species' modes (applied after a first full
    evaluation; every one is followed by a re-evaluation)"""
    state = {s: (dict(spec[s]) if spec[s] else None) for s in SLOTS}
    ops = []
    for _ in range(rng.choice([1, 1, 2, 2, 3])):
        cand = [op for op, (slot, attr, classes) in HIST_OPS.items()
                if op not in HIST_EXCLUDED and state[slot] and state[slot]['type'] in classes
                and not (op == 'set_rot_temperatures' and state[slot]['geometry'] == 'monatomic')]
        if not cand:
            break
        op = rng.choice(cand)
        slot, attr, _c = HIST_OPS[op]
        val = _hist_value(rng, op, state[slot])
        ops.append([op, val])
        if op == 'set_geometry':
            state[slot].update(val)
        else:
            state[slot][attr] = val
    return ops


def _corner(rng, spec):
    """push every parameter of the species to (or next to) an end of its quantifier interval and
    the conditions to the cold / hot / dilute / dense corners"""
    pick = lambda lo, hi, near=None: rng.choice([lo, hi] if near is None else [lo, hi, near])
    t, v, r, e = spec['trans'], spec['vib'], spec['rot'], spec['elec']
    if t:
        t['molecular_weight'] = pick(1.0, 500.0)
    if v:
        if 'vib_wavenumbers' in v:
            v['vib_wavenumbers'] = [pick(10.0, 4500.0, G.logu(rng, 2000.0, 4500.0)) * (1 if w > 0 else -1)
                                    for w in v['vib_wavenumbers']]
            if v.get('imaginary_substitute') is not None:
                v['imaginary_substitute'] = pick(10.0, 200.0)
        if v['type'] == 'QRRHOVib':
            v['Bav'], v['v0'], v['alpha'] = pick(1e-46, 1e-43), pick(50.0, 200.0), pick(2, 6)
        if 'einstein_temperature' in v:
            v['einstein_temperature'] = pick(50.0, 2000.0)
        if 'debye_temperature' in v:
            v['debye_temperature'] = pick(50.0, 2000.0)
        if 'interaction_energy' in v:
            v['interaction_energy'] = pick(-1.0, 1.0)
    if r and r['rot_temperatures']:
        hot = rng.random() < 0.6
        r['rot_temperatures'] = [(pick(100.0, G.rnd(rng, 60, 100, 3)) if hot else pick(0.01, 100.0))
                                 for _ in r['rot_temperatures']]
        if not isinstance(r['symmetrynumber'], str):
            r['symmetrynumber'] = pick(1, 24)
    if e and e['type'] == 'GroundStateElec':
        e['potentialenergy'], e['spin'] = pick(-50.0, 0.0), pick(0, 3)
    Ts = [50.0, G.rnd(rng, 50, 150, 3), rng.choice([5000.0, 50.0, G.rnd(rng, 50, 150, 3), 298.15])]
    spec['conds'] = [[T, rng.choice([1e-4, 1e3, 1.0, _gen_P(rng)])] for T in Ts]
    spec['interval'] = rng.choice([[50.0, G.rnd(rng, 55, 150, 2)], [50.0, 5000.0], [G.rnd(rng, 3000, 4900, 1), 5000.0]])
    spec['Ppair'] = rng.choice([[1e-4, 1e3], [1e3, 1e-4], [1.0, 1e3]])
    spec['corner'] = True


# ---------------------------------------------------------------------- parameter typing
SEQ_ATTRS = ('vib_wavenumbers', 'rot_temperatures')
SCALAR_ATTRS = ('molecular_weight', 'imaginary_substitute', 'v0', 'einstein_temperature', 'debye_temperature',
                'interaction_energy', 'potentialenergy', 'spin', 'symmetrynumber')
INT_KINDS = ('int', 'np.int64')
FLOAT_TY = {'scalar': 'float', 'container': 'list', 'T': 'float'}


def _whole_attr(attr, v):
    """nearest whole number inside the quantifier range (plain Python int in the spec)"""
    if v is None or isinstance(v, str):
        return v
    if attr == 'vib_wavenumbers':
        return [(1 if w > 0 else -1) * max(10, int(round(abs(w)))) for w in v]
    if attr == 'rot_temperatures':
        return [max(1, int(round(x))) for x in v]
    if attr == 'molecular_weight':
        return max(1, int(round(v)))
    if attr in ('einstein_temperature', 'debye_temperature'):
        return max(50, int(round(v)))
    if attr == 'v0':
        return max(50, int(round(v)))
    if attr in ('interaction_energy', 'potentialenergy'):
        return int(round(v))
    return v            # imaginary_substitute (kept fractional on purpose), spin (half-integers), Bav ...


def _fractional(rng):
    v = rng.choice([rng.randint(10, 199) + rng.choice([0.5, 0.25, 0.75]), G.rnd(rng, 10, 200, 2)])
    return v if v != int(v) else v + 0.5


def _typing(rng, spec):
    """give the species' parameters a non-default type: whole-number values as Python int or
    numpy int64 (or everything as numpy float64), sequences as list / tuple / ndarray, T as int."""
    ty = {'scalar': rng.choice(['int', 'int', 'np.int64', 'np.int64', 'np.float64', 'float']),
          'container': rng.choice(['list', 'tuple', 'ndarray']),
          'T': rng.choice(['float', 'int', 'np.int64'])}
    if ty['scalar'] == 'float' and ty['container'] == 'list':
        ty['container'] = 'tuple'
    spec['typing'] = ty
    if ty['T'] != 'float':
        spec['conds'] = [[int(min(5000, max(50, round(T)))), P] for T, P in spec['conds']]
    if ty['scalar'] not in INT_KINDS:
        return
    for slot in SLOTS:
        m = spec[slot]
        if m:
            for a in list(m):
                if a in SEQ_ATTRS or a in SCALAR_ATTRS:
                    m[a] = _whole_attr(a, m[a])
    for op in spec['hist']:
        attr = HIST_OPS[op[0]][1]
        if op[0] == 'set_geometry':
            op[1]['rot_temperatures'] = _whole_attr('rot_temperatures', op[1]['rot_temperatures'])
        else:
            op[1] = _whole_attr(attr, op[1])
    v = spec['vib']
    if v and 'vib_wavenumbers' in v and rng.random() < 0.7:
        # integer wavenumbers + imaginary mode + FRACTIONAL substitute, at construction and / or by
        # re-assignment of imaginary_substitute / vib_wavenumbers
        w = v['vib_wavenumbers']
        if not any(x <= 0 for x in w):
            w[rng.randrange(len(w))] *= -1
        how = rng.choice(['construct', 'construct', 'assign_substitute', 'assign_wavenumbers'])
        if how == 'assign_substitute':
            v['imaginary_substitute'] = rng.choice([None, rng.randint(10, 200)])
            spec['hist'] = spec['hist'][:2] + [['set_imaginary_substitute', _fractional(rng)]]
        else:
            v['imaginary_substitute'] = _fractional(rng)
            if how == 'assign_wavenumbers':
                neww = _whole_attr('vib_wavenumbers', G.gen_wavenumbers(rng))
                neww[rng.randrange(len(neww))] = -abs(neww[0])
                spec['hist'] = [h for h in spec['hist'] if h[0] != 'set_imaginary_substitute'][:2] \
                    + [['set_wavenumbers', neww]]


def gen_species(rng, force=None):
    force = force or {}
    spec = {'kind': 'species', 'name': 'sp', 'elements': G.gen_elements(rng)}
    spec['trans'] = G.gen_trans(rng)
    spec['vib'] = G.gen_vib(rng)
    if spec['vib'] and spec['vib']['type'] in ('HarmonicVib', 'QRRHOVib') and rng.random() < 0.3:
        # make sure imaginary modes occur often enough in both treatments
        w = spec['vib']['vib_wavenumbers']
        w[rng.randrange(len(w))] = -G.logu(rng, 10.0, 2000.0)
        spec['vib']['imaginary_substitute'] = rng.choice([None, G.rnd(rng, 10, 200, 2)])
    if spec['vib'] and 'vib_wavenumbers' in spec['vib'] and rng.random() < 0.25:
        # degenerate vibrations: exactly repeated wavenumbers (CH4, NH3, benzene ...)
        w = spec['vib']['vib_wavenumbers']
        for _ in range(rng.randint(1, 3)):
            if len(w) < 12:
                w.insert(rng.randrange(len(w) + 1), rng.choice(w))
    spec['rot'] = G.gen_rot(rng)
    if spec['rot'] and spec['rot']['geometry'] == 'nonlinear' and rng.random() < 0.4:
        # symmetric / spherical tops: exactly equal rotational temperatures
        spec['rot']['rot_temperatures'] = _gen_rot_T(rng, 3, tie=rng.choice([2, 2, 3]))
    if spec['rot'] and rng.random() < 0.25:
        spec['rot']['symmetrynumber'] = rng.choice(LABELS)
    r = rng.random()
    if r < 0.15:
        spec['elec'] = None
    elif r < 0.30:
        spec['elec'] = {'type': 'LSR', 'slope': G.rnd(rng, 0.0, 1.0, 4), 'intercept': G.rnd(rng, -30, 30, 3),
                        'reaction': G.rnd(rng, -150, 0, 3), 'surf_species': G.rnd(rng, -500, 0, 3),
                        'gas_species': G.rnd(rng, -500, 0, 3)}
    else:
        spec['elec'] = G.gen_elec(rng, allow_none=False)
    spec['nucl'] = rng.choice([None, {'type': 'EmptyNucl'}])
    spec['misc'] = [_gen_misc(rng) for _ in range(rng.choice([0, 0, 0, 0, 0, 0, 0, 1, 1, 2]))]
    spec['refs'] = None
    if rng.random() < 0.25:
        els = list(spec['elements']) + ([rng.choice(G.ELEMENT_POOL)] if rng.random() < 0.3 else [])
        spec['refs'] = {'offset': {e: G.rnd(rng, -40, 40, 4) for e in els},
                        'T_ref': rng.choice([298.15, G.rnd(rng, 200, 400, 2)])}
    spec['conds'] = [[_gen_T(rng), _gen_P(rng)] for _ in range(3)]
    spec['interval'] = _gen_interval(rng)
    spec['Ppair'] = [_gen_P(rng), _gen_P(rng)]
    spec['opts'] = {'include_ZPE': rng.random() < 0.5, 'raise_error': rng.random() < 0.7,
                    'raise_warning': rng.random() < 0.5, 'use_references': rng.random() < 0.6}
    if rng.random() < 0.2:
        _corner(rng, spec)
    spec['hist'] = _gen_hist(rng, spec) if rng.random() < 0.4 else []
    if rng.random() < 0.3:
        _typing(rng, spec)
    # assembly route (appended draws: the stream of everything above is unchanged)
    if rng.random() < 0.45:
        if rng.random() < 0.4:
            spec['route'] = {sl: 'class' for sl in SLOTS}
        else:
            spec['route'] = {sl: rng.choice(['class', 'object']) for sl in SLOTS}
            spec['route'][rng.choice(SLOTS)] = 'class'
    if spec['rot'] and isinstance(spec['rot']['symmetrynumber'], str) and rng.random() < 0.5:
        # "any documented label": index into the table of the tree under test (resolved at run time)
        spec['rot']['symmetrynumber'] = '@%d' % rng.randrange(1000)
    return spec


def _euler(rng):
    return [G.rnd(rng, 0, 2 * math.pi, 6), G.rnd(rng, 0, math.pi, 6), G.rnd(rng, 0, 2 * math.pi, 6)]


def gen_geometry(rng, name=None, natoms=None):
    from ase.collections import g2
    if name is None:
        name = g2.names[rng.randrange(len(g2.names))]
    n = len(g2[name])
    perm = list(range(n))
    rng.shuffle(perm)
    return {'kind': 'geometry', 'mol': name, 'euler': _euler(rng),
            'shift': [G.rnd(rng, -20, 20, 4) for _ in range(3)], 'perm': perm,
            'T': _gen_T(rng), 'P': _gen_P(rng), 'symmetrynumber': rng.choice([1, 2, 3, 12]),
            'vib_wavenumbers': G.gen_wavenumbers(rng, 1, 6, 0), 'potentialenergy': G.rnd(rng, -50, 0, 4),
            'spin': rng.choice([0, 0.5, 1])}


def generate(rng, tier):
    if rng.random() < 0.12:
        return gen_geometry(rng)
    return gen_species(rng)


# ---------------------------------------------------------------------- directed
_CONDS = [[298.15, 1.0], [50.0, 1e-4], [5000.0, 1e3]]
_OPTS = {'include_ZPE': True, 'raise_error': True, 'raise_warning': True, 'use_references': True}


def _sp(**kw):
    s = {'kind': 'species', 'name': 'sp', 'elements': {'H': 2, 'O': 1}, 'trans': None, 'vib': None,
         'rot': None, 'elec': None, 'nucl': None, 'misc': [], 'refs': None, 'conds': _CONDS,
         'interval': [200.0, 450.0], 'Ppair': [0.01, 50.0], 'opts': dict(_OPTS), 'hist': []}
    s.update(kw)
    return s


def directed(tier):
    D = []
    # R9 exhaustive over the documented point-group table (pre-finding: all labels raise)
    D.append({'kind': 'pointgroups', 'labels': LABELS, 'T': 350.0, 'rot_temperatures': [12.5, 3.1, 0.7]})
    # ... and over whatever the tree under test documents (constants.symmetry_dict point-group keys and the
    # table in the RigidRotor docstring, read at run time), against the rule-based reference
    D.append({'kind': 'pointgroups', 'labels': '@documented', 'T': 410.0, 'rot_temperatures': [7.7, 2.9, 1.3]})
    ft3 = {'type': 'FreeTrans', 'n_degrees': 3, 'molecular_weight': 18.015}
    h2o_vib = {'type': 'HarmonicVib', 'vib_wavenumbers': [3825.434, 3710.264, 1582.432],
               'imaginary_substitute': None}
    h2o_rot = {'type': 'RigidRotor', 'symmetrynumber': 2, 'geometry': 'nonlinear',
               'rot_temperatures': [39.8, 20.9, 13.4]}
    h2o_el = {'type': 'GroundStateElec', 'potentialenergy': -14.2209, 'spin': 0.0}
    # the water-like ideal gas the unit tests pin at one temperature
    D.append(_sp(trans=ft3, vib=h2o_vib, rot=h2o_rot, elec=h2o_el, nucl={'type': 'EmptyNucl'},
                 interval=[50.0, 5000.0]))
    # pinned witness of the Debye finding (Theta = 300 K, T = 100 K) and its Einstein sibling
    D.append(_sp(vib={'type': 'DebyeVib', 'debye_temperature': 300.0, 'interaction_energy': 0.0},
                 conds=[[100.0, 1.0], [300.0, 1.0], [3000.0, 2.0]], interval=[90.0, 110.0],
                 elements={'Cu': 1}))
    D.append(_sp(vib={'type': 'DebyeVib', 'debye_temperature': 2000.0, 'interaction_energy': -1.0},
                 elec={'type': 'GroundStateElec', 'potentialenergy': -3.5, 'spin': 0.5},
                 conds=[[50.0, 1.0], [2000.0, 1.0], [5000.0, 1.0]], interval=[50.0, 80.0], elements={'Pt': 1}))
    D.append(_sp(vib={'type': 'EinsteinVib', 'einstein_temperature': 50.0, 'interaction_energy': 1.0},
                 interval=[50.0, 5000.0], elements={'Ni': 1}))
    D.append(_sp(vib={'type': 'EinsteinVib', 'einstein_temperature': 2000.0, 'interaction_energy': -1.0},
                 elements={'Ni': 1}))
    # monatomic ideal gas, 1-D and 2-D translation, linear rotor, extremes of the ranges
    D.append(_sp(trans={'type': 'FreeTrans', 'n_degrees': 3, 'molecular_weight': 39.948},
                 rot={'type': 'RigidRotor', 'symmetrynumber': 1, 'geometry': 'monatomic', 'rot_temperatures': []},
                 elec={'type': 'GroundStateElec', 'potentialenergy': 0.0, 'spin': 0.0}, elements={'Ar': 1}))
    D.append(_sp(trans={'type': 'FreeTrans', 'n_degrees': 1, 'molecular_weight': 1.0},
                 vib={'type': 'HarmonicVib', 'vib_wavenumbers': [10.0, 4500.0], 'imaginary_substitute': None},
                 elec={'type': 'GroundStateElec', 'potentialenergy': -50.0, 'spin': 3.0}))
    D.append(_sp(trans={'type': 'FreeTrans', 'n_degrees': 2, 'molecular_weight': 500.0},
                 rot={'type': 'RigidRotor', 'symmetrynumber': 'Dinfh', 'geometry': 'linear', 'rot_temperatures': [0.01]},
                 vib={'type': 'QRRHOVib', 'vib_wavenumbers': [10.0, 55.5, 100.0, 4500.0], 'Bav': 1e-44, 'v0': 100.0,
                      'alpha': 4, 'imaginary_substitute': None}))
    D.append(_sp(trans=ft3, rot={'type': 'RigidRotor', 'symmetrynumber': 'Td', 'geometry': 'nonlinear',
                                 'rot_temperatures': [100.0, 100.0, 100.0]},
                 vib={'type': 'QRRHOVib', 'vib_wavenumbers': [-300.0, 20.0, 1500.0], 'Bav': 1e-46, 'v0': 50.0,
                      'alpha': 2, 'imaginary_substitute': 75.0},
                 elec=h2o_el, opts=dict(_OPTS, raise_error=False, raise_warning=False, use_references=False)))
    # imaginary modes: dropped / substituted
    D.append(_sp(vib={'type': 'HarmonicVib', 'vib_wavenumbers': [-512.0, 150.0, -30.0, 2900.0],
                      'imaginary_substitute': None}, elec=h2o_el))
    D.append(_sp(vib={'type': 'HarmonicVib', 'vib_wavenumbers': [-512.0, 150.0, -30.0, 2900.0],
                      'imaginary_substitute': 50.0}, elec=h2o_el, opts=dict(_OPTS, include_ZPE=False)))
    # cache-refresh histories (pinned witness: imaginary_substitute re-assigned after construction)
    D.append(_sp(vib={'type': 'HarmonicVib', 'vib_wavenumbers': [100.0, -200.0, 3000.0], 'imaginary_substitute': None},
                 elec=h2o_el, hist=[['set_imaginary_substitute', 50.0]]))
    D.append(_sp(vib={'type': 'HarmonicVib', 'vib_wavenumbers': [100.0, -200.0, 3000.0], 'imaginary_substitute': 80.0},
                 elec=h2o_el, hist=[['set_wavenumbers', [450.0, 1200.0, -77.0, 30.0]], ['set_spin', 1.5]]))
    D.append(_sp(vib={'type': 'QRRHOVib', 'vib_wavenumbers': [100.0, -200.0, 3000.0], 'Bav': 2e-45, 'v0': 120.0,
                      'alpha': 4, 'imaginary_substitute': 80.0},
                 elec=h2o_el, hist=[['set_wavenumbers', [45.0, 1200.0]], ['set_imaginary_substitute', None]]))
    D.append(_sp(vib={'type': 'QRRHOVib', 'vib_wavenumbers': [100.0, -200.0, 3000.0], 'Bav': 2e-45, 'v0': 120.0,
                      'alpha': 4, 'imaginary_substitute': None},
                 elec=h2o_el, hist=[['set_imaginary_substitute', 33.0]]))
    D.append(_sp(trans=ft3, elec={'type': 'GroundStateElec', 'potentialenergy': -5.0, 'spin': 0.0},
                 hist=[['set_spin', 1.0]]))
    # LSR electronic model, misc ConstantModes, reference offsets, all-empty species
    lsr = {'type': 'LSR', 'slope': 0.5, 'intercept': 3.0, 'reaction': -20.0, 'surf_species': -100.0,
           'gas_species': -30.0}
    D.append(_sp(vib=h2o_vib, elec=lsr))
    D.append(_sp(trans=ft3, vib=h2o_vib, rot=h2o_rot, elec=h2o_el,
                 misc=[{'q': 2.0, 'Cv': 1e-4, 'S': 2e-4}, {'U': 0.3, 'H': 0.31, 'G': -0.2, 'F': 0.1, 'Cp': -2e-4}]))
    D.append(_sp(vib=h2o_vib, elec=h2o_el, misc=[{'H': -1.0}]))
    D.append(_sp(trans=ft3, vib=h2o_vib, rot=h2o_rot, elec=h2o_el,
                 refs={'offset': {'H': 1.25, 'O': -7.5}, 'T_ref': 298.15}))
    D.append(_sp(vib=h2o_vib, elec=h2o_el, refs={'offset': {'H': 1.25, 'O': -7.5, 'C': 3.0}, 'T_ref': 310.0},
                 opts=dict(_OPTS, use_references=False)))
    D.append(_sp())
    D.append(_sp(nucl={'type': 'EmptyNucl'}, opts=dict(_OPTS, raise_error=False)))
    # exact ties: symmetric tops (NH3, benzene), spherical top (CH4), degenerate vibrations
    D.append(_sp(trans={'type': 'FreeTrans', 'n_degrees': 3, 'molecular_weight': 17.031},
                 rot={'type': 'RigidRotor', 'symmetrynumber': 3, 'geometry': 'nonlinear',
                      'rot_temperatures': [14.3, 14.3, 9.08]},
                 vib={'type': 'HarmonicVib', 'vib_wavenumbers': [3506.0, 3506.0, 3337.0, 1626.0, 1626.0, 950.0],
                      'imaginary_substitute': None}, elec=h2o_el, elements={'N': 1, 'H': 3}))
    D.append(_sp(trans={'type': 'FreeTrans', 'n_degrees': 3, 'molecular_weight': 16.043},
                 rot={'type': 'RigidRotor', 'symmetrynumber': 12, 'geometry': 'nonlinear',
                      'rot_temperatures': [7.54, 7.54, 7.54]},
                 vib={'type': 'QRRHOVib', 'vib_wavenumbers': [3019.0, 3019.0, 3019.0, 2917.0, 1534.0, 1534.0, 1306.0,
                                                              1306.0, 1306.0],
                      'Bav': 1e-44, 'v0': 100.0, 'alpha': 4, 'imaginary_substitute': None},
                 elec=h2o_el, elements={'C': 1, 'H': 4}))
    D.append(_sp(rot={'type': 'RigidRotor', 'symmetrynumber': 12, 'geometry': 'nonlinear',
                      'rot_temperatures': [0.1365, 0.273, 0.273]}, elements={'C': 6, 'H': 6}))
    # cold corners: T at / just above 50 K with rotational temperatures at the top of their range
    cold = [[50.0, 1e-4], [75.0, 1.0], [149.9, 1e3]]
    D.append(_sp(trans={'type': 'FreeTrans', 'n_degrees': 3, 'molecular_weight': 1.0},
                 rot={'type': 'RigidRotor', 'symmetrynumber': 1, 'geometry': 'linear', 'rot_temperatures': [100.0]},
                 elec=h2o_el, conds=cold, interval=[50.0, 150.0], elements={'H': 1}))
    D.append(_sp(rot={'type': 'RigidRotor', 'symmetrynumber': 2, 'geometry': 'linear', 'rot_temperatures': [87.6]},
                 vib={'type': 'HarmonicVib', 'vib_wavenumbers': [4401.0], 'imaginary_substitute': None},
                 conds=[[50.0, 1.0], [100.0, 1.0], [131.4, 1.0]], interval=[50.0, 131.4], elements={'H': 2}))
    D.append(_sp(rot={'type': 'RigidRotor', 'symmetrynumber': 24, 'geometry': 'nonlinear',
                      'rot_temperatures': [100.0, 100.0, 100.0]},
                 vib={'type': 'EinsteinVib', 'einstein_temperature': 2000.0, 'interaction_energy': 1.0},
                 conds=cold, interval=[50.0, 60.0]))
    D.append(_sp(rot={'type': 'RigidRotor', 'symmetrynumber': 1, 'geometry': 'nonlinear',
                      'rot_temperatures': [100.0, 0.01, 62.5]},
                 vib={'type': 'DebyeVib', 'debye_temperature': 50.0, 'interaction_energy': -1.0},
                 conds=[[50.0, 1.0], [2500.0, 1.0], [5000.0, 1.0]], interval=[4000.0, 5000.0]))
    # re-assignment of every public parameter after a first evaluation (one pinned history per mode)
    full = dict(trans=ft3, vib=h2o_vib, rot=h2o_rot, elec=h2o_el)
    D.append(_sp(hist=[['set_molecular_weight', 44.01], ['set_n_degrees', 2], ['set_molecular_weight', 2.016]], **full))
    D.append(_sp(hist=[['set_rot_temperatures', [5.0, 5.0, 2.0]], ['set_symmetrynumber', 6],
                       ['set_geometry', {'geometry': 'linear', 'rot_temperatures': [0.56]}]], **full))
    D.append(_sp(hist=[['set_geometry', {'geometry': 'monatomic', 'rot_temperatures': []}],
                       ['set_geometry', {'geometry': 'nonlinear', 'rot_temperatures': [3.0, 3.0, 3.0]}]], **full))
    D.append(_sp(hist=[['set_potentialenergy', -3.2], ['set_spin', 1.0], ['set_potentialenergy', 0.0]], **full))
    D.append(_sp(vib={'type': 'EinsteinVib', 'einstein_temperature': 300.0, 'interaction_energy': -0.2}, elec=h2o_el,
                 hist=[['set_einstein_temperature', 900.0], ['set_interaction_energy', 0.5]]))
    D.append(_sp(vib={'type': 'DebyeVib', 'debye_temperature': 300.0, 'interaction_energy': -0.2}, elec=h2o_el,
                 hist=[['set_debye_temperature', 900.0], ['set_interaction_energy', 0.5]]))
    # parameter typing: whole numbers as int / numpy int64, sequences as list / tuple / ndarray, int T
    # (pinned: integer wavenumbers + imaginary mode + fractional substitute, at construction and by
    #  re-assignment of imaginary_substitute / vib_wavenumbers)
    iT = [[300, 1.0], [50, 1e-4], [5000, 1e3]]
    ity = lambda sc, co, T='int': {'scalar': sc, 'container': co, 'T': T}
    iw = [100, -200, 3000, 1500]
    D.append(_sp(vib={'type': 'HarmonicVib', 'vib_wavenumbers': iw, 'imaginary_substitute': 62.5},
                 elec={'type': 'GroundStateElec', 'potentialenergy': -14, 'spin': 1}, conds=iT,
                 typing=ity('int', 'list')))
    D.append(_sp(vib={'type': 'QRRHOVib', 'vib_wavenumbers': iw, 'Bav': 1e-44, 'v0': 100, 'alpha': 4,
                      'imaginary_substitute': 62.25}, conds=iT, typing=ity('np.int64', 'ndarray', 'np.int64')))
    D.append(_sp(vib={'type': 'HarmonicVib', 'vib_wavenumbers': iw, 'imaginary_substitute': None}, conds=iT,
                 hist=[['set_imaginary_substitute', 62.5], ['set_imaginary_substitute', 80],
                       ['set_imaginary_substitute', 17.75]], typing=ity('int', 'tuple')))
    D.append(_sp(vib={'type': 'QRRHOVib', 'vib_wavenumbers': iw, 'Bav': 1e-44, 'v0': 100, 'alpha': 4,
                      'imaginary_substitute': 40}, conds=iT,
                 hist=[['set_imaginary_substitute', 62.5]], typing=ity('int', 'ndarray')))
    D.append(_sp(vib={'type': 'HarmonicVib', 'vib_wavenumbers': [250.5, 1200.0], 'imaginary_substitute': 62.5},
                 hist=[['set_wavenumbers', [450, -77, 1200, -30]]], typing=ity('np.int64', 'ndarray', 'float')))
    D.append(_sp(trans={'type': 'FreeTrans', 'n_degrees': 3, 'molecular_weight': 18},
                 vib={'type': 'HarmonicVib', 'vib_wavenumbers': [3825, 3710, 1582], 'imaginary_substitute': None},
                 rot={'type': 'RigidRotor', 'symmetrynumber': 2, 'geometry': 'nonlinear', 'rot_temperatures': [40, 21, 13]},
                 elec={'type': 'GroundStateElec', 'potentialenergy': -14, 'spin': 1}, conds=iT,
                 hist=[['set_molecular_weight', 44], ['set_rot_temperatures', [5, 5, 2]], ['set_potentialenergy', -3]],
                 typing=ity('int', 'tuple')))
    D.append(_sp(vib={'type': 'EinsteinVib', 'einstein_temperature': 300, 'interaction_energy': -1},
                 rot={'type': 'RigidRotor', 'symmetrynumber': 1, 'geometry': 'linear', 'rot_temperatures': [100]},
                 conds=iT, hist=[['set_einstein_temperature', 2000]], typing=ity('np.int64', 'list', 'np.int64')))
    D.append(_sp(vib={'type': 'DebyeVib', 'debye_temperature': 300, 'interaction_energy': 1},
                 trans={'type': 'FreeTrans', 'n_degrees': 2, 'molecular_weight': 500}, conds=iT,
                 typing=ity('np.int64', 'tuple')))
    D.append(_sp(trans=ft3, vib=h2o_vib, rot=h2o_rot, elec=h2o_el, typing=ity('float', 'tuple', 'float')))
    D.append(_sp(trans=ft3, vib=h2o_vib, rot=h2o_rot, elec=h2o_el, typing=ity('np.float64', 'ndarray', 'float')))
    # assembly by mode classes + flat keyword arguments (the presets route), all slots / mixed
    allc = {sl: 'class' for sl in SLOTS}
    D.append(_sp(trans=ft3, rot=h2o_rot, elec=h2o_el, nucl={'type': 'EmptyNucl'}, route=allc,
                 vib={'type': 'HarmonicVib', 'vib_wavenumbers': [-512.0, 150.0, -30.0, 2900.0],
                      'imaginary_substitute': 50.0}))
    D.append(_sp(trans=ft3, elec=h2o_el, route=allc,
                 rot={'type': 'RigidRotor', 'symmetrynumber': 'D3h', 'geometry': 'nonlinear',
                      'rot_temperatures': [0.5, 0.5, 0.25]},
                 vib={'type': 'QRRHOVib', 'vib_wavenumbers': [-300.0, 20.0, 1500.0], 'Bav': 1e-46, 'v0': 50.0,
                      'alpha': 2, 'imaginary_substitute': 75.0}))
    D.append(_sp(vib={'type': 'HarmonicVib', 'vib_wavenumbers': [100.0, -200.0, 3000.0], 'imaginary_substitute': None},
                 elec=h2o_el, route=allc))
    D.append(_sp(vib={'type': 'EinsteinVib', 'einstein_temperature': 300.0, 'interaction_energy': -0.2},
                 elec={'type': 'GroundStateElec', 'potentialenergy': -3.5, 'spin': 1.5}, route=allc))
    D.append(_sp(vib={'type': 'DebyeVib', 'debye_temperature': 300.0, 'interaction_energy': -0.2},
                 trans={'type': 'FreeTrans', 'n_degrees': 2, 'molecular_weight': 63.5},
                 route=dict(allc, elec='object')))
    D.append(_sp(vib={'type': 'HarmonicVib', 'vib_wavenumbers': iw, 'imaginary_substitute': 62.5},
                 rot={'type': 'RigidRotor', 'symmetrynumber': 2, 'geometry': 'linear', 'rot_temperatures': [3]},
                 conds=iT, typing=ity('int', 'tuple'), route=allc))
    D.append(_sp(route=allc))
    # geometry clause: every molecule of the bundled G2 set, one fixed rigid motion + permutation each
    from ase.collections import g2
    for i, name in enumerate(g2.names):
        D.append(gen_geometry(random.Random('c01-geometry-%d' % i), name=name))
    return D


# ====================================================================== probes
_ST = {'ctx': None, 'tags': {'trans': None, 'vib': None, 'rot': None, 'elec': None}, 'seen': set()}
_VIB = ('HarmonicVib', 'QRRHOVib', 'EinsteinVib', 'DebyeVib')


def _hist_mech(mech):
    """add the re-assignment operation(s) that preceded the observation (mechanism feature)"""
    c = mech.get('class')
    t = _ST['tags']
    if c in _VIB:
        tag = t['vib']
    elif c == 'GroundStateElec':
        tag = t['elec']
    elif c == 'FreeTrans':
        tag = t['trans']
    elif c == 'RigidRotor':
        tag = t['rot']
    elif c == 'StatMech':
        tag = t.get('last')          # the most recent re-assignment on any of its modes
    else:
        tag = None
    if tag:
        mech = dict(mech, hist=tag)
    return mech


def _inv_vib(label, loc):
    """online invariant at the entry of a HarmonicVib / QRRHOVib getter"""
    import numpy as np
    ctx, obj = _ST['ctx'], loc.get('self')
    if ctx is None or obj is None:
        return None
    key = (id(obj), label)
    if key in _ST['seen']:
        return None
    _ST['seen'].add(key)
    cname = type(obj).__name__
    want = ref.used_wavenumbers(list(obj._vib_wavenumbers), obj.imaginary_substitute)
    have = list(np.asarray(obj._valid_vib_wavenumbers, dtype=float))
    mech = _hist_mech({'class': cname, 'what': 'stale_valid_wavenumbers'})
    if len(want) != len(have) or any(abs(a - b) > 1e-12 * max(1.0, abs(a)) for a, b in zip(want, have)):
        ctx.fail('INV', mech, at=label, cached=have, current_filter=want)
        return None
    temps = list(np.asarray(obj._valid_vib_temperatures, dtype=float))
    if len(temps) != len(want) or any(abs(t - ref.C2 * w) > 1e-6 * ref.C2 * w for t, w in zip(temps, want)):
        ctx.fail('INV', dict(mech, what='stale_valid_temperatures'), at=label, cached=temps,
                 want=[ref.C2 * w for w in want])
        return None
    ctx.held('INV')
    return None


def _inv_elec(label, loc):
    ctx, obj = _ST['ctx'], loc.get('self')
    if ctx is None or obj is None:
        return None
    key = (id(obj), label)
    if key in _ST['seen']:
        return None
    _ST['seen'].add(key)
    ctx.check('INV', obj._degeneracy == 2.0 * obj._spin + 1.0,
              _hist_mech({'class': 'GroundStateElec', 'what': 'stale_degeneracy'}),
              at=label, degeneracy=obj._degeneracy, spin=obj._spin)
    return None


def install_probes(pr, ctx):
    _ST['ctx'] = ctx
    getters = ['get_q', 'get_CvoR', 'get_CpoR', 'get_UoRT', 'get_HoRT', 'get_SoR', 'get_FoRT', 'get_GoRT',
               'get_ZPE']

    def mod(name):
        import importlib
        return importlib.import_module(name)
    classes = [('pmutt.statmech.trans', 'FreeTrans', None), ('pmutt.statmech.vib', 'HarmonicVib', _inv_vib),
               ('pmutt.statmech.vib', 'QRRHOVib', _inv_vib), ('pmutt.statmech.vib', 'EinsteinVib', None),
               ('pmutt.statmech.vib', 'DebyeVib', None), ('pmutt.statmech.rot', 'RigidRotor', None),
               ('pmutt.statmech.elec', 'GroundStateElec', _inv_elec), ('pmutt.statmech.nucl', 'EmptyNucl', None),
               ('pmutt.statmech.lsr', 'LSR', None), ('pmutt.statmech', 'ConstantMode', None),
               ('pmutt.statmech', 'EmptyMode', None)]
    for m, cn, inv in classes:
        for g in getters:
            if g == 'get_q' and cn == 'QRRHOVib':
                continue
            pr.watch((lambda m=m, cn=cn, g=g: getattr(mod(m), cn).__dict__[g]), '%s.%s' % (cn, g), on_call=inv)
    for g in getters[:-1] + ['get_quantity', 'get_EoRT']:
        pr.watch((lambda g=g: getattr(mod('pmutt.statmech').StatMech, g)), 'StatMech.%s' % g)
    pr.watch(lambda: mod('pmutt')._get_mode_quantity, '_get_mode_quantity')
    pr.watch(lambda: mod('pmutt')._ModelBase.get_FoRT, '_ModelBase.get_FoRT')
    pr.watch(lambda: mod('pmutt')._ModelBase.get_GoRT, '_ModelBase.get_GoRT')
    pr.watch(lambda: mod('pmutt.mixture')._get_mix_quantity, '_get_mix_quantity')
    pr.watch(lambda: mod('pmutt.statmech.vib')._get_valid_vib_wavenumbers, '_get_valid_vib_wavenumbers')
    pr.watch_setter(lambda: mod('pmutt.statmech.vib').HarmonicVib.__dict__['vib_wavenumbers'],
                    'HarmonicVib.vib_wavenumbers.setter')
    pr.watch_setter(lambda: mod('pmutt.statmech.vib').QRRHOVib.__dict__['vib_wavenumbers'],
                    'QRRHOVib.vib_wavenumbers.setter')
    pr.watch_setter(lambda: mod('pmutt.statmech.elec').GroundStateElec.__dict__['spin'],
                    'GroundStateElec.spin.setter')
    pr.watch(lambda: mod('pmutt.statmech.rot').get_rot_temperatures_from_atoms, 'get_rot_temperatures_from_atoms')
    pr.watch(lambda: mod('pmutt.statmech.rot').get_geometry_from_atoms, 'get_geometry_from_atoms')
    pr.watch(lambda: mod('pmutt.statmech.rot').RigidRotor.__init__, 'RigidRotor.__init__')
    pr.watch(lambda: mod('pmutt.empirical.references').References.get_HoRT, 'References.get_HoRT')


# ====================================================================== helpers
_ARGS = {}


def mcall(obj, name, **kw):
    """call a getter with exactly the named parameters it declares (own routing, not pMuTT's)"""
    fn = getattr(obj, name)
    code = fn.__func__.__code__
    names = _ARGS.get(code)
    if names is None:
        names = _ARGS[code] = tuple(code.co_varnames[1:code.co_argcount])
    return fn(**{k: kw[k] for k in names if k in kw})


def _num(v):
    """normalise a returned scalar (0-d arrays, numpy scalars) to float"""
    import numpy as np
    a = np.asarray(v, dtype=float)
    if a.size != 1:
        raise core.HarnessError('scalar expected, got shape %s' % (a.shape,))
    return float(a.reshape(-1)[0])


def build_elec(m):
    if m is not None and m.get('type') == 'LSR':
        from pmutt.statmech.lsr import LSR
        return LSR(slope=m['slope'], intercept=m['intercept'], reaction=m['reaction'],
                   surf_species=m['surf_species'], gas_species=m['gas_species'])
    return G.build_mode(m)


def _cast_scalar(v, sc):
    """numeric value -> the requested scalar type; whole numbers only become ints"""
    import numpy as np
    if v is None or isinstance(v, (str, bool)) or sc is None:
        return v
    if sc == 'float':
        return float(v)
    if sc == 'np.float64':
        return np.float64(v)
    if sc in INT_KINDS:
        if float(v).is_integer():
            return int(v) if sc == 'int' else np.int64(int(v))
        return float(v) if sc == 'int' else np.float64(v)
    raise core.HarnessError('unknown scalar typing %r' % sc)


def _cast_attr(attr, v, ty):
    import numpy as np
    if not ty:
        return list(v) if isinstance(v, list) else v
    if attr in SEQ_ATTRS:
        vals = [_cast_scalar(x, ty['scalar']) for x in v]
        c = ty.get('container', 'list')
        return tuple(vals) if c == 'tuple' else np.array(vals) if c == 'ndarray' else vals
    if attr in SCALAR_ATTRS:
        return _cast_scalar(v, ty['scalar'])
    return v


def typed_mode(m, ty):
    if m is None:
        return None
    return {k: _cast_attr(k, v, ty) for k, v in m.items()}


def _construct(m):
    """build a mode object handing the (typed) values over exactly as they are"""
    if m is None or m['type'] in ('LSR',):
        return build_elec(m)
    from pmutt.statmech import trans, vib, rot, elec
    t = m['type']
    kw = {k: v for k, v in m.items() if k != 'type'}
    cls = {'FreeTrans': trans.FreeTrans, 'HarmonicVib': vib.HarmonicVib, 'QRRHOVib': vib.QRRHOVib,
           'EinsteinVib': vib.EinsteinVib, 'DebyeVib': vib.DebyeVib, 'RigidRotor': rot.RigidRotor,
           'GroundStateElec': elec.GroundStateElec}.get(t)
    if cls is None:
        return G.build_mode(m)
    return cls(**kw)


def _typing_tag(ty):
    return '%s_%s' % (ty['scalar'], ty['container']) if ty else None


def _typing_family(ty):
    """mechanism feature: were whole numbers handed over as integers ('int': Python int or numpy
    int64) or was only the float flavour / container unusual ('float'); the exact combination goes
    into the violation detail"""
    return 'int' if ty['scalar'] in INT_KINDS else 'float'


def _sigma_of(label):
    """reference symmetry number of a label: the frozen documented table, else the general rule"""
    return ref.POINT_GROUPS.get(label) or ref.symmetry_number_of_label(label)


def _documented_labels():
    """point-group labels the tree under test documents, read at run time:
    (keys of constants.symmetry_dict that are not CAS numbers, {label: number} of the table in the
    RigidRotor docstring)"""
    import re
    from pmutt import constants as c
    from pmutt.statmech import rot
    table = [k for k in getattr(c, 'symmetry_dict', {}) if isinstance(k, str)
             and not re.fullmatch(r'\d+-\d\d-\d', k)]
    doc = {}
    for line in (rot.RigidRotor.__doc__ or '').splitlines():
        m = re.fullmatch(r'\s+([A-Z][A-Za-z0-9*]*)\s+(\d+)\s*', line)
        if m and m.group(1) not in ('Point',):
            doc[m.group(1)] = int(m.group(2))
    return table, doc


def build_rot(ctx, m):
    """a rotor whose symmetry number is a documented point-group label must be the rotor of the
    tabulated number (R9); if the label is refused the case goes on with the number."""
    if m is None or not isinstance(m['symmetrynumber'], str):
        if m is not None:
            ctx.cls('sigma:number')
        return _construct(m)
    ctx.cls('sigma:label')
    label = m['symmetrynumber']
    mech = {'class': 'RigidRotor', 'label': label}
    obj = ctx.call('R9', mech, _construct, m)
    if obj is not core.NOVALUE:
        if ctx.check('R9', obj.symmetrynumber == _sigma_of(label), mech,
                     got=obj.symmetrynumber, want=_sigma_of(label)):
            return obj
    return _construct(dict(m, symmetrynumber=_sigma_of(label)))


def _cls_of(m):
    return m['type'] if m else 'EmptyMode'


def _integral_check(ctx, oracle, mech, f, T1, T2, lhs, ends, count=True):
    """lhs == int_T1^T2 f dT within TOL_INT*max(1,|I|) + 1e-12*ends"""
    r = ctx.call(oracle, mech, quad.integrate, f, T1, T2)
    if r is core.NOVALUE:
        return
    I, qerr = r
    scale = max(1.0, abs(I)) + 1e-5 * ends
    if not (qerr <= 0.1 * TOL_INT * scale):
        ctx.inconc(oracle, 'quadrature_error', qerr=qerr, scale=scale, mech=mech, T1=T1, T2=T2)
        return
    if not count:
        # auxiliary comparison (deviation other than a listed signature): report only failures
        if ctx.err(lhs, I, scale) > TOL_INT:
            ctx.fail(oracle, mech, got=lhs, want=I, T1=T1, T2=T2)
        return
    ctx.close(oracle, lhs, I, TOL_INT, mech, scale=scale, T1=T1, T2=T2)


def _memo(fn):
    cache = {}

    def g(T):
        v = cache.get(T)
        if v is None:
            v = cache[T] = _num(fn(T))
        return v
    return g


def relational(ctx, get, mech0, conds, interval, Ppair, has_trans, r5=True, tr=None, debye_theta=None):
    """R1-R5 on anything that answers get(quantity, T, P) -> float (mode object or StatMech).
    `get` raises on failure of the code under test."""
    vals = {}
    mechP = dict(mech0, trans=tr) if tr is not None else mech0     # R4 / R5: which translation
    for T, P in conds:
        v = {}
        for q in QUANTS:
            r = ctx.call('R1', dict(mech0, q=q), get, q, T, P)
            if r is not core.NOVALUE:
                v[q] = r
        vals[(T, P)] = v
        if all(k in v for k in ('GoRT', 'HoRT', 'SoR')):
            ctx.close('R1', v['GoRT'], v['HoRT'] - v['SoR'], TOL_REL, dict(mech0, rel='G=H-TS'), T=T, P=P,
                      HoRT=v['HoRT'], SoR=v['SoR'])
        if all(k in v for k in ('FoRT', 'UoRT', 'SoR')):
            ctx.close('R1', v['FoRT'], v['UoRT'] - v['SoR'], TOL_REL, dict(mech0, rel='F=U-TS'), T=T, P=P,
                      UoRT=v['UoRT'], SoR=v['SoR'])
        if r5 and 'HoRT' in v and 'UoRT' in v:
            ctx.close('R5', v['HoRT'] - v['UoRT'], 1.0 if has_trans else 0.0, TOL_REL,
                      dict(mechP, rel='H-U'), scale=max(1.0, 1e-6 * abs(v['UoRT'])), T=T, P=P)
    # integral forms over the interval, at the first pressure
    T1, T2 = interval
    P = conds[0][1]
    end = {}
    ok = True
    for T in (T1, T2):
        for q in ('UoRT', 'HoRT', 'SoR'):
            r = ctx.call('R2' if q != 'SoR' else 'R3', dict(mech0, q=q), get, q, T, P)
            if r is core.NOVALUE:
                ok = False
            end[(q, T)] = r
    if ok:
        cv = _memo(lambda T: get('CvoR', T, P))
        cp = _memo(lambda T: get('CpoR', T, P))
        _integral_check(ctx, 'R2', dict(mech0, rel='dU=Cv'), cv, T1, T2,
                        T2 * end[('UoRT', T2)] - T1 * end[('UoRT', T1)],
                        abs(T2 * end[('UoRT', T2)]) + abs(T1 * end[('UoRT', T1)]))
        _integral_check(ctx, 'R2', dict(mech0, rel='dH=Cp'), cp, T1, T2,
                        T2 * end[('HoRT', T2)] - T1 * end[('HoRT', T1)],
                        abs(T2 * end[('HoRT', T2)]) + abs(T1 * end[('HoRT', T1)]))
        m3 = dict(mech0, rel='dS=Cp/T')
        if debye_theta is not None:
            # signature of the listed Debye finding: S carries an extra 9*Theta/(4T); any other
            # deviation of a Debye species is tagged differently and is therefore NOT covered by it
            m3['sig'] = '+9Theta/4T'
            extra = 2.25 * debye_theta * (1. / T2 - 1. / T1)
            _integral_check(ctx, 'R3', dict(m3, sig='other'), lambda T: cp(T) / T, T1, T2,
                            end[('SoR', T2)] - end[('SoR', T1)] - extra,
                            abs(end[('SoR', T2)]) + abs(end[('SoR', T1)]) + abs(extra), count=False)
        _integral_check(ctx, 'R3', m3, lambda T: cp(T) / T, T1, T2,
                        end[('SoR', T2)] - end[('SoR', T1)],
                        abs(end[('SoR', T2)]) + abs(end[('SoR', T1)]))
    # pressure dependence at the first temperature
    T = conds[0][0]
    P1, P2 = Ppair
    s1 = ctx.call('R4', dict(mechP, q='SoR'), get, 'SoR', T, P1)
    s2 = ctx.call('R4', dict(mechP, q='SoR'), get, 'SoR', T, P2)
    if s1 is not core.NOVALUE and s2 is not core.NOVALUE:
        want = -math.log(P2 / P1) if has_trans else 0.0
        ctx.close('R4', s2 - s1, want, TOL_REL, dict(mechP, rel='S(P)'), T=T, P1=P1, P2=P2)
    return vals


def closed_forms(ctx, obj, m, conds, include_ZPE, mech0):
    """R7 on one mode object against the reference of its (current) spec."""
    cname = _cls_of(m)
    if cname == 'FreeTrans':
        mech0 = dict(mech0, n_degrees=m['n_degrees'])
    for T, P in conds:
        want = ref.mode_reference(m, float(T), float(P), include_ZPE)
        if want is None:
            return
        for q in QUANTS:
            w = want.get(q)
            if w is None:
                continue
            mech = dict(mech0, q=q)
            g = ctx.call('R7', mech, mcall, obj, 'get_' + q, T=T, P=P)
            if g is core.NOVALUE:
                continue
            if cname == 'DebyeVib' and q in ('UoRT', 'HoRT', 'SoR'):
                # signature of the listed Debye finding (extra 9*Theta/(4T)); anything else is 'other'
                extra = 2.25 * m['debye_temperature'] / T
                sig = '+9Theta/4T' if ctx.err(_num(g) - extra, w) <= TOL_CF else 'other'
                mech = dict(mech, sig=sig)
            ctx.close('R7', _num(g), w, TOL_CF, mech, T=T, P=P)
        if want.get('q') is not None:
            mech = dict(mech0, q='q')
            g = ctx.call('R7', mech, mcall, obj, 'get_q', T=T, P=P, include_ZPE=include_ZPE)
            if g is not core.NOVALUE:
                w = want['q']
                if abs(w) > 1e-280 and abs(w) < 1e280:
                    ctx.close('R7', _num(g), w, TOL_CF, mech, scale=abs(w), T=T, P=P, include_ZPE=include_ZPE)
                else:
                    ctx.cls('q:under/overflow')
        if 'ZPE' in want:
            mech = dict(mech0, q='ZPE')
            g = ctx.call('R7', mech, mcall, obj, 'get_ZPE')
            if g is not core.NOVALUE:
                ctx.close('R7', _num(g), want['ZPE'], TOL_CF, mech)
        if cname in ('HarmonicVib', 'QRRHOVib', 'EinsteinVib', 'DebyeVib'):
            thetas = ([ref.C2 * w for w in ref.used_wavenumbers(m['vib_wavenumbers'], m.get('imaginary_substitute'))]
                      if 'vib_wavenumbers' in m else [m.get('einstein_temperature', m.get('debye_temperature'))])
            if thetas and max(thetas) / T > 10:
                ctx.cls('regime:theta>>T')
            if thetas and min(thetas) / T < 0.1:
                ctx.cls('regime:theta<<T')


# ====================================================================== species cases
def _tally(ctx, spec):
    t, v, r, e, n = (spec[s] for s in SLOTS)
    ctx.cls('trans:%s' % (t['n_degrees'] if t else 'none'))
    ctx.cls('vib:%s' % (v['type'] if v else 'none'))
    if v and 'vib_wavenumbers' in v and any(w <= 0 for w in v['vib_wavenumbers']):
        ctx.cls('vib:imag_dropped' if v.get('imaginary_substitute') is None else 'vib:imag_substituted')
    ctx.cls('rot:%s' % (r['geometry'] if r else 'none'))
    ctx.cls('elec:%s' % (e['type'] if e else 'none'))
    ctx.cls('nucl:%s' % (n['type'] if n else 'none'))
    if spec['misc']:
        ctx.cls('misc:%d' % len(spec['misc']))
    if spec['refs']:
        ctx.cls('refs')
    o = spec['opts']
    if o['include_ZPE']:
        ctx.cls('opt:include_ZPE')
    if not o['raise_error']:
        ctx.cls('opt:raise_error=False')
    if not o['use_references']:
        ctx.cls('opt:use_references=False')
    ctx.nontrivial(sum(1 for s in SLOTS if spec[s]) >= 2)
    # parameter typing
    ty = spec.get('typing')
    if ty:
        ctx.cls('typing:' + _typing_tag(ty))
        if ty.get('T') in INT_KINDS:
            ctx.cls('typing:%s_T' % ty['T'])
        if ty['scalar'] in INT_KINDS:
            whole = lambda x: x is not None and not isinstance(x, str) and float(x).is_integer()
            if v and 'vib_wavenumbers' in v and all(whole(x) for x in v['vib_wavenumbers']):
                ctx.cls('typing:int_wavenumbers')
                sub = v.get('imaginary_substitute')
                if any(x <= 0 for x in v['vib_wavenumbers']) and sub is not None and not whole(sub):
                    ctx.cls('vib:int_wavenumbers+fractional_substitute')
            if r and r['rot_temperatures'] and all(whole(x) for x in r['rot_temperatures']):
                ctx.cls('typing:int_rot_temperatures')
            if any(m and any(whole(m.get(a)) for a in ('molecular_weight', 'einstein_temperature',
                                                       'debye_temperature', 'potentialenergy', 'spin'))
                   for m in (t, v, e)):
                ctx.cls('typing:int_scalars')
    # exact ties
    if r and r['geometry'] == 'nonlinear':
        k = len(set(r['rot_temperatures']))
        if k == 2:
            ctx.cls('rot:symmetric_top')
        elif k == 1:
            ctx.cls('rot:spherical_top')
    if v and 'vib_wavenumbers' in v and len(set(v['vib_wavenumbers'])) < len(v['vib_wavenumbers']):
        ctx.cls('vib:degenerate')
    # corners of the quantifier box
    if spec.get('corner'):
        ctx.cls('corner:case')
    Ts = [c[0] for c in spec['conds']]
    Ps = [c[1] for c in spec['conds']] + list(spec['Ppair'])
    for T in Ts:
        if T == 50.0:
            ctx.cls('corner:T=50')
        if T == 5000.0:
            ctx.cls('corner:T=5000')
    for P in Ps:
        if P == 1e-4:
            ctx.cls('corner:P=1e-4')
        if P == 1e3:
            ctx.cls('corner:P=1e3')
    if t and t['molecular_weight'] in (1.0, 500.0):
        ctx.cls('corner:M=%d' % t['molecular_weight'])
    if r and r['rot_temperatures']:
        th = max(r['rot_temperatures'])
        if any(T < 1.5 * th for T in Ts):
            ctx.cls('corner:T<1.5*theta_rot:%s' % r['geometry'])
        if any(T <= th for T in Ts):
            ctx.cls('corner:T<=theta_rot')
        if min(r['rot_temperatures']) == 0.01:
            ctx.cls('corner:theta_rot=0.01')
    if v and 'vib_wavenumbers' in v:
        pos = [w for w in v['vib_wavenumbers'] if w > 0]
        if pos and any(ref.C2 * max(pos) / T > 50 for T in Ts):
            ctx.cls('corner:theta_vib/T>50')
    if v and v['type'] in ('EinsteinVib', 'DebyeVib'):
        th = v.get('einstein_temperature', v.get('debye_temperature'))
        if any(th / T >= 20 for T in Ts):
            ctx.cls('corner:crystal_theta/T>=20')
        if any(th / T <= 0.02 for T in Ts):
            ctx.cls('corner:crystal_theta/T<=0.02')


def _ref_entry(spec, q, T, use_references):
    """what the reference-offset slot of the verbose vector must hold"""
    neutral = 1.0 if q == 'q' else 0.0
    if not spec['refs'] or not use_references or q not in ('HoRT', 'GoRT'):
        return neutral
    off = spec['refs']['offset']
    tot = 0.0
    for el, n in spec['elements'].items():
        if el in off:
            tot -= off[el] * n
    return tot * spec['refs']['T_ref'] / T


def _observe_mode(ctx, obj, m, spec, full=True):
    cname = _cls_of(m)
    mech0 = _hist_mech({'class': cname})
    ty = spec.get('typing')
    conds = spec['conds']
    if m is None or cname == 'EmptyNucl':
        closed_forms(ctx, obj, m, conds[:1], True, mech0)
        return
    if full:
        get = lambda q, T, P: _num(mcall(obj, 'get_' + q, T=T, P=P))
        relational(ctx, get, mech0, conds, spec['interval'], spec['Ppair'], cname == 'FreeTrans',
                   debye_theta=m['debye_temperature'] if cname == 'DebyeVib' else None)
    if ty and cname != 'LSR':
        mech0 = dict(mech0, typing=_typing_family(ty))      # closed forms and float twin only
    closed_forms(ctx, obj, m, conds, spec['opts']['include_ZPE'], mech0)
    if ty and cname != 'LSR':
        # the same numbers given as plain floats in a list must give exactly the same values
        mt = m
        if cname == 'RigidRotor' and isinstance(m['symmetrynumber'], str):
            mt = dict(m, symmetrynumber=_sigma_of(m['symmetrynumber']))     # labels are R9's business
        twin = _construct(typed_mode(mt, FLOAT_TY))
        for T, P in conds[:2]:
            for q in QUANTS + ('q',):
                if q == 'q' and cname == 'QRRHOVib':
                    continue
                mech = dict(mech0, q=q, vs='float_twin')
                a = ctx.call('R7', mech, mcall, obj, 'get_' + q, T=T, P=P, include_ZPE=spec['opts']['include_ZPE'])
                if a is core.NOVALUE:
                    continue
                try:
                    b = _num(mcall(twin, 'get_' + q, T=float(T), P=float(P), include_ZPE=spec['opts']['include_ZPE']))
                except Exception:
                    continue            # the float object itself fails: reported by the closed forms
                sc = abs(b) if (q == 'q' and 1e-280 < abs(b) < 1e280) else None
                ctx.close('R7', _num(a), b, 1e-12, mech, scale=sc, T=T, P=P, typing=_typing_tag(ty))


def _observe_species(ctx, sm, objs, cur, spec, misc_objs=None, relations=True):
    import numpy as np
    o = spec['opts']
    kw = {'raise_error': o['raise_error'], 'raise_warning': o['raise_warning'],
          'use_references': o['use_references']}
    vibc = _cls_of(cur['vib'])
    has_trans = cur['trans'] is not None
    mech0 = _hist_mech({'class': 'StatMech', 'vib': vibc if cur['vib'] else 'none'})
    tr = cur['trans']['n_degrees'] if has_trans else 'none'
    if cur['elec'] and cur['elec']['type'] == 'LSR':
        mech0['elec'] = 'LSR'
    if relations:
        get = lambda q, T, P: _num(getattr(sm, 'get_' + q)(T=T, P=P, **kw))
        relational(ctx, get, mech0, spec['conds'], spec['interval'], spec['Ppair'], has_trans, r5=False, tr=tr,
                   debye_theta=cur['vib']['debye_temperature'] if vibc == 'DebyeVib' else None)
        kw_off = dict(kw, use_references=False)
        for T, P in spec['conds']:
            h = ctx.call('R5', dict(mech0, q='HoRT', trans=tr), sm.get_HoRT, T=T, P=P, **kw_off)
            u = ctx.call('R5', dict(mech0, q='UoRT', trans=tr), sm.get_UoRT, T=T, P=P, **kw_off)
            if h is not core.NOVALUE and u is not core.NOVALUE:
                ctx.close('R5', _num(h) - _num(u), 1.0 if has_trans else 0.0, TOL_REL,
                          dict(mech0, rel='H-U', trans=tr),
                          scale=max(1.0, 1e-6 * abs(_num(u))), T=T, P=P)
    # ---- R6 additivity -------------------------------------------------
    nm = len(misc_objs or [])
    quants = list(QUANTS) + ([] if vibc == 'QRRHOVib' else ['q'])
    if vibc == 'QRRHOVib':
        ctx.extra['q_skipped_QRRHO'] = ctx.extra.get('q_skipped_QRRHO', 0) + 1
    for T, P in spec['conds'][:2]:
        for q in quants:
            kwq = dict(kw)
            if q == 'q':
                kwq['include_ZPE'] = o['include_ZPE']
            fn = getattr(sm, 'get_' + q)
            m6 = dict(mech0, q=q)
            tot = ctx.call('R6', dict(m6, part='total'), fn, T=T, P=P, **kwq)
            vec = ctx.call('R6', dict(m6, part='verbose'), fn, T=T, P=P, verbose=True, **kwq)
            if tot is core.NOVALUE or vec is core.NOVALUE:
                continue
            tot = _num(tot)
            vec = np.asarray(vec, dtype=float).reshape(-1)
            if not ctx.check('R6', vec.size >= 6 + nm, dict(m6, part='length'), size=int(vec.size), misc=nm):
                continue
            red = float(np.prod(vec)) if q == 'q' else float(np.sum(vec))

            def cmp(part, got, want, tol=TOL_ADD):
                if q == 'q':
                    if not (1e-280 < abs(want) < 1e280):
                        ctx.cls('q:under/overflow')
                        return
                    ok_ = ctx.close('R6', got, want, max(tol, 1e-11), dict(m6, part=part), scale=abs(want), T=T, P=P)
                    e_ = ctx.err(got, want, abs(want))
                else:
                    ok_ = ctx.close('R6', got, want, tol, dict(m6, part=part), T=T, P=P)
                    e_ = ctx.err(got, want)
                if ok_ and tol == TOL_ADD:      # audit trail for the exact-additivity comparisons
                    ctx.max_err['R6.exact'] = max(ctx.max_err.get('R6.exact', 0.0), e_)
            cmp('sum', red, tot)
            for i, slot in enumerate(SLOTS):
                r = ctx.call('R6', dict(m6, part=slot), mcall, objs[slot], 'get_' + q, T=T, P=P,
                             include_ZPE=o['include_ZPE'])
                if r is not core.NOVALUE:
                    cmp(slot, float(vec[i]), _num(r))
            cmp('refs', float(vec[5]), _ref_entry(spec, q, T, o['use_references']))
            for i in range(nm):
                r = ctx.call('R6', dict(m6, part='misc'), mcall, misc_objs[i], 'get_' + q, T=T, P=P)
                if r is not core.NOVALUE:
                    cmp('misc', float(vec[6 + i]), _num(r))
                    cmp('misc_value', _num(r), ref.constant_mode(spec['misc'][i], T)[q], TOL_CF)
            if vec.size > 6 + nm:        # padding entries must be neutral
                pad = vec[6 + nm:]
                ctx.check('R6', bool(np.all(pad == (1.0 if q == 'q' else 0.0))), dict(m6, part='padding'),
                          pad=pad)
        # electronic energy
        me = dict(mech0, q='EoRT')
        ekw = {'raise_error': o['raise_error'], 'raise_warning': o['raise_warning']}
        e0 = ctx.call('R6', dict(me, include_ZPE=False), sm.get_EoRT, T=T, include_ZPE=False, **ekw)
        ue = ctx.call('R6', dict(me, part='elec'), mcall, objs['elec'], 'get_UoRT', T=T)
        if e0 is not core.NOVALUE and ue is not core.NOVALUE:
            e0, ue = _num(e0), _num(ue)
            ctx.close('R6', e0, ue, TOL_ADD, dict(me, include_ZPE=False), T=T)
            if o['include_ZPE']:
                if cur['vib'] is not None:
                    e1 = ctx.call('R6', dict(me, include_ZPE=True), sm.get_EoRT, T=T, include_ZPE=True, **ekw)
                    z = ctx.call('R6', dict(me, part='ZPE'), objs['vib'].get_ZPE)
                    if e1 is not core.NOVALUE and z is not core.NOVALUE:
                        ctx.close('R6', _num(e1), ue + _num(z) / (ref.KB_EV * T), 1e-9, dict(me, include_ZPE=True),
                                  T=T, ZPE=z)
                elif not o['raise_error']:
                    mz = dict(me, include_ZPE=True, vibslot='empty', raise_warning=o['raise_warning'])
                    e1 = ctx.call('R6', mz, sm.get_EoRT, T=T, include_ZPE=True, **ekw)
                    if e1 is not core.NOVALUE:
                        ctx.close('R6', _num(e1), ue, TOL_ADD, mz, T=T)


def _check_route(ctx, spec, cur, ty, sm, refs):
    """The documented class + flat-kwargs assembly (StatMech(vib_model=vib.HarmonicVib,
    vib_wavenumbers=..., ...), what pmutt.statmech.presets do) must give the species the object
    route gives, for every constructor parameter of every mode: textbook closed forms on the modes
    the species actually holds (R7) and totals equal to the object-route species (R6)."""
    from pmutt.statmech import StatMech, EmptyMode, trans, vib, rot, elec, nucl
    CLS = {'FreeTrans': trans.FreeTrans, 'HarmonicVib': vib.HarmonicVib, 'QRRHOVib': vib.QRRHOVib,
           'EinsteinVib': vib.EinsteinVib, 'DebyeVib': vib.DebyeVib, 'RigidRotor': rot.RigidRotor,
           'GroundStateElec': elec.GroundStateElec, 'EmptyNucl': nucl.EmptyNucl, 'EmptyMode': EmptyMode}
    route = spec['route']
    models, kwargs, by_class = {}, {}, []
    for sl in SLOTS:
        m = cur[sl]
        cname = _cls_of(m)
        if route.get(sl) == 'class' and cname in CLS:
            models[sl] = CLS[cname]
            by_class.append(sl)
            ctx.cls('route:class:' + cname)
            for k, v in (typed_mode(m, ty) or {}).items():
                if k != 'type':
                    kwargs[k] = v
        else:
            m1 = m
            if sl == 'rot' and m and isinstance(m['symmetrynumber'], str):
                m1 = dict(m, symmetrynumber=_sigma_of(m['symmetrynumber']))
            models[sl] = _construct(typed_mode(m1, ty))
    if len(by_class) == len(SLOTS):
        ctx.cls('route:class:all_slots')
    v, r = cur['vib'], cur['rot']
    if 'vib' in by_class and v and 'vib_wavenumbers' in v and v.get('imaginary_substitute') is not None \
            and any(w <= 0 for w in v['vib_wavenumbers']):
        ctx.cls('route:class:imaginary_substitute')
    if 'rot' in by_class and r and isinstance(r['symmetrynumber'], str):
        ctx.cls('route:class:sigma_label')
    if ty and by_class:
        ctx.cls('route:class:typed')
    mech_s = {'class': 'StatMech', 'route': 'class+kwargs'}
    smc = ctx.call('R7', dict(mech_s, step='construct'), StatMech, name=spec['name'],
                   trans_model=models['trans'], vib_model=models['vib'], rot_model=models['rot'],
                   elec_model=models['elec'], nucl_model=models['nucl'], elements=dict(spec['elements']),
                   references=refs, **kwargs)
    if smc is core.NOVALUE:
        return
    o = spec['opts']
    for sl in by_class:
        m = cur[sl]
        obj = getattr(smc, sl + '_model')
        mech = {'class': _cls_of(m), 'route': 'class+kwargs'}
        if not ctx.check('R7', type(obj) is CLS[_cls_of(m)], dict(mech, step='instantiate'),
                         got=type(obj).__name__):
            continue
        closed_forms(ctx, obj, m, spec['conds'][:2] if m else spec['conds'][:1], o['include_ZPE'], mech)
    kw = {'raise_error': o['raise_error'], 'raise_warning': o['raise_warning'],
          'use_references': o['use_references']}
    quants = list(QUANTS) + ([] if _cls_of(cur['vib']) == 'QRRHOVib' else ['q'])
    for T, P in spec['conds'][:2]:
        for q in quants:
            kwq = dict(kw, include_ZPE=o['include_ZPE']) if q == 'q' else kw
            mech = dict(mech_s, q=q)
            a = ctx.call('R6', mech, getattr(smc, 'get_' + q), T=T, P=P, **kwq)
            if a is core.NOVALUE:
                continue
            try:
                b = _num(getattr(sm, 'get_' + q)(T=T, P=P, **kwq))
            except Exception:
                continue                # the object-route species fails itself: reported elsewhere
            sc = abs(b) if (q == 'q' and 1e-280 < abs(b) < 1e280) else None
            ctx.close('R6', _num(a), b, TOL_ADD, mech, scale=sc, T=T, P=P)
        if cur['vib'] is not None:
            mech = dict(mech_s, q='EoRT')
            a = ctx.call('R6', mech, smc.get_EoRT, T=T, include_ZPE=True)
            if a is not core.NOVALUE:
                try:
                    ctx.close('R6', _num(a), _num(sm.get_EoRT(T=T, include_ZPE=True)), TOL_ADD, mech, T=T)
                except core.HarnessError:
                    raise
                except Exception:
                    pass


def run_species(spec, ctx):
    from pmutt.statmech import StatMech, ConstantMode
    _ST['tags'] = {'trans': None, 'vib': None, 'rot': None, 'elec': None, 'last': None}
    _ST['seen'] = set()
    r0 = spec['rot']
    if r0 and isinstance(r0['symmetrynumber'], str) and r0['symmetrynumber'].startswith('@'):
        table, doc = _documented_labels()
        labels = sorted(l for l in set(table) | set(doc) if ref.symmetry_number_of_label(l))
        if not labels:
            raise core.HarnessError('no documented point-group label found in the tree under test')
        spec = dict(spec, rot=dict(r0, symmetrynumber=labels[int(r0['symmetrynumber'][1:]) % len(labels)]))
        ctx.cls('sigma:label_from_runtime_table')
    _tally(ctx, spec)
    cur = {s: (dict(spec[s]) if spec[s] else None) for s in SLOTS}
    ty = spec.get('typing')
    if ty:
        # conditions in the requested type (whole temperatures as int / numpy int64)
        spec = dict(spec, conds=[[_cast_scalar(T, ty.get('T')) if ty.get('T') in INT_KINDS else T, P]
                                 for T, P in spec['conds']])
    objs = {}
    for s in SLOTS:
        builder = {'rot': lambda m: build_rot(ctx, m)}.get(s, _construct)
        mech_c = {'class': _cls_of(cur[s]), 'step': 'construct'}
        if ty and cur[s] is not None:
            mech_c['typing'] = _typing_family(ty)
        objs[s] = ctx.call('R7', mech_c, builder, typed_mode(cur[s], ty))
        if objs[s] is core.NOVALUE:
            return
    refs = None
    if spec['refs']:
        from pmutt.empirical.references import References
        refs = ctx.call('R6', {'class': 'References', 'step': 'construct'}, References,
                        offset=dict(spec['refs']['offset']), T_ref=spec['refs']['T_ref'])
        if refs is core.NOVALUE:
            return

    def make(misc):
        return ctx.call('R6', {'class': 'StatMech', 'step': 'construct'}, StatMech, name=spec['name'],
                        trans_model=objs['trans'], vib_model=objs['vib'], rot_model=objs['rot'],
                        elec_model=objs['elec'], nucl_model=objs['nucl'], elements=dict(spec['elements']),
                        references=refs, misc_models=misc)
    sm = make(None)
    if sm is core.NOVALUE:
        return
    # twins: objects of the same initial spec that no operation touches
    twins = {}
    touched = []
    for op, _v in spec['hist']:
        if op not in HIST_OPS:
            raise core.HarnessError('unknown op %r' % op)
        if HIST_OPS[op][0] not in touched:
            touched.append(HIST_OPS[op][0])
    for slot in touched:
        m0 = spec[slot]
        if slot == 'rot' and isinstance(m0['symmetrynumber'], str):
            m0 = dict(m0, symmetrynumber=_sigma_of(m0['symmetrynumber']))
        twins[slot] = _construct(typed_mode(m0, ty))
    # first evaluation of everything (caches / memos that exist get filled here)
    for s in SLOTS:
        _observe_mode(ctx, objs[s], cur[s], spec)
    _observe_species(ctx, sm, objs, cur, spec)
    if spec.get('route'):
        _check_route(ctx, spec, cur, ty, sm, refs)
    if spec['misc']:
        misc_objs = [ConstantMode(**m) for m in spec['misc']]
        smm = make(list(misc_objs))
        if smm is not core.NOVALUE:
            _observe_species(ctx, smm, objs, cur, spec, misc_objs=misc_objs, relations=False)
            # attaching misc models to one species must not change the other
            _observe_species(ctx, sm, objs, cur, dict(spec, conds=spec['conds'][:1]), relations=False)
    # ---- re-assignment histories: any public parameter of any mode --------------
    for k, (op, val) in enumerate(spec['hist']):
        slot, attr, classes = HIST_OPS[op]
        cname = _cls_of(cur[slot])
        if cname not in classes:
            raise core.HarnessError('%s does not apply to %s' % (op, cname))
        ctx.cls('hist:' + op)
        if op in ('set_wavenumbers', 'set_imaginary_substitute', 'set_interaction_energy'):
            ctx.cls('hist:%s:%s' % (op, cname))
        _ST['tags'][slot] = op
        _ST['tags']['last'] = op
        _ST['seen'] = set()
        mech_a = _hist_mech({'class': cname, 'step': 'assign'})
        if op == 'set_geometry':
            # the number of rotational temperatures belongs to the geometry: assign both, observe after
            steps = [('rot_temperatures', _cast_attr('rot_temperatures', val['rot_temperatures'], ty)),
                     ('geometry', val['geometry'])]
            cur[slot]['rot_temperatures'] = list(val['rot_temperatures'])
            cur[slot]['geometry'] = val['geometry']
        else:
            steps = [(attr, _cast_attr(attr, val, ty))]
            cur[slot][attr] = list(val) if isinstance(val, list) else val
        if ty and ty['scalar'] in INT_KINDS and cname in ('HarmonicVib', 'QRRHOVib'):
            w, sub = cur[slot]['vib_wavenumbers'], cur[slot].get('imaginary_substitute')
            if (all(float(x).is_integer() for x in w) and any(x <= 0 for x in w) and sub is not None
                    and not float(sub).is_integer()):
                if op == 'set_imaginary_substitute':
                    ctx.cls('hist:set_imaginary_substitute:int_wavenumbers+fractional')
                elif op == 'set_wavenumbers':
                    ctx.cls('hist:set_wavenumbers:int+fractional_substitute')
        for a, v in steps:
            r = ctx.call('R7', mech_a, setattr, objs[slot], a, v)
            if r is core.NOVALUE:
                return
        # closed forms + totals after every operation; the (costly) integral forms after the last one
        last = k == len(spec['hist']) - 1
        _observe_mode(ctx, objs[slot], cur[slot], spec, full=last)
        _observe_species(ctx, sm, objs, cur, spec, relations=last)
    for slot in touched:
        if spec[slot] is not None and spec[slot]['type'] != 'LSR':
            closed_forms(ctx, twins[slot], spec[slot], spec['conds'][:1], spec['opts']['include_ZPE'],
                         {'class': _cls_of(spec[slot]), 'hist': 'twin_untouched'})


# ====================================================================== geometry cases (R8)
def _rotation(euler):
    import numpy as np
    a, b, c = euler
    rz = lambda t: np.array([[math.cos(t), -math.sin(t), 0.0], [math.sin(t), math.cos(t), 0.0], [0.0, 0.0, 1.0]])
    ry = lambda t: np.array([[math.cos(t), 0.0, math.sin(t)], [0.0, 1.0, 0.0], [-math.sin(t), 0.0, math.cos(t)]])
    return rz(a) @ ry(b) @ rz(c)


def _max_noncollinearity(pos):
    """largest deviation (degrees) of any i-j-k angle, over all triples and all three vertex
    choices, from the nearer of 0 and 180 degrees; 0 for fewer than three atoms"""
    import itertools
    import numpy as np
    worst = 0.0
    for i, j, k in itertools.combinations(range(len(pos)), 3):
        for a, b, c in ((i, j, k), (j, i, k), (i, k, j)):
            u, v = pos[a] - pos[b], pos[c] - pos[b]
            cs = float(np.dot(u, v) / (np.linalg.norm(u) * np.linalg.norm(v)))
            ang = math.degrees(math.acos(max(-1.0, min(1.0, cs))))
            worst = max(worst, min(ang, 180.0 - ang))
    return worst


def _rot_temperatures_ref(atoms, gclass):
    """theta = hbar^2 / (2 I kB) from the principal moments about the centre of mass"""
    import numpy as np
    AMU = 1.660539040e-27
    m = atoms.get_masses()
    r = atoms.get_positions()
    r = r - np.sum(m[:, None] * r, axis=0) / np.sum(m)
    I = np.zeros((3, 3))
    for mi, ri in zip(m, r):
        I += mi * (np.dot(ri, ri) * np.eye(3) - np.outer(ri, ri))
    ev = np.linalg.eigvalsh(I) * AMU * 1e-20
    hbar = ref.H / (2.0 * math.pi)
    if gclass == 'linear':
        return [hbar ** 2 / (2.0 * ev[-1] * ref.KB)]
    return sorted(hbar ** 2 / (2.0 * e * ref.KB) for e in ev)


def _sanity(ctx, got, want, tol, mech, scale, mol):
    """coarse reference comparison of R8; its error is audited under max_err['R8.sanity'] so that
    max_err['R8'] shows the invariance comparisons only"""
    e = ctx.err(got, want, scale)
    if ctx.check('R8', e <= tol, mech, got=got, want=want, err=e, tol=tol, mol=mol):
        ctx.max_err['R8.sanity'] = max(ctx.max_err.get('R8.sanity', 0.0), e)


def run_geometry(spec, ctx):
    import numpy as np
    from ase.collections import g2
    from pmutt import get_molecular_weight
    from pmutt.statmech import StatMech, presets, rot, trans
    a0 = g2[spec['mol']]
    n = len(a0)
    if sorted(spec['perm']) != list(range(n)):
        raise core.HarnessError('permutation does not fit molecule')
    a1 = a0.copy()
    a1.set_positions(a0.get_positions() @ _rotation(spec['euler']).T + np.array(spec['shift']))
    a1 = a1[list(spec['perm'])]
    ctx.nontrivial(n >= 3)
    T, P = spec['T'], spec['P']
    out = []
    for tag, a in (('original', a0), ('moved', a1)):
        d = {}
        m0 = {'mol_class': 'n=1' if n == 1 else 'n=2' if n == 2 else 'n>=3', 'atoms': tag}
        d['geometry'] = ctx.call('R8', dict(m0, what='geometry'), rot.get_geometry_from_atoms, a)
        d['rot_T'] = ctx.call('R8', dict(m0, what='rot_temperatures'), rot.get_rot_temperatures_from_atoms, a)
        ft = ctx.call('R8', dict(m0, what='molar_mass'), trans.FreeTrans, atoms=a)
        d['mass'] = ft.molecular_weight if ft is not core.NOVALUE else ft
        d['mass2'] = ctx.call('R8', dict(m0, what='molar_mass_formula'), get_molecular_weight,
                              a.get_chemical_formula(mode='hill'))
        rr = ctx.call('R8', dict(m0, what='rotor'), rot.RigidRotor, symmetrynumber=spec['symmetrynumber'], atoms=a)
        d['rotor'] = rr
        sm = ctx.call('R8', dict(m0, what='species'), StatMech, name=spec['mol'], atoms=a,
                      symmetrynumber=spec['symmetrynumber'], vib_wavenumbers=list(spec['vib_wavenumbers']),
                      potentialenergy=spec['potentialenergy'], spin=spec['spin'], **presets['idealgas'])
        d['species'] = sm
        if sm is not core.NOVALUE:
            d['elements'] = sm.elements
            for q in ('SoR', 'HoRT', 'GoRT', 'CpoR'):
                d['sm_' + q] = ctx.call('R8', dict(m0, what='species_' + q), getattr(sm, 'get_' + q), T=T, P=P)
        out.append(d)
    d0, d1 = out
    ok = lambda k: d0.get(k, core.NOVALUE) is not core.NOVALUE and d1.get(k, core.NOVALUE) is not core.NOVALUE
    gclass = d0['geometry'] if d0['geometry'] is not core.NOVALUE else 'unknown'
    ctx.cls('geom:%s' % gclass)
    mech = {'geom': gclass}
    if ok('geometry'):
        ctx.check('R8', d0['geometry'] == d1['geometry'], dict(mech, what='geometry'),
                  original=d0['geometry'], moved=d1['geometry'], mol=spec['mol'])
        expect = 'monatomic' if n == 1 else 'linear' if n == 2 else None
        if expect:
            ctx.check('R8', d0['geometry'] == expect, dict(mech, what='geometry_by_atom_count'), got=d0['geometry'])
    # independent classification of the original geometry (only where unambiguous) and
    # independent rotational temperatures from the inertia tensor (generous tolerance: pMuTT's
    # amu literal has four digits)
    dev = _max_noncollinearity(a0.get_positions())
    if d0['geometry'] is not core.NOVALUE and n >= 3:
        if dev > 10.0:
            ctx.check('R8', d0['geometry'] == 'nonlinear', dict(mech, what='geometry_vs_angles'), got=d0['geometry'],
                      max_deviation_deg=dev, mol=spec['mol'])
        elif dev < 1.0:
            ctx.check('R8', d0['geometry'] == 'linear', dict(mech, what='geometry_vs_angles'), got=d0['geometry'],
                      max_deviation_deg=dev, mol=spec['mol'])
    if d0['rot_T'] is not core.NOVALUE and gclass in ('linear', 'nonlinear'):
        want = _rot_temperatures_ref(a0, gclass)
        got = sorted(float(x) for x in d0['rot_T'])
        if len(want) == len(got):
            _sanity(ctx, got, want, 3e-3, dict(mech, what='rot_temperatures_vs_inertia'),
                    np.maximum(np.abs(want), 1e-300), spec['mol'])
    if d0['mass'] is not core.NOVALUE:
        m_ase = float(np.sum(a0.get_masses()))
        _sanity(ctx, d0['mass'], m_ase, 5e-2, dict(mech, what='molar_mass_vs_atomic_masses'), m_ase, spec['mol'])
    if ok('rot_T'):
        r0, r1 = sorted(float(x) for x in d0['rot_T']), sorted(float(x) for x in d1['rot_T'])
        if ctx.check('R8', len(r0) == len(r1), dict(mech, what='rot_temperatures_count'), original=r0, moved=r1,
                     mol=spec['mol']):
            ctx.close('R8', r1, r0, TOL_GEO, dict(mech, what='rot_temperatures'), mol=spec['mol'])
        if gclass in ('monatomic', 'linear', 'nonlinear'):
            ctx.check('R8', len(r0) == {'monatomic': 1, 'linear': 1, 'nonlinear': 3}[gclass],
                      dict(mech, what='rot_temperatures_vs_geometry'), rot_T=r0, mol=spec['mol'])
    for k in ('mass', 'mass2'):
        if ok(k):
            ctx.close('R8', d1[k], d0[k], 1e-12, dict(mech, what='molar_mass'), mol=spec['mol'])
    if ok('mass') and ok('mass2'):
        ctx.close('R8', d0['mass'], d0['mass2'], 1e-12, dict(mech, what='molar_mass_two_routes'), mol=spec['mol'])
    if ok('elements'):
        ctx.check('R8', dict(d0['elements']) == dict(d1['elements']), dict(mech, what='composition'),
                  original=d0['elements'], moved=d1['elements'])
        counts = {}
        for s in a0.get_chemical_symbols():
            counts[s] = counts.get(s, 0) + 1
        ctx.check('R8', dict(d0['elements']) == counts, dict(mech, what='composition_vs_atoms'),
                  got=d0['elements'], want=counts)
    if ok('rotor'):
        ctx.check('R8', d0['rotor'].geometry == d1['rotor'].geometry, dict(mech, what='rotor_geometry'))
        s0 = ctx.call('R8', dict(mech, what='rotor_SoR'), d0['rotor'].get_SoR, T=T)
        s1 = ctx.call('R8', dict(mech, what='rotor_SoR'), d1['rotor'].get_SoR, T=T)
        if s0 is not core.NOVALUE and s1 is not core.NOVALUE:
            ctx.close('R8', s1, s0, TOL_GEO, dict(mech, what='rotor_SoR'), mol=spec['mol'])
    for q in ('SoR', 'HoRT', 'GoRT', 'CpoR'):
        if ok('sm_' + q):
            ctx.close('R8', d1['sm_' + q], d0['sm_' + q], TOL_GEO, dict(mech, what='species_' + q), mol=spec['mol'])


# ====================================================================== point-group labels (R9)
def run_pointgroups(spec, ctx):
    from pmutt.statmech import rot
    T = spec['T']
    doc = {}
    if spec['labels'] == '@documented':
        # "any documented point-group label": the set is whatever the tree under test documents
        table, doc = _documented_labels()
        labels = sorted(set(table) | set(doc))
        if table:
            ctx.cls('pointgroups:runtime_table')
        if doc:
            ctx.cls('pointgroups:docstring_table')
        ctx.extra['documented_point_group_labels'] = len(labels)
    else:
        labels = list(spec['labels'])
        if sorted(labels) == LABELS:
            ctx.cls('pointgroups:exhaustive')
    for label in labels:
        number = _sigma_of(label)
        if number is None:
            # a label the rule-based reference does not understand: undecided for this label only
            ctx.inconc('R9', 'label_not_understood', label=label)
            continue
        if label in doc:
            ctx.check('R9', doc[label] == number, {'class': 'RigidRotor', 'label': label, 'where': 'docstring'},
                      documented=doc[label], want=number)
        for geom, thetas in (('linear', spec['rot_temperatures'][:1]), ('nonlinear', spec['rot_temperatures'])):
            mech = {'class': 'RigidRotor', 'label': label}
            a = ctx.call('R9', mech, rot.RigidRotor, symmetrynumber=label, geometry=geom,
                         rot_temperatures=list(thetas))
            b = rot.RigidRotor(symmetrynumber=number, geometry=geom, rot_temperatures=list(thetas))
            if a is core.NOVALUE:
                continue
            if not ctx.check('R9', a.symmetrynumber == number, mech, got=a.symmetrynumber, want=number):
                continue
            for q in ('q', 'SoR', 'GoRT'):
                va = ctx.call('R9', dict(mech, q=q), getattr(a, 'get_' + q), T=T)
                if va is not core.NOVALUE:
                    ctx.close('R9', va, getattr(b, 'get_' + q)(T=T), 1e-14, dict(mech, q=q))
                    ctx.close('R9', va, ref.rigid_rotor(geom, number, thetas, T)[q], TOL_CF, dict(mech, q=q))


def run_case(spec, ctx):
    _ST['ctx'] = ctx
    kind = spec.get('kind')
    if kind == 'species':
        return run_species(spec, ctx)
    if kind == 'geometry':
        return run_geometry(spec, ctx)
    if kind == 'pointgroups':
        return run_pointgroups(spec, ctx)
    raise core.HarnessError('unknown case kind %r' % kind)
